(* Correspondence cases for the status flags and `_reset` (agent Acmd; C14).
   A case: a fresh `System` whose AZ and EL were prepared through the classes' own setters
   (status flags, axis state), one frame fed byte by byte to the real System.parse, and the
   snapshots of both axes before and after.  [rok] parses the frame with the framing model,
   applies the started commands to the extended axis model and compares every field. *)
From DS Require Import Base.Prelude Base.Bits Gen.AcmdTables Model.AcmdFrame.
From DS Require Import Model.AcmdAxis Model.AcmdReset Corr.AcmdCorr.

(* snapshot = the 24 fields of AcmdCorr.obs_axis ++ [gen; warn; err] ++ aux *)
Definition axis_of_obs (l : list Z) : option (axis * list Z) :=
  match l with
  | st :: tr :: ps :: pi :: vs :: vi :: off :: br :: stw :: spo :: pin :: pout :: pex :: cm :: pt
    :: rc :: rm :: ra :: ec :: em :: ea :: pc :: pid :: pa :: rest =>
      Some (mkAx (mkMo st tr ps pi vs vi off br (negb (stw =? 0)) (negb (spo =? 0)) pin pout
                       (negb (pex =? 0)) (if cm =? -1 then None else Some cm) (negb (pt =? 0)))
                 rc rm ra ec em ea pc pid pa, rest)
  | _ => None
  end.

Definition xaxis_of_obs (l : list Z) : option xaxis :=
  match axis_of_obs l with
  | Some (ax, g :: w :: e :: aux) => Some (mkXa ax g w e aux)
  | _ => None
  end.

Definition obs_xaxis (x : xaxis) : list Z :=
  obs_axis (xa_ax x) ++ [xa_gen x; xa_warn x; xa_err x] ++ xa_aux x.

Inductive rcase :=
| RCase (az_pre el_pre : list Z) (bs outs : list Z) (threads : list (Z * Z * list Z * Z))
        (az_post el_post : list Z).

(* the dispatches of a byte string fed to the idle parser, and the per-byte outcomes *)
Definition frame_dispatches (bs : list Z) : list Z * list dispatch :=
  let evs := snd (frun f_init bs) in
  (map (fun p : outcome * option (list dispatch) => ocode (fst p)) evs,
   flat_map (fun p : outcome * option (list dispatch) =>
               match snd p with Some ds => ds | None => [] end) evs).

Fixpoint xapply_all (az el : xaxis) (ds : list dispatch)
  : option (xaxis * xaxis * list (Z * Z * list Z * Z)) :=
  match ds with
  | [] => Some (az, el, [])
  | (sub, cid, cmd) :: ds' =>
    match zlookup sub subsystems with
    | Some 0 =>
        let r := xapply cfg_AZ az cid cmd in
        match xapply_all (fst r) el ds' with
        | Some (a, e, ths) => Some (a, e, (sub, cid, cmd, tcode (snd r)) :: ths)
        | None => None
        end
    | Some 1 =>
        let r := xapply cfg_EL el cid cmd in
        match xapply_all az (fst r) ds' with
        | Some (a, e, ths) => Some (a, e, (sub, cid, cmd, tcode (snd r)) :: ths)
        | None => None
        end
    | _ => None            (* the generator addresses the two axes only *)
    end
  end.

Definition rrun (c : rcase) :=
  match c with
  | RCase az_pre el_pre bs outs threads az_post el_post =>
    match xaxis_of_obs az_pre, xaxis_of_obs el_pre with
    | Some az, Some el =>
        let '(os, ds) := frame_dispatches bs in
        match xapply_all az el ds with
        | Some (az', el', ths) => Some (os, ths, obs_xaxis az', obs_xaxis el')
        | None => None
        end
    | _, _ => None
    end
  end.

Definition rok (c : rcase) : bool :=
  match c with
  | RCase az_pre el_pre bs outs threads az_post el_post =>
    match rrun c with
    | Some (os, ths, a, e) =>
        zlist_eqb os outs && list_eqb thread_eqb ths threads
        && zlist_eqb a az_post && zlist_eqb e el_post
        (* the snapshot is read back faithfully *)
        && match xaxis_of_obs az_pre, xaxis_of_obs el_pre with
           | Some az, Some el => zlist_eqb (obs_xaxis az) az_pre && zlist_eqb (obs_xaxis el) el_pre
           | _, _ => false
           end
    | None => false
    end
  end.

Definition rshow (c : rcase) := rrun c.
