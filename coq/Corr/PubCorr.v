(* C08 correspondence: a case is a configuration (publication period, client queue capacity, both
   measured on the implementation) and a schedule executed on the real _update_loop / real
   SendHandler.handle, every step carrying what the implementation was observed to do.  [ok] runs
   the model over the same schedule and compares every observation. *)
From DS Require Import Base.Prelude Model.PubModel.

Inductive pop :=
| OSub (c : cid)                          (* the handler called system.subscribe(its queue)       *)
| OGet (c : cid) (f : option frame)       (* the handler's message_queue.get: frame / Empty       *)
| OUnsub (c : cid)                        (* the handler called system.unsubscribe(its queue)     *)
| OPub (e : event) (st : pstat)           (* one publisher step: queue operation + thread state   *)
| OSnap (l : list (cid * list frame))     (* contents of the clients' queues right now            *)
| OSubsList (l : list cid).               (* the publisher's local `subscribers` right now        *)

Record pcase := Case { c_cfg : cfg; c_ops : list pop }.

Definition oz_eqb := option_eqb Z.eqb.

Definition event_eqb (a b : event) : bool :=
  match a, b with
  | ESubscribed, ESubscribed | EUnsubscribed, EUnsubscribed | ETop, ETop | EIdle, EIdle => true
  | EGot x, EGot y | EUns x, EUns y | ESubs x, ESubs y => oz_eqb x y
  | EClr c x, EClr d y => (c =? d) && oz_eqb x y
  | EPut c x, EPut d y => (c =? d) && (x =? y)
  | EFull c, EFull d => c =? d
  | _, _ => false
  end.

Definition pstat_eqb (a b : pstat) : bool :=
  match a, b with
  | Running, Running | Dead, Dead | Blocked, Blocked => true
  | _, _ => false
  end.

Fixpoint check (cf : cfg) (s : state) (ops : list pop) : bool :=
  match ops with
  | [] => true
  | OSub c :: r =>
    match step_ev cf s (LSub c) with Some (s', _) => check cf s' r | None => false end
  | OGet c f :: r =>
    match step_ev cf s (LGet c) with
    | Some (s', e) => event_eqb e (EGot f) && check cf s' r
    | None => false
    end
  | OUnsub c :: r =>
    match step_ev cf s (LUnsub c) with Some (s', _) => check cf s' r | None => false end
  | OPub e st :: r =>
    let (s', e') := pub_step cf s in
    event_eqb e e' && pstat_eqb st (stat s') && check cf s' r
  | OSnap l :: r =>
    forallb (fun p : cid * list frame => zlist_eqb (mbox s (fst p)) (snd p)) l && check cf s r
  | OSubsList l :: r => zlist_eqb (subs s) l && check cf s r
  end.

Definition ok (c : pcase) : bool := check (c_cfg c) init (c_ops c).

(* diagnostic for a mismatching case: index of the first op the model disagrees with *)
Fixpoint first_bad (cf : cfg) (s : state) (ops : list pop) (i : Z) : Z :=
  match ops with
  | [] => -1
  | o :: r =>
    if check cf s [o] then
      match o with
      | OSub c => match step cf s (LSub c) with Some s' => first_bad cf s' r (i + 1) | None => i end
      | OGet c _ => match step cf s (LGet c) with Some s' => first_bad cf s' r (i + 1) | None => i end
      | OUnsub c => match step cf s (LUnsub c) with Some s' => first_bad cf s' r (i + 1) | None => i end
      | OPub _ _ => first_bad cf (fst (pub_step cf s)) r (i + 1)
      | _ => first_bad cf s r (i + 1)
      end
    else i
  end.

Definition show (c : pcase) : Z := first_bad (c_cfg c) init (c_ops c) 0.
