(* Correspondence cases for command_library.py (part c10_as): one call of an encoder with its
   arguments and the bytes it returned (None = it raised); [ok_enc] runs Model/AslEncoder.v. *)
From DS Require Import Base.Prelude Base.Bits Model.Utils Model.AslLine Model.AslEncoder.

Inductive ecase := ECase (e : ecmd) (idx : option Z) (aor : bool) (out : option (list Z)).

Definition ok_enc (c : ecase) : bool :=
  match c with
  | ECase e idx aor out => option_eqb zlist_eqb (enc e idx aor) out
  end.

Definition show_enc (c : ecase) := match c with ECase e idx aor _ => enc e idx aor end.
