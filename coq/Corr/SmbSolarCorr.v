(* Correspondence cases for solar_attenuator.System: a byte stream fed to a fresh instance, the
   outcomes of parse() that are not `True` (index, outcome), and the final attribute snapshot. *)
From DS Require Import Base.Prelude Model.SmbCommon Model.SmbSolar.

Inductive solar_case :=
| SolarCase (bs : list Z) (obs : list (Z * outcome)) (fmsg fmode : list Z) (fhome : Z).

Definition solar_ok (c : solar_case) : bool :=
  match c with
  | SolarCase bs obs fmsg fmode fhome =>
      let r := solar_run solar_start bs in
      list_eqb obs_eqb (notable (snd r)) obs
      && zlist_eqb (lmsg (fst r)) fmsg
      && zlist_eqb (mode (ldev (fst r))) fmode
      && (home (ldev (fst r)) =? fhome)
  end.

Definition solar_show (c : solar_case) :=
  match c with
  | SolarCase bs _ _ _ _ => let r := solar_run solar_start bs in (notable (snd r), fst r)
  end.

(* C04 suite: additionally push every reply the IMPLEMENTATION produced through the Coq decoder *)
Definition solar_ok_wf (c : solar_case) : bool :=
  solar_ok c &&
  match c with
  | SolarCase _ obs _ _ _ =>
      forallb (fun p => match snd p with OReply r => solar_reply_wfb r | _ => true end) obs
  end.
