(* Correspondence cases for switch_matrix.System (see SmbSolarCorr.v for the shape). *)
From DS Require Import Base.Prelude Model.SmbCommon Model.SmbSwMatrix.

Inductive sw_case :=
| SwCase (bs : list Z) (obs : list (Z * outcome)) (fmsg : list Z) (fidx : Z).

Definition sw_ok (c : sw_case) : bool :=
  match c with
  | SwCase bs obs fmsg fidx =>
      let r := sw_run sw_start bs in
      list_eqb obs_eqb (notable (snd r)) obs
      && zlist_eqb (lmsg (fst r)) fmsg
      && (idx (ldev (fst r)) =? fidx)
  end.

Definition sw_show (c : sw_case) :=
  match c with
  | SwCase bs _ _ _ => let r := sw_run sw_start bs in (notable (snd r), fst r)
  end.

Definition sw_ok_wf (c : sw_case) : bool :=
  sw_ok c &&
  match c with
  | SwCase _ obs _ _ =>
      forallb (fun p => match snd p with OReply r => sw_reply_wfb r | _ => true end) obs
  end.
