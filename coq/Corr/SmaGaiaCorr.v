(* Correspondence cases for gaia: the value randint is patched to return, a byte history on a fresh
   System(), per-byte outcomes, final self.msg, VD, VG, conf, cmd_id. *)
From DS Require Import Base.Prelude Model.SmaCommon Model.SmaGaia.

Record gaia_case := {
  gc_temp : Z;
  gc_bytes : list Z;
  gc_outs : list outcome;
  gc_msg : list Z;
  gc_vd : list Z;
  gc_vg : list Z;
  gc_conf : Z;
  gc_id : list Z
}.

Definition ok (c : gaia_case) : bool :=
  let (s, outs) := gaia_run (gc_temp c) gaia_init (gc_bytes c) in
  list_eqb outcome_eqb outs (gc_outs c)
  && zlist_eqb (buf s) (gc_msg c)
  && zlist_eqb (vd (dev s)) (gc_vd c) && zlist_eqb (vg (dev s)) (gc_vg c)
  && (conf (dev s) =? gc_conf c) && zlist_eqb (cmd_id (dev s)) (gc_id c).

Definition show (c : gaia_case) := gaia_run (gc_temp c) gaia_init (gc_bytes c).
