(* Correspondence cases for the minor-servo PLC (tag Msv): a case is a history on one System
   instance — per operation the clock/oracle environment, a chunk of bytes and the replies the
   implementation gave — together with the oracle graphs (float(), int(), '.6f') computed by the
   Python builtins for the tokens/values of the case and the final attribute snapshot.
   [ok] runs the binary64 model and compares everything. *)
From DS Require Import Base.Prelude Model.MsvTypes Model.MsvModel Model.MsvFloat Gen.MsvTables.

Inductive mop := MOp (tick now : Z) (draws spl : list Z) (ptok : bool) (bytes : list Z)
                     (obs : list (Z * list Z))    (* (index of the byte, reply) ; reply [-1] = exception *)
| MRefresh (tick now : Z) (spls : list (list Z)) (exc : bool).   (* exc: System._update raised *)
Inductive msv := MSv (mode future : Z) (coords cmd offs : list Z) (last : Z) (timer : option (Z * Z))
                     (alias : bool)
                     (tid : option Z) (tstart : option Z) (tpid : option Z) (times : list Z) (pt : bool).
Inductive msnap := MSnap (msg : list Z) (conf gcap : Z) (cover : option (Z * Z)) (last : option Z)
                         (servos : list msv).
Inductive mcase := MCase (timer_ticks : Z) (floats ints : list (list Z * option Z))
                         (fmt : list (Z * list Z)) (ops : list mop) (final : msnap).

Fixpoint fmt_lookup (x : F) (l : list (Z * list Z)) : list Z :=
  match l with
  | [] => [63]                               (* '?': never part of a reply, forces a mismatch *)
  | (b, t) :: r => if f_same x (f_of_bits b) then t else fmt_lookup x r
  end.

Definition mk_orc (floats ints : list (list Z * option Z)) (fmt : list (Z * list Z)) : oracles F :=
  Build_oracles F
    (fun tok => match assoc tok floats with Some (Some b) => Some (f_of_bits b) | _ => None end)
    (fun tok => match assoc tok ints with Some r => r | None => None end)
    (fun x => fmt_lookup x fmt).

(* the servo a byte completing a `STATUS=<servo>` line queries *)
Definition status_target (cf : cfg F) (s : sys F) (b : Z) : option (sconf F * servo F) :=
  let m := s_msg s ++ [b] in
  if ends_crlf m then
    match tokens m with
    | [c; sid] =>
        match assoc c (c_commands cf) with
        | Some h => if zlist_eqb h [95; 115; 116; 97; 116; 117; 115]
                    then match find_servo sid 0 (c_servos cf) with
                         | Some (i, sc) => option_map (fun sv => (sc, sv)) (nth_error (s_servos s) i)
                         | None => None
                         end
                    else None
        | None => None
        end
    | _ => None
    end
  else None.

Definition nonempty {A} (l : list A) : bool := match l with [] => false | _ => true end.

(* returns the world, the non-True outcomes, and whether the recorded splev calls agree with the
   model's decision to call splev (harness contract: the spline values are oracle inputs) *)
Fixpoint feed (cf : cfg F) (orc : oracles F) (w : world F) (i : Z) (bs : list Z)
  : world F * list (Z * list Z) * bool :=
  match bs with
  | [] => (w, [], true)
  | b :: r =>
      let agree := match status_target cf (snd w) b with
                   | Some (sc, sv) => Bool.eqb (gs_tracks fops (fst w) sv) (nonempty (e_spl (fst w)))
                   | None => negb (nonempty (e_spl (fst w))) || negb (ends_crlf (s_msg (snd w) ++ [b]))
                   end in
      let '(w1, o) := step fops orc cf w (EvByte b) in
      let '(w2, os, ag) := feed cf orc w1 (i + 1) r in
      match o with
      | OTrue => (w2, os, agree && ag)
      | OReply t => (w2, (i, t) :: os, agree && ag)
      | OExc => (w2, (i, [-1]) :: os, agree && ag)
      end
  end.

(* refresh: servo by servo, the recorded splev calls agree with the model (up to the first raise) *)
Fixpoint refresh_agree (e : env F) (svs : list (servo F)) (spls : list (list F)) : bool :=
  match svs with
  | [] => true
  | sv :: r =>
      let e' := mk_env (e_tick e) (e_now e) [] (hd [] spls) false in
      Bool.eqb (gs_tracks fops e' sv) (nonempty (hd [] spls)) &&
      (gs_raises sv || refresh_agree e r (tl spls))
  end.

Definition obs_eqb (a b : list (Z * list Z)) : bool :=
  list_eqb (fun x y => Z.eqb (fst x) (fst y) && zlist_eqb (snd x) (snd y)) a b.

Fixpoint run_ops (cf : cfg F) (orc : oracles F) (w : world F) (ops : list mop) : world F * bool :=
  match ops with
  | [] => (w, true)
  | MOp tick now draws spl ptok bytes obs :: r =>
      let e := mk_env tick (f_of_bits now) (map f_of_bits draws) (map f_of_bits spl) ptok in
      let '(w1, _) := step fops orc cf w (EvEnv e) in
      let '(w2, os, ag) := feed cf orc w1 0 bytes in
      if obs_eqb os obs && ag then run_ops cf orc w2 r else (w2, false)
  | MRefresh tick now spls exc :: r =>
      let e := mk_env tick (f_of_bits now) [] [] false in
      let '(w1, _) := step fops orc cf w (EvEnv e) in
      let fspls := map (map f_of_bits) spls in
      let ag := refresh_agree e (s_servos (snd w1)) fspls in
      let '(w2, _) := step fops orc cf w1 (EvRefresh fspls) in
      if ag && Bool.eqb (snd (refresh fops cf e fspls (snd w1))) exc then run_ops cf orc w2 r
      else (w2, false)
  end.

Fixpoint list_eqb2 {A B} (eqb : A -> B -> bool) (l1 : list A) (l2 : list B) : bool :=
  match l1, l2 with
  | [], [] => true
  | x :: xs, y :: ys => eqb x y && list_eqb2 eqb xs ys
  | _, _ => false
  end.

Definition flist_same (a : list F) (b : list Z) : bool :=
  list_eqb f_same a (map f_of_bits b).
Definition timer_eqb (a b : option (Z * Z)) : bool :=
  option_eqb (fun x y => Z.eqb (fst x) (fst y) && Z.eqb (snd x) (snd y)) a b.

Definition sv_same (sv : servo F) (m : msv) : bool :=
  match m with
  | MSv mode future coords cmd offs last timer alias tid tstart tpid times pt =>
      option_eqb Z.eqb (tk_id (sv_trk sv)) tid && option_eqb f_same (tk_start (sv_trk sv)) (option_map f_of_bits tstart)
      && option_eqb Z.eqb (tk_pid (sv_trk sv)) tpid && flist_same (tk_times (sv_trk sv)) times
      && Bool.eqb (tk_pt (sv_trk sv)) pt
      && (sv_mode sv =? mode) && (sv_future sv =? future) && flist_same (sv_coords sv) coords
      && flist_same (sv_cmd sv) cmd && flist_same (sv_offs sv) offs && f_same (sv_last sv) (f_of_bits last)
      && timer_eqb (sv_timer sv) timer && Bool.eqb (sv_alias sv) alias
  end.

Definition snap_same (s : sys F) (m : msnap) : bool :=
  match m with
  | MSnap msg conf gcap cover last servos =>
      zlist_eqb (s_msg s) msg && (s_conf s =? conf) && (s_gcap s =? gcap) && timer_eqb (s_cover s) cover
      && option_eqb f_same (s_last s) (option_map f_of_bits last)
      && list_eqb2 sv_same (s_servos s) servos
  end.

Definition env0 : env F := mk_env 0 f_zero [] [] false.

Definition ok (c : mcase) : bool :=
  match c with
  | MCase tk floats ints fmt ops final =>
      let cf := fcfg tk in
      let orc := mk_orc floats ints fmt in
      let '(w, good) := run_ops cf orc (env0, init_sys fops cf) ops in
      good && snap_same (snd w) final
  end.

(* what the model produced, for the replay file of a mismatching case *)
Fixpoint run_show (cf : cfg F) (orc : oracles F) (w : world F) (ops : list mop)
  : list (list (Z * list Z)) :=
  match ops with
  | [] => []
  | MOp tick now draws spl ptok bytes obs :: r =>
      let e := mk_env tick (f_of_bits now) (map f_of_bits draws) (map f_of_bits spl) ptok in
      let '(w1, _) := step fops orc cf w (EvEnv e) in
      let '(w2, os, ag) := feed cf orc w1 0 bytes in
      (if ag then os else (-2, []) :: os) :: run_show cf orc w2 r
  | MRefresh tick now spls exc :: r =>
      let e := mk_env tick (f_of_bits now) [] [] false in
      let '(w1, _) := step fops orc cf w (EvEnv e) in
      let '(w2, _) := step fops orc cf w1 (EvRefresh (map (map f_of_bits) spls)) in
      [] :: run_show cf orc w2 r
  end.
Definition show (c : mcase) :=
  match c with
  | MCase tk floats ints fmt ops final =>
      run_show (fcfg tk) (mk_orc floats ints fmt) (env0, init_sys fops (fcfg tk)) ops
  end.
