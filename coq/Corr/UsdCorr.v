(* Correspondence cases for active_surface/usd.py + the unicast handlers: a case is the unit's
   index, the initial virtual clock, a history of events and, per event, the implementation's
   observed outcome and full attribute snapshot.  [ok] folds the model (Model/UsdModel.v),
   [ok_spec] the protocol specification (Spec/UsdSpec.v), and compares every observation. *)
From DS Require Import Base.Prelude Base.Bits Model.Utils Model.UsdModel Spec.UsdSpec.

Definition outcome_eqb (a b : outcome) : bool :=
  match a, b with
  | OReply x, OReply y => zlist_eqb x y
  | OValueError, OValueError | OException, OException | OBlock, OBlock | OSilent, OSilent => true
  | _, _ => false
  end.

Definition obs := (option outcome * usd)%type.
Definition usd_case := (Z * Z * list event * list obs)%type.

Section Check.
  Variable stepf : sim -> event -> sim * option outcome.
  Fixpoint check (s : sim) (h : list event) (os : list obs) : bool :=
    match h, os with
    | [], [] => true
    | e :: h', (o, snap) :: os' =>
        let '(s1, o1) := stepf s e in
        option_eqb outcome_eqb o1 o && usd_eqb (fst s1) snap && check s1 h' os'
    | _, _ => false
    end.
  (* index of the first differing event and what the model produced there *)
  Fixpoint first_diff (i : nat) (s : sim) (h : list event) (os : list obs)
    : option (nat * option outcome * usd) :=
    match h, os with
    | e :: h', (o, snap) :: os' =>
        let '(s1, o1) := stepf s e in
        if option_eqb outcome_eqb o1 o && usd_eqb (fst s1) snap then first_diff (S i) s1 h' os'
        else Some (i, o1, fst s1)
    | _, _ => None
    end.
End Check.

Definition ok (c : usd_case) : bool :=
  let '(idx, clk, h, os) := c in check step (usd_init idx, clk) h os.
Definition ok_spec (c : usd_case) : bool :=
  let '(idx, clk, h, os) := c in check spec_step (usd_init idx, clk) h os.
Definition show (c : usd_case) :=
  let '(idx, clk, h, os) := c in first_diff step 0 (usd_init idx, clk) h os.
Definition show_spec (c : usd_case) :=
  let '(idx, clk, h, os) := c in first_diff spec_step 0 (usd_init idx, clk) h os.

(* lines of several units: per event the reply and the snapshots of ALL units *)
Definition lobs := (option outcome * list usd)%type.
Definition line_case := (list Z * Z * list levent * list lobs)%type.

Section LCheck.
  Variable stepf : lstate -> levent -> lstate * option outcome.
  Fixpoint lcheck (s : lstate) (h : list levent) (os : list lobs) : bool :=
    match h, os with
    | [], [] => true
    | e :: h', (o, snaps) :: os' =>
        let '(s1, o1) := stepf s e in
        option_eqb outcome_eqb o1 o && list_eqb usd_eqb (fst s1) snaps && lcheck s1 h' os'
    | _, _ => false
    end.
  Fixpoint lfirst_diff (i : nat) (s : lstate) (h : list levent) (os : list lobs)
    : option (nat * option outcome * list usd) :=
    match h, os with
    | e :: h', (o, snaps) :: os' =>
        let '(s1, o1) := stepf s e in
        if option_eqb outcome_eqb o1 o && list_eqb usd_eqb (fst s1) snaps
        then lfirst_diff (S i) s1 h' os' else Some (i, o1, fst s1)
    | _, _ => None
    end.
End LCheck.

Definition lok (c : line_case) : bool :=
  let '(idxs, clk, h, os) := c in
  lcheck lstep (map usd_init idxs, clk) h os && lcheck spec_lstep (map usd_init idxs, clk) h os.
Definition lshow (c : line_case) :=
  let '(idxs, clk, h, os) := c in lfirst_diff spec_lstep 0 (map usd_init idxs, clk) h os.
