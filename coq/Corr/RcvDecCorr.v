(* C04 receiver: every reply the implementation produced is pushed through the independent Coq decoder
   Spec/RcvSpec.v: it must decode, every frame must echo master / command / id of the request and carry
   the address of an addressed board, and every element must be a byte. *)
From DS Require Import Base.Prelude Spec.RcvSpec.

Inductive dcase := DC (ma cmd cid : Z) (boards : list Z) (reply : list Z).

Definition dok (c : dcase) : bool :=
  match c with
  | DC ma cmd cid boards reply =>
      bytesb reply &&
      match rx_decode reply with
      | Some (f :: fs) =>
          forallb (fun f => (f_master f =? ma) && (f_cmd f =? cmd) && (f_id f =? cid) &&
                            existsb (Z.eqb (f_slave f)) boards) (f :: fs)
      | _ => false
      end
  end.
