(* Executable model of simulators/lo/generic_LO.py : System.parse(byte), with
   fixes/27-genlo-frequency-readback.diff applied (a frequency whose value in Hz is not finite is
   refused; FREQ? returns int(round(frequency * 1000000))).

   parse: '\n' -> msg, self.msg = ''; return self._parse(msg)   | else buffer, return True
   _parse: for command in msg.split(';'): args = command.split(); no token -> skip;
           cmd_name = commands.get(args[0]); unknown -> skip; ans = method(args[1:]);
           only str answers are collected (the setters return booleans: a write is never
           acknowledged on the wire); return ';'.join(answers) + '\n' if any else True

   Oracle (per case, computed by the harness with the same builtins): for the frequency token,
   float(tok) raising ValueError / the value in Hz not being finite / int(round(float(tok)*1e6))
   together with repr(float(tok)) (used only for the attribute snapshot). int(tok) and str(int)
   are modelled exactly (SmbCommon.py_int, dec). *)
From DS Require Import Base.Prelude Model.SmbCommon.
From Coq Require String.

Module GenLit.
  Import String.
  Local Open Scope string_scope.
  Definition G_POWER : list Z := Eval cbv in str "POWER".
  Definition G_POWERQ : list Z := Eval cbv in str "POWER?".
  Definition G_FREQ : list Z := Eval cbv in str "FREQ".
  Definition G_FREQQ : list Z := Eval cbv in str "FREQ?".
  Definition G_ERRQ : list Z := Eval cbv in str "SYST:ERR?".
  Definition G_DBM : list Z := Eval cbv in str "dBm".
  Definition G_MHZ : list Z := Eval cbv in str "MHZ".
  Definition G_STATUS : list Z := Eval cbv in str "0,""No error""".
  Definition G_ZERO : list Z := Eval cbv in str "0.0".
End GenLit.
Export GenLit.

Inductive fres :=
| FErr                               (* float(tok) raises ValueError *)
| FNonFinite                         (* float(tok) * 1000000 is nan or +-inf *)
| FFin (hz : Z) (repr : list Z)      (* int(round(float(tok) * 1000000)), repr(float(tok)) *)
| FMissing.                          (* token absent from the case's table *)

Record gdev := mkG { power : Z; fhz : Z; frepr : list Z }.
Definition g_init : gdev := mkG 0 0 G_ZERO.

Inductive gcmd := GSetPower | GGetPower | GSetFreq | GGetFreq | GStatus.

Definition g_lookup (name : list Z) : option gcmd :=
  if zlist_eqb name G_POWER then Some GSetPower
  else if zlist_eqb name G_POWERQ then Some GGetPower
  else if zlist_eqb name G_FREQ then Some GSetFreq
  else if zlist_eqb name G_FREQQ then Some GGetFreq
  else if zlist_eqb name G_ERRQ then Some GStatus
  else None.

Section WithOracle.
  Variable fl : list Z -> fres.

  (* setPower(params): the new device state *)
  Definition g_set_power (d : gdev) (params : list (list Z)) : gdev :=
    match params with
    | [p0; p1] =>
        if zlist_eqb p1 G_DBM then
          match py_int p0 with
          | Some v => mkG v (fhz d) (frepr d)
          | None => d
          end
        else d
    | _ => d
    end.

  (* setFrequency(params): None = the oracle lacks the token *)
  Definition g_set_freq (d : gdev) (params : list (list Z)) : option gdev :=
    match params with
    | [p0; p1] =>
        if zlist_eqb p1 G_MHZ then
          match fl p0 with
          | FErr | FNonFinite => Some d
          | FFin hz rp => Some (mkG (power d) hz rp)
          | FMissing => None
          end
        else Some d
    | _ => Some d
    end.

  Fixpoint g_cmds (d : gdev) (items : list (list Z)) (cmds : list (list Z)) : gdev * outcome :=
    match cmds with
    | [] => (d, if nonempty items then OReply (join_semi items ++ [LF]) else OTrue)
    | c :: r =>
        match split_ws c with
        | [] => g_cmds d items r
        | a0 :: params =>
            match g_lookup a0 with
            | None => g_cmds d items r
            | Some GSetPower => g_cmds (g_set_power d params) items r
            | Some GGetPower => g_cmds d (items ++ [dec (power d)]) r
            | Some GSetFreq =>
                match g_set_freq d params with
                | Some d' => g_cmds d' items r
                | None => (d, ONoOracle)
                end
            | Some GGetFreq => g_cmds d (items ++ [dec (fhz d)]) r
            | Some GStatus => g_cmds d (items ++ [G_STATUS]) r
            end
        end
    end.

  Definition g_exec (d : gdev) (msg : list Z) : gdev * outcome :=
    g_cmds d [] (split_on SEMI msg).
End WithOracle.

Definition g_state := @lstate gdev.
Definition g_start : g_state := mkL [] g_init.
Definition g_step fl := lstep (g_exec fl).
Definition g_run fl := lrun (g_exec fl).
Definition g_idle : g_state -> bool := lidle.

(* the oracle of a correspondence case: a table *)
Definition fl_of_table (tab : list (list Z * fres)) (tok : list Z) : fres :=
  match assoc tok tab with Some r => r | None => FMissing end.

(* ---------------------------------------------------------------- specification-side definitions *)
Definition g_queries : list (list Z) := [G_POWERQ; G_FREQQ; G_ERRQ].

(* C04 decoder: ';'-separated items, each an integer literal `-?[0-9]+` or the status string,
   then LF *)
Definition int_literalb (i : list Z) : bool :=
  match i with
  | [] => false
  | x :: xs => if (x =? 45) && nonempty xs then forallb is_digit xs else forallb is_digit i
  end.
Definition g_item_okb (i : list Z) : bool := int_literalb i || zlist_eqb i G_STATUS.
Definition g_reply_wfb (r : list Z) : bool :=
  match rev r with
  | x :: body => (x =? LF) && forallb g_item_okb (split_on SEMI (rev body))
  | [] => false
  end.

(* C05: a clean token: non-empty, no whitespace, no ';' *)
Definition clean_token (tok : list Z) : Prop :=
  tok <> [] /\ forall x, In x tok -> is_space x = false /\ x <> SEMI.
Definition g_write_power (tok : list Z) : list Z := G_POWER ++ [SP] ++ tok ++ [SP] ++ G_DBM.
Definition g_write_freq (tok : list Z) : list Z := G_FREQ ++ [SP] ++ tok ++ [SP] ++ G_MHZ.

Definition g_first_token_is (name : list Z) (c : list Z) : bool :=
  match split_ws c with a0 :: _ => zlist_eqb a0 name | [] => false end.
Definition g_line_mentions (name : list Z) (l : list Z) : bool :=
  existsb (g_first_token_is name) (split_on SEMI l).
