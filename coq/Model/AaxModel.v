(* Aax — executable integer model of the kinematic part of simulators/acu/axis_status.py
   (MasterAxisStatus): _calc_position, one iteration of the _move loop, one iteration of the
   _program_track loop, the immediate part ("prelude") of every mode handler, update_status and
   the two position-offset parameter commands.  Property C15.  No proofs here.

   Units: microdegrees, microdegrees/s (the code's INT32 status fields).  Elapsed time of one
   loop iteration is k/1024 s (k : Z); on that grid abs(rate)*dt is exact in binary64, so the
   code's int(round(abs(rate) * dt)) is [rhe (|rate| * k) 1024] (round half even).

   Threads: every command handler that loops (_move for modes 3/4/5/52, _program_track for 8)
   is a "mover" in the ledger [movers]; its thread-local variables are the mover's fields.  One
   loop iteration is one atomic event [ETick id k]; the part of a handler that precedes the loop
   is part of the atomic event [ECmd] (ASSUMPTION: iteration atomicity).
   The model follows the tree WITH fixes/15a (relative preset is relative to p_Ist) and
   fixes/15b (zero elapsed time in the tracking branch) applied. *)
From DS Require Import Base.Prelude.

(* ---- configuration (constructor arguments, already converted with int(round(x*1e6))) ---- *)
Record cfg := mkCfg {
  lo : Z;              (* int(round(min_pos * 1000000)) *)
  hi : Z;              (* int(round(max_pos * 1000000)) *)
  vmax : Z;            (* int(round(max_velocity * 1000000)) *)
  stows : list Z }.    (* stow positions; [] when stow_pos is None *)

Definition has_stow (c : cfg) : bool := match stows c with [] => false | _ => true end.

(* ---- axis status block fields + the plain attributes the handlers use ---- *)
Record ax := mkAx {
  p : Z;
  v : Z;
  psoll : Z;
  vsoll : Z;
  pbahn : Z;
  poff : Z;
  ast : Z;
  traj : Z;
  stowed : bool;
  brakes : bool;
  cur : option Z;
  ecnt : Z;
  ecmd : Z;
  eans : Z;
  pta : bool;
  nextp : option Z;
  ptst : Z;
  stow_ok : bool;
  pre_dn : bool;
  fin_dn : bool;
  pre_up : bool;
  fin_up : bool;
  rate_lim : bool }.

Definition set_p (x : Z) (s : ax) : ax :=
  mkAx x (v s) (psoll s) (vsoll s) (pbahn s) (poff s) (ast s) (traj s) (stowed s) (brakes s) (cur s) (ecnt s) (ecmd s) (eans s) (pta s) (nextp s) (ptst s) (stow_ok s) (pre_dn s) (fin_dn s) (pre_up s) (fin_up s) (rate_lim s).
Definition set_v (x : Z) (s : ax) : ax :=
  mkAx (p s) x (psoll s) (vsoll s) (pbahn s) (poff s) (ast s) (traj s) (stowed s) (brakes s) (cur s) (ecnt s) (ecmd s) (eans s) (pta s) (nextp s) (ptst s) (stow_ok s) (pre_dn s) (fin_dn s) (pre_up s) (fin_up s) (rate_lim s).
Definition set_psoll (x : Z) (s : ax) : ax :=
  mkAx (p s) (v s) x (vsoll s) (pbahn s) (poff s) (ast s) (traj s) (stowed s) (brakes s) (cur s) (ecnt s) (ecmd s) (eans s) (pta s) (nextp s) (ptst s) (stow_ok s) (pre_dn s) (fin_dn s) (pre_up s) (fin_up s) (rate_lim s).
Definition set_vsoll (x : Z) (s : ax) : ax :=
  mkAx (p s) (v s) (psoll s) x (pbahn s) (poff s) (ast s) (traj s) (stowed s) (brakes s) (cur s) (ecnt s) (ecmd s) (eans s) (pta s) (nextp s) (ptst s) (stow_ok s) (pre_dn s) (fin_dn s) (pre_up s) (fin_up s) (rate_lim s).
Definition set_pbahn (x : Z) (s : ax) : ax :=
  mkAx (p s) (v s) (psoll s) (vsoll s) x (poff s) (ast s) (traj s) (stowed s) (brakes s) (cur s) (ecnt s) (ecmd s) (eans s) (pta s) (nextp s) (ptst s) (stow_ok s) (pre_dn s) (fin_dn s) (pre_up s) (fin_up s) (rate_lim s).
Definition set_poff (x : Z) (s : ax) : ax :=
  mkAx (p s) (v s) (psoll s) (vsoll s) (pbahn s) x (ast s) (traj s) (stowed s) (brakes s) (cur s) (ecnt s) (ecmd s) (eans s) (pta s) (nextp s) (ptst s) (stow_ok s) (pre_dn s) (fin_dn s) (pre_up s) (fin_up s) (rate_lim s).
Definition set_ast (x : Z) (s : ax) : ax :=
  mkAx (p s) (v s) (psoll s) (vsoll s) (pbahn s) (poff s) x (traj s) (stowed s) (brakes s) (cur s) (ecnt s) (ecmd s) (eans s) (pta s) (nextp s) (ptst s) (stow_ok s) (pre_dn s) (fin_dn s) (pre_up s) (fin_up s) (rate_lim s).
Definition set_traj (x : Z) (s : ax) : ax :=
  mkAx (p s) (v s) (psoll s) (vsoll s) (pbahn s) (poff s) (ast s) x (stowed s) (brakes s) (cur s) (ecnt s) (ecmd s) (eans s) (pta s) (nextp s) (ptst s) (stow_ok s) (pre_dn s) (fin_dn s) (pre_up s) (fin_up s) (rate_lim s).
Definition set_stowed (x : bool) (s : ax) : ax :=
  mkAx (p s) (v s) (psoll s) (vsoll s) (pbahn s) (poff s) (ast s) (traj s) x (brakes s) (cur s) (ecnt s) (ecmd s) (eans s) (pta s) (nextp s) (ptst s) (stow_ok s) (pre_dn s) (fin_dn s) (pre_up s) (fin_up s) (rate_lim s).
Definition set_brakes (x : bool) (s : ax) : ax :=
  mkAx (p s) (v s) (psoll s) (vsoll s) (pbahn s) (poff s) (ast s) (traj s) (stowed s) x (cur s) (ecnt s) (ecmd s) (eans s) (pta s) (nextp s) (ptst s) (stow_ok s) (pre_dn s) (fin_dn s) (pre_up s) (fin_up s) (rate_lim s).
Definition set_cur (x : option Z) (s : ax) : ax :=
  mkAx (p s) (v s) (psoll s) (vsoll s) (pbahn s) (poff s) (ast s) (traj s) (stowed s) (brakes s) x (ecnt s) (ecmd s) (eans s) (pta s) (nextp s) (ptst s) (stow_ok s) (pre_dn s) (fin_dn s) (pre_up s) (fin_up s) (rate_lim s).
Definition set_ecnt (x : Z) (s : ax) : ax :=
  mkAx (p s) (v s) (psoll s) (vsoll s) (pbahn s) (poff s) (ast s) (traj s) (stowed s) (brakes s) (cur s) x (ecmd s) (eans s) (pta s) (nextp s) (ptst s) (stow_ok s) (pre_dn s) (fin_dn s) (pre_up s) (fin_up s) (rate_lim s).
Definition set_ecmd (x : Z) (s : ax) : ax :=
  mkAx (p s) (v s) (psoll s) (vsoll s) (pbahn s) (poff s) (ast s) (traj s) (stowed s) (brakes s) (cur s) (ecnt s) x (eans s) (pta s) (nextp s) (ptst s) (stow_ok s) (pre_dn s) (fin_dn s) (pre_up s) (fin_up s) (rate_lim s).
Definition set_eans (x : Z) (s : ax) : ax :=
  mkAx (p s) (v s) (psoll s) (vsoll s) (pbahn s) (poff s) (ast s) (traj s) (stowed s) (brakes s) (cur s) (ecnt s) (ecmd s) x (pta s) (nextp s) (ptst s) (stow_ok s) (pre_dn s) (fin_dn s) (pre_up s) (fin_up s) (rate_lim s).
Definition set_pta (x : bool) (s : ax) : ax :=
  mkAx (p s) (v s) (psoll s) (vsoll s) (pbahn s) (poff s) (ast s) (traj s) (stowed s) (brakes s) (cur s) (ecnt s) (ecmd s) (eans s) x (nextp s) (ptst s) (stow_ok s) (pre_dn s) (fin_dn s) (pre_up s) (fin_up s) (rate_lim s).
Definition set_nextp (x : option Z) (s : ax) : ax :=
  mkAx (p s) (v s) (psoll s) (vsoll s) (pbahn s) (poff s) (ast s) (traj s) (stowed s) (brakes s) (cur s) (ecnt s) (ecmd s) (eans s) (pta s) x (ptst s) (stow_ok s) (pre_dn s) (fin_dn s) (pre_up s) (fin_up s) (rate_lim s).
Definition set_ptst (x : Z) (s : ax) : ax :=
  mkAx (p s) (v s) (psoll s) (vsoll s) (pbahn s) (poff s) (ast s) (traj s) (stowed s) (brakes s) (cur s) (ecnt s) (ecmd s) (eans s) (pta s) (nextp s) x (stow_ok s) (pre_dn s) (fin_dn s) (pre_up s) (fin_up s) (rate_lim s).
Definition set_stow_ok (x : bool) (s : ax) : ax :=
  mkAx (p s) (v s) (psoll s) (vsoll s) (pbahn s) (poff s) (ast s) (traj s) (stowed s) (brakes s) (cur s) (ecnt s) (ecmd s) (eans s) (pta s) (nextp s) (ptst s) x (pre_dn s) (fin_dn s) (pre_up s) (fin_up s) (rate_lim s).
Definition set_pre_dn (x : bool) (s : ax) : ax :=
  mkAx (p s) (v s) (psoll s) (vsoll s) (pbahn s) (poff s) (ast s) (traj s) (stowed s) (brakes s) (cur s) (ecnt s) (ecmd s) (eans s) (pta s) (nextp s) (ptst s) (stow_ok s) x (fin_dn s) (pre_up s) (fin_up s) (rate_lim s).
Definition set_fin_dn (x : bool) (s : ax) : ax :=
  mkAx (p s) (v s) (psoll s) (vsoll s) (pbahn s) (poff s) (ast s) (traj s) (stowed s) (brakes s) (cur s) (ecnt s) (ecmd s) (eans s) (pta s) (nextp s) (ptst s) (stow_ok s) (pre_dn s) x (pre_up s) (fin_up s) (rate_lim s).
Definition set_pre_up (x : bool) (s : ax) : ax :=
  mkAx (p s) (v s) (psoll s) (vsoll s) (pbahn s) (poff s) (ast s) (traj s) (stowed s) (brakes s) (cur s) (ecnt s) (ecmd s) (eans s) (pta s) (nextp s) (ptst s) (stow_ok s) (pre_dn s) (fin_dn s) x (fin_up s) (rate_lim s).
Definition set_fin_up (x : bool) (s : ax) : ax :=
  mkAx (p s) (v s) (psoll s) (vsoll s) (pbahn s) (poff s) (ast s) (traj s) (stowed s) (brakes s) (cur s) (ecnt s) (ecmd s) (eans s) (pta s) (nextp s) (ptst s) (stow_ok s) (pre_dn s) (fin_dn s) (pre_up s) x (rate_lim s).
Definition set_rate_lim (x : bool) (s : ax) : ax :=
  mkAx (p s) (v s) (psoll s) (vsoll s) (pbahn s) (poff s) (ast s) (traj s) (stowed s) (brakes s) (cur s) (ecnt s) (ecmd s) (eans s) (pta s) (nextp s) (ptst s) (stow_ok s) (pre_dn s) (fin_dn s) (pre_up s) (fin_up s) x.

(* thread-local state of the looping handlers *)
Inductive mkind := KAbs | KRel | KSlew | KStow.
Inductive mover :=
| MMove (id : Z) (cnt : Z) (kind : mkind) (tgt rate : Z)
| MTrack (id : Z) (cnt : option Z) (rate : Z) (final : option Z).

Definition mover_id (m : mover) : Z :=
  match m with MMove i _ _ _ _ => i | MTrack i _ _ _ => i end.

Record sys := mkSys { axs : ax; movers : list mover; nid : Z }.

(* ---- arithmetic helpers ---- *)
Definition sgn (z : Z) : Z := if 0 <? z then 1 else if z <? 0 then -1 else 0.

(* Python round() of the exact rational n/d, d > 0: half to even *)
Definition rhe_pos (n d : Z) : Z :=
  let q := n / d in
  let r := n mod d in
  if 2 * r <? d then q else if d <? 2 * r then q + 1 else if Z.even q then q else q + 1.
Definition rhe (n d : Z) : Z := if d <? 0 then rhe_pos (- n) (- d) else rhe_pos n d.

(* int(round(abs(rate) * (k/1024))) *)
Definition disp (rate k : Z) : Z := rhe (Z.abs rate * k) 1024.

(* the clamp of the p_Soll / p_Bahn / p_Ist setters *)
Definition clampS (c : cfg) (z : Z) : Z := Z.max (Z.min z (hi c + 1)) (lo c - 1).

Definition opt_is (o : option Z) (z : Z) : bool :=
  match o with Some y => y =? z | None => false end.
Definition oeqb (a b : option Z) : bool := option_eqb Z.eqb a b.
(* Python truthiness of an int-or-None *)
Definition truthy (o : option Z) : bool :=
  match o with Some n => negb (n =? 0) | None => false end.
Definition oval (o : option Z) : Z := match o with Some n => n | None => 0 end.

Definition int32b (z : Z) : bool := (-2147483648 <=? z) && (z <=? 2147483647).

(* ---- _calc_position(delta_time, desired_pos, desired_rate), d = int(round(abs(rate)*dt)) ---- *)
Definition calc (c : cfg) (p tgt d : Z) : Z :=
  let s := sgn (tgt - p) in
  let p1 := if s =? 0 then p
            else let q := p + s * d in
                 if sgn (tgt - q) =? s then q else tgt in
  Z.max (Z.min p1 (hi c)) (lo c).

Definition exec_set (cnt cmd ans : Z) (s : ax) : ax :=
  set_eans ans (set_ecmd cmd (set_ecnt cnt s)).

Definition kind_code (k : mkind) : Z :=
  match k with KAbs => 3 | KRel => 4 | KSlew => 5 | KStow => 52 end.

(* what the handler does after _move returned True *)
Definition finish (k : mkind) (cnt : Z) (s : ax) : ax :=
  match k with
  | KStow => exec_set cnt 52 1 (set_vsoll 0 (set_v 0 (set_stowed true s)))
  | _ => exec_set cnt (kind_code k) 1 s
  end.

(* one iteration of the _move loop with rounded displacement d; bool = the thread ended *)
Definition move_tick (c : cfg) (s : ax) (cnt : Z) (k : mkind) (tgt rate d : Z) : ax * bool :=
  let cp := calc c (p s) tgt d in
  if opt_is (cur s) cnt then
    let s1 := if (ast s =? 3) && negb (stowed s)
              then set_p (clampS c cp) (set_v rate s)
              else set_v 0 s in
    if p s1 =? tgt then (finish k cnt (set_v 0 s1), true) else (s1, false)
  else (set_v 0 s, true).

(* one iteration of the _program_track loop, in the order of the code.  Local variables p_Ist,
   v_Ist of the iteration are p_, v_.  The three ptState blocks: *)
(* if self.ptState == 2: go to the first point of the table at the commanded rate *)
Definition tr_pt2 (c : cfg) (s : ax) (rate n k : Z) : ax * Z * Z :=
  if ptst s =? 2 then
    let s := set_vsoll rate (set_psoll (clampS c (n + poff s)) s) in
    if p s =? psoll s then (s, p s, v s)
    else let cp := calc c (p s) (psoll s) (disp (vsoll s) k) in
         (s, cp, if cp =? psoll s then 0 else vsoll s)
  else (s, p s, v s).
(* if self.ptState == 4: table exhausted, keep going to the last point *)
Definition tr_pt4 (c : cfg) (s : ax) (n p_ : Z) : ax * Z * bool :=
  if ptst s =? 4 then
    let s := set_psoll (clampS c (n + poff s)) s in
    if p s =? psoll s then (s, p_, false) else (s, p s, true)
  else (s, p_, false).
(* if self.ptState == 3 or go_on: follow p_Bahn at the axis' maximum rate
   (fixes/15b: elapsed time 0 gives velocity 0; the pinned tree divides by zero) *)
Definition tr_pt3 (c : cfg) (s : ax) (p_ v_ : Z) (go_on : bool) (k : Z) : ax * Z * Z :=
  if (ptst s =? 3) || go_on then
    let s := set_psoll (clampS c (pbahn s + poff s)) s in
    let cp := calc c (p s) (psoll s) (disp (vmax c) k) in
    (s, cp, if k =? 0 then 0 else rhe ((cp - p_) * 1024) k)
  else (s, p_, v_).
(* next_pos / final_pos selection *)
Definition tr_select (s : ax) (final : option Z) : option Z * option Z :=
  let nx0 := nextp s in
  if truthy nx0 then (nx0, nx0)
  else if (ptst s =? 4) && negb (oeqb (Some (p s)) final) && truthy final then (final, final)
  else (nx0, final).
Definition tr_body (c : cfg) (s : ax) (rate : Z) (nx : option Z) (k : Z) : ax * Z * Z :=
  if truthy nx && ((ast s =? 3) && negb (stowed s)) then
    let n := oval nx in
    let '(s, p_, v_) := tr_pt2 c s rate n k in
    let '(s, p_, go_on) := tr_pt4 c s n p_ in
    tr_pt3 c s p_ v_ go_on k
  else (s, p s, 0).
(* result: new status and the mover's new (counter, final_pos), None when the loop was left *)
Definition track_tick (c : cfg) (s : ax) (cnt : option Z) (rate : Z) (final : option Z) (k : Z)
  : ax * option (option Z * option Z) :=
  if negb (oeqb cnt (cur s)) && negb (traj s =? 7) then (set_pta false (set_v 0 s), None)
  else
    let cnt' := cur s in
    let s := set_traj 7 s in
    let '(nx, fin) := tr_select s final in
    let '(s, p_, v_) := tr_body c s rate nx k in
    let v_ := Z.min (Z.max v_ (- vmax c)) (vmax c) in
    (set_vsoll v_ (set_v v_ (set_p (clampS c p_) s)), Some (cnt', fin)).

(* ---- accepted mode commands (parameters already rounded to integers by the handler's
        int(round(x * 1000000)); CSlew carries int(round(rate * 1000000 * percentage))) ---- *)
Inductive cmd :=
| CInactive | CActive
| CAbs (tgt rate : Z) | CRel (delta rate : Z) | CSlew (rate : Z)
| CStop | CTrack (rate : Z) | CInterlock | CReset
| CStow | CUnstow | CDriveStow (idx : Z) (rate : Z).

Definition mode_id (cm : cmd) : Z :=
  match cm with
  | CInactive => 1 | CActive => 2 | CAbs _ _ => 3 | CRel _ _ => 4 | CSlew _ => 5 | CStop => 7
  | CTrack _ => 8 | CInterlock => 14 | CReset => 15 | CStow => 50 | CUnstow => 51
  | CDriveStow _ _ => 52
  end.

Definition nthZ (l : list Z) (i : Z) : option Z :=
  if i <? 0 then None else nth_error l (Z.to_nat i).

(* prelude of _preset_absolute/_preset_relative/_slew/_drive_to_stow up to the loop of _move *)
Definition start_move (c : cfg) (s : ax) (cnt tj tgt rate : Z) : ax :=
  set_vsoll rate (set_psoll (clampS c tgt) (set_traj tj (set_cur (Some cnt) s))).

(* _mode_command for an accepted command: returns the new status and the mover started *)
Definition cmd_step (c : cfg) (s : ax) (id cnt : Z) (cm : cmd) : ax * option mover :=
  let s := exec_set cnt (mode_id cm) 2 s in
  match cm with
  | CInactive =>
      (exec_set cnt 1 1 (set_traj 0 (set_vsoll 0 (set_v 0 (set_brakes false (set_ast 0 s))))), None)
  | CActive => (exec_set cnt 2 1 (set_traj 1 (set_brakes true (set_ast 3 s))), None)
  | CAbs tgt rate => (start_move c s cnt 6 tgt rate, Some (MMove id cnt KAbs tgt rate))
  | CRel delta rate =>
      let tgt := p s + delta in      (* fixes/15a; the pinned tree has psoll s + delta *)
      (start_move c s cnt 6 tgt rate, Some (MMove id cnt KRel tgt rate))
  | CSlew rate =>
      let tgt := if 0 <? sgn rate then hi c else if sgn rate <? 0 then lo c else p s in
      (start_move c s cnt 4 tgt rate, Some (MMove id cnt KSlew tgt rate))
  | CStop => (exec_set cnt 7 1 (set_traj 3 (set_cur (Some cnt) s)), None)
  | CTrack rate =>
      let s := exec_set cnt 8 1 (set_cur (Some cnt) s) in
      if pta s then (s, None) else (set_pta true s, Some (MTrack id (Some cnt) rate None))
  | CInterlock => (exec_set cnt 14 1 s, None)
  | CReset => (exec_set cnt 15 1 s, None)
  | CStow =>
      let s := if has_stow c
               then set_vsoll 0 (set_v 0 (set_stowed true (set_cur (Some cnt) s))) else s in
      (exec_set cnt 50 1 s, None)
  | CUnstow =>
      let s := if has_stow c then set_stowed false (set_cur (Some cnt) s) else s in
      (exec_set cnt 51 1 s, None)
  | CDriveStow idx rate =>
      if has_stow c then
        let s := set_cur (Some cnt) s in
        match nthZ (stows c) idx with
        | Some tgt => (start_move c s cnt 6 tgt rate, Some (MMove id cnt KStow tgt rate))
        | None => (s, None)            (* IndexError: the thread dies here *)
        end
      else (exec_set cnt 52 1 s, None)
  end.

(* ---- update_status ---- *)
Definition update_status (c : cfg) (s : ax) : ax :=
  let s := if has_stow c then set_stow_ok (existsb (Z.eqb (p s)) (stows c)) s else s in
  let s := if p s =? lo c then set_fin_dn false (set_pre_dn true s)
           else if p s <? lo c then set_fin_dn true (set_pre_dn true s)
           else set_fin_dn false (set_pre_dn false s) in
  let s := if p s =? hi c then set_fin_up false (set_pre_up true s)
           else if hi c <? p s then set_fin_up true (set_pre_up true s)
           else set_fin_up false (set_pre_up false s) in
  set_rate_lim (vmax c <? Z.abs (v s)) s.

(* ---- events ---- *)
Inductive event :=
| ECmd (cnt : Z) (cm : cmd)                  (* an accepted mode command: the handler up to its loop *)
| ETick (id : Z) (k : Z)                     (* mover id runs one loop iteration, k/1024 s elapsed *)
| EUpdate                                    (* update_status *)
| EFeed (next : option Z) (pt bahn : Z)      (* PointingStatus.update_status writes next_pos, ptState, p_Bahn *)
| EOffAbs (z : Z) | EOffRel (z : Z).         (* parameter commands 11 / 12, z = int(round(offset*1e6)) *)

Fixpoint tick_movers (c : cfg) (s : ax) (id k : Z) (ms : list mover) : ax * list mover :=
  match ms with
  | [] => (s, [])
  | m :: rest =>
      if mover_id m =? id then
        match m with
        | MMove i cnt kd tgt rate =>
            let '(s', ended) := move_tick c s cnt kd tgt rate (disp rate k) in
            (s', if ended then rest else m :: rest)
        | MTrack i cnt rate fin =>
            match track_tick c s cnt rate fin k with
            | (s', Some (cnt', fin')) => (s', MTrack i cnt' rate fin' :: rest)
            | (s', None) => (s', rest)
            end
        end
      else let '(s', rest') := tick_movers c s id k rest in (s', m :: rest')
  end.

Definition step (c : cfg) (st : sys) (e : event) : sys :=
  match e with
  | ECmd cnt cm =>
      match cmd_step c (axs st) (nid st) cnt cm with
      | (s', Some m) => mkSys s' (movers st ++ [m]) (nid st + 1)
      | (s', None) => mkSys s' (movers st) (nid st + 1)
      end
  | ETick id k =>
      let '(s', ms') := tick_movers c (axs st) id k (movers st) in mkSys s' ms' (nid st)
  | EUpdate => mkSys (update_status c (axs st)) (movers st) (nid st)
  | EFeed nx pt bahn =>
      mkSys (set_pbahn (clampS c bahn) (set_ptst pt (set_nextp nx (axs st)))) (movers st) (nid st)
  | EOffAbs z =>
      let s := axs st in
      mkSys (if (ast s =? 3) && int32b z then set_poff z s else s) (movers st) (nid st)
  | EOffRel z =>
      let s := axs st in
      mkSys (if (ast s =? 3) && int32b (poff s + z) then set_poff (poff s + z) s else s)
            (movers st) (nid st)
  end.

Definition run (c : cfg) (st : sys) (es : list event) : sys := fold_left (step c) es st.

(* MasterAxisStatus.__init__ *)
Definition init_ax (c : cfg) (p0 : Z) : ax :=
  let q := clampS c p0 in
  let st := has_stow c && existsb (Z.eqb q) (stows c) in
  mkAx q 0 q 0 q 0 0 0 st false None 0 0 0 false None 0 st false false false false false.
Definition init (c : cfg) (p0 : Z) : sys := mkSys (init_ax c p0) [] 0.

(* observation compared with the implementation after every event *)
Definition bz (b : bool) : Z := if b then 1 else 0.
Definition obs_ax (s : ax) : list Z :=
  [p s; v s; psoll s; vsoll s; pbahn s; poff s; ast s; traj s; bz (stowed s); bz (brakes s);
   match cur s with Some _ => 1 | None => 0 end; oval (cur s); ecnt s; ecmd s; eans s; bz (pta s);
   bz (stow_ok s); bz (pre_dn s); bz (fin_dn s); bz (pre_up s); bz (fin_up s); bz (rate_lim s)].
Definition obs (st : sys) : list Z := obs_ax (axs st) ++ map mover_id (movers st).
