(* Executable model of simulators/totalpower/__init__.py: System.parse(byte), _execute and the
   fifteen command handlers, Board.  No proofs here.

   Not modelled (stated in notes/Smc.md): the body of _send_packet (the data timer is replaced by a
   recording fake that never fires, so toggle = 0, zero = 0, sample_counter is never read), the real
   socket (a fake whose connect succeeds), the float value of time_offset (it only feeds the third
   field of _get_time, which is an input here).

   Inputs that are not repo code:
     py_int : the graph of int(token) for the tokens of the case (oracle table, never an axiom);
     tm k   : the k-th result of _get_time(...) in the case (three ints);
     rnd k  : the k-th result of randint(0, 1000000). *)
From DS Require Import Base.Prelude Model.SmcBase.

Inductive src := SPrim | SBwg | SGreg | S50.
Definition src_eqb (a b : src) : bool :=
  match a, b with SPrim, SPrim | SBwg, SBwg | SGreg, SGreg | S50, S50 => true | _, _ => false end.
Definition src_name (s : src) : list Z :=
  match s with SPrim => $"PRIM" | SBwg => $"BWG" | SGreg => $"GREG" | S50 => $"50_OHM" end.

(* Board.sources: letter -> name *)
Definition src_of_letter (s : list Z) : option src :=
  if zlist_eqb s $"P" then Some SPrim else if zlist_eqb s $"B" then Some SBwg
  else if zlist_eqb s $"G" then Some SGreg else if zlist_eqb s $"Z" then Some S50 else None.

Record board := { b_in : src; b_prev : src; b_att : Z; b_flt : Z }.
Definition board0 : board := {| b_in := SPrim; b_prev := SPrim; b_att := 7; b_flt := 1 |}.

(* Board.bandwidths *)
Definition bandwidth (f : Z) : Z :=
  if f =? 1 then 2000 else if f =? 2 then 1250 else if f =? 3 then 730 else 300.

Record dev := {
  boards : list board;
  calOn : Z; extNoise : Z;
  sample_period : Z; calOnPeriod : Z; zeroPeriod : Z;
  data_address : list Z; data_port : Z;
  configured : bool; paused : bool; stopped : bool;
  timer_set : bool;           (* data_timer is not None *)
  ntm : nat; nrnd : nat       (* how many _get_time / randint results were consumed *)
}.

Record st := { msg : list Z; dv : dev }.

Definition dev0 (channels : nat) : dev := {|
  boards := repeat board0 channels;
  calOn := 0; extNoise := 0; sample_period := 1000; calOnPeriod := 0; zeroPeriod := 0;
  data_address := []; data_port := 0; configured := false; paused := true; stopped := false;
  timer_set := false; ntm := 0; nrnd := 0 |}.
Definition init (channels : nat) : st := {| msg := []; dv := dev0 channels |}.
Definition idle (s : st) : bool := match msg s with [] => true | _ => false end.

Record env := {
  py_int : list Z -> conv Z;
  tm : nat -> Z * Z * Z;
  rnd : nat -> Z
}.

(* ---- decoding of one line (the text part of _execute) ---- *)
Inductive cmd :=
| KUnknown | KNak | KMiss
| KT (ps : list Z) | KE (ps : list Z)
| KI (s : list Z) (a f : Z)
| KA (b : Z) (s : list Z) (a f : Z)
| KStatus
| KN (ps : list Z) | KM (ps : list Z) | KZ (ps : list Z) | KS (ps : list Z)
| KR | KV
| KX (p0 p1 p2 : Z) (addr : list Z) (port : Z)
| KPause | KStop | KResume.

(* all parameters through int(); the first failure decides *)
Fixpoint conv_all (e : env) (ts : list (list Z)) : conv (list Z) :=
  match ts with
  | [] => CvOk []
  | t :: r =>
      match py_int e t with
      | CvOk v => match conv_all e r with CvOk vs => CvOk (v :: vs) | CvErr => CvErr | CvMiss => CvMiss end
      | CvErr => CvErr
      | CvMiss => CvMiss
      end
  end.

Definition with_ints (e : env) (ps : list (list Z)) (k : list Z -> cmd) : cmd :=
  match conv_all e ps with CvOk vs => k vs | CvErr => KNak | CvMiss => KMiss end.

Definition decode (e : env) (m : list Z) : cmd :=
  let args := map strip (split_on SP (strip m)) in
  match args with
  | [] => KUnknown
  | c :: ps =>
      if zlist_eqb c $"T" then with_ints e ps KT
      else if zlist_eqb c $"E" then with_ints e ps KE
      else if zlist_eqb c $"I" then
        match ps with
        | [s; a; f] => with_ints e [a; f] (fun v => match v with [a'; f'] => KI s a' f' | _ => KNak end)
        | _ => KNak
        end
      else if zlist_eqb c $"A" then
        match ps with
        | [b; s; a; f] =>
            match py_int e b with
            | CvOk b' => with_ints e [a; f] (fun v => match v with [a'; f'] => KA b' s a' f' | _ => KNak end)
            | CvErr => KNak
            | CvMiss => KMiss
            end
        | _ => KNak
        end
      else if zlist_eqb c $"?" then with_ints e ps (fun _ => KStatus)
      else if zlist_eqb c $"N" then with_ints e ps KN
      else if zlist_eqb c $"M" then with_ints e ps KM
      else if zlist_eqb c $"Z" then with_ints e ps KZ
      else if zlist_eqb c $"S" then with_ints e ps KS
      else if zlist_eqb c $"R" then with_ints e ps (fun _ => KR)
      else if zlist_eqb c $"X" then
        match ps with
        | [p0; p1; p2; addr; port] =>
            with_ints e [p0; p1; p2]
              (fun v => match v with
                        | [a; b; c'] =>
                            match py_int e port with
                            | CvOk p => KX a b c' addr p
                            | CvErr => KNak
                            | CvMiss => KMiss
                            end
                        | _ => KNak
                        end)
        | _ => KNak
        end
      else if zlist_eqb c $"V" then with_ints e ps (fun _ => KV)
      else if zlist_eqb c $"pause" then with_ints e ps (fun _ => KPause)
      else if zlist_eqb c $"stop" then with_ints e ps (fun _ => KStop)
      else if zlist_eqb c $"resume" then with_ints e ps (fun _ => KResume)
      else KUnknown
  end.

(* ---- replies ---- *)
Definition ack : list Z := $"ack" ++ [LF].
Definition nak : list Z := $"nak" ++ [LF].
Definition crlf : list Z := [CR; LF].
Definition firmware : list Z := $"fpga 29.12.2009 simulator, firmware rev.48".

Definition hexdig (n : Z) : Z := if n <? 10 then 48 + n else 87 + n.
(* hex(n)[-2:] for 16 <= n < 256 *)
Definition hex2 (n : Z) : list Z := [hexdig (n / 16); hexdig (n mod 16)].

(* _get_status(ascii_format=True) with zero = 0, toggle = 0: the bits are 0x90 then 0b01 0 calOn 0 111;
   binary_to_string is little-endian and the result is reversed again, so 0x90 is printed first *)
Definition status_ascii (d : dev) : list Z := hex2 144 ++ hex2 (71 + 16 * calOn d).

Definition time_reply (p0 p1 : Z) (t : Z * Z * Z) : list Z :=
  let '(t0, t1, t2) := t in
  zstr p0 ++ $", " ++ zstr p1 ++ $", " ++ zstr t0 ++ $", " ++ zstr t1 ++ $", " ++ zstr t2 ++ crlf.

Definition board_status (b : board) : list Z :=
  [SP] ++ src_name (b_in b) ++ [SP] ++ zstr (b_att b) ++ [SP] ++ zstr (bandwidth (b_flt b)).

Definition status_reply (d : dev) (t : Z * Z * Z) : list Z :=
  let '(t0, t1, t2) := t in
  zstr t0 ++ [SP] ++ zstr t1 ++ [SP] ++ zstr t2 ++ [SP] ++ status_ascii d ++ [SP]
  ++ zstr (sample_period d) ++ [SP] ++ zstr (calOnPeriod d) ++ [SP] ++ zstr (zeroPeriod d)
  ++ concat (map board_status (boards d)) ++ crlf.

Definition use_tm (d : dev) : dev :=
  {| boards := boards d; calOn := calOn d; extNoise := extNoise d; sample_period := sample_period d;
     calOnPeriod := calOnPeriod d; zeroPeriod := zeroPeriod d; data_address := data_address d;
     data_port := data_port d; configured := configured d; paused := paused d; stopped := stopped d;
     timer_set := timer_set d; ntm := S (ntm d); nrnd := nrnd d |}.
Definition use_rnd (k : nat) (d : dev) : dev :=
  {| boards := boards d; calOn := calOn d; extNoise := extNoise d; sample_period := sample_period d;
     calOnPeriod := calOnPeriod d; zeroPeriod := zeroPeriod d; data_address := data_address d;
     data_port := data_port d; configured := configured d; paused := paused d; stopped := stopped d;
     timer_set := timer_set d; ntm := ntm d; nrnd := (nrnd d + k)%nat |}.
Definition set_boards (bs : list board) (d : dev) : dev :=
  {| boards := bs; calOn := calOn d; extNoise := extNoise d; sample_period := sample_period d;
     calOnPeriod := calOnPeriod d; zeroPeriod := zeroPeriod d; data_address := data_address d;
     data_port := data_port d; configured := configured d; paused := paused d; stopped := stopped d;
     timer_set := timer_set d; ntm := ntm d; nrnd := nrnd d |}.
Definition set_calOn (v : Z) (d : dev) : dev :=
  {| boards := boards d; calOn := v; extNoise := extNoise d; sample_period := sample_period d;
     calOnPeriod := calOnPeriod d; zeroPeriod := zeroPeriod d; data_address := data_address d;
     data_port := data_port d; configured := configured d; paused := paused d; stopped := stopped d;
     timer_set := timer_set d; ntm := ntm d; nrnd := nrnd d |}.
Definition set_extNoise (v : Z) (d : dev) : dev :=
  {| boards := boards d; calOn := calOn d; extNoise := v; sample_period := sample_period d;
     calOnPeriod := calOnPeriod d; zeroPeriod := zeroPeriod d; data_address := data_address d;
     data_port := data_port d; configured := configured d; paused := paused d; stopped := stopped d;
     timer_set := timer_set d; ntm := ntm d; nrnd := nrnd d |}.
Definition set_sample_period (v : Z) (d : dev) : dev :=
  {| boards := boards d; calOn := calOn d; extNoise := extNoise d; sample_period := v;
     calOnPeriod := calOnPeriod d; zeroPeriod := zeroPeriod d; data_address := data_address d;
     data_port := data_port d; configured := configured d; paused := paused d; stopped := stopped d;
     timer_set := timer_set d; ntm := ntm d; nrnd := nrnd d |}.
Definition set_flags (p s t : bool) (d : dev) : dev :=
  {| boards := boards d; calOn := calOn d; extNoise := extNoise d; sample_period := sample_period d;
     calOnPeriod := calOnPeriod d; zeroPeriod := zeroPeriod d; data_address := data_address d;
     data_port := data_port d; configured := configured d; paused := p; stopped := s;
     timer_set := t; ntm := ntm d; nrnd := nrnd d |}.

(* Board.I setter with a source letter / with None *)
Definition board_set_letter (s : src) (b : board) : board :=
  {| b_in := s; b_prev := b_in b; b_att := b_att b; b_flt := b_flt b |}.
Definition board_set_none (b : board) : board :=
  if src_eqb (b_in b) S50 then {| b_in := b_prev b; b_prev := b_prev b; b_att := b_att b; b_flt := b_flt b |}
  else b.
Definition board_set_all (s : src) (a f : Z) (b : board) : board :=
  {| b_in := s; b_prev := b_in b; b_att := a; b_flt := f |}.

Definition in_range (lo hi v : Z) : bool := (lo <=? v) && (v <? hi).

Fixpoint rnd_list (e : env) (start k : nat) : list (list Z) :=
  match k with
  | O => []
  | S k' => zstr (rnd e start) :: rnd_list e (S start) k'
  end.

(* float(int) raises OverflowError exactly when the int rounds to 2^1024 or beyond *)
Definition float_overflows (z : Z) : bool := 2 ^ 1024 - 2 ^ 970 <=? Z.abs z.

Definition exec (e : env) (d : dev) (c : cmd) : dev * outcome :=
  match c with
  | KUnknown => (d, OFalse)
  | KNak => (d, OReply nak)
  | KMiss => (d, OOutside)
  | KT ps =>
      match ps with
      | [p0; p1] =>
          if p1 <? 0 then (d, OValueError)      (* float('3.-00005') *)
          else (use_tm d, OReply (time_reply p0 p1 (tm e (ntm d))))
      | _ => (d, OReply nak)
      end
  | KE ps =>
      match ps with
      | [p0; p1] => (use_tm d, OReply (time_reply p0 p1 (tm e (ntm d))))
      | _ => (d, OReply nak)
      end
  | KI s a f =>
      match src_of_letter s with
      | None => (d, OReply nak)
      | Some s' =>
          if negb (in_range 0 16 a) then (d, OReply nak)
          else if negb (in_range 1 5 f) then (d, OReply nak)
          else (set_boards (map (board_set_all s' a f) (boards d)) d, OReply ack)
      end
  | KA b s a f =>
      let refused := (d, OReply ($"nak " ++ zstr b ++ [LF])) in
      if negb (in_range 0 (Z.of_nat (length (boards d))) (b - 1)) then refused
      else match src_of_letter s with
           | None => refused
           | Some s' =>
               if negb (in_range 0 16 a) || negb (in_range 1 5 f) then refused
               else match nth_opt (Z.to_nat (b - 1)) (boards d) with
                    | Some bd =>
                        (set_boards (set_nth (Z.to_nat (b - 1)) (board_set_all s' a f bd) (boards d)) d,
                         OReply ack)
                    | None => (d, OException)
                    end
           end
  | KStatus => (use_tm d, OReply (status_reply d (tm e (ntm d))))
  | KN ps =>
      match ps with
      | [v] => if (v =? 0) || (v =? 1) then (set_calOn v d, OReply ack) else (d, OReply nak)
      | _ => (d, OReply nak)
      end
  | KM ps =>
      match ps with
      | [v] => if (v =? 0) || (v =? 1) then (set_extNoise v d, OReply ack) else (d, OReply nak)
      | _ => (d, OReply nak)
      end
  | KZ ps =>
      match ps with
      | [v] =>
          if v =? 1 then (set_boards (map (board_set_letter S50) (boards d)) d, OReply ack)
          else if v =? 0 then (set_boards (map board_set_none (boards d)) d, OReply ack)
          else (d, OReply nak)
      | _ => (d, OReply nak)
      end
  | KS ps =>
      match ps with
      | [v] => (set_sample_period v d, OReply ack)
      | _ => (d, OReply nak)
      end
  | KR =>
      let '(t0, _, _) := tm e (ntm d) in
      let n := length (boards d) in
      (use_rnd n (use_tm d),
       OReply (zstr t0 ++ $" 0 0 " ++ join [SP] (rnd_list e (nrnd d) n) ++ crlf))
  | KV => (d, OReply firmware)
  | KX p0 p1 p2 addr port =>
      ({| boards := boards d; calOn := calOn d; extNoise := extNoise d; sample_period := p0;
          calOnPeriod := p1; zeroPeriod := p2; data_address := addr; data_port := port;
          configured := true; paused := false; stopped := false; timer_set := timer_set d;
          ntm := ntm d; nrnd := nrnd d |}, OReply ack)
  | KResume =>
      if negb (configured d) then (d, OReply nak)
      else
        let d1 := set_flags false false (timer_set d) d in
        if (sample_period d =? 0) || float_overflows (sample_period d) then (d1, OException)
        else (set_flags false false true d, OReply ack)
  | KPause => (set_flags true (stopped d) (timer_set d) d, OReply ack)
  | KStop => (set_flags (paused d) true (timer_set d) d, OReply ack)
  end.

(* ---- System.parse ---- *)
Definition is_tail (b : Z) : bool := (b =? LF) || (b =? CR).

Definition step (e : env) (s : st) (b : Z) : st * outcome :=
  if is_tail b then
    let (d', o) := exec e (dv s) (decode e (msg s)) in ({| msg := []; dv := d' |}, o)
  else ({| msg := msg s ++ [b]; dv := dv s |}, OTrue).
