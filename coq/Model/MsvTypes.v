(* Minor-servo PLC (tag Msv): the plain data types shared by the generated tables
   (Gen/MsvTables.v) and the model (Model/MsvModel.v).  No proofs. *)
From Coq Require Import ZArith List.
Import ListNotations.
Open Scope Z_scope.

(* one piece of a status reply, recovered from the f-strings of get_status / _status *)
Inductive piece :=
| PLit (s : list Z)      (* literal text (constant flags and servo names already substituted) *)
| PMode                  (* {self.operative_mode.value} as read at the start of get_status *)
| PRnd                   (* {random.uniform(a, b):.6f} *)
| PCoord (i : nat)       (* {self.coords[i]:.6f} after the motion step *)
| POffs (i : nat)        (* {self.offsets[i]:.6f} *)
| PCfg                   (* {self.configuration} *)
| PTime                  (* {plc_time} *)
| PGcap                  (* {self.gregorian_cap.value} *)
| PLast.                 (* {self.last_executed_command} *)

(* one servo of System.__init__: name, DOF, program_track_capable, limits and maximum speed
   as binary64 bit patterns *)
Record srow := mk_srow {
  sr_name : list Z; sr_dof : nat; sr_pt : bool;
  sr_min : list Z; sr_max : list Z; sr_delta : list Z }.
