(* Executable model of the active-surface LINE: simulators/active_surface/__init__.py
   (System.parse framing, System._parse checksum / addressing / dispatch, the 24 _xxx(params)
   handlers, reply assembly).  No proofs here.

   The USD objects (usd.py) are opaque: a unit is a value of an arbitrary type U with
     sem   : U -> ucall -> U * uret     (one method call: new unit state, returned value)
     delay : U -> Z                     (the attribute delay_multiplier read by _parse)
   Every function of the line is parametric in (U, sem, delay).

   The model follows the code WITH the proposed fixes fixes/04-as-address-below-min.diff and
   fixes/05-as-broadcast-slope.diff; the two flags [guard] / [slope_all] of [exec] select the
   pinned behaviour (false) or the fixed one (true), so that the defects stay expressible
   (Proofs/AslLineProofs.v proves the refutation witnesses for the pinned variant).

   Not modelled: time.sleep in _parse (response delay) and USD.soft_reset (time abstraction). *)
From DS Require Import Base.Prelude Base.Bits Model.Utils.

(* How ListenHandler._handle classifies one call of System.parse *)
Inductive outcome :=
| OFalse | OTrue | OReply (r : list Z) | OValueError | OException
| OBadRet.      (* None / '' / non-str return value: never produced by the model *)

(* ------------------------------------------------------------------------------------------ *)
(* Framing: System.parse / _set_default.  msg is kept in arrival order.                       *)

Record fstate := mkF { f_msg : list Z; f_all : bool; f_exp : Z }.
Definition finit : fstate := mkF [] false 0.               (* _set_default() *)
Definition fidle (f : fstate) : Prop := f_msg f = [].
Definition fidleb (f : fstate) : bool := match f_msg f with [] => true | _ => false end.

Inductive fevent :=
| FFalse                      (* return False *)
| FTrue                       (* return True *)
| FBadLength (got : Z)        (* _set_default(); raise ValueError('Wrong byte_nbyte...') *)
| FFrame (msg : list Z).      (* return self._parse(self.msg) *)

(* binary = bin(ord(c))[2:].zfill(8); int(binary[:3], 2); int(binary[3:], 2) *)
Definition byte_bits (b : Z) : list bool := zfill 8 (bin b).
Definition hdr_nbytes (b : Z) : Z := int2 (firstn 3 (byte_bits b)).
Definition hdr_index (b : Z) : Z := int2 (skipn 3 (byte_bits b)).

Definition is_header (b : Z) : bool := (b =? 250) || (b =? 252).      (* '\xFA', '\xFC' *)

(* one call of parse(byte), up to the point where _parse takes over; the match is on
   len(self.msg) BEFORE the append (0, 1, 2, >= 3  <->  len == 1, 2, 3, else) *)
Definition fstep (f : fstate) (b : Z) : fstate * fevent :=
  let msg := f_msg f ++ [b] in
  match length (f_msg f) with
  | 0%nat => if is_header b then (mkF msg (f_all f) (f_exp f), FTrue) else (finit, FFalse)
  | 1%nat => if b =? 0 then (mkF msg true (f_exp f), FTrue)
             else let e := hdr_nbytes b in
                  if (7 <? e) || (e <? 1) then (finit, FBadLength e)
                  else (mkF msg (f_all f) e, FTrue)
  | 2%nat => if f_all f
             then if (7 <? b) || (b <? 1) then (finit, FBadLength b)
                  else (mkF msg true b, FTrue)
             else (mkF msg false (f_exp f - 1), FTrue)
  | _ => if f_exp f =? 0 then (finit, FFrame msg)      (* _parse starts with _set_default() *)
         else (mkF msg (f_all f) (f_exp f - 1), FTrue)
  end.

Fixpoint frun (f : fstate) (bs : list Z) : fstate * list fevent :=
  match bs with
  | [] => (f, [])
  | b :: bs' => let (f1, e) := fstep f b in
                let (f2, es) := frun f1 bs' in (f2, e :: es)
  end.

(* ------------------------------------------------------------------------------------------ *)
(* USD method calls as opaque events                                                            *)

Inductive arg := AInt (z : Z) | ANone | AList (l : list Z).
Record ucall := mkcall { c_code : Z; c_args : list arg }.   (* method = the command code *)
Inductive uret :=
| RNone | RBool (b : bool) | RInt (z : Z) | RStr (l : list Z) | RList (l : list Z).

(* what the handler does with the value returned by the unit *)
Inductive rkind := KAck | KBool | KVersion | KPosition | KStatus | KType.
Definition is_getter (k : rkind) : bool :=
  match k with KVersion | KPosition | KStatus | KType => true | _ => false end.

Inductive dres :=
| DNak                               (* wrong parameter count / refused value: byte_nak, no call *)
| DExc                               (* exception while decoding *)
| DCall (c : ucall) (k : rkind).

(* System.functions: the 24 command codes *)
Definition codes : list Z :=
  [1; 2; 16; 17; 18; 19; 20; 32; 33; 34; 35; 37; 38; 39; 40; 41; 48; 49; 50; 53; 42; 43; 44; 45].
Definition known (code : Z) : bool := existsb (Z.eqb code) codes.

(* utils.string_to_int(''.join(chr(x) for x in params[2]), little_endian=False) *)
Definition be_signed (ps : list Z) : Z := bytes_to_int ps false.

(* the part of each _xxx(params) handler that depends on params[2] only: parameter count check
   and decoding of the USD method arguments *)
Definition decode (code : Z) (ps : list Z) : dres :=
  let n := length ps in
  let proc0 k := match ps with [] => DCall (mkcall code []) k | _ => DNak end in
  let set1 (f : Z -> list arg) k :=
    match ps with [p] => DCall (mkcall code (f p)) k | _ => DNak end in
  let setn (m : nat) (f : list Z -> list arg) k :=
    if (n =? m)%nat then DCall (mkcall code (f ps)) k else DNak in
  let raw p := [AInt p] in
  match code with
  | 1 => proc0 KAck                                   (* 0x01 _soft_reset *)
  | 2 => proc0 KAck                                   (* 0x02 _soft_trigger *)
  | 16 => proc0 KVersion                              (* 0x10 _get_version *)
  | 17 => proc0 KAck                                  (* 0x11 _soft_stop *)
  | 18 => proc0 KPosition                             (* 0x12 _get_position *)
  | 19 => proc0 KStatus                               (* 0x13 _get_status *)
  | 20 => proc0 KType                                 (* 0x14 _get_driver_type *)
  | 32 => setn 2%nat (fun l => [AInt (be_signed l)]) KBool     (* 0x20 _set_min_frequency *)
  | 33 => setn 2%nat (fun l => [AInt (be_signed l)]) KBool     (* 0x21 _set_max_frequency *)
  | 34 => set1 (fun p => [AInt (p + 1)]) KAck              (* 0x22 _set_slope_delayer *)
  | 35 => setn 4%nat (fun l => [AInt (be_signed l)]) KAck      (* 0x23 _set_reference_position *)
  | 37 => set1 raw KAck                                    (* 0x25 _set_io_pins *)
  | 38 => set1 (fun p =>                                   (* 0x26 _set_resolution *)
            let r := zfill 4 (bin p) in
            match r with
            | true :: _ => [ANone]
            | _ => [AInt (int2 (lastn 3 r))]
            end) KAck
  | 39 => set1 (fun p =>                                   (* 0x27 _set_current_reduction *)
            let s := zfill 8 (bin p) in
            [AInt (int2 (firstn 2 s)); AInt (int2 (skipn 2 s))]) KAck
  | 40 => set1 raw KAck                                    (* 0x28 _set_response_delay *)
  | 41 => set1 raw KAck                                    (* 0x29 _set_delayed_execution *)
  | 48 => setn 4%nat (fun l => [AInt (be_signed l)]) KBool     (* 0x30 _set_absolute_position *)
  | 49 => setn 4%nat (fun l => [AInt (be_signed l)]) KBool     (* 0x31 _set_relative_position *)
  | 50 => match ps with                                    (* 0x32 _rotate *)
          | [p] => match twos_to_int (zfill 8 (bin p)) with
                   | Some v => DCall (mkcall code [AInt (sign v)]) KBool
                   | None => DExc
                   end
          | _ => DNak
          end
  | 53 => if (n =? 3)%nat then                             (* 0x35 _set_velocity *)
            let v := be_signed ps in
            if (100000 <? v) || (v <? -100000) then DNak
            else DCall (mkcall code [AInt v]) KBool
          else DNak
  | 42 => set1 raw KAck                                    (* 0x2A _set_stop_io *)
  | 43 => set1 raw KAck                                    (* 0x2B _set_positioning_io *)
  | 44 => set1 raw KAck                                    (* 0x2C _set_home_io *)
  | 45 => setn 2%nat (fun l => [AList l]) KAck                 (* 0x2D _set_working_mode *)
  | _ => DNak      (* not reached: [exec] tests [known code] first (functions.get(command)) *)
  end.

(* ------------------------------------------------------------------------------------------ *)
(* Reply assembly                                                                               *)

Inductive built := BReply (r : list Z) | BValueError | BException.

Definition truthy (r : uret) : bool :=
  match r with
  | RNone => false
  | RBool b => b
  | RInt z => negb (z =? 0)
  | RStr l | RList l => match l with [] => false | _ => true end
  end.
Definition as_int (r : uret) : option Z :=
  match r with RInt z => Some z | RBool b => Some (b2z b) | _ => None end.

(* utils.binary_to_string(bin(k)[2:].zfill(3) + bin(usd_index)[2:].zfill(5), little_endian=False) *)
Definition addr_byte (k idx : Z) : list Z :=
  binary_to_bytes (zfill 3 (bin k) ++ zfill 5 (bin idx)) false.
(* byte_ack + chr(params[1]) [+ byte_nbyte_address if params[1] == 0xFC] *)
Definition reply_head (start idx k : Z) : list Z :=
  6 :: start :: (if start =? 252 then addr_byte k idx else []).
Definition close (r : list Z) : list Z := r ++ [checksum r].    (* retval + utils.checksum(retval) *)

Definition build (k : rkind) (start idx : Z) (r : uret) : built :=
  match k with
  | KAck => BReply [6]
  | KBool => BReply [if truthy r then 6 else 21]
  | KVersion =>
      match r with
      | RList l =>
          let v := zsum l + 15 in            (* chr(sum(version) + 0xF) *)
          if (0 <=? v) && (v <? 1114112) then BReply (close (reply_head start idx 1 ++ [v]))
          else if (-2147483648 <=? v) && (v <? 2147483648) then BValueError   (* chr() range *)
          else BException                                                    (* OverflowError *)
      | _ => BException
      end
  | KPosition =>
      match as_int r with
      | Some z => match int_to_bytes z 4 false with
                  | Some bs => BReply (close (reply_head start idx 4 ++ bs))
                  | None => BException                                       (* OverflowError *)
                  end
      | None => BException
      end
  | KStatus =>
      match r with
      | RStr l => BReply (close (reply_head start idx 3 ++ l))
      | _ => BException
      end
  | KType =>
      match as_int r with
      | Some z => match int_to_bytes z 1 false with
                  | Some bs => BReply (close (reply_head start idx 1 ++ bs))
                  | None => BException
                  end
      | None => BException
      end
  end.

(* ------------------------------------------------------------------------------------------ *)
(* Python list indexing self.drivers[i]: negative indexes count from the end; None = IndexError *)

Definition py_pos {A} (l : list A) (i : Z) : option nat :=
  let n := Z.of_nat (length l) in
  if 0 <=? i then (if i <? n then Some (Z.to_nat i) else None)
  else if - n <=? i then Some (Z.to_nat (n + i)) else None.
Definition py_nth {A} (l : list A) (i : Z) : option A :=
  match py_pos l i with Some k => nth_error l k | None => None end.
Fixpoint upd {A} (l : list A) (k : nat) (x : A) : list A :=
  match l, k with
  | [], _ => []
  | _ :: t, O => x :: t
  | h :: t, S k' => h :: upd t k' x
  end.

(* msg[lo:hi] for 0 <= lo *)
Definition py_slice {A} (lo hi : Z) (l : list A) : list A :=
  firstn (Z.to_nat (hi - lo)) (skipn (Z.to_nat lo) l).

(* ------------------------------------------------------------------------------------------ *)
(* _parse, first half: checksum and field extraction (independent of the units)                *)

Inductive request :=
| QBcast (start code : Z) (ps : list Z)          (* msg[1] == '\x00' : driver = None *)
| QUni (start idx code : Z) (ps : list Z).       (* idx = int(binary[3:], 2) *)

Inductive parsed := PErr (o : outcome) | PReq (q : request).

(* Precondition (proved for every frame handed over by [fstep]): 4 <= len(msg). *)
Definition parse_msg (msg : list Z) : parsed :=
  match rev msg with
  | [] => PErr OException
  | c :: _ =>
    if negb (checksum (removelast msg) =? c) then PErr OValueError      (* "Checksum error." *)
    else match msg with
    | start :: h :: m2 :: m3 :: _ =>
        if h =? 0
        then PReq (QBcast start m3 (py_slice 4 (4 + m2 - 1) msg))
        else PReq (QUni start (hdr_index h) m2 (py_slice 3 (3 + hdr_nbytes h - 1) msg))
    | _ => PErr OException               (* excluded by the precondition *)
    end
  end.

(* ------------------------------------------------------------------------------------------ *)
(* _parse, second half + handlers                                                               *)

Section Line.
  Context {U : Type}.
  Variable sem : U -> ucall -> U * uret.
  Variable delay : U -> Z.

  (* for driver in self.drivers: driver.method(args) *)
  Definition invoke_all (c : ucall) (drv : list U) : list U := map (fun u => fst (sem u c)) drv.
  (* pinned _set_slope_delayer: `return None` inside the loop (F05) *)
  Definition invoke_first (c : ucall) (drv : list U) : list U :=
    match drv with [] => [] | u :: t => fst (sem u c) :: t end.

  (* guard     = true: fixes/04 applied (address range check after the command lookup)
     slope_all = true: fixes/05 applied *)
  Definition exec (guard slope_all : bool) (min : Z) (drv : list U) (q : request)
    : list U * outcome :=
    match q with
    | QBcast start code ps =>
        if negb (known code) then (drv, OValueError)          (* "Unknown command" *)
        else match decode code ps with
        | DNak => (drv, OTrue)
        | DExc => (drv, OException)
        | DCall c k =>
            if is_getter k then (drv, OTrue)                  (* params[0] is None: return None *)
            else if slope_all || negb (code =? 34) then (invoke_all c drv, OTrue)
            else (invoke_first c drv, OTrue)
        end
    | QUni start idx code ps =>
        let d := idx - min in                                 (* driver *)
        if negb (known code) then (drv, OValueError)
        else if guard && negb ((0 <=? d) && (d <? Z.of_nat (length drv))) then (drv, OTrue)
        else match decode code ps with
        | DExc => (drv, OException)
        | DNak =>
            (* retval = byte_nak; then self.drivers[driver].delay_multiplier in _parse *)
            match py_nth drv d with
            | None => (drv, OException)                       (* IndexError *)
            | Some u => (drv, if delay u =? 255 then OTrue else OReply [21])
            end
        | DCall c k =>
            match py_pos drv d with
            | None => (drv, OException)                       (* IndexError in the handler *)
            | Some p =>
              match nth_error drv p with
              | None => (drv, OException)
              | Some u =>
                let (u', r) := sem u c in
                let drv' := upd drv p u' in
                match build k start idx r with     (* usd_index = params[0] + min_usd_index = idx *)
                | BReply rep => (drv', if delay u' =? 255 then OTrue else OReply rep)
                | BValueError => (drv', OValueError)
                | BException => (drv', OException)
                end
              end
            end
        end
    end.

  Definition dispatch (guard slope_all : bool) (min : Z) (drv : list U) (msg : list Z)
    : list U * outcome :=
    match parse_msg msg with
    | PErr o => (drv, o)
    | PReq q => exec guard slope_all min drv q
    end.

  (* the line: min_usd_index, drivers, framing state *)
  Record line := mkL { l_min : Z; l_drv : list U; l_f : fstate }.

  Definition lstep_gen (guard slope_all : bool) (l : line) (b : Z) : line * outcome :=
    match fstep (l_f l) b with
    | (f', FFalse) => (mkL (l_min l) (l_drv l) f', OFalse)
    | (f', FTrue) => (mkL (l_min l) (l_drv l) f', OTrue)
    | (f', FBadLength _) => (mkL (l_min l) (l_drv l) f', OValueError)
    | (f', FFrame msg) =>
        let (drv', o) := dispatch guard slope_all (l_min l) (l_drv l) msg in
        (mkL (l_min l) drv' f', o)
    end.

  (* the code with the two proposed fixes *)
  Definition lstep : line -> Z -> line * outcome := lstep_gen true true.

  Fixpoint lrun (l : line) (bs : list Z) : line * list outcome :=
    match bs with
    | [] => (l, [])
    | b :: bs' => let (l1, o) := lstep l b in
                  let (l2, os) := lrun l1 bs' in (l2, o :: os)
    end.
End Line.

(* the messages a client builds for a request (ICD layout), used by the theorems *)
Definition frame_of (q : request) : list Z :=
  match q with
  | QBcast start code ps => close ([start; 0; Z.of_nat (length ps) + 1; code] ++ ps)
  | QUni start idx code ps => close ([start; (Z.of_nat (length ps) + 1) * 32 + idx; code] ++ ps)
  end.
