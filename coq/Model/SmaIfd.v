(* Executable model of simulators/if_distributor/IFD.py  System.parse(byte).  No proofs here.
   Framing: first byte must be a key of `commands` (? B S A I), line ends at \n or \r, at most 15
   characters.  Device: 21 boards of 12 status entries each.
   Numbers: a token containing '.' goes through Python's float(); its result is NOT modelled but
   supplied per case by the harness (oracle table [env]: token -> facts about the float, computed
   with the same Python builtins).  Tokens without '.' go through int() = parse_int.
   A float enters the device state only through status[3] / status[4] of the `S` command. *)
From DS Require Import Base.Prelude Base.Bits Model.SmaCommon.

(* what the model needs to know about x = float(tok) *)
Record fl := {
  fl_int : option Z;      (* Some z when x == z for an integer z (x integral), else None *)
  fl_neg : bool;          (* x < 0 *)
  fl_gt : bool;           (* x > max_attenuation (31.5) *)
  fl_x2 : Z;              (* int(x * 2)  (0 when x is not finite; never consulted then) *)
  fl_str : list Z         (* str(x) *)
}.

Inductive num := NInt (z : Z) | NFlt (f : fl).

(* float(tok) oracle of one case: Some fl, or None when float() raises ValueError *)
Definition env := list (list Z * option fl).

Fixpoint env_lookup (e : env) (tok : list Z) : option (option fl) :=
  match e with
  | [] => None
  | (k, v) :: r => if zlist_eqb k tok then Some v else env_lookup r tok
  end.

Definition num_int (v : num) : option Z :=
  match v with NInt z => Some z | NFlt f => fl_int f end.
Definition num_eq_int (v : num) (k : Z) : bool :=
  match num_int v with Some z => z =? k | None => false end.
Definition num_in_range (n : Z) (v : num) : bool :=           (* v in range(n) *)
  match num_int v with Some z => (0 <=? z) && (z <? n) | None => false end.
Definition num_in01 (v : num) : bool := num_eq_int v 0 || num_eq_int v 1.   (* v in [0, 1] *)
Definition num_str (v : num) : list Z :=
  match v with NInt z => render_int z | NFlt f => fl_str f end.

Definition ifd_ack : list Z := [97; 99; 107; 10].
Definition ifd_nak : list Z := [110; 97; 107; 10].

Inductive ifd_cmd := IfQ | IfB | IfS | IfA | IfI.

Definition ifd_lookup (tok : list Z) : option ifd_cmd :=
  match tok with
  | [63] => Some IfQ
  | [66] => Some IfB
  | [83] => Some IfS
  | [65] => Some IfA
  | [73] => Some IfI
  | _ => None
  end.

Definition ifd_is_hdr (b : Z) : bool := (b =? 63) || (b =? 66) || (b =? 83) || (b =? 65) || (b =? 73).
Definition ifd_is_tail (b : Z) : bool := (b =? 10) || (b =? 13).

Definition ifd_fcfg : fcfg :=
  {| is_hdr := ifd_is_hdr; is_tail := ifd_is_tail; maxlen := 15; body := fun m => removelast m |}.

(* one board status list: entries 0 1 2 | 3 4 | 5..8 | 9 | 10 11 *)
Record board := {
  b_a0 : Z; b_a1 : Z; b_type : Z;
  b_ref : num; b_lo : num;
  b_att : list Z;
  b_sr : Z;
  b_f10 : Z; b_f11 : Z
}.

Definition init_board (address pcb_type : Z) : board :=
  let t01 := (0 <=? pcb_type) && (pcb_type <? 2) in
  let t25 := (2 <=? pcb_type) && (pcb_type <? 6) in
  {| b_a0 := address; b_a1 := address; b_type := pcb_type;
     b_ref := NInt (if t01 then 65535 else 10);
     b_lo := NInt (if t01 then 65535 else if t25 then 2300 else 0);
     b_att := if pcb_type =? 5 then [63; 63; 63; 63] else [255; 255; 255; 255];
     b_sr := if pcb_type =? 1 then 2 else 0;
     b_f10 := if t01 then -1 else 1;
     b_f11 := if t01 then -1 else 0 |}.

Definition ifd_dev := list board.

Definition ifd_dev0 : ifd_dev :=
  [init_board 0 2; init_board 1 0; init_board 2 1; init_board 3 3; init_board 4 4]
  ++ map (fun i => init_board i 5) [5; 6; 7; 8; 9; 10; 11; 12; 13; 14; 15; 16; 17; 18; 19; 20].

Definition ifd_nboards : Z := 21.

Definition comma_sp : list Z := [44; 32].

Definition board_fields (b : board) : list (list Z) :=
  [render_int (b_a0 b); render_int (b_a1 b); render_int (b_type b); num_str (b_ref b); num_str (b_lo b)]
  ++ map render_int (b_att b)
  ++ [render_int (b_sr b); render_int (b_f10 b); render_int (b_f11 b)].

Definition board_str (b : board) : list Z := join comma_sp (board_fields b).
Definition ifd_status_reply (b : board) : list Z := ifd_ack ++ board_str b ++ [10].

(* bit-string manipulations of status[9], as the code writes them *)
Definition sr_bits (sr : Z) : list bool := zfill 8 (bin sr).            (* bin(x)[2:].zfill(8) *)
Definition upd_bw (sr p : Z) : Z :=
  let s := sr_bits sr in int2 (firstn 3 s ++ zfill 2 (bin p) ++ skipn 5 s).
Definition upd_en (sr en : Z) : Z :=
  let s := sr_bits sr in int2 (firstn 4 s ++ [en =? 1] ++ skipn 5 s).
Definition upd_in (sr p : Z) : Z :=
  let s := sr_bits sr in int2 (firstn 5 s ++ zfill 2 (bin (p + 1)) ++ firstn 1 (skipn 7 s)).

Definition get_board (d : ifd_dev) (i : Z) : option board :=
  if 0 <=? i then nth_error d (Z.to_nat i) else None.
Definition put_board (d : ifd_dev) (i : Z) (b : board) : option ifd_dev :=
  if 0 <=? i then set_nth (Z.to_nat i) b d else None.

Definition with_sr (b : board) (sr : Z) : board :=
  {| b_a0 := b_a0 b; b_a1 := b_a1 b; b_type := b_type b; b_ref := b_ref b; b_lo := b_lo b;
     b_att := b_att b; b_sr := sr; b_f10 := b_f10 b; b_f11 := b_f11 b |}.
Definition with_att (b : board) (a : list Z) : board :=
  {| b_a0 := b_a0 b; b_a1 := b_a1 b; b_type := b_type b; b_ref := b_ref b; b_lo := b_lo b;
     b_att := a; b_sr := b_sr b; b_f10 := b_f10 b; b_f11 := b_f11 b |}.
Definition with_reflo (b : board) (r l : num) : board :=
  {| b_a0 := b_a0 b; b_a1 := b_a1 b; b_type := b_type b; b_ref := r; b_lo := l;
     b_att := b_att b; b_sr := b_sr b; b_f10 := b_f10 b; b_f11 := b_f11 b |}.
Definition with_lo_en (b : board) (sr en : Z) : board :=
  {| b_a0 := b_a0 b; b_a1 := b_a1 b; b_type := b_type b; b_ref := b_ref b; b_lo := b_lo b;
     b_att := b_att b; b_sr := sr; b_f10 := Z.lxor en 1; b_f11 := en |}.

(* handlers; [i] is the (already range-checked) board index, [brd] the board found there *)
Definition ifd_store (d : ifd_dev) (i : Z) (b : board) (o : outcome) : ifd_dev * outcome :=
  match put_board d i b with Some d' => (d', o) | None => (d, OException) end.

Definition ifd_get_status (d : ifd_dev) (brd : board) (params : list num) : ifd_dev * outcome :=
  match params with
  | [_] => (d, OReply (ifd_status_reply brd))
  | _ => (d, OValueError)
  end.

Definition ifd_set_bandwidth (d : ifd_dev) (i : Z) (brd : board) (params : list num) :=
  match params with
  | [_; bw] =>
      if negb (num_in_range 4 bw) then (d, OValueError)
      else if negb ((b_type brd =? 0) || (b_type brd =? 1)) then (d, OReply ifd_nak)
      else match bw with
           | NFlt _ => (d, OException)                       (* bin(float): TypeError *)
           | NInt p => ifd_store d i (with_sr brd (upd_bw (b_sr brd) p)) (OReply ifd_ack)
           end
  | _ => (d, OValueError)
  end.

Definition ifd_set_lo (d : ifd_dev) (i : Z) (brd : board) (params : list num) :=
  match params with
  | [_; ref; lo; en] =>
      if negb (num_eq_int ref 10) then (d, OValueError)
      else if negb (num_in01 en) then (d, OValueError)
      else if negb (b_type brd =? 2) then (d, OReply ifd_nak)
      else
        let brd1 := with_reflo brd ref lo in               (* status[3], status[4] stored first *)
        match en with
        | NFlt _ => ifd_store d i brd1 OValueError          (* int('....1.0...', 2): ValueError *)
        | NInt e => ifd_store d i (with_lo_en brd1 (upd_en (b_sr brd) e) e) (OReply ifd_ack)
        end
  | _ => (d, OValueError)
  end.

Definition num_neg (v : num) : bool := match v with NInt z => z <? 0 | NFlt f => fl_neg f end.
Definition num_gt_max (v : num) : bool := match v with NInt z => 31 <? z | NFlt f => fl_gt f end.
Definition num_x2 (v : num) : Z := match v with NInt z => 2 * z | NFlt f => fl_x2 f end.

Definition ifd_set_att (d : ifd_dev) (i : Z) (brd : board) (params : list num) :=
  match params with
  | [_; ch; v] =>
      if negb (num_in_range 4 ch) then (d, OException)       (* IndexError *)
      else if num_neg v || num_gt_max v then (d, OReply ifd_nak)
      else if negb (b_type brd =? 5) then (d, OReply ifd_nak)
      else match ch with
           | NFlt _ => (d, OException)                       (* list index 5 + 1.0: TypeError *)
           | NInt c =>
               match set_nth (Z.to_nat c) (num_x2 v) (b_att brd) with
               | Some a => ifd_store d i (with_att brd a) (OReply ifd_ack)
               | None => (d, OException)
               end
           end
  | _ => (d, OValueError)
  end.

Definition ifd_set_input (d : ifd_dev) (i : Z) (brd : board) (params : list num) :=
  match params with
  | [_; v] =>
      if negb (num_in01 v) then (d, OValueError)
      else if negb (b_type brd =? 1) then (d, OReply ifd_nak)
      else match v with
           | NFlt _ => (d, OException)                       (* bin(float + 1): TypeError *)
           | NInt p => ifd_store d i (with_sr brd (upd_in (b_sr brd) p)) (OReply ifd_ack)
           end
  | _ => (d, OValueError)
  end.

(* the argument conversion loop of _execute *)
Inductive pres := POk (ps : list num) | PErr | PMiss.

Definition ifd_param (e : env) (tok : list Z) : pres :=
  if mem 46 tok then
    match env_lookup e tok with
    | None => PMiss
    | Some None => PErr
    | Some (Some f) => POk [NFlt f]
    end
  else match parse_int tok with Some z => POk [NInt z] | None => PErr end.

Fixpoint ifd_params (e : env) (toks : list (list Z)) : pres :=
  match toks with
  | [] => POk []
  | t :: r =>
      match ifd_param e t with
      | POk [v] => match ifd_params e r with POk vs => POk (v :: vs) | x => x end
      | POk _ => PErr        (* unreachable *)
      | x => x
      end
  end.

Definition ifd_tokens (msg : list Z) : list (list Z) := map strip (split_on 32 msg).

Definition ifd_handle (c : ifd_cmd) (d : ifd_dev) (i : Z) (brd : board) (params : list num) :=
  match c with
  | IfQ => ifd_get_status d brd params
  | IfB => ifd_set_bandwidth d i brd params
  | IfS => ifd_set_lo d i brd params
  | IfA => ifd_set_att d i brd params
  | IfI => ifd_set_input d i brd params
  end.

Definition ifd_dispatch (c : ifd_cmd) (d : ifd_dev) (params : list num) : ifd_dev * outcome :=
  match params with
  | [] => (d, OException)                                  (* unreachable: len(args) >= 2 *)
  | p0 :: _ =>
      if negb (num_in_range ifd_nboards p0) then (d, OException)      (* IndexError *)
      else match num_int p0 with
           | None => (d, OException)
           | Some i =>
               match get_board d i with
               | None => (d, OException)
               | Some brd => ifd_handle c d i brd params
               end
           end
  end.

Definition ifd_exec (e : env) (d : ifd_dev) (msg : list Z) : ifd_dev * outcome :=
  if Z.of_nat (length msg) <? 3 then (d, OValueError)
  else
    match ifd_tokens msg with
    | [] | [_] => (d, OValueError)
    | a0 :: rest =>
        match ifd_lookup a0 with
        | None => (d, OReply ifd_nak)
        | Some c =>
            match ifd_params e rest with
            | PErr => (d, OValueError)
            | PMiss => (d, ONoOracle)
            | POk params => ifd_dispatch c d params
            end
        end
    end.

Definition ifd_state := sstate ifd_dev.
Definition ifd_init : ifd_state := {| buf := []; dev := ifd_dev0 |}.
Definition ifd_step (e : env) : ifd_state -> Z -> ifd_state * outcome := sstep (fstep ifd_fcfg) (ifd_exec e).
Definition ifd_run (e : env) : ifd_state -> list Z -> ifd_state * list outcome :=
  srun (fstep ifd_fcfg) (ifd_exec e).
Definition ifd_idle : ifd_state -> bool := sidle.
