(* C17 — executable model of the program-track part of simulators/acu/pointing_status.py
   (PointingStatus._program_track_parameter_command and the tracking part of update_status),
   as repaired by fixes/14-acu-track-atomic-validation.diff.  No proofs in this file.

   Conventions
   - relative times are INT32 milliseconds: Z.
   - a coordinate arrives as a binary64; the model keeps its bit pattern (identity only) and the
     value int(round(1000000*x)) computed by Python, present iff the code's representability
     test  abs(1000000*x) <= 2**31-1  holds (absent for NaN, infinities, huge values).
   - the start time is the datetime  mjd_to_date(field) + time_source_offset  as microseconds
     since 0001-01-01 (datetimes have microsecond resolution, equality of datetimes is equality
     of these integers); None when the conversion raises (NaN, negative, inf, year > 9999).
   - the elapsed time handed to bisect_left is the binary64  (now - start).total_seconds()*1000 ,
     given exactly as a rational (float.as_integer_ratio): type Q, compared with integers
     exactly as Python compares int and float.
   - scipy's splrep/splev are not modelled: [advance] receives the two spline values the code
     may use at this refresh (at time 0 and at the elapsed time); Proofs instantiate them
     with a Section variable. *)
From DS Require Import Base.Prelude.
From Coq Require Import QArith_base.
#[local] Close Scope Q_scope.
#[local] Open Scope Z_scope.

Record coord := { c_bits : Z; c_ud : option Z }.
Record entry := { e_t : Z; e_az : coord; e_el : coord }.

(* a validated table row: time, azimuth (bits, microdeg), elevation (bits, microdeg) *)
Record point := { p_t : Z; p_azb : Z; p_az : Z; p_elb : Z; p_el : Z }.

Record header := {
  h_cnt : Z;             (* command counter, UINT32 *)
  h_param : Z;           (* parameter id, 61 = load program track table *)
  h_interp : Z;          (* 4 = spline *)
  h_track : Z;           (* 1 = azimuth/elevation *)
  h_mode : Z;            (* 1 = new table, 2 = append *)
  h_start : option Z;    (* see above *)
  h_room : Z             (* microseconds from that start time to datetime.max (0 if none) *)
}.

Record pstate := {
  tbl : list point;            (* relative_times / azimuth_positions / elevation_positions *)
  tck : option (list point);   (* the table az_tck / el_tck were computed from *)
  start : option Z;            (* start_time *)
  lastc : option (Z * Z);      (* last_coordinates *)
  pt_state : Z;                (* ptState (also mirrored on both axes) *)
  pt_len : Z;                  (* ptTableLength *)
  pt_act : Z;                  (* ptActTableIndex *)
  pt_end : Z;                  (* ptEndTableIndex *)
  interp : Z;                  (* ptInterpolMode *)
  cnt : Z;                     (* parameter_command_counter *)
  cmd : Z;                     (* parameter_command *)
  ans : Z;                     (* parameter_command_answer *)
  pt_id : option Z;            (* pt_command_id (also on both axes) *)
  az_bahn : Z;                 (* azimuth.p_Bahn *)
  el_bahn : Z;                 (* elevation.p_Bahn *)
  az_next : option Z;          (* azimuth.next_pos *)
  el_next : option Z           (* elevation.next_pos *)
}.

Definition init (az0 el0 : Z) : pstate :=
  {| tbl := []; tck := None; start := None; lastc := None; pt_state := 0; pt_len := 0;
     pt_act := 0; pt_end := 0; interp := 0; cnt := 0; cmd := 0; ans := 0; pt_id := None;
     az_bahn := az0; el_bahn := el0; az_next := None; el_next := None |}.

(* the three fields every parameter command writes first *)
Definition answer (st : pstate) (h : header) (a : Z) : pstate :=
  {| tbl := tbl st; tck := tck st; start := start st; lastc := lastc st;
     pt_state := pt_state st; pt_len := pt_len st; pt_act := pt_act st; pt_end := pt_end st;
     interp := interp st; cnt := h_cnt h; cmd := h_param h; ans := a; pt_id := pt_id st;
     az_bahn := az_bahn st; el_bahn := el_bahn st; az_next := az_next st;
     el_next := el_next st |}.

Definition opt_eqb (a b : option Z) : bool := option_eqb Z.eqb a b.

Fixpoint last_opt {A} (l : list A) : option A :=
  match l with
  | [] => None
  | [x] => Some x
  | _ :: r => last_opt r
  end.

(* expected_delta of the stored table: relative_times[1] - relative_times[0] when it has two
   entries *)
Definition table_delta (tb : list point) : option Z :=
  match tb with
  | a :: b :: _ => Some (p_t b - p_t a)
  | _ => None
  end.

Definition mk_point (e : entry) : option point :=
  match c_ud (e_az e), c_ud (e_el e) with
  | Some a, Some b =>
      Some {| p_t := e_t e; p_azb := c_bits (e_az e); p_az := a;
              p_elb := c_bits (e_el e); p_el := b |}
  | _, _ => None
  end.

(* the loop over the received entries: [last] = last_relative_time (None: new, empty table),
   [delta] = expected_delta; returns the validated rows in order, None = answer 5 *)
Fixpoint scan (last : option Z) (delta : option Z) (es : list entry) : option (list point) :=
  match es with
  | [] => Some []
  | e :: r =>
      let t := e_t e in
      let chk :=
        match last with
        | None => if t =? 0 then Some delta else None
        | Some l =>
            let d := t - l in
            let ex := match delta with Some x => x | None => d end in
            if (d <=? 0) || negb (d =? ex) then None else Some (Some ex)
        end in
      match chk with
      | None => None
      | Some delta' =>
          match mk_point e with
          | None => None
          | Some p =>
              match scan (Some t) delta' r with
              | None => None
              | Some ps => Some (p :: ps)
              end
          end
      end
  end.

(* _program_track_parameter_command *)
Definition load (st : pstate) (h : header) (es : list entry) : pstate :=
  let n := Z.of_nat (length es) in
  if negb (h_param h =? 61) then answer st h 0 else
  if negb (h_interp h =? 4) then answer st h 5 else
  if negb (h_track h =? 1) then answer st h 5 else
  if negb ((h_mode h =? 1) || (h_mode h =? 2)) then answer st h 5 else
  if 50 <? n then answer st h 5 else
  if (h_mode h =? 1) && (n <? 5) then answer st h 5 else
  if (h_mode h =? 2) && (pt_len st =? 0) then answer st h 5 else
  match h_start h with
  | None => answer st h 5
  | Some s =>
      if (h_mode h =? 2) && negb (opt_eqb (Some s) (start st)) then answer st h 5 else
      let old := if h_mode h =? 1 then [] else tbl st in
      match scan (option_map p_t (last_opt old)) (table_delta old) es with
      | None => answer st h 5
      | Some new =>
          let tb := old ++ new in
          match last_opt tb with
          | None => answer st h 5          (* len(relative_times) < 4 *)
          | Some lp =>
              if Z.of_nat (length tb) <? 4 then answer st h 5 else
              (* end_time = start_time + timedelta(milliseconds=relative_times[-1]) overflows *)
              if h_room h <? p_t lp * 1000 then answer st h 5 else
              let newtab := h_mode h =? 1 in
              {| tbl := tb; tck := Some tb; start := Some s;
                 lastc := Some (p_az lp, p_el lp);
                 pt_state := if newtab then 2 else if pt_state st =? 3 then 3 else 2;
                 pt_len := Z.of_nat (length tb);
                 pt_act := pt_act st;
                 pt_end := (if newtab then 0 else pt_end st) + n;
                 interp := 4;
                 cnt := h_cnt h; cmd := h_param h; ans := 1;
                 pt_id := if newtab then Some (h_cnt h) else pt_id st;
                 az_bahn := az_bahn st; el_bahn := el_bahn st;
                 az_next := az_next st; el_next := el_next st |}
          end
      end
  end.

(* ---------------------------------------------------------------------- update_status *)

(* Python compares an int with a float exactly *)
Definition zltq (t : Z) (x : Q) : bool := t * Zpos (Qden x) <? Qnum x.
Definition qneg (x : Q) : bool := Qnum x <? 0.

(* bisect_left on a sorted list: the number of entries strictly below x *)
Fixpoint bisect_left (tb : list point) (x : Q) : nat :=
  match tb with
  | [] => 0%nat
  | p :: r => if zltq (p_t p) x then S (bisect_left r x) else 0%nat
  end.

(* operating ranges in microdegrees: the p_Bahn setters clamp to [lo - 1, hi + 1] *)
Record limits := { az_lo : Z; az_hi : Z; el_lo : Z; el_hi : Z }.
Definition clamp (lo hi v : Z) : Z := Z.max (Z.min v (hi + 1)) (lo - 1).

(* what the harness/oracle supplies about the spline at one instant: positions of both axes in
   microdegrees, and whether the velocity/acceleration values written to the unclamped INT32
   fields v_Bahn / a_Bahn fit *)
Record sval := { s_az : Z; s_el : Z; s_fits : bool }.

Definition set_track (st : pstate) (s : Z) (azb elb : Z) : pstate :=
  {| tbl := tbl st; tck := tck st; start := start st; lastc := lastc st;
     pt_state := s; pt_len := pt_len st; pt_act := pt_act st; pt_end := pt_end st;
     interp := interp st; cnt := cnt st; cmd := cmd st; ans := ans st; pt_id := pt_id st;
     az_bahn := azb; el_bahn := elb; az_next := az_next st; el_next := el_next st |}.

Definition set_next (st : pstate) : pstate :=
  {| tbl := tbl st; tck := tck st; start := start st; lastc := lastc st;
     pt_state := pt_state st; pt_len := pt_len st; pt_act := pt_act st; pt_end := pt_end st;
     interp := interp st; cnt := cnt st; cmd := cmd st; ans := ans st; pt_id := pt_id st;
     az_bahn := az_bahn st; el_bahn := el_bahn st;
     az_next := option_map p_az (hd_error (tbl st));
     el_next := option_map p_el (hd_error (tbl st)) |}.

Definition bahn_of (lim : limits) (a e : Z) : Z * Z :=
  (clamp (az_lo lim) (az_hi lim) a, clamp (el_lo lim) (el_hi lim) e).

(* state 2 before the start time: only the positions are written (clamped) *)
Definition use_spline0 (lim : limits) (st : pstate) (sv : sval) : pstate :=
  match tck st with
  | None => st
  | Some _ => let b := bahn_of lim (s_az sv) (s_el sv) in set_track st (pt_state st) (fst b) (snd b)
  end.

(* state 3: position, velocity and acceleration are written; v_Bahn / a_Bahn raise when the
   value does not fit INT32 *)
Definition use_spline (lim : limits) (st : pstate) (sv : sval) : option pstate :=
  match tck st with
  | None => Some st
  | Some _ => if s_fits sv
              then let b := bahn_of lim (s_az sv) (s_el sv) in
                   Some (set_track st (pt_state st) (fst b) (snd b))
              else None
  end.

(* the tracking part of update_status.  [sv0] / [sve]: the spline of the current az_tck / el_tck
   at 0 and at the elapsed time [x].  None: the call raises. *)
Definition advance (lim : limits) (sv0 sve : sval) (st : pstate) (x : Q) : option pstate :=
  if pt_state st =? 0 then Some st else
  match start st with
  | None => None                        (* None + timedelta: TypeError *)
  | Some _ =>
      let st1 :=
        if pt_state st =? 2 then
          if qneg x then use_spline0 lim st sv0
          else set_track st 3 (az_bahn st) (el_bahn st)
        else st in
      if pt_state st1 =? 3 then
        let i := bisect_left (tbl st1) x in
        if (i =? length (tbl st1))%nat then
          match lastc st1 with
          | None => None               (* None[0]: TypeError *)
          | Some (a, e) =>
              let b := bahn_of lim a e in
              Some {| tbl := []; tck := tck st1; start := start st1; lastc := lastc st1;
                      pt_state := 4; pt_len := 0; pt_act := 0; pt_end := 0;
                      interp := interp st1; cnt := cnt st1; cmd := cmd st1;
                      ans := ans st1; pt_id := pt_id st1; az_bahn := fst b; el_bahn := snd b;
                      az_next := az_next st1; el_next := el_next st1 |}
          end
        else
          match use_spline lim st1 sve with
          | None => None
          | Some st2 =>
              let tb := skipn i (tbl st2) in
              let n := Z.of_nat (length tb) in
              Some (set_next
                {| tbl := tb; tck := tck st2; start := start st2; lastc := lastc st2;
                   pt_state := 3; pt_len := n; pt_act := Z.of_nat i;
                   pt_end := Z.max (n - 1) 0;
                   interp := interp st2; cnt := cnt st2; cmd := cmd st2; ans := ans st2;
                   pt_id := pt_id st2; az_bahn := az_bahn st2; el_bahn := el_bahn st2;
                   az_next := az_next st2; el_next := el_next st2 |})
          end
      else Some (set_next st1)
  end.
