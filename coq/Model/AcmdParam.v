(* Executable model of the settable ACU quantities that have a read-back in the status blocks
   (agent Acmd; C05 part acu):
     simulators/acu/pointing_status.py  PointingStatus._parameter_command, _time_source,
        _time_offset, _program_track_time_correction  (fields timeSource, actTimeOffset,
        actPtTimeOffset and the three parameter_command fields)
     simulators/acu/axis_status.py  MasterAxisStatus._parameter_command with the two position
        offset handlers (field p_Offset) -- that model is Model/AcmdAxis.v [parameter_command]
   Doubles are Flocq binary64 values as in Model/AcmdAxis.v; int(round(x)) is [py_round_int],
   int(x) is [py_int].  timedelta(seconds=x) is modelled exactly as CPython computes it
   (datetime's delta_new / accum): whole seconds times 10^6 plus the double product
   10^6 * frac(x), the sum rounded half-even to whole microseconds.
   Python oracles (inputs of a case, as in C17): whether mjd_to_date(parameter_2) raises, and the
   day fraction of the frozen clock (day_percentage(timedelta(0)) falls into the `if not date`
   branch and returns the time of day -- a defect, kept faithfully).
   No proofs here. *)
From DS Require Import Base.Prelude Base.Bits Model.AcmdFrame Model.AcmdAxis.
From Flocq Require Import Core IEEE754.BinarySingleNaN.

Definition fsub : f64 -> f64 -> f64 := BinarySingleNaN.Bminus mode_NE.

(* num / 2^k rounded half-even, k >= 0 *)
Definition rhe_shift (num k : Z) : Z :=
  let den := 2 ^ k in
  let q := num / den in
  let r := num mod den in
  if 2 * r <? den then q else if den <? 2 * r then q + 1 else if Z.even q then q else q + 1.

(* T + d rounded half-even to an integer, d a finite double given exactly *)
Definition rne_add (T : Z) (d : f64) : Z :=
  match d with
  | B754_finite s m e _ =>
      let v := if s then Z.neg m else Z.pos m in
      if 0 <=? e then T + v * 2 ^ e else rhe_shift (T * 2 ^ (- e) + v) (- e)
  | _ => T
  end.

(* timedelta(seconds=x) in microseconds; None: ValueError (NaN) / OverflowError (infinity) *)
Definition timedelta_us (x : f64) : option Z :=
  if BinarySingleNaN.is_finite x then
    let ip := BinarySingleNaN.Btrunc x in                    (* modf: integral part *)
    let fp := fsub x (f_of_Z ip) in                          (* modf: fractional part, exact *)
    Some (rne_add (ip * 1000000) (fmul (f_of_Z 1000000) fp))
  else None.

(* utils.day_percentage(timedelta of us microseconds), us <> 0 *)
Definition day_fraction (us : Z) : f64 :=
  fdiv (fmul (fdiv (f_of_Z us) (f_of_Z 1000000)) (f_of_Z 1000000)) (f_of_Z 86400000000).

Record p5state := mkP5 {
  q_counter : Z; q_id : Z; q_answer : Z;     (* parameter_command_counter / _command / _answer *)
  q_pt_offset : Z;                           (* actPtTimeOffset [ms] *)
  q_time_source : Z;                         (* timeSource *)
  q_time_off : f64                           (* actTimeOffset [fraction of day] *)
}.
Definition p5_init : p5state := mkP5 0 0 0 0 1 (f_of_Z 0).

Definition p5_answer (p : p5state) (a : Z) : p5state :=
  mkP5 (q_counter p) (q_id p) a (q_pt_offset p) (q_time_source p) (q_time_off p).

(* day_percentage of a timedelta: zero is falsy, the code then uses the clock *)
Definition dp (now_frac : f64) (us : Z) : f64 := if us =? 0 then now_frac else day_fraction us.

Definition p5_time_source (mjd_ok : bool) (p : p5state) (p1 p2 : f64) : p5state * tout :=
  match py_int p1 with
  | None => (p, TDied)
  | Some k =>
      if negb ((k =? 1) || (k =? 2) || (k =? 3)) then (p5_answer p 5, TDone)
      else if (k =? 3) && negb mjd_ok then (p, TDied)
      else (mkP5 (q_counter p) (q_id p) 1 (q_pt_offset p) k (q_time_off p), TDone)
  end.

Definition p5_time_offset (now_frac : f64) (p : p5state) (p1 p2 : f64) : p5state * tout :=
  match py_int p1 with
  | None => (p, TDied)
  | Some k =>
      if negb ((1 <=? k) && (k <=? 4)) || fgt (fabs p2) (f_of_Z 86400000) then (p5_answer p 5, TDone)
      else
        let set v := (mkP5 (q_counter p) (q_id p) 1 (q_pt_offset p) (q_time_source p) v, TDone) in
        if k =? 1 then set (fadd (q_time_off p) (day_fraction 1000000))
        else if k =? 2 then set (fsub (q_time_off p) (day_fraction 1000000))
        else match timedelta_us p2 with
             | None => (p, TDied)
             | Some us => if k =? 3 then set (dp now_frac us)
                          else set (fadd (q_time_off p) (dp now_frac us))
             end
  end.

Definition p5_track_correction (p : p5state) (p1 : f64) : p5state * tout :=
  if fgt (fabs p1) (f_of_Z 86400000) then (p5_answer p 5, TDone)
  else match py_round_int (fmul p1 (f_of_Z 1000)) with
       | Some v => if fits_i32 v
                   then (mkP5 (q_counter p) (q_id p) 1 v (q_time_source p) (q_time_off p), TDone)
                   else (p, TDied)
       | None => (p, TDied)
       end.

(* PointingStatus._parameter_command *)
Definition p5_parameter_command (mjd_ok : bool) (now_frac : f64) (p : p5state) (cmd : list Z)
  : p5state * tout :=
  match uint_le (slice 4 8 cmd), uint_le (slice 8 10 cmd),
        real_le (slice 10 18 cmd), real_le (slice 18 26 cmd) with
  | Some cnt, Some pid, Some p1, Some p2 =>
      let p0 := mkP5 cnt pid (q_answer p) (q_pt_offset p) (q_time_source p) (q_time_off p) in
      if pid =? 50 then p5_time_source mjd_ok p0 p1 p2
      else if pid =? 51 then p5_time_offset now_frac p0 p1 p2
      else if pid =? 60 then p5_track_correction p0 p1
      else (p5_answer p0 5, TDone)
  | _, _, _, _ => (p, TDied)
  end.
