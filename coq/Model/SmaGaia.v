(* Executable model of simulators/gaia/__init__.py  System.parse(byte).  No proofs here.
   Framing: msg += byte; if msg does not start with '#': reset (and return True); a '\n' completes
   the line; no length bound.  Device: VD[10], VG[10], conf, cmd_id (the id token of the last
   accepted request, echoed in every later reply including errors 1000/1001 which keep the OLD id).
   randint(30, 36) of GETEMP is an oracle: the harness fixes its value per case ([temp]). *)
From DS Require Import Base.Prelude Model.SmaCommon.

Inductive gkind := KIdn | KLoadconf | KConf | KSetd | KSetg | KEcho | KGetvg | KGetvd | KGetid
                 | KGetref | KGetemp | KName.

(* commands / params dictionaries *)
Definition gaia_table : list (list Z * (gkind * Z)) := [
  ([42; 73; 68; 78; 63], (KIdn, 0))   (* star-IDN? *);
  ([76; 79; 65; 68; 67; 79; 78; 70], (KLoadconf, 1))   (* LOADCONF *);
  ([67; 79; 78; 70; 63], (KConf, 0))   (* CONF? *);
  ([83; 69; 84; 68], (KSetd, 2))   (* SETD *);
  ([83; 69; 84; 71], (KSetg, 2))   (* SETG *);
  ([83; 69; 84; 83; 71], (KEcho, 1))   (* SETSG *);
  ([83; 69; 84; 83; 68], (KEcho, 1))   (* SETSD *);
  ([83; 69; 84; 83; 71; 90], (KEcho, 1))   (* SETSGZ *);
  ([83; 69; 84; 83; 68; 90], (KEcho, 1))   (* SETSDZ *);
  ([83; 65; 86; 69; 67; 80; 85], (KEcho, 1))   (* SAVECPU *);
  ([82; 69; 83; 69; 84; 68], (KEcho, 1))   (* RESETD *);
  ([82; 69; 83; 69; 84; 71], (KEcho, 1))   (* RESETG *);
  ([83; 65; 86; 69], (KEcho, 1))   (* SAVE *);
  ([83; 69; 84; 68; 70], (KEcho, 1))   (* SETDF *);
  ([83; 69; 84; 71; 70], (KEcho, 1))   (* SETGF *);
  ([71; 69; 84; 69; 70], (KEcho, 1))   (* GETEF *);
  ([69; 78; 65; 66; 76; 69], (KEcho, 1))   (* ENABLE *);
  ([68; 73; 83; 65; 66; 76; 69], (KEcho, 1))   (* DISABLE *);
  ([71; 69; 84; 86; 71], (KGetvg, 1))   (* GETVG *);
  ([71; 69; 84; 86; 68], (KGetvd, 1))   (* GETVD *);
  ([71; 69; 84; 73; 68], (KGetid, 1))   (* GETID *);
  ([71; 69; 84; 82; 69; 70], (KGetref, 1))   (* GETREF *);
  ([71; 69; 84; 69; 77; 80], (KGetemp, 1))   (* GETEMP *);
  ([78; 65; 77; 69; 63], (KName, 0))   (* NAME? *)
].

Fixpoint gaia_lookup (t : list (list Z * (gkind * Z))) (tok : list Z) : option (gkind * Z) :=
  match t with
  | [] => None
  | (k, v) :: r => if zlist_eqb k tok then Some v else gaia_lookup r tok
  end.

Definition gaia_firmware : list Z := [71; 65; 73; 65; 32; 83; 105; 109; 117; 108; 97; 116; 111; 114; 32; 82; 101; 118; 46; 32; 49; 46; 48; 46; 48; 32; 47; 32; 50; 48; 50; 50; 46; 48; 50; 46; 48; 56; 46; 49].
Definition gaia_name : list Z := [71; 65; 73; 65; 83; 73; 77; 66; 79; 65; 82; 68].

(* errors dictionary (the codes _execute can produce) *)
Definition gaia_error_name (code : Z) : list Z :=
  if code =? 1000 then [69; 82; 82; 79; 82; 95; 65; 82; 71; 83; 95; 78; 79; 84; 95; 86; 65; 76; 73; 68] else
  if code =? 1001 then [69; 82; 82; 79; 82; 95; 67; 79; 77; 77; 65; 78; 68; 95; 85; 78; 75; 78; 79; 87; 78] else
  if code =? 1002 then [69; 82; 82; 79; 82; 95; 70; 73; 82; 83; 84; 95; 65; 82; 71; 95; 78; 79; 84; 95; 78; 85; 77; 66; 69; 82] else
  if code =? 1003 then [69; 82; 82; 79; 82; 95; 70; 73; 82; 83; 84; 95; 65; 82; 71; 95; 79; 85; 84; 95; 79; 70; 95; 82; 65; 78; 71; 69] else
  if code =? 1004 then [69; 82; 82; 79; 82; 95; 78; 79; 95; 65; 82; 71; 83] else
  if code =? 1008 then [69; 82; 82; 79; 82; 95; 83; 69; 67; 79; 78; 68; 95; 65; 82; 71; 95; 78; 79; 84; 95; 80; 82; 69; 83; 69; 78; 84] else
  if code =? 1009 then [69; 82; 82; 79; 82; 95; 83; 69; 67; 79; 78; 68; 95; 65; 82; 71; 95; 78; 79; 84; 95; 78; 85; 77; 66; 69; 82] else
  if code =? 1010 then [69; 82; 82; 79; 82; 95; 83; 69; 67; 79; 78; 68; 95; 65; 82; 71; 95; 79; 85; 84; 95; 79; 70; 95; 82; 65; 78; 71; 69] else
  if code =? 1015 then [69; 82; 82; 79; 82; 95; 84; 79; 79; 95; 77; 65; 78; 89; 95; 65; 82; 71; 83] else
  [].

Definition hex_digit (n : Z) : Z := if n <? 10 then 48 + n else 87 + n.
Fixpoint hex_of (l : list Z) : list Z :=
  match l with [] => [] | c :: r => hex_digit (c / 16) :: hex_digit (c mod 16) :: hex_of r end.

(* every reply is  header + body + ' ' + cmd_id + tail *)
Definition gaia_frame (body cid : list Z) : list Z := [35] ++ body ++ [32] ++ cid ++ [10].

(* f'#ERROR({code})[{name}]({hex!r-of-bytes}) {cmd_id}\n'  -- the hex string is a bytes object, so
   the f-string renders it as b'...' *)
Definition gaia_error_body (code : Z) : list Z :=
  let name := gaia_error_name code in
  [69; 82; 82; 79; 82; 40] ++ render_int code ++ [41; 91] ++ name ++ [93; 40; 98; 39]
  ++ hex_of name ++ [39; 41].
Definition gaia_error (code : Z) (cmd_id : list Z) : list Z := gaia_frame (gaia_error_body code) cmd_id.

Record gdev := { vd : list Z; vg : list Z; conf : Z; cmd_id : list Z }.
Definition gaia_dev0 : gdev := {| vd := repeat 0 10; vg := repeat 0 10; conf := 0; cmd_id := [] |}.

Definition with_id (d : gdev) (i : list Z) : gdev :=
  {| vd := vd d; vg := vg d; conf := conf d; cmd_id := i |}.

Definition gaia_reply (raw : list Z) (d : gdev) : list Z := gaia_frame raw (cmd_id d).

(* Python list indexing with a possibly negative index *)
Definition gpy_index (l : list Z) (i : Z) : option nat :=
  if 0 <=? i then (if i <? Z.of_nat (length l) then Some (Z.to_nat i) else None)
  else if 0 <=? Z.of_nat (length l) + i then Some (Z.to_nat (Z.of_nat (length l) + i)) else None.

Definition gaia_handle (temp : Z) (k : gkind) (d : gdev) (args : list Z) : gdev * outcome :=
  let x := hd 0 args in
  match k with
  | KIdn => (d, OReply (gaia_reply gaia_firmware d))
  | KName => (d, OReply (gaia_reply gaia_name d))
  | KConf => (d, OReply (gaia_reply (render_int (conf d)) d))
  | KLoadconf =>
      let d' := {| vd := vd d; vg := vg d; conf := x; cmd_id := cmd_id d |} in
      (d', OReply (gaia_reply (render_int x) d'))
  | KSetd =>
      match args, gpy_index (vd d) (x - 1) with
      | [_; y], Some n =>
          match set_nth n y (vd d) with
          | Some l => let d' := {| vd := l; vg := vg d; conf := conf d; cmd_id := cmd_id d |} in
                      (d', OReply (gaia_reply (render_int x) d'))
          | None => (d, OException)
          end
      | _, _ => (d, OException)
      end
  | KSetg =>
      match args, gpy_index (vg d) (x - 1) with
      | [_; y], Some n =>
          match set_nth n y (vg d) with
          | Some l => let d' := {| vd := vd d; vg := l; conf := conf d; cmd_id := cmd_id d |} in
                      (d', OReply (gaia_reply (render_int x) d'))
          | None => (d, OException)
          end
      | _, _ => (d, OException)
      end
  | KEcho => (d, OReply (gaia_reply (render_int x) d))
  | KGetvg =>
      match gpy_index (vg d) (x - 1) with
      | Some n => match nth_error (vg d) n with
                  | Some v => (d, OReply (gaia_reply (render_int v) d))
                  | None => (d, OException) end
      | None => (d, OException)
      end
  | KGetvd =>
      match gpy_index (vd d) (x - 1) with
      | Some n => match nth_error (vd d) n with
                  | Some v => (d, OReply (gaia_reply (render_int v) d))
                  | None => (d, OException) end
      | None => (d, OException)
      end
  | KGetid => (d, OReply (gaia_reply [48] d))
  | KGetref => (d, OReply (gaia_reply (if x =? 1 then [50; 46; 53] else [53]) d))
  | KGetemp => (d, OReply (gaia_reply (render_int temp) d))
  end.

(* args[1:-1], args[-1] for a non-empty token list *)
Definition mid_last (args : list (list Z)) : list (list Z) * list Z :=
  (removelast (tl args), last args []).

(* the validation part of _execute depends on the message only *)
Inductive gdecode :=
| DEmpty                                         (* no token: error 1000, previous id *)
| DUnknown                                       (* unknown command: error 1001, previous id *)
| DErr (code : Z) (cid : list Z)                 (* refused after self.cmd_id was set *)
| DOk (k : gkind) (args : list Z) (cid : list Z).

Definition gaia_tokens (msg : list Z) : list (list Z) := split_ws (strip (lstrip_ch 35 msg)).

Definition gaia_in_first (k : gkind) (x : Z) : bool :=
  match k with
  | KGetref | KGetemp => (x =? 1) || (x =? 2)
  | _ => (1 <=? x) && (x <? 11)
  end.

Definition gaia_decode (args : list (list Z)) : gdecode :=
  match args with
  | [] => DEmpty
  | a0 :: _ =>
      match gaia_lookup gaia_table a0 with
      | None => DUnknown
      | Some (k, l) =>
          let (margs, cid) := mid_last args in
          if l <? Z.of_nat (length margs) then DErr 1015 cid
          else if l =? 0 then DOk k [] cid
          else
            match margs with
            | [] => DErr 1004 cid
            | t0 :: rest =>
                match parse_int t0 with
                | None => DErr 1002 cid
                | Some x =>
                    if negb (gaia_in_first k x) then DErr 1003 cid
                    else if l =? 2 then
                      match rest with
                      | [] => DErr 1008 cid
                      | t1 :: _ =>
                          match parse_int t1 with
                          | None => DErr 1009 cid
                          | Some y =>
                              if negb ((0 <=? y) && (y <? 1024)) then DErr 1010 cid
                              else DOk k [x; y] cid
                          end
                      end
                    else DOk k [x] cid
                end
            end
      end
  end.

Definition gaia_exec (temp : Z) (d : gdev) (msg : list Z) : gdev * outcome :=
  match gaia_decode (gaia_tokens msg) with
  | DEmpty => (d, OReply (gaia_error 1000 (cmd_id d)))
  | DUnknown => (d, OReply (gaia_error 1001 (cmd_id d)))
  | DErr c cid => (with_id d cid, OReply (gaia_error c cid))
  | DOk k args cid => gaia_handle temp k (with_id d cid) args
  end.

(* the framer: no length bound; a byte that leaves msg not starting with '#' resets and returns True *)
Definition gaia_fstep (buf0 : list Z) (b : Z) : list Z * fevent :=
  let m := buf0 ++ [b] in
  match m with
  | 35 :: _ => if b =? 10 then ([], EExec (removelast m)) else (m, EOut OTrue)
  | _ => ([], EOut OTrue)
  end.

Definition gaia_state := sstate gdev.
Definition gaia_init : gaia_state := {| buf := []; dev := gaia_dev0 |}.
Definition gaia_step (temp : Z) : gaia_state -> Z -> gaia_state * outcome := sstep gaia_fstep (gaia_exec temp).
Definition gaia_run (temp : Z) : gaia_state -> list Z -> gaia_state * list outcome :=
  srun gaia_fstep (gaia_exec temp).
Definition gaia_idle : gaia_state -> bool := sidle.
