(* Executable model of the single-precision paths of simulators/utils.py (C09):
   real_to_bytes(x, 1, le) = struct.pack('!f', x)   (C cast double -> float, OverflowError when a
                                                      finite double rounds to infinity)
   bytes_to_real(b, 1, le) = struct.unpack('!f', b) (C cast float -> double, exact; NaNs quieted)
   Everything is integer arithmetic on the IEEE bit patterns.  No proofs here. *)
From DS Require Import Base.Prelude Base.Bits.

(* float32 pattern -> float64 pattern *)
Definition widen32 (p : Z) : Z :=
  let s := p / 2 ^ 31 in
  let e := (p / 2 ^ 23) mod 256 in
  let m := p mod 2 ^ 23 in
  if e =? 255 then
    if m =? 0 then s * 2 ^ 63 + 2047 * 2 ^ 52
    else s * 2 ^ 63 + 2047 * 2 ^ 52 + m * 2 ^ 29 + (if m <? 2 ^ 22 then 2 ^ 51 else 0)
  else if e =? 0 then
    if m =? 0 then s * 2 ^ 63
    else let k := Z.log2 m in
         s * 2 ^ 63 + (k - 149 + 1023) * 2 ^ 52 + (m - 2 ^ k) * 2 ^ (52 - k)
  else s * 2 ^ 63 + (e - 127 + 1023) * 2 ^ 52 + m * 2 ^ 29.

(* round M / 2^sh to nearest, ties to even; sh <= 0 is an exact left shift *)
Definition rne_shift (M sh : Z) : Z :=
  if sh <=? 0 then M * 2 ^ (- sh)
  else let q := M / 2 ^ sh in
       let r := M mod 2 ^ sh in
       let half := 2 ^ (sh - 1) in
       if (half <? r) || ((r =? half) && Z.odd q) then q + 1 else q.

(* float64 pattern -> float32 pattern; None = OverflowError *)
Definition narrow64 (q : Z) : option Z :=
  let s := q / 2 ^ 63 in
  let e := (q / 2 ^ 52) mod 2048 in
  let m := q mod 2 ^ 52 in
  if e =? 2047 then
    if m =? 0 then Some (s * 2 ^ 31 + 255 * 2 ^ 23)
    else Some (s * 2 ^ 31 + 255 * 2 ^ 23 + Z.lor (m / 2 ^ 29) (2 ^ 22))
  else
    let M := if e =? 0 then m else 2 ^ 52 + m in
    let E := if e =? 0 then -1074 else e - 1075 in          (* value = M * 2^E *)
    if M =? 0 then Some (s * 2 ^ 31)
    else
      let t := Z.log2 M + E in                               (* 2^t <= value < 2^(t+1) *)
      let normal := -126 <=? t in
      let qe := if normal then t - 23 else -149 in           (* exponent of the last kept bit *)
      let R := rne_shift M (qe - E) in
      let base := if normal then (t + 126) * 2 ^ 23 else 0 in
      let bits := base + R in                                (* carries propagate into the exponent *)
      if 255 * 2 ^ 23 <=? bits then None else Some (s * 2 ^ 31 + bits).

Definition is_snan32 (p : Z) : bool :=
  ((p / 2 ^ 23) mod 256 =? 255) && negb (p mod 2 ^ 23 =? 0) && (p mod 2 ^ 23 <? 2 ^ 22).

(* the utils functions on byte strings *)
Definition bytes_to_real32 (l : list Z) (le : bool) : option Z :=       (* result: float64 pattern *)
  if (length l =? 4)%nat then Some (widen32 (be_dec (if le then rev l else l))) else None.

Definition real_to_bytes32 (x64 : Z) (le : bool) : option (list Z) :=
  match narrow64 x64 with
  | None => None
  | Some p => let be := be_enc 4 p in Some (if le then rev be else be)
  end.
