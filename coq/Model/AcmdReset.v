(* Executable model of the status flags of an ACU axis and of MasterAxisStatus._reset (mode
   command 15) (agent Acmd; C14).  Extends Model/AcmdAxis.v without changing it: an [xaxis] is the
   [axis] of that file plus the parts of the 92-byte status array no command handler other than
   `_reset` writes:
     xa_gen   status[0:6]   simulation, axis_ready, confOk, initOk, override, low_power_mode (bit i)
     xa_warn  status[6:10]  the warning word (bit i = warnings[i]) without bit 25
                            (Stowpins_Extracted, which is [pins_extracted] of [motion]); its
                            limit / rate bits are written by update_status only
     xa_err   status[10:14] the error word (bit i = errors[i])
     xa_aux   p_Bahn, p_AbwFil, v_Bahn, a_Bahn, motor_selection, power_module_ok, ptState,
              stow_pin_selection (never written after construction)
   `_reset` is 27 assignments `self.<flag> = False` followed by the three executed_mode_command
   assignments; each flag setter reads the error word, replaces character k and writes it back,
   i.e. [Z.clearbit w k].  The bit list [reset_clears] is generated from the source of `_reset`
   and of the setters (gen/acmd_tables.py), as is [error_flags], the named bits of the word.
   No proofs here. *)
From DS Require Import Base.Prelude Base.Bits Model.Utils Gen.AcmdTables.
From DS Require Import Model.AcmdFrame Model.AcmdAxis.

Record xaxis := mkXa {
  xa_ax : axis;
  xa_gen : Z;
  xa_warn : Z;
  xa_err : Z;
  xa_aux : list Z
}.

Definition with_ax (x : xaxis) (ax : axis) : xaxis :=
  mkXa ax (xa_gen x) (xa_warn x) (xa_err x) (xa_aux x).

(* `self.<flag k> = False` for every k of the list, in order *)
Definition clear_bits (w : Z) (ks : list Z) : Z := fold_left Z.clearbit ks w.

(* the flag assignments of `_reset` *)
Definition reset_flags (x : xaxis) : xaxis :=
  mkXa (xa_ax x) (xa_gen x) (xa_warn x) (clear_bits (xa_err x) reset_clears) (xa_aux x).

(* does `_mode_command` call `_reset` for this command?  (decoding succeeded, the mode's handler
   is `_reset`, the validation answered 9) *)
Definition reset_runs (cfg : acfg) (ax : axis) (cmd : list Z) : bool :=
  match uint_le (slice 4 8 cmd), real_le (slice 10 18 cmd), real_le (slice 18 26 cmd) with
  | Some _, Some p1, Some p2 =>
      let mode := int_le (slice 8 10 cmd) in
      match zlookup mode mode_commands with
      | Some H_reset => validate cfg (mo ax) mode p1 p2 =? 9
      | _ => false
      end
  | _, _, _ => false
  end.

(* MasterAxisStatus._mode_command on the extended state *)
Definition xmode_command (cfg : acfg) (x : xaxis) (cmd : list Z) : xaxis * tout :=
  let r := mode_command cfg (xa_ax x) cmd in
  let x1 := with_ax x (fst r) in
  (if reset_runs cfg (xa_ax x) cmd then reset_flags x1 else x1, snd r).

(* MasterAxisStatus._parameter_command on the extended state *)
Definition xparameter_command (x : xaxis) (cmd : list Z) : xaxis * tout :=
  let r := parameter_command (xa_ax x) cmd in (with_ax x (fst r), snd r).

(* one started command thread on the axis it addresses (command ids 1 and 2) *)
Definition xapply (cfg : acfg) (x : xaxis) (cid : Z) (cmd : list Z) : xaxis * tout :=
  if cid =? 1 then xmode_command cfg x cmd
  else if cid =? 2 then xparameter_command x cmd
  else (x, TDied).
