(* Executable model of simulators/switch_matrix/__init__.py : System.parse(byte), with
   fixes/23-switch-matrix-config-range.diff applied (the setter refuses a configuration that is not
   a key of the matrix table, set_IF_switch_config answers NACK on ValueError).

   parse: '\n' -> msg, self.msg = ''; return self._parse(msg)   | else buffer, return True
   _parse: for command in msg.replace('\r', '').split(';'):
             args = re.split(r'\W+', command); fewer than 2 pieces -> skip
             cmd_name = commands.get(args[0] + ' ' + args[1])
             if len(args) > 2: return getattr(self, cmd_name)(args[2])      (returns at once)
             answer += getattr(self, cmd_name)() + ';'
           return answer[:-1] if answer else True
   getattr(self, None) -> TypeError; a method called with the wrong number of arguments ->
   TypeError; get on an index that is not in the table -> KeyError (kept in the model; proved
   unreachable under the device invariant). *)
From DS Require Import Base.Prelude Model.SmbCommon.
From Coq Require String.

Module SwLit.
  Import String.
  Local Open Scope string_scope.
  Definition SW_SET : list Z := Eval cbv in str "set IF_switch_config".
  Definition SW_GET : list Z := Eval cbv in str "get IF_switch_config".
  Definition HBS : list Z := Eval cbv in str "HBS".
  Definition VBS : list Z := Eval cbv in str "VBS".
  Definition LBP : list Z := Eval cbv in str "LBP".
  Definition UBP : list Z := Eval cbv in str "UBP".
End SwLit.
Export SwLit.

Record mdev := mkM { idx : Z }.     (* SwitchMatrix._switch_matrix; the table is constant *)

Definition sw_init : mdev := mkM 1.

(* self._matrix[k][-1] *)
Definition sw_table (k : Z) : option (list Z) :=
  if k =? 1 then Some HBS else if k =? 2 then Some VBS
  else if k =? 3 then Some LBP else if k =? 4 then Some UBP else None.

Inductive mcmd := MSet | MGet.

Definition sw_lookup (name : list Z) : option mcmd :=
  if zlist_eqb name SW_SET then Some MSet
  else if zlist_eqb name SW_GET then Some MGet
  else None.

(* f'{k}:{name}' + tail *)
Definition sw_render (k : Z) (name : list Z) : list Z := dec k ++ [58] ++ name ++ CRLF.

(* set_IF_switch_config(params) *)
Definition sw_set (d : mdev) (tok : list Z) : mdev * outcome :=
  match py_int tok with
  | None => (d, OReply (NACK ++ CRLF))
  | Some v =>
      match sw_table v with
      | Some _ => (mkM v, OReply (ACK ++ CRLF))
      | None => (d, OReply (NACK ++ CRLF))
      end
  end.

Fixpoint sw_cmds (d : mdev) (items : list (list Z)) (cmds : list (list Z)) : mdev * outcome :=
  match cmds with
  | [] => (d, if nonempty items then OReply (join_semi items) else OTrue)
  | c :: r =>
      match re_split_nonword c with
      | a0 :: a1 :: rest =>
          match sw_lookup (a0 ++ [SP] ++ a1), rest with
          | None, _ => (d, OException TypeError)
          | Some MSet, a2 :: _ => sw_set d a2
          | Some MGet, _ :: _ => (d, OException TypeError)      (* get takes no parameter *)
          | Some MSet, [] => (d, OException TypeError)          (* set needs one *)
          | Some MGet, [] =>
              match sw_table (idx d) with
              | Some nm => sw_cmds d (items ++ [sw_render (idx d) nm]) r
              | None => (d, OException KeyError)
              end
          end
      | _ => sw_cmds d items r
      end
  end.

Definition sw_exec (d : mdev) (msg : list Z) : mdev * outcome :=
  sw_cmds d [] (split_on SEMI (filter (fun c => negb (c =? CR)) msg)).

Definition sw_state := @lstate mdev.
Definition sw_start : sw_state := mkL [] sw_init.
Definition sw_step := lstep sw_exec.
Definition sw_run := lrun sw_exec.
Definition sw_idle : sw_state -> bool := lidle.

(* ---------------------------------------------------------------- specification-side definitions *)
Definition sw_configs : list Z := [1; 2; 3; 4].

(* C04: independent decoder: `ACK`/`NACK` CR LF, or ';'-separated `<k>:<name>` CR LF items with
   (k, name) a row of the documented table *)
Definition sw_items : list (list Z) :=
  [[49; 58] ++ HBS ++ CRLF; [50; 58] ++ VBS ++ CRLF; [51; 58] ++ LBP ++ CRLF; [52; 58] ++ UBP ++ CRLF].
Definition sw_item_okb (i : list Z) : bool := existsb (zlist_eqb i) sw_items.
Definition sw_reply_wfb (r : list Z) : bool :=
  zlist_eqb r (ACK ++ CRLF) || zlist_eqb r (NACK ++ CRLF) || forallb sw_item_okb (split_on SEMI r).

(* C05: the one register: set line for a token, and the expected read-back of configuration v *)
Definition sw_write (tok : list Z) : list Z := SW_SET ++ [61] ++ tok ++ [CR].
Definition sw_enc (v : Z) : list Z :=
  match sw_table v with Some nm => sw_render v nm | None => [] end.

(* C02: the query catalogue (lines, without the final LF) *)
Definition sw_queries : list (list Z) := [SW_GET ++ [CR]; SW_GET].
