(* Field slicing of a program-track parameter command as done by the decoder side
   (simulators/acu/pointing_status.py PointingStatus._program_track_parameter_command:
   command[4:8], [8:10], [10:12], [12:14], [14:16], [16:18], [18:26], [26:34], [34:42] and, for
   i < sequence_length, byte_entries[20i : 20i+4], [20i+4 : 20i+12], [20i+12 : 20i+20]).
   Doubles stay bit patterns (agent Acmd, C10 part acu).  No proofs here. *)
From DS Require Import Base.Prelude Base.Bits Model.AcmdFrame.

Fixpoint dec_entries (n : nat) (bs : list Z) : list (Z * Z * Z) :=
  match n with
  | O => []
  | S k => (int_le (firstn 4 bs), le_dec (slice 4 12 bs), le_dec (slice 12 20 bs))
           :: dec_entries k (skipn 20 bs)
  end.

Record track_fields := mkTF {
  tf_counter : Z; tf_pid : Z; tf_interp : Z; tf_track : Z; tf_load : Z; tf_n : Z;
  tf_t0 : Z; tf_raz : Z; tf_rel : Z; tf_entries : list (Z * Z * Z)
}.

Definition dec_track (b : list Z) : track_fields :=
  let n := le_dec (slice 16 18 b) in
  mkTF (le_dec (slice 4 8 b)) (le_dec (slice 8 10 b)) (le_dec (slice 10 12 b))
       (le_dec (slice 12 14 b)) (le_dec (slice 14 16 b)) n
       (le_dec (slice 18 26 b)) (le_dec (slice 26 34 b)) (le_dec (slice 34 42 b))
       (dec_entries (Z.to_nat n) (skipn 42 b)).
