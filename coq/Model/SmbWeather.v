(* Executable model of simulators/weather_station/__init__.py : System.parse(byte).

   The receive buffer is a dictionary keyed by the identifier of the calling thread
   (threading.current_thread().ident): one buffer per handler thread.  A model step therefore takes
   the thread id together with the byte.

   parse: m = (self.msg.get(t) or '') + byte
     len 1:  byte in {'r','w'} -> keep, True      else delete the entry, False
     len 2:  byte == ' '       -> keep, True      else delete, False
     byte == '\n': args = m.strip().split()
         2 args: delete; command must be 'r' -> reply of _read(args[1])      else False
         4 args: command must be 'w' (else delete, False); value = float(args[2]) (0.0 on
                 ValueError); delete; _write(sensor, value, date) -> reply of _read
         otherwise: delete, False
     else keep, True
   Oracle (per case): fmt tok = f'{v:0.6f}' where v = float(tok), or 0.0 when float(tok) raises
   ValueError.  The model stores the rendered text.  The initial sensor table (id, rendered value,
   date, info) is read from the real instance and given to the model as its configuration. *)
From DS Require Import Base.Prelude Model.SmbCommon.
From Coq Require String.

Module WsLit.
  Import String.
  Local Open Scope string_scope.
  Definition WS_OPEN : list Z := Eval cbv in str "<Sensor><Id>".
  Definition WS_VAL : list Z := Eval cbv in str "</Id><Val>".
  Definition WS_DATE : list Z := Eval cbv in str "</Val><Date>".
  Definition WS_INFO : list Z := Eval cbv in str "</Date><Info>".
  Definition WS_CLOSE : list Z := Eval cbv in str "</Info></Sensor>".
  Definition WS_ERR : list Z := Eval cbv in
    str "<Sensor><Id>sintax error or sensor not found</Id><Val>1.000000</Val><Date>error</Date><Info>error</Info></Sensor>".
End WsLit.
Export WsLit.

Record sensor := mkSen { sid : list Z; sval : list Z; sdate : list Z; sinfo : list Z }.

Record wsdev := mkWs { bufs : list (Z * list Z); sensors : list sensor }.

Definition ws_init (cfg : list sensor) : wsdev := mkWs [] cfg.

Fixpoint buf_get (t : Z) (m : list (Z * list Z)) : option (list Z) :=
  match m with
  | [] => None
  | (k, v) :: r => if k =? t then Some v else buf_get t r
  end.
Fixpoint buf_del (t : Z) (m : list (Z * list Z)) : list (Z * list Z) :=
  match m with
  | [] => []
  | (k, v) :: r => if k =? t then buf_del t r else (k, v) :: buf_del t r
  end.
Definition buf_set (t : Z) (v : list Z) (m : list (Z * list Z)) : list (Z * list Z) := (t, v) :: buf_del t m.

Fixpoint sen_find (id : list Z) (l : list sensor) : option sensor :=
  match l with
  | [] => None
  | s :: r => if zlist_eqb (sid s) id then Some s else sen_find id r
  end.
Fixpoint sen_update (id val date : list Z) (l : list sensor) : list sensor :=
  match l with
  | [] => []
  | s :: r => if zlist_eqb (sid s) id then mkSen (sid s) val date (sinfo s) :: r
              else s :: sen_update id val date r
  end.

(* _read(sensor) *)
Definition ws_read (l : list sensor) (id : list Z) : list Z :=
  match sen_find id l with
  | Some s => WS_OPEN ++ id ++ WS_VAL ++ sval s ++ WS_DATE ++ sdate s ++ WS_INFO ++ sinfo s ++ WS_CLOSE
  | None => WS_ERR
  end.

Definition R_CHAR : Z := 114.
Definition W_CHAR : Z := 119.

Section WithOracle.
  Variable fmt : list Z -> option (list Z).

  (* the completed line [m] (terminator included) of thread t *)
  Definition ws_line (d : wsdev) (t : Z) (m : list Z) : wsdev * outcome :=
    let cleared := mkWs (buf_del t (bufs d)) (sensors d) in
    match split_ws (strip m) with
    | [a0; a1] =>
        if zlist_eqb a0 [R_CHAR] then (cleared, OReply (ws_read (sensors d) a1))
        else if zlist_eqb a0 [W_CHAR] then (cleared, OFalse)
        else (mkWs (buf_set t (strip m) (bufs d)) (sensors d), OException TypeError)
    | [a0; a1; a2; a3] =>
        if zlist_eqb a0 [W_CHAR] then
          match fmt a2 with
          | Some v => let l := sen_update a1 v a3 (sensors d) in
                      (mkWs (buf_del t (bufs d)) l, OReply (ws_read l a1))
          | None => (d, ONoOracle)
          end
        else if zlist_eqb a0 [R_CHAR] then (cleared, OFalse)
        else (mkWs (buf_set t (strip m) (bufs d)) (sensors d), OException TypeError)
    | [_] | [] => (cleared, OFalse)
    | a0 :: _ =>
        if zlist_eqb a0 [R_CHAR] || zlist_eqb a0 [W_CHAR] then (cleared, OFalse)
        else (mkWs (buf_set t (strip m) (bufs d)) (sensors d), OException TypeError)
    end.

  Definition ws_step (d : wsdev) (t b : Z) : wsdev * outcome :=
    let cur := match buf_get t (bufs d) with Some v => v | None => [] end in
    let m := cur ++ [b] in
    let drop := mkWs (buf_del t (bufs d)) (sensors d) in
    let keep := mkWs (buf_set t m (bufs d)) (sensors d) in
    match m with
    | [_] => if (b =? R_CHAR) || (b =? W_CHAR) then (keep, OTrue) else (drop, OFalse)
    | [_; _] => if b =? SP then (keep, OTrue) else (drop, OFalse)
    | _ => if b =? LF then ws_line d t m else (keep, OTrue)
    end.

  Fixpoint ws_run (d : wsdev) (ops : list (Z * Z)) : wsdev * list outcome :=
    match ops with
    | [] => (d, [])
    | (t, b) :: r =>
        let r1 := ws_step d t b in
        let r2 := ws_run (fst r1) r in
        (fst r2, snd r1 :: snd r2)
    end.
End WithOracle.

(* thread t is idle: it has no pending buffer *)
Definition ws_idle (d : wsdev) (t : Z) : bool :=
  match buf_get t (bufs d) with None => true | Some _ => false end.

Definition fmt_of_table (tab : list (list Z * list Z)) (tok : list Z) : option (list Z) := assoc tok tab.

(* ---------------------------------------------------------------- specification-side definitions *)
Definition ws_query (id : list Z) : list Z := [R_CHAR; SP] ++ id ++ [LF].
Definition on_thread (t : Z) (bs : list Z) : list (Z * Z) := map (fun b => (t, b)) bs.

(* C04 decoder: the error string, or the five tags in order *)
Fixpoint starts_with (p s : list Z) : option (list Z) :=
  match p, s with
  | [], _ => Some s
  | x :: p', y :: s' => if x =? y then starts_with p' s' else None
  | _ :: _, [] => None
  end.
Fixpoint find_after (fuel : nat) (p s : list Z) : option (list Z) :=   (* text after the first occurrence of p *)
  match starts_with p s with
  | Some r => Some r
  | None => match fuel, s with
            | S f, _ :: s' => find_after f p s'
            | _, _ => None
            end
  end.
Definition ws_reply_wfb (r : list Z) : bool :=
  zlist_eqb r WS_ERR ||
  match starts_with WS_OPEN r with
  | Some r1 =>
      match find_after (length r1) WS_VAL r1 with
      | Some r2 => match find_after (length r2) WS_DATE r2 with
                   | Some r3 => match find_after (length r3) WS_INFO r3 with
                                | Some r4 => match find_after (length r4) WS_CLOSE r4 with
                                             | Some _ => true | None => false end
                                | None => false end
                   | None => false end
      | None => false
      end
  | None => false
  end.

(* C05: the sensor a step writes, if it completes a write command (`w <id> <value> <date>` LF with
   the value token known to the oracle); every other step is not a write *)
Definition ws_written (d : wsdev) (t b : Z) : option (list Z) :=
  let cur := match buf_get t (bufs d) with Some v => v | None => [] end in
  let m := cur ++ [b] in
  match m with
  | [_] | [_; _] => None
  | _ => if b =? LF then
           match split_ws (strip m) with
           | [a0; a1; _; _] => if zlist_eqb a0 [W_CHAR] then Some a1 else None
           | _ => None
           end
         else None
  end.

(* a history (any threads, any bytes) in which no step completes a write to sensor [id] *)
Fixpoint ws_no_write (fmt : list Z -> option (list Z)) (id : list Z) (d : wsdev) (ops : list (Z * Z)) : Prop :=
  match ops with
  | [] => True
  | (t, b) :: r => ws_written d t b <> Some id /\ ws_no_write fmt id (fst (ws_step fmt d t b)) r
  end.

(* C04, as a proposition: the error string, or the five tags in order around four fields *)
Definition ws_row_text (id v dt info : list Z) : list Z :=
  WS_OPEN ++ id ++ WS_VAL ++ v ++ WS_DATE ++ dt ++ WS_INFO ++ info ++ WS_CLOSE.
Definition ws_reply_wf (r : list Z) : Prop :=
  r = WS_ERR \/ exists id v dt info, r = ws_row_text id v dt info.
