(* C16 (tag Alay) — executable model of the ACU status blocks and of the status frame.
   No proofs here.

   A status block (multiprocessing Array(c_char, n)) is a [list Z] of bytes.  Every property of
   the five status classes (general_status.py, axis_status.py:SimpleAxisStatus, motor_status.py,
   pointing_status.py, facility_status.py) is one [field] record of a layout table; the tables
   are *generated* from the source on every run (gen/alay_layout.py -> Gen/AlayLayout.v).
   [get f b] / [set e f v b] are the getter / setter of a field, written against the utils
   codecs of Model/Utils.v (C09), string manipulations included.  A Python exception in a
   setter is [None] (the block is then unchanged in the implementation).

   Python values: bool -> VBool, int -> VInt, float -> VReal (its binary64 bit pattern),
   list/tuple of bools -> VBools, tuple of two ints -> VPair, anything else -> VOther.
   bool is a subclass of int in Python: where the code tests isinstance(value, int) a VBool
   is accepted as 0/1. *)
From Coq Require Import String Floats.SpecFloat.
From DS Require Import Base.Prelude Base.Bits Model.Utils Model.UtilsF32.

Inductive bitorder :=
| LsbFirst      (* view = bytes_to_binary(word)[::-1]: index k is bit k of the little-endian word *)
| MsbPerByte.   (* view = bytes_to_binary(word[::-1]): index k is bit 7 - k mod 8 of byte k / 8 *)

Inductive dom :=
| DAny                    (* isinstance(value, int) only; the width check of uint_to_bytes remains *)
| DRange (lo hi : Z)      (* lo <= value < hi *)
| DList (l : list Z).     (* value in l *)

Inductive kind :=
| KBool                                          (* one byte, bool *)
| KBit (woff wlen idx : nat) (o : bitorder)      (* bit idx of the view over bytes woff .. woff+wlen *)
| KUint (d : dom)                                (* little-endian unsigned, flen bytes *)
| KInt (clamped : bool)                          (* little-endian two's complement; clamped to the axis limits *)
| KReal64
| KReal32
| KBits (n : nat) (pos : list nat)               (* n booleans; the k-th goes to bit (nth k pos) of the word *)
| KVersion                                       (* (major, minor) *)
| KView.                                         (* read-only view (raw bytes / bit string); no setter *)

Record field := { fname : string; foff : nat; flen : nat; fkind : kind }.

(* instance parameters of an axis (constructor arguments), in microdegrees *)
Record axis_env := { pos_lo : Z; pos_hi : Z; v_max : Z; stow_pos : list Z; n_motors : nat }.

Inductive block_id := BGS | BAZ | BEL | BCW | BMotors (ax : block_id) | BPS | BFS.

Inductive value :=
| VBool (b : bool) | VInt (z : Z) | VReal (bits : Z) | VBools (l : list bool) | VPair (a b : Z)
| VBytes (l : list Z) | VOther.

Definition block := list Z.

(* ---------- slices ---------- *)
Definition slice (o n : nat) (b : block) : list Z := firstn n (skipn o b).

(* self.status[o:o+len(new)] = new  (ctypes refuses a size mismatch) *)
Definition splice (o : nat) (new : list Z) (b : block) : option block :=
  if (o + length new <=? length b)%nat
  then Some (firstn o b ++ new ++ skipn (o + length new) b) else None.

Fixpoint upd {A} (k : nat) (x : A) (l : list A) : list A :=
  match l, k with
  | [], _ => []
  | _ :: t, O => x :: t
  | h :: t, S k' => h :: upd k' x t
  end.

(* ---------- IEEE-754 conversions (Coq.Floats.SpecFloat, computational only) ---------- *)
Section Ieee.
  Variables mw ew : Z.      (* mantissa / exponent field widths *)
  Let prec := mw + 1.
  Let emax := 2 ^ (ew - 1).
  Let bias := emax - 1.

  Inductive dec := DZero (s : bool) | DInf (s : bool) | DNan (s : bool) (payload : Z) | DFin (s : bool) (m : positive) (e : Z).

  Definition decode (x : Z) : dec :=
    let s := Z.odd (x / 2 ^ (mw + ew)) in
    let ex := (x / 2 ^ mw) mod 2 ^ ew in
    let mx := x mod 2 ^ mw in
    if ex =? 0 then (if mx =? 0 then DZero s else DFin s (Z.to_pos mx) (3 - emax - prec))
    else if ex =? 2 ^ ew - 1 then (if mx =? 0 then DInf s else DNan s mx)
    else DFin s (Z.to_pos (mx + 2 ^ mw)) (ex - bias - mw).

  Definition sbit (s : bool) : Z := if s then 2 ^ (mw + ew) else 0.

  (* bits of a canonical spec_float; NaN never reaches this function *)
  Definition encode (f : spec_float) : Z :=
    match f with
    | S754_zero s => sbit s
    | S754_infinity s => sbit s + (2 ^ ew - 1) * 2 ^ mw
    | S754_nan => (2 ^ ew - 1) * 2 ^ mw + 2 ^ (mw - 1)
    | S754_finite s m e =>
        if Zpos m <? 2 ^ mw then sbit s + Zpos m
        else sbit s + (e + bias + mw) * 2 ^ mw + (Zpos m - 2 ^ mw)
    end.

  Definition round_to (s : bool) (m : positive) (e : Z) : spec_float :=
    binary_normalize prec emax (if s then Zneg m else Zpos m) e s.
End Ieee.

(* every bit pattern a conversion produces fits its width (checked here so that no theorem has to
   reason about rounding; the check never fails on the real conversions) *)
Definition fits (w : Z) (r : Z) : option Z := if (0 <=? r) && (r <? 2 ^ w) then Some r else None.

(* float(z) as a binary64 bit pattern; OverflowError -> None *)
Definition f64_of_Z (z : Z) : option Z :=
  match binary_normalize 53 1024 z 0 false with
  | S754_infinity _ => None
  | f => fits 64 (encode 52 11 f)
  end.

(* SpecFloat rendering of the same two casts (kept as an independent second model: the
   correspondence suite compares both with struct.pack / struct.unpack on every run).
   struct.pack('!f', x) for a double given by its bits: (float)x, OverflowError when a finite
   double becomes infinite; NaN: sign kept, quiet bit set, top 22 payload bits kept (cvtsd2ss) *)
Definition f32_of_f64_spec (x : Z) : option Z :=
  match decode 52 11 x with
  | DZero s => fits 32 (sbit 23 8 s)
  | DInf s => fits 32 (sbit 23 8 s + 255 * 2 ^ 23)
  | DNan s p => fits 32 (sbit 23 8 s + 255 * 2 ^ 23 + Z.lor (2 ^ 22) (p / 2 ^ 29))
  | DFin s m e =>
      match round_to 23 8 s m e with
      | S754_infinity _ => None
      | f => fits 32 (encode 23 8 f)
      end
  end.

(* struct.unpack('!f', b) widened to a double (exact; a signalling NaN is quieted: cvtss2sd) *)
Definition f64_of_f32_spec (x : Z) : Z :=
  match decode 23 8 x with
  | DZero s => sbit 52 11 s
  | DInf s => sbit 52 11 s + 2047 * 2 ^ 52
  | DNan s p => sbit 52 11 s + 2047 * 2 ^ 52 + Z.lor (2 ^ 51) (p * 2 ^ 29)
  | DFin s m e => encode 52 11 (round_to 52 11 s m e)
  end.

(* The conversions the accessors use: the integer model of the C casts of Model/UtilsF32.v (C09),
   for which Proofs/UtilsF32Proofs.v proves narrow64 (widen32 p) = Some p off the signalling NaNs.
   [fits 32] keeps the width of the result a checked fact (it never fails on a 64-bit pattern). *)
Definition f32_of_f64 (x : Z) : option Z :=
  match narrow64 x with Some s => fits 32 s | None => None end.

Definition f64_of_f32 (x : Z) : Z := widen32 x.

(* ---------- values ---------- *)
Definition as_int (v : value) : option Z :=
  match v with VInt z => Some z | VBool b => Some (b2z b) | _ => None end.

Definition in_dom (d : dom) (z : Z) : bool :=
  match d with
  | DAny => true
  | DRange lo hi => (lo <=? z) && (z <? hi)
  | DList l => existsb (Z.eqb z) l
  end.

(* the value a real-number setter packs: float bits, or float(int) *)
Definition as_f64 (v : value) : option Z :=
  match v with
  | VReal r => fits 64 r
  | VInt z => f64_of_Z z
  | VBool b => f64_of_Z (b2z b)
  | _ => None
  end.

Definition clamp (e : axis_env) (z : Z) : Z := Z.max (Z.min z (pos_hi e + 1)) (pos_lo e - 1).

(* the '0'/'1' view of a bit word *)
Definition bit_view (o : bitorder) (word : list Z) : list bool :=
  match o with
  | LsbFirst => rev (bytes_to_binary word true)
  | MsbPerByte => bytes_to_binary (rev word) true
  end.

(* string of the KBits setter: position p holds value[k] when nth k pos = p, else '0' *)
Fixpoint place (pos : list nat) (l : list bool) (s : list bool) : list bool :=
  match pos, l with
  | p :: pos', x :: l' => place pos' l' (upd p x s)
  | _, _ => s
  end.

(* ---------- getter ---------- *)
Definition get (f : field) (b : block) : option value :=
  let raw := slice (foff f) (flen f) b in
  if negb (length raw =? flen f)%nat then None else
  match fkind f with
  | KBool => option_map (fun u => VBool (negb (u =? 0))) (bytes_to_uint raw true)
  | KBit woff wlen idx o =>
      let word := slice woff wlen b in
      if negb (length word =? wlen)%nat then None
      else option_map VBool (nth_error (bit_view o word) idx)
  | KUint _ => option_map VInt (bytes_to_uint raw true)
  | KInt _ => Some (VInt (bytes_to_int raw true))
  | KReal64 => if (flen f =? 8)%nat then Some (VReal (le_dec raw)) else None
  | KReal32 => if (flen f =? 4)%nat then Some (VReal (f64_of_f32 (le_dec raw))) else None
  | KBits _ _ => Some (VBools (rev (bytes_to_binary raw true)))
  | KVersion =>
      match raw with
      | [mi; ma] =>
          match bytes_to_uint [ma] true, bytes_to_uint [mi] true with
          | Some x, Some y => Some (VPair x y)
          | _, _ => None
          end
      | _ => None
      end
  | KView => Some (VBytes raw)
  end.

(* ---------- setter ---------- *)
Definition set (e : axis_env) (f : field) (v : value) (b : block) : option block :=
  match fkind f with
  | KBool =>
      match v with
      | VBool x => if (flen f =? 1)%nat then splice (foff f) [b2z x] b else None
      | _ => None
      end
  | KBit woff wlen idx o =>
      match v with
      | VBool x =>
          let word := slice woff wlen b in
          if negb (length word =? wlen)%nat then None else
          let view := bit_view o word in
          if (idx <? length view)%nat
          then splice woff (binary_to_bytes (rev (upd idx x view)) true) b
          else None
      | _ => None
      end
  | KUint d =>
      match as_int v with
      | Some z =>
          if in_dom d z then
            match uint_to_bytes z (flen f) true with
            | Some bs => splice (foff f) bs b
            | None => None
            end
          else None
      | None => None
      end
  | KInt c =>
      match as_int v with
      | Some z =>
          match int_to_bytes (if c then clamp e z else z) (flen f) true with
          | Some bs => splice (foff f) bs b
          | None => None
          end
      | None => None
      end
  | KReal64 =>
      match as_f64 v with
      | Some r => if (flen f =? 8)%nat then splice (foff f) (le_enc 8 r) b else None
      | None => None
      end
  | KReal32 =>
      match as_f64 v with
      | Some r =>
          match f32_of_f64 r with
          | Some s => if (flen f =? 4)%nat then splice (foff f) (le_enc 4 s) b else None
          | None => None
          end
      | None => None
      end
  | KBits n pos =>
      match v with
      | VBools l =>
          if (length l =? n)%nat && (length pos =? n)%nat && forallb (fun p => (p <? 8 * flen f)%nat) pos
          then splice (foff f) (binary_to_bytes (rev (place pos l (repeat false (8 * flen f)))) true) b
          else None
      | _ => None
      end
  | KVersion =>
      match v with
      | VPair ma mi =>
          match int_to_twos ma 1, int_to_twos mi 1 with
          | Some sa, Some si => splice (foff f) (binary_to_bytes (sa ++ si) true) b
          | _, _ => None
          end
      | _ => None
      end
  | KView => None
  end.

(* ---------- by-name access (update_status, correspondence) ---------- *)
Fixpoint find_field (t : list field) (name : string) : option field :=
  match t with
  | [] => None
  | f :: t' => if String.eqb (fname f) name then Some f else find_field t' name
  end.

Definition getn (t : list field) (name : string) (b : block) : option value :=
  match find_field t name with Some f => get f b | None => None end.

Definition setn (t : list field) (e : axis_env) (name : string) (v : value) (b : block) : option block :=
  match find_field t name with Some f => set e f v b | None => None end.

Definition get_int (t : list field) (name : string) (b : block) : option Z :=
  match getn t name b with Some (VInt z) => Some z | _ => None end.

(* a sequence of assignments; a refused one leaves the block as it is *)
Definition set_or_keep (t : list field) (e : axis_env) (op : string * value) (b : block) : block :=
  match setn t e (fst op) (snd op) b with Some b' => b' | None => b end.

Definition run_sets (t : list field) (e : axis_env) (ops : list (string * value)) (b : block) : block :=
  fold_left (fun acc op => set_or_keep t e op acc) ops b.

(* ---------- MasterAxisStatus.update_status / SlaveAxisStatus.update_status ---------- *)
Definition bind {A B} (x : option A) (f : A -> option B) : option B :=
  match x with Some a => f a | None => None end.

(* a sequence of assignments all of which must be accepted (an exception aborts the method) *)
Definition seq_sets (t : list field) (e : axis_env) (ops : list (string * value)) (b : block) : option block :=
  fold_left (fun acc op => bind acc (setn t e (fst op) (snd op))) ops (Some b).

Definition flags (l : list (string * bool)) : list (string * value) :=
  map (fun nv => (fst nv, VBool (snd nv))) l.

Definition set_flags (t : list field) (e : axis_env) (l : list (string * bool)) (b : block) : option block :=
  seq_sets t e (flags l) b.

Definition update_status_master (t : list field) (e : axis_env) (b : block) : option block :=
  bind (get_int t "p_Ist"%string b) (fun p0 =>
  bind (match stow_pos e with
        | [] => Some b
        | _ => setn t e "stowPosOk"%string (VBool (existsb (Z.eqb p0) (stow_pos e))) b
        end) (fun b1 =>
  bind (get_int t "p_Ist"%string b1) (fun p =>
  bind (set_flags t e
          (if p =? pos_lo e then [("Pre_Limit_Dn"%string, true); ("Fin_Limit_Dn"%string, false)]
           else if p <? pos_lo e then [("Pre_Limit_Dn"%string, true); ("Fin_Limit_Dn"%string, true)]
           else [("Pre_Limit_Dn"%string, false); ("Fin_Limit_Dn"%string, false)]) b1) (fun b2 =>
  bind (get_int t "p_Ist"%string b2) (fun p' =>
  bind (set_flags t e
          (if p' =? pos_hi e then [("Pre_Limit_Up"%string, true); ("Fin_Limit_Up"%string, false)]
           else if pos_hi e <? p' then [("Pre_Limit_Up"%string, true); ("Fin_Limit_Up"%string, true)]
           else [("Pre_Limit_Up"%string, false); ("Fin_Limit_Up"%string, false)]) b2) (fun b3 =>
  bind (get_int t "v_Ist"%string b3) (fun v =>
  setn t e "Rate_Limit"%string (VBool (v_max e <? Z.abs v)) b3))))))).

Definition update_status_slave (t : list field) (e : axis_env) (master_axis_state : Z) (b : block) : option block :=
  setn t e "brakes_open"%string
    (VBools (if master_axis_state =? 3
             then repeat true (n_motors e) ++ repeat false (16 - n_motors e)
             else repeat false 16)) b.



(* ---------- the status frame (System.__init__, System._update_status) ---------- *)
(* Array(c_char, size) zero-filled, start flag, length field, end flag *)
Definition frame_init (size : nat) (start_flag end_flag : list Z) (length_field : Z) : option block :=
  bind (splice 0 start_flag (repeat 0 size)) (fun f1 =>
  bind (uint_to_bytes length_field 4 true) (fun lf =>
  bind (splice 4 lf f1) (fun f2 =>
  splice (size - 4) end_flag f2))).

(* status[8:12] = uint_to_bytes(ms); status[12:-4] = concatenation of the blocks' raw bytes *)
Definition frame_update (fr : block) (ms : Z) (blocks : list block) : option block :=
  bind (uint_to_bytes ms 4 true) (fun msb =>
  bind (splice 8 msb fr) (fun f1 =>
  let payload := concat blocks in
  if (length payload + 16 =? length fr)%nat then splice 12 payload f1 else None)).

(* offsets of the blocks inside the frame: 12, 12 + |b0|, ... *)
Fixpoint offsets (start : nat) (sizes : list nat) : list nat :=
  match sizes with
  | [] => []
  | s :: t => start :: offsets (start + s) t
  end.

(* ---------- what MasterAxisStatus._mode_command records as "received mode command" ----------
   command = mode_commands.get(mode_id); unknown or ignore -> 0, else the mode id itself *)
Definition received_mode (codes : list Z) (mode_id : Z) : Z :=
  if existsb (Z.eqb mode_id) codes then mode_id else 0.

(* ---------- the blocks of a System: an assignment addresses one block ---------- *)
Definition sys_set (descs : list (list field * axis_env)) (k : nat) (op : string * value)
                   (st : list block) : list block :=
  match nth_error descs k, nth_error st k with
  | Some (t, e), Some b => upd k (set_or_keep t e op b) st
  | _, _ => st
  end.

Definition sys_run (descs : list (list field * axis_env)) (ops : list (nat * (string * value)))
                   (st : list block) : list block :=
  fold_left (fun acc o => sys_set descs (fst o) (snd o) acc) ops st.
