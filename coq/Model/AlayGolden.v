(* C16 (tag Alay) - GOLDEN copy of the ACU status layout *)
From Coq Require Import String.
From DS Require Import Base.Prelude Model.AlayModel.
#[local] Open Scope string_scope.
Definition gs_size : nat := 25.
Definition gs_table : list field := [
  {| fname := "version"; foff := 0; flen := 2; fkind := KVersion |};
  {| fname := "master"; foff := 2; flen := 1; fkind := (KUint (DRange 0 6)) |};
  {| fname := "status_HMI"; foff := 3; flen := 2; fkind := (KBits 6 [0%nat; 1%nat; 2%nat; 4%nat; 5%nat; 6%nat]) |};
  {| fname := "software_IO"; foff := 5; flen := 1; fkind := KBool |};
  {| fname := "simulation"; foff := 6; flen := 1; fkind := KBool |};
  {| fname := "control_system_on"; foff := 7; flen := 1; fkind := KBool |};
  {| fname := "service"; foff := 8; flen := 1; fkind := KBool |};
  {| fname := "HW_interlock"; foff := 9; flen := 4; fkind := KView |};
  {| fname := "EStop_Device"; foff := 9; flen := 1; fkind := (KBit 9 4 0 LsbFirst) |};
  {| fname := "ES_SP"; foff := 9; flen := 1; fkind := (KBit 9 4 1 LsbFirst) |};
  {| fname := "ES_Drive_AZ1_2"; foff := 9; flen := 1; fkind := (KBit 9 4 2 LsbFirst) |};
  {| fname := "ES_Drive_AZ3_4"; foff := 9; flen := 1; fkind := (KBit 9 4 3 LsbFirst) |};
  {| fname := "ES_Drive_AZ5_6"; foff := 9; flen := 1; fkind := (KBit 9 4 4 LsbFirst) |};
  {| fname := "ES_Drive_AZ7_8"; foff := 9; flen := 1; fkind := (KBit 9 4 5 LsbFirst) |};
  {| fname := "ES_Drive_EL1_2"; foff := 9; flen := 1; fkind := (KBit 9 4 6 LsbFirst) |};
  {| fname := "ES_Drive_EL3_4"; foff := 9; flen := 1; fkind := (KBit 9 4 7 LsbFirst) |};
  {| fname := "ES_LCP"; foff := 10; flen := 1; fkind := (KBit 9 4 8 LsbFirst) |};
  {| fname := "ES_Cablewrap"; foff := 10; flen := 1; fkind := (KBit 9 4 9 LsbFirst) |};
  {| fname := "ES_AER1"; foff := 10; flen := 1; fkind := (KBit 9 4 10 LsbFirst) |};
  {| fname := "ES_AER2"; foff := 10; flen := 1; fkind := (KBit 9 4 11 LsbFirst) |};
  {| fname := "ES_HHP"; foff := 10; flen := 1; fkind := (KBit 9 4 12 LsbFirst) |};
  {| fname := "ES_PCP"; foff := 10; flen := 1; fkind := (KBit 9 4 13 LsbFirst) |};
  {| fname := "ES_EER"; foff := 10; flen := 1; fkind := (KBit 9 4 14 LsbFirst) |};
  {| fname := "ES_EER_Key"; foff := 10; flen := 1; fkind := (KBit 9 4 15 LsbFirst) |};
  {| fname := "ES_EER_Door"; foff := 11; flen := 1; fkind := (KBit 9 4 16 LsbFirst) |};
  {| fname := "ES_BOX_10"; foff := 11; flen := 1; fkind := (KBit 9 4 17 LsbFirst) |};
  {| fname := "ES_SFR_1"; foff := 11; flen := 1; fkind := (KBit 9 4 18 LsbFirst) |};
  {| fname := "ES_SFR_2"; foff := 11; flen := 1; fkind := (KBit 9 4 19 LsbFirst) |};
  {| fname := "SW_interlock"; foff := 13; flen := 4; fkind := KView |};
  {| fname := "Control_System_Off"; foff := 13; flen := 1; fkind := (KBit 13 4 0 LsbFirst) |};
  {| fname := "Power_Control_Sys"; foff := 13; flen := 1; fkind := (KBit 13 4 1 LsbFirst) |};
  {| fname := "Power_Drive_Cab"; foff := 13; flen := 1; fkind := (KBit 13 4 2 LsbFirst) |};
  {| fname := "Power_Supply_DC"; foff := 13; flen := 1; fkind := (KBit 13 4 3 LsbFirst) |};
  {| fname := "Fieldbus_Error"; foff := 13; flen := 1; fkind := (KBit 13 4 5 LsbFirst) |};
  {| fname := "Interlock_Cmd"; foff := 13; flen := 1; fkind := (KBit 13 4 6 LsbFirst) |};
  {| fname := "SaDev_ES_FbErr"; foff := 13; flen := 1; fkind := (KBit 13 4 7 LsbFirst) |};
  {| fname := "SaDev_ES_CommErr"; foff := 14; flen := 1; fkind := (KBit 13 4 8 LsbFirst) |};
  {| fname := "SaDev_ES_OutErr"; foff := 14; flen := 1; fkind := (KBit 13 4 9 LsbFirst) |};
  {| fname := "SaDev_MD_FbErr"; foff := 14; flen := 1; fkind := (KBit 13 4 10 LsbFirst) |};
  {| fname := "SaDev_MD_CommErr"; foff := 14; flen := 1; fkind := (KBit 13 4 11 LsbFirst) |};
  {| fname := "SaDev_MD_OutErr"; foff := 14; flen := 1; fkind := (KBit 13 4 12 LsbFirst) |};
  {| fname := "Emergency_Stop"; foff := 14; flen := 1; fkind := (KBit 13 4 13 LsbFirst) |};
  {| fname := "Power_UPS"; foff := 14; flen := 1; fkind := (KBit 13 4 15 LsbFirst) |};
  {| fname := "Power_UPS_Alarm"; foff := 15; flen := 1; fkind := (KBit 13 4 16 LsbFirst) |};
  {| fname := "ACU_DI_Power"; foff := 15; flen := 1; fkind := (KBit 13 4 17 LsbFirst) |};
  {| fname := "ECU_DI_Power"; foff := 15; flen := 1; fkind := (KBit 13 4 18 LsbFirst) |};
  {| fname := "Power_DO_Int"; foff := 15; flen := 1; fkind := (KBit 13 4 19 LsbFirst) |};
  {| fname := "Main_Power"; foff := 15; flen := 1; fkind := (KBit 13 4 20 LsbFirst) |};
  {| fname := "Overvoltage_Prot"; foff := 15; flen := 1; fkind := (KBit 13 4 21 LsbFirst) |};
  {| fname := "Temp_Error_Rack"; foff := 15; flen := 1; fkind := (KBit 13 4 22 LsbFirst) |};
  {| fname := "diag_signal"; foff := 17; flen := 8; fkind := KReal64 |}
].
Definition axis_size : nat := 92.
Definition axis_table : list field := [
  {| fname := "simulation"; foff := 0; flen := 1; fkind := KBool |};
  {| fname := "axis_ready"; foff := 1; flen := 1; fkind := KBool |};
  {| fname := "confOk"; foff := 2; flen := 1; fkind := KBool |};
  {| fname := "initOk"; foff := 3; flen := 1; fkind := KBool |};
  {| fname := "override"; foff := 4; flen := 1; fkind := KBool |};
  {| fname := "low_power_mode"; foff := 5; flen := 1; fkind := KBool |};
  {| fname := "warnings"; foff := 6; flen := 4; fkind := KView |};
  {| fname := "Param_Fault"; foff := 6; flen := 1; fkind := (KBit 6 4 0 LsbFirst) |};
  {| fname := "Rate_Mode"; foff := 6; flen := 1; fkind := (KBit 6 4 1 LsbFirst) |};
  {| fname := "Safety_Chain"; foff := 6; flen := 1; fkind := (KBit 6 4 2 LsbFirst) |};
  {| fname := "Wrong_Sys_State"; foff := 6; flen := 1; fkind := (KBit 6 4 3 LsbFirst) |};
  {| fname := "Temp_Enc"; foff := 6; flen := 1; fkind := (KBit 6 4 4 LsbFirst) |};
  {| fname := "Power_Brakes"; foff := 6; flen := 1; fkind := (KBit 6 4 6 LsbFirst) |};
  {| fname := "Power_Servo"; foff := 6; flen := 1; fkind := (KBit 6 4 7 LsbFirst) |};
  {| fname := "Fan_Fault"; foff := 7; flen := 1; fkind := (KBit 6 4 8 LsbFirst) |};
  {| fname := "Servo_DC_Off"; foff := 7; flen := 1; fkind := (KBit 6 4 9 LsbFirst) |};
  {| fname := "Motor_Temp_Warn"; foff := 7; flen := 1; fkind := (KBit 6 4 10 LsbFirst) |};
  {| fname := "Servo_DC_Warn"; foff := 7; flen := 1; fkind := (KBit 6 4 11 LsbFirst) |};
  {| fname := "M_Max_Exceeded"; foff := 7; flen := 1; fkind := (KBit 6 4 12 LsbFirst) |};
  {| fname := "Pos_Enc_Fault"; foff := 7; flen := 1; fkind := (KBit 6 4 13 LsbFirst) |};
  {| fname := "Em_Limit_Dn"; foff := 7; flen := 1; fkind := (KBit 6 4 15 LsbFirst) |};
  {| fname := "Em_Limit_Up"; foff := 8; flen := 1; fkind := (KBit 6 4 16 LsbFirst) |};
  {| fname := "Degraded_Mode"; foff := 8; flen := 1; fkind := (KBit 6 4 17 LsbFirst) |};
  {| fname := "Override_Act"; foff := 8; flen := 1; fkind := (KBit 6 4 18 LsbFirst) |};
  {| fname := "Pre_Limit_Up"; foff := 8; flen := 1; fkind := (KBit 6 4 19 LsbFirst) |};
  {| fname := "Pre_Limit_Dn"; foff := 8; flen := 1; fkind := (KBit 6 4 20 LsbFirst) |};
  {| fname := "Fin_Limit_Up"; foff := 8; flen := 1; fkind := (KBit 6 4 21 LsbFirst) |};
  {| fname := "Fin_Limit_Dn"; foff := 8; flen := 1; fkind := (KBit 6 4 22 LsbFirst) |};
  {| fname := "Rate_Limit"; foff := 8; flen := 1; fkind := (KBit 6 4 23 LsbFirst) |};
  {| fname := "Stow_Fault"; foff := 9; flen := 1; fkind := (KBit 6 4 24 LsbFirst) |};
  {| fname := "Stowpins_Extracted"; foff := 9; flen := 1; fkind := (KBit 6 4 25 LsbFirst) |};
  {| fname := "Low_Power_Act"; foff := 9; flen := 1; fkind := (KBit 6 4 26 LsbFirst) |};
  {| fname := "LimDn_inconsist"; foff := 9; flen := 1; fkind := (KBit 6 4 29 LsbFirst) |};
  {| fname := "LimUp_inconsist"; foff := 9; flen := 1; fkind := (KBit 6 4 30 LsbFirst) |};
  {| fname := "errors"; foff := 10; flen := 4; fkind := KView |};
  {| fname := "Error_Active"; foff := 10; flen := 1; fkind := (KBit 10 4 0 LsbFirst) |};
  {| fname := "System_fault"; foff := 10; flen := 1; fkind := (KBit 10 4 1 LsbFirst) |};
  {| fname := "Em_Stop"; foff := 10; flen := 1; fkind := (KBit 10 4 2 LsbFirst) |};
  {| fname := "Em_Limit_Dn_Act"; foff := 10; flen := 1; fkind := (KBit 10 4 3 LsbFirst) |};
  {| fname := "Em_Limit_Up_Act"; foff := 10; flen := 1; fkind := (KBit 10 4 4 LsbFirst) |};
  {| fname := "Brake_Error"; foff := 10; flen := 1; fkind := (KBit 10 4 6 LsbFirst) |};
  {| fname := "Power_Error"; foff := 10; flen := 1; fkind := (KBit 10 4 7 LsbFirst) |};
  {| fname := "Servo_Error"; foff := 11; flen := 1; fkind := (KBit 10 4 8 LsbFirst) |};
  {| fname := "Servo_Timeout"; foff := 11; flen := 1; fkind := (KBit 10 4 9 LsbFirst) |};
  {| fname := "v_Motor_Exceed"; foff := 11; flen := 1; fkind := (KBit 10 4 11 LsbFirst) |};
  {| fname := "Servo_Overload"; foff := 11; flen := 1; fkind := (KBit 10 4 12 LsbFirst) |};
  {| fname := "Pos_Enc_Error"; foff := 11; flen := 1; fkind := (KBit 10 4 13 LsbFirst) |};
  {| fname := "Pos_Enc_Step"; foff := 11; flen := 1; fkind := (KBit 10 4 14 LsbFirst) |};
  {| fname := "p_Range_Exceed"; foff := 11; flen := 1; fkind := (KBit 10 4 15 LsbFirst) |};
  {| fname := "p_Dev_Exceed"; foff := 12; flen := 1; fkind := (KBit 10 4 16 LsbFirst) |};
  {| fname := "Servo_DC_Error"; foff := 12; flen := 1; fkind := (KBit 10 4 17 LsbFirst) |};
  {| fname := "Override_Error"; foff := 12; flen := 1; fkind := (KBit 10 4 18 LsbFirst) |};
  {| fname := "Cmd_Timeout"; foff := 12; flen := 1; fkind := (KBit 10 4 19 LsbFirst) |};
  {| fname := "Rate_Loop_Err"; foff := 12; flen := 1; fkind := (KBit 10 4 22 LsbFirst) |};
  {| fname := "v_Dev_Exceed"; foff := 12; flen := 1; fkind := (KBit 10 4 23 LsbFirst) |};
  {| fname := "Stow_Error"; foff := 13; flen := 1; fkind := (KBit 10 4 24 LsbFirst) |};
  {| fname := "Stow_Timeout"; foff := 13; flen := 1; fkind := (KBit 10 4 25 LsbFirst) |};
  {| fname := "Extern_Error"; foff := 13; flen := 1; fkind := (KBit 10 4 26 LsbFirst) |};
  {| fname := "Safety_Dev_Error"; foff := 13; flen := 1; fkind := (KBit 10 4 27 LsbFirst) |};
  {| fname := "Com_Error"; foff := 13; flen := 1; fkind := (KBit 10 4 29 LsbFirst) |};
  {| fname := "Pre_Limit_Err"; foff := 13; flen := 1; fkind := (KBit 10 4 30 LsbFirst) |};
  {| fname := "Fin_Limit_Err"; foff := 13; flen := 1; fkind := (KBit 10 4 31 LsbFirst) |};
  {| fname := "axis_state"; foff := 14; flen := 2; fkind := (KUint (DRange 0 4)) |};
  {| fname := "axis_trajectory_state"; foff := 16; flen := 2; fkind := (KUint (DList [0; 1; 2; 3; 4; 6; 7])) |};
  {| fname := "p_Soll"; foff := 18; flen := 4; fkind := (KInt true) |};
  {| fname := "p_Bahn"; foff := 22; flen := 4; fkind := (KInt true) |};
  {| fname := "p_Ist"; foff := 26; flen := 4; fkind := (KInt true) |};
  {| fname := "p_AbwFil"; foff := 30; flen := 4; fkind := (KInt true) |};
  {| fname := "v_Soll"; foff := 34; flen := 4; fkind := (KInt false) |};
  {| fname := "v_Bahn"; foff := 38; flen := 4; fkind := (KInt false) |};
  {| fname := "v_Ist"; foff := 42; flen := 4; fkind := (KInt false) |};
  {| fname := "a_Bahn"; foff := 46; flen := 4; fkind := (KInt false) |};
  {| fname := "p_Offset"; foff := 50; flen := 4; fkind := (KInt false) |};
  {| fname := "motor_selection"; foff := 54; flen := 2; fkind := (KBits 16 [0%nat; 1%nat; 2%nat; 3%nat; 4%nat; 5%nat; 6%nat; 7%nat; 8%nat; 9%nat; 10%nat; 11%nat; 12%nat; 13%nat; 14%nat; 15%nat]) |};
  {| fname := "brakes_open"; foff := 56; flen := 2; fkind := (KBits 16 [0%nat; 1%nat; 2%nat; 3%nat; 4%nat; 5%nat; 6%nat; 7%nat; 8%nat; 9%nat; 10%nat; 11%nat; 12%nat; 13%nat; 14%nat; 15%nat]) |};
  {| fname := "power_module_ok"; foff := 58; flen := 2; fkind := (KBits 16 [0%nat; 1%nat; 2%nat; 3%nat; 4%nat; 5%nat; 6%nat; 7%nat; 8%nat; 9%nat; 10%nat; 11%nat; 12%nat; 13%nat; 14%nat; 15%nat]) |};
  {| fname := "stowed"; foff := 60; flen := 1; fkind := KBool |};
  {| fname := "stowPosOk"; foff := 61; flen := 1; fkind := KBool |};
  {| fname := "stow_pin_in"; foff := 62; flen := 2; fkind := (KBits 16 [0%nat; 1%nat; 2%nat; 3%nat; 4%nat; 5%nat; 6%nat; 7%nat; 8%nat; 9%nat; 10%nat; 11%nat; 12%nat; 13%nat; 14%nat; 15%nat]) |};
  {| fname := "stow_pin_out"; foff := 64; flen := 2; fkind := (KBits 16 [0%nat; 1%nat; 2%nat; 3%nat; 4%nat; 5%nat; 6%nat; 7%nat; 8%nat; 9%nat; 10%nat; 11%nat; 12%nat; 13%nat; 14%nat; 15%nat]) |};
  {| fname := "stow_pin_selection"; foff := 66; flen := 2; fkind := (KBits 16 [0%nat; 1%nat; 2%nat; 3%nat; 4%nat; 5%nat; 6%nat; 7%nat; 8%nat; 9%nat; 10%nat; 11%nat; 12%nat; 13%nat; 14%nat; 15%nat]) |};
  {| fname := "mode_command_status"; foff := 68; flen := 16; fkind := KView |};
  {| fname := "received_mode_command_status"; foff := 68; flen := 8; fkind := KView |};
  {| fname := "received_mode_command_counter"; foff := 68; flen := 4; fkind := (KUint DAny) |};
  {| fname := "received_mode_command"; foff := 72; flen := 2; fkind := (KUint DAny) |};
  {| fname := "received_mode_command_answer"; foff := 74; flen := 2; fkind := (KUint (DList [0; 4; 5; 9])) |};
  {| fname := "executed_mode_command_status"; foff := 76; flen := 8; fkind := KView |};
  {| fname := "executed_mode_command_counter"; foff := 76; flen := 4; fkind := (KUint DAny) |};
  {| fname := "executed_mode_command"; foff := 80; flen := 2; fkind := (KUint DAny) |};
  {| fname := "executed_mode_command_answer"; foff := 82; flen := 2; fkind := (KUint (DList [0; 1; 2; 3])) |};
  {| fname := "parameter_command_status"; foff := 84; flen := 8; fkind := KView |};
  {| fname := "parameter_command_counter"; foff := 84; flen := 4; fkind := (KUint DAny) |};
  {| fname := "parameter_command"; foff := 88; flen := 2; fkind := (KUint DAny) |};
  {| fname := "parameter_command_answer"; foff := 90; flen := 2; fkind := (KUint (DList [0; 1; 4; 5])) |}
].
Definition motor_size : nat := 27.
Definition motor_table : list field := [
  {| fname := "actual_position"; foff := 0; flen := 4; fkind := KReal32 |};
  {| fname := "actual_velocity"; foff := 4; flen := 4; fkind := KReal32 |};
  {| fname := "actual_torque"; foff := 8; flen := 4; fkind := KReal32 |};
  {| fname := "rate_of_utilization"; foff := 12; flen := 4; fkind := KReal32 |};
  {| fname := "active"; foff := 16; flen := 1; fkind := (KUint (DRange 0 2)) |};
  {| fname := "speed_of_rotation"; foff := 17; flen := 1; fkind := (KUint (DRange 0 2)) |};
  {| fname := "speed_of_rotation_OK"; foff := 18; flen := 1; fkind := (KUint (DRange 0 2)) |};
  {| fname := "position"; foff := 19; flen := 1; fkind := (KUint (DRange 0 2)) |};
  {| fname := "bus"; foff := 20; flen := 1; fkind := (KUint (DRange 0 2)) |};
  {| fname := "servo"; foff := 21; flen := 1; fkind := (KUint (DRange 0 2)) |};
  {| fname := "sensor"; foff := 22; flen := 1; fkind := (KUint (DRange 0 2)) |};
  {| fname := "motWarnCode"; foff := 23; flen := 4; fkind := KView |};
  {| fname := "wa_iQuad_t"; foff := 23; flen := 1; fkind := (KBit 23 4 0 LsbFirst) |};
  {| fname := "wa_Temp_Amplifier"; foff := 23; flen := 1; fkind := (KBit 23 4 1 LsbFirst) |};
  {| fname := "wa_Temp_Mot"; foff := 23; flen := 1; fkind := (KBit 23 4 2 LsbFirst) |};
  {| fname := "wa_v_Max_Exceeded"; foff := 23; flen := 1; fkind := (KBit 23 4 3 LsbFirst) |};
  {| fname := "wa_M_Max_Exceeded"; foff := 23; flen := 1; fkind := (KBit 23 4 4 LsbFirst) |};
  {| fname := "wa_Mot_Overload"; foff := 23; flen := 1; fkind := (KBit 23 4 5 LsbFirst) |};
  {| fname := "wa_Temp_Cooling"; foff := 23; flen := 1; fkind := (KBit 23 4 6 LsbFirst) |};
  {| fname := "wa_Temp_Extern"; foff := 23; flen := 1; fkind := (KBit 23 4 7 LsbFirst) |};
  {| fname := "wa_Temp_Pow_Supply"; foff := 24; flen := 1; fkind := (KBit 23 4 8 LsbFirst) |};
  {| fname := "wa_Temp_ERM_Module"; foff := 24; flen := 1; fkind := (KBit 23 4 9 LsbFirst) |};
  {| fname := "wa_U_Max"; foff := 24; flen := 1; fkind := (KBit 23 4 10 LsbFirst) |};
  {| fname := "wa_U_Min"; foff := 24; flen := 1; fkind := (KBit 23 4 11 LsbFirst) |};
  {| fname := "wa_Intermed_Circ_Voltage"; foff := 24; flen := 1; fkind := (KBit 23 4 12 LsbFirst) |};
  {| fname := "wa_Wrong_Mode"; foff := 24; flen := 1; fkind := (KBit 23 4 13 LsbFirst) |};
  {| fname := "wa_err_cmd_M"; foff := 24; flen := 1; fkind := (KBit 23 4 14 LsbFirst) |};
  {| fname := "wa_err_sts_SBM"; foff := 24; flen := 1; fkind := (KBit 23 4 15 LsbFirst) |};
  {| fname := "wa_err_sts_EF"; foff := 25; flen := 1; fkind := (KBit 23 4 16 LsbFirst) |};
  {| fname := "wa_err_sts_RF"; foff := 25; flen := 1; fkind := (KBit 23 4 17 LsbFirst) |}
].
Definition ps_size : nat := 129.
Definition ps_table : list field := [
  {| fname := "confVersion"; foff := 0; flen := 8; fkind := KReal64 |};
  {| fname := "confOk"; foff := 8; flen := 1; fkind := KBool |};
  {| fname := "posEncAz"; foff := 9; flen := 4; fkind := (KInt false) |};
  {| fname := "pointOffsetAz"; foff := 13; flen := 4; fkind := (KInt false) |};
  {| fname := "posCalibChartAz"; foff := 17; flen := 4; fkind := (KInt false) |};
  {| fname := "posCorrTableAz_F_plst_El"; foff := 21; flen := 4; fkind := (KInt false) |};
  {| fname := "posCorrTableAzOn"; foff := 25; flen := 1; fkind := KBool |};
  {| fname := "encAzFault"; foff := 26; flen := 1; fkind := KBool |};
  {| fname := "sectorSwitchAz"; foff := 27; flen := 1; fkind := KBool |};
  {| fname := "posEncEl"; foff := 28; flen := 4; fkind := (KInt false) |};
  {| fname := "pointOffsetEl"; foff := 32; flen := 4; fkind := (KInt false) |};
  {| fname := "posCalibChartEl"; foff := 36; flen := 4; fkind := (KInt false) |};
  {| fname := "posCorrTableEl_F_plst_Az"; foff := 40; flen := 4; fkind := (KInt false) |};
  {| fname := "posCorrTableElOn"; foff := 44; flen := 1; fkind := KBool |};
  {| fname := "encElFault"; foff := 45; flen := 1; fkind := KBool |};
  {| fname := "posEncCw"; foff := 46; flen := 4; fkind := (KInt false) |};
  {| fname := "posCalibChartCw"; foff := 50; flen := 4; fkind := (KInt false) |};
  {| fname := "encCwFault"; foff := 54; flen := 1; fkind := KBool |};
  {| fname := "timeSource"; foff := 55; flen := 2; fkind := (KUint (DRange 1 4)) |};
  {| fname := "actTime"; foff := 57; flen := 8; fkind := KReal64 |};
  {| fname := "actTimeOffset"; foff := 65; flen := 8; fkind := KReal64 |};
  {| fname := "clockOnline"; foff := 73; flen := 1; fkind := KBool |};
  {| fname := "clockOK"; foff := 74; flen := 1; fkind := KBool |};
  {| fname := "year"; foff := 75; flen := 2; fkind := (KUint (DRange 0 65536)) |};
  {| fname := "month"; foff := 77; flen := 2; fkind := (KUint (DRange 0 65536)) |};
  {| fname := "day"; foff := 79; flen := 2; fkind := (KUint (DRange 0 65536)) |};
  {| fname := "hour"; foff := 81; flen := 2; fkind := (KUint (DRange 0 65536)) |};
  {| fname := "minute"; foff := 83; flen := 2; fkind := (KUint (DRange 0 65536)) |};
  {| fname := "second"; foff := 85; flen := 2; fkind := (KUint (DRange 0 65536)) |};
  {| fname := "actPtPos_Azimuth"; foff := 87; flen := 4; fkind := (KInt false) |};
  {| fname := "actPtPos_Elevation"; foff := 91; flen := 4; fkind := (KInt false) |};
  {| fname := "ptState"; foff := 95; flen := 2; fkind := (KUint (DRange 0 5)) |};
  {| fname := "ptError"; foff := 97; flen := 2; fkind := KView |};
  {| fname := "Data_Overflow"; foff := 97; flen := 1; fkind := (KBit 97 2 0 LsbFirst) |};
  {| fname := "Time_Distance_Fault"; foff := 97; flen := 1; fkind := (KBit 97 2 1 LsbFirst) |};
  {| fname := "No_Data_Available"; foff := 97; flen := 1; fkind := (KBit 97 2 2 LsbFirst) |};
  {| fname := "actPtTimeOffset"; foff := 99; flen := 4; fkind := (KInt false) |};
  {| fname := "ptInterpolMode"; foff := 103; flen := 2; fkind := (KUint (DList [0; 4])) |};
  {| fname := "ptTrackingType"; foff := 105; flen := 2; fkind := (KUint (DList [1])) |};
  {| fname := "ptTrackingMode"; foff := 107; flen := 2; fkind := (KUint (DList [1])) |};
  {| fname := "ptActTableIndex"; foff := 109; flen := 4; fkind := (KUint DAny) |};
  {| fname := "ptEndTableIndex"; foff := 113; flen := 4; fkind := (KUint DAny) |};
  {| fname := "ptTableLength"; foff := 117; flen := 4; fkind := (KUint DAny) |};
  {| fname := "parameter_command_status"; foff := 121; flen := 8; fkind := KView |};
  {| fname := "parameter_command_counter"; foff := 121; flen := 4; fkind := (KUint DAny) |};
  {| fname := "parameter_command"; foff := 125; flen := 2; fkind := (KUint DAny) |};
  {| fname := "parameter_command_answer"; foff := 127; flen := 2; fkind := (KUint DAny) |}
].
Definition fs_size : nat := 16.
Definition fs_table : list field := [
  {| fname := "voltagePhToPh"; foff := 0; flen := 8; fkind := KReal64 |};
  {| fname := "currentPhToPh"; foff := 8; flen := 8; fkind := KReal64 |}
].
Definition frame_size : nat := 813.
Definition start_flag : list Z := [26; 207; 252; 29].
Definition end_flag : list Z := [209; 207; 252; 161].
Definition length_field : Z := 813.
Definition env_AZ : axis_env := {| pos_lo := (-90000000); pos_hi := 450000000; v_max := 850000; stow_pos := []; n_motors := 8 |}.
Definition env_EL : axis_env := {| pos_lo := 5000000; pos_hi := 90000000; v_max := 500000; stow_pos := [90000000]; n_motors := 4 |}.
Definition env_CW : axis_env := {| pos_lo := (-90000000); pos_hi := 450000000; v_max := 0; stow_pos := []; n_motors := 1 |}.
Definition env_default : axis_env := {| pos_lo := (-2147483649000000); pos_hi := 2147483646000000; v_max := 0; stow_pos := []; n_motors := 1 |}.
Definition block_order : list block_id := [BGS; BAZ; BEL; BCW; BMotors BAZ; BMotors BEL; BMotors BCW; BPS; BFS].
Definition clock_read : nat * nat := (721, 729)%nat.
