(* C16 (tag Alay) — decidable well-formedness of a layout table and the specification-side
   notions the theorems are stated with (what a setter must accept, what a getter must return
   after an accepted assignment, the enumerated-code invariant).  No proofs here. *)
From Coq Require Import String.
From DS Require Import Base.Prelude Base.Bits Model.Utils Model.AlayModel.

Definition is_view (f : field) : bool := match fkind f with KView => true | _ => false end.

(* byte range a setter rewrites *)
Definition extent (f : field) : nat * nat :=
  match fkind f with
  | KBit woff wlen _ _ => (woff, wlen)
  | _ => (foff f, flen f)
  end.

Fixpoint nodupb (l : list nat) : bool :=
  match l with
  | [] => true
  | x :: t => negb (existsb (Nat.eqb x) t) && nodupb t
  end.

Definition dom_ok (d : dom) : bool :=
  match d with
  | DAny => true
  | DRange lo hi => (0 <=? lo) && (lo <? hi)
  | DList l => forallb (fun z => 0 <=? z) l && negb (length l =? 0)%nat
  end.

Definition field_ok (size : nat) (f : field) : bool :=
  (foff f + flen f <=? size)%nat &&
  match fkind f with
  | KBool => (flen f =? 1)%nat
  | KBit woff wlen idx o =>
      (woff + wlen <=? size)%nat && (0 <? wlen)%nat && (idx <? 8 * wlen)%nat &&
      (foff f =? woff + idx / 8)%nat && (flen f =? 1)%nat &&
      match o with LsbFirst => true | MsbPerByte => false end
  | KUint d => (0 <? flen f)%nat && dom_ok d
  | KInt _ => (0 <? flen f)%nat
  | KReal64 => (flen f =? 8)%nat
  | KReal32 => (flen f =? 4)%nat
  | KBits n pos =>
      (0 <? flen f)%nat && (length pos =? n)%nat && nodupb pos && forallb (fun p => (p <? 8 * flen f)%nat) pos
  | KVersion => (flen f =? 2)%nat
  | KView => true
  end.

Definition disjoint (a b : nat * nat) : bool :=
  (fst a + snd a <=? fst b)%nat || (fst b + snd b <=? fst a)%nat.

(* two fields may live in one table: a read-only view overlaps by design; two bits of one word must
   be different bits of the *same* word; anything else must occupy disjoint bytes *)
Definition compat (f g : field) : bool :=
  is_view f || is_view g ||
  match fkind f, fkind g with
  | KBit w1 l1 i1 _, KBit w2 l2 i2 _ =>
      if (w1 =? w2)%nat && (l1 =? l2)%nat then negb (i1 =? i2)%nat else disjoint (w1, l1) (w2, l2)
  | _, _ => disjoint (extent f) (extent g)
  end.

Fixpoint pairwise {A} (r : A -> A -> bool) (l : list A) : bool :=
  match l with
  | [] => true
  | x :: t => forallb (r x) t && pairwise r t
  end.

Definition names_differ (f g : field) : bool := negb (String.eqb (fname f) (fname g)).

Definition layout_ok (size : nat) (t : list field) : bool :=
  forallb (field_ok size) t && pairwise compat t && pairwise names_differ t.

(* every byte of the block belongs to a settable field: the table leaves no hole *)
Definition covered (t : list field) (k : nat) : bool :=
  existsb (fun f => negb (is_view f) && (fst (extent f) <=? k)%nat && (k <? fst (extent f) + snd (extent f))%nat) t.
Definition tiles (size : nat) (t : list field) : bool := forallb (covered t) (seq 0 size).

(* ---------- what an accepted assignment stores (the value the getter must then return) ---------- *)
Definition stored (e : axis_env) (f : field) (v : value) : option value :=
  match fkind f, v with
  | KBool, VBool x | KBit _ _ _ _, VBool x => Some (VBool x)
  | KUint _, _ => option_map VInt (as_int v)
  | KInt c, _ => option_map (fun z => VInt (if c then clamp e z else z)) (as_int v)
  | KReal64, _ => option_map VReal (as_f64 v)
  | KReal32, _ => match as_f64 v with
                  | Some r => option_map (fun s => VReal (f64_of_f32 s)) (f32_of_f64 r)
                  | None => None
                  end
  | KBits n pos, VBools l => Some (VBools (place pos l (repeat false (8 * flen f))))
  | KVersion, VPair ma mi => Some (VPair (ma mod 256) (mi mod 256))
  | _, _ => None
  end.

(* ---------- the documented domain of a field: what a setter is allowed to accept ---------- *)
Definition accepts (e : axis_env) (f : field) (v : value) : Prop :=
  match fkind f with
  | KBool | KBit _ _ _ _ => exists x, v = VBool x
  | KUint d => exists z, as_int v = Some z /\ in_dom d z = true /\ 0 <= z < 256 ^ Z.of_nat (flen f)
  | KInt c => exists z, as_int v = Some z /\
                let z' := if c then clamp e z else z in
                - 2 ^ (8 * Z.of_nat (flen f) - 1) <= z' < 2 ^ (8 * Z.of_nat (flen f) - 1)
  | KReal64 => exists r, as_f64 v = Some r
  | KReal32 => exists r s, as_f64 v = Some r /\ f32_of_f64 r = Some s
  | KBits n _ => exists l, v = VBools l /\ length l = n
  | KVersion => exists ma mi, v = VPair ma mi /\ -128 <= ma < 128 /\ -128 <= mi < 128
  | KView => False
  end.

(* ---------- enumerated fields hold documented codes ---------- *)
Definition is_enum (f : field) : bool :=
  match fkind f with KUint (DRange _ _) | KUint (DList _) => true | _ => false end.

Definition enum_field_ok (f : field) (b : block) : bool :=
  match fkind f with
  | KUint d => match get f b with Some (VInt z) => in_dom d z | _ => false end
  | _ => true
  end.

Definition enum_ok (t : list field) (b : block) : bool := forallb (fun f => enum_field_ok f b) t.

(* ---------- values that must be read back exactly as assigned ---------- *)
(* (a 32-bit real is read back as the nearest single; a clamped position as the clamped value;
   a 6-boolean status_HMI as the 16 bits of its word: those are covered by [stored]) *)
Definition canonical (e : axis_env) (f : field) (v : value) : Prop :=
  match fkind f, v with
  | KBool, VBool _ | KBit _ _ _ _, VBool _ => True
  | KUint _, VInt _ => True
  | KInt false, VInt _ => True
  | KInt true, VInt z => pos_lo e - 1 <= z <= pos_hi e + 1
  | KReal64, VReal _ => True
  | KBits n pos, VBools l => pos = seq 0 n /\ n = (8 * flen f)%nat
  | KVersion, VPair ma mi => 0 <= ma /\ 0 <= mi
  | _, _ => False
  end.
