(* simulators/totalpower/__init__.py : System._send_packet and System._get_status (binary form):
   ONE invocation of the data-packet timer body as a pure function of
     - the acquisition state (sample_period, sample_counter, calOnPeriod, cal_off_samples, calOn,
       toggle, zero, channels),
     - the reading of time.time() at entry (binary64 bit pattern; input),
     - the list of randint(200, 2000) results (input, consumed in call order),
     - whether sendall raises socket.error, and the stop / pause flags seen after the send.
   Result: the packet handed to sendall and the new state, or the Python exception that leaves the
   timer thread (with the partially updated state: the code mutates self.* before it raises).
   Encodings go through the C09 codec models exactly as the code calls them
   (uint_to_bytes, string_to_binary = bytes_to_binary o latin-1, binary_to_string = binary_to_bytes).
   Float arithmetic of the time stamp is bit-exact binary64 (SmcFloat = Flocq, round to nearest even).
   No proofs here. *)
From DS Require Import Base.Prelude Base.Bits Model.Utils Model.SmcFloat.
From Flocq Require Import IEEE754.BinarySingleNaN.

Record pstate := {
  ps_sp : Z;            (* self.sample_period (ms) *)
  ps_counter : Z;       (* self.sample_counter *)
  ps_calper : Z;        (* self.calOnPeriod *)
  ps_caloff : Z;        (* self.cal_off_samples *)
  ps_calon : Z;         (* self.calOn *)
  ps_toggle : Z;        (* self.toggle *)
  ps_zero : Z;          (* self.zero *)
  ps_channels : nat     (* self.channels *)
}.

Inductive perr :=
| EZeroDivision     (* 1000 / self.sample_period with sample_period == 0 *)
| EValueError       (* uint_to_bytes refuses a value that does not fit its field *)
| ENonFinite        (* int(timestamp) on inf / nan (OverflowError / ValueError) *)
| EDraws            (* model only: the supplied list of draws is too short *)
| EOutside.         (* model only: outside the modelled domain (|sample_period| > 2^53, or a status
                       attribute that is not 0 / 1, whose str() has more than one character) *)

Inductive presult :=
| POk (packet : list Z) (st : pstate)
| PErr (e : perr) (st : pstate).

(* float(int) for |z| <= 2^53 (exact) *)
Definition fz (z : Z) : F64 := binary_normalize 53 1024 Hprec Hmax mode_NE z 0 false.

(* int(float): truncation toward zero; None on inf / nan *)
Definition f_trunc (f : F64) : option Z :=
  match f with
  | B754_zero _ => Some 0
  | B754_finite s m e _ =>
      let v := if 0 <=? e then Zpos m * 2 ^ e else Zpos m / 2 ^ (- e) in
      Some (if s then - v else v)
  | _ => None
  end.

(* the values int(timestamp) of the n records: timestamp += float(sp)/1000 before each use *)
Fixpoint epochs (n : nat) (ts step : F64) : list (option Z) :=
  match n with
  | O => []
  | S k => let ts' := fadd ts step in f_trunc ts' :: epochs k ts' step
  end.

Definition bit_of (z : Z) : option bool :=
  if z =? 0 then Some false else if z =? 1 then Some true else None.

(* _get_status(ascii_format=False) as a list of 2 bytes *)
Definition get_status (zero calon toggle : Z) : option (list Z) :=
  match bit_of zero, bit_of calon, bit_of toggle with
  | Some z, Some c, Some t =>
      let first := if toggle =? 0 then 144 else 160 in          (* '\x90' / '\xA0' *)
      let bits := bytes_to_binary [first] true ++ [false; true] ++ [z] ++ [c] ++ [t] ++ [true; true; true] in
      Some (binary_to_bytes bits true)
  | _, _, _ => None
  end.

(* the inner loop over the channels: randint(200, 2000) * sample_period, 4 bytes each *)
Fixpoint samples (k : nat) (sp : Z) (draws : list Z) : (list Z * list Z) + perr :=
  match k with
  | O => inl ([], draws)
  | S k' =>
      match draws with
      | [] => inr EDraws
      | d :: ds =>
          match uint_to_bytes (d * sp) 4 true with
          | None => inr EValueError
          | Some b =>
              match samples k' sp ds with
              | inl (bs, rest) => inl (b ++ bs, rest)
              | inr e => inr e
              end
          end
      end
  end.

Definition set_cal (st : pstate) (caloff calon : Z) : pstate :=
  {| ps_sp := ps_sp st; ps_counter := ps_counter st; ps_calper := ps_calper st; ps_caloff := caloff;
     ps_calon := calon; ps_toggle := ps_toggle st; ps_zero := ps_zero st; ps_channels := ps_channels st |}.
Definition set_counter (st : pstate) (c : Z) : pstate :=
  {| ps_sp := ps_sp st; ps_counter := c; ps_calper := ps_calper st; ps_caloff := ps_caloff st;
     ps_calon := ps_calon st; ps_toggle := ps_toggle st; ps_zero := ps_zero st; ps_channels := ps_channels st |}.
Definition set_toggle (st : pstate) (t : Z) : pstate :=
  {| ps_sp := ps_sp st; ps_counter := ps_counter st; ps_calper := ps_calper st; ps_caloff := ps_caloff st;
     ps_calon := ps_calon st; ps_toggle := t; ps_zero := ps_zero st; ps_channels := ps_channels st |}.

(* the calibration-mark bookkeeping of one record *)
Definition cal_step (st : pstate) : pstate :=
  if ps_calper st =? 0 then st
  else if ps_caloff st =? ps_calper st then set_cal st 0 1
  else set_cal st (ps_caloff st + 1) (ps_calon st).

Definition next_counter (c : Z) : Z := if c + 1 =? 65536 then 0 else c + 1.

(* one iteration of the record loop: bytes of the record, remaining draws, new state; on an exception
   the state as the code leaves it *)
Definition record (st : pstate) (epoch : option Z) (draws : list Z)
  : (list Z * list Z * pstate) + (perr * pstate) :=
  match epoch with
  | None => inr (ENonFinite, st)
  | Some e =>
      match uint_to_bytes e 4 true with
      | None => inr (EValueError, st)
      | Some eb =>
          match uint_to_bytes (ps_counter st) 2 true with
          | None => inr (EValueError, st)
          | Some cb =>
              let st1 := cal_step st in
              match get_status (ps_zero st1) (ps_calon st1) (ps_toggle st1) with
              | None => inr (EOutside, st1)
              | Some sb =>
                  let st2 := set_cal st1 (ps_caloff st1) 0 in
                  match samples (ps_channels st2) (ps_sp st2) draws with
                  | inr e => inr (e, st2)
                  | inl (smp, rest) =>
                      inl (eb ++ cb ++ sb ++ smp, rest, set_counter st2 (next_counter (ps_counter st2)))
                  end
              end
          end
      end
  end.

Fixpoint records (st : pstate) (es : list (option Z)) (draws : list Z)
  : (list Z * list Z * pstate) + (perr * pstate) :=
  match es with
  | [] => inl ([], draws, st)
  | e :: es' =>
      match record st e draws with
      | inr x => inr x
      | inl (b, rest, st1) =>
          match records st1 es' rest with
          | inr x => inr x
          | inl (bs, rest', st2) => inl (b ++ bs, rest', st2)
          end
      end
  end.

Definition flip (t : Z) : Z := if t =? 0 then 1 else 0.

(* the packet for a given list of epoch values: loop, then `self.toggle = 0 if self.toggle else 1` *)
Definition packet_core (st : pstate) (es : list (option Z)) (draws : list Z) : presult :=
  match records st es draws with
  | inr (e, st1) => PErr e st1
  | inl (pk, _, st1) => POk pk (set_toggle st1 (flip (ps_toggle st1)))
  end.

Definition sp_limit : Z := 2 ^ 53.

(* number of records: int(1000 / sample_period) through the float quotient, range() of a negative is empty *)
Definition n_records (sp : Z) : option nat :=
  match f_trunc (fdiv (fz 1000) (fz sp)) with
  | Some z => Some (Z.to_nat z)
  | None => None
  end.

Definition packet_epochs (sp : Z) (clock_bits : Z) (n : nat) : list (option Z) :=
  let q := fdiv (fz 1000) (fz sp) in
  let step := fdiv (fz sp) (fz 1000) in
  epochs n (fsub (of_bits clock_bits) (fmul q step)) step.

(* everything up to (not including) sendall *)
Definition build_packet (st : pstate) (clock_bits : Z) (draws : list Z) : presult :=
  let sp := ps_sp st in
  if sp =? 0 then PErr EZeroDivision st
  else if sp_limit <? Z.abs sp then PErr EOutside st
  else match n_records sp with
       | None => PErr ENonFinite st
       | Some n => packet_core st (packet_epochs sp clock_bits n) draws
       end.

(* after the packet is built: sendall, the socket-error path (`self._stop(None)` sets stop), the three
   continuations *)
Inductive action := ARestart | APaused | AStopped.

Definition after_send (st : pstate) (send_fails stop pause : bool) : pstate * bool * action :=
  let stop' := stop || send_fails in
  if stop' then (set_cal (set_counter st 0) 0 (ps_calon st), true, AStopped)
  else if pause then (st, false, APaused)
  else (st, false, ARestart).

Inductive full_result :=
| FSent (packet : list Z) (st : pstate) (stop : bool) (a : action)
| FRaised (e : perr) (st : pstate).

Definition send_packet (st : pstate) (clock_bits : Z) (draws : list Z) (send_fails stop pause : bool)
  : full_result :=
  match build_packet st clock_bits draws with
  | PErr e st1 => FRaised e st1
  | POk pk st1 => let '(st2, stop', a) := after_send st1 send_fails stop pause in FSent pk st2 stop' a
  end.

(* a history of packets: the same state threaded through consecutive invocations (sample_period etc.
   may be changed between invocations by commands; `upd` applies such a change) *)
Record pinput := { pi_clock : Z; pi_draws : list Z }.

Fixpoint run_packets (st : pstate) (ins : list pinput) : list presult * pstate :=
  match ins with
  | [] => ([], st)
  | i :: rest =>
      match build_packet st (pi_clock i) (pi_draws i) with
      | POk pk st1 => let '(rs, stf) := run_packets st1 rest in (POk pk st1 :: rs, stf)
      | PErr e st1 => ([PErr e st1], st1)    (* the exception ends the timer chain *)
      end
  end.
