(* Executable model of simulators/dbesm/__init__.py: System.parse(byte), _execute, _error and all
   twenty-three command handlers.  No proofs here.

   Floats: every float the simulator stores is either an attenuation on the 0.5 dB grid or one of
   0.0 / 1.0 / -0.0, so a stored float is [HV k] (the value k/2) or [HNegZero]; str() of such a float
   is modelled exactly.  The voltages / temperature / firmware of a board are constants, given by
   the harness as the strings the instance renders.  Random initial REG / ATT are read back from the
   instance and given as the initial state.

   Inputs that are not repo code (oracle tables, never axioms):
     py_int   : graph of int(token)
     py_float : graph of float(token), abstracted to: ValueError | on the half grid (incl. -0.0) | other
   The reverse patch of fixes/24 (ReadDIAG / ReadALLDIAG with a negative board status) is the
   [fix24 = false] behaviour; the model follows the fixed code. *)
From DS Require Import Base.Prelude Model.SmcBase.

Inductive hval := HV (k : Z) | HNegZero.
Inductive fres := FHalf (h : hval) | FOther.
Inductive cval := CInt (z : Z) | CStr (s : list Z) | CFlt (h : hval).

Definition hval_eqb (a b : hval) : bool :=
  match a, b with HV x, HV y => x =? y | HNegZero, HNegZero => true | _, _ => false end.
Definition cval_eqb (a b : cval) : bool :=
  match a, b with
  | CInt x, CInt y => x =? y | CStr x, CStr y => zlist_eqb x y | CFlt x, CFlt y => hval_eqb x y
  | _, _ => false
  end.

(* str(float) for k/2 *)
Definition hstr (h : hval) : list Z :=
  match h with
  | HNegZero => $"-0.0"
  | HV k => (if k <? 0 then [45] else []) ++ zstr (Z.abs k / 2) ++ (if Z.abs k mod 2 =? 0 then $".0" else $".5")
  end.
Definition cstr (c : cval) : list Z :=
  match c with CInt z => zstr z | CStr s => s | CFlt h => hstr h end.

Record board := {
  b_status : Z; b_cfg : list Z; b_reg : list Z; b_att : list hval;
  b_amp : list cval; b_eq : list cval; b_bpf : list cval;
  b_v5 : list Z; b_v3 : list Z; b_t0 : list Z; b_firm : list Z     (* rendered constants *)
}.
Record dev := { boards : list board; obs_mode : list (list Z) }.
Record st := { msg : list Z; dv : dev }.

Definition obs_mode0 : list (list Z) :=
  [$"MF20_1s"; $"MF10_2s"; $"DF_8s"; $"3-Band_1s"; $"3-Band"; $"MFS_7"].
(* the boards (with their random registers) and the class's obs_mode list are read from the source *)
Definition init (bs : list board) (modes : list (list Z)) : st :=
  {| msg := []; dv := {| boards := bs; obs_mode := modes |} |}.
Definition idle (s : st) : bool := match msg s with [] => true | _ => false end.

Record env := { py_int : list Z -> conv Z; py_float : list Z -> conv fres }.

Inductive reg := RAtt | RAmp | REq | RBpf.

Inductive cmd :=
| KNak | KNakDev                 (* unknown device / unknown command: same text *)
| KSetAllMode (ps : list (list Z))
| KSetMode (ps : list (list Z))
| KStoreAllMode (ps : list (list Z))
| KDeleteFile (ps : list (list Z))
| KGetStatus (ps : list (list Z))
| KSetReg (r : reg) (ps : list (list Z))       (* SETATT SETAMP SETEQ SETBPF *)
| KAllDiag (ps : list (list Z))
| KDiag (ps : list (list Z))
| KSetStatus (ps : list (list Z))
| KGetComp (ps : list (list Z))
| KGetCfg (ps : list (list Z))
| KGetFirm (ps : list (list Z))
| KSetDbe (r : reg) (ps : list (list Z))       (* SETDBEATT SETDBEAMP SETDBEEQ SETDBEBPF *)
| KGetDbe (r : reg) (ps : list (list Z)).      (* GETDBEATT ... *)

(* _execute up to the dispatch; ps are the arguments after the two command words *)
Definition decode (m : list Z) : cmd :=
  let args := map strip (split_on SP m) in
  match args with
  | [] => KNakDev
  | a0 :: rest =>
      if negb (zlist_eqb a0 $"DBE" || zlist_eqb a0 $"FBCB") then KNakDev
      else match rest with
           | [] => KNak
           | a1 :: ps =>
               if negb (zlist_eqb a0 $"DBE") then KNak
               else if zlist_eqb a1 $"SETALLMODE" then KSetAllMode ps
               else if zlist_eqb a1 $"MODE" then KSetMode ps
               else if zlist_eqb a1 $"STOREALLMODE" then KStoreAllMode ps
               else if zlist_eqb a1 $"DELETEFILE" then KDeleteFile ps
               else if zlist_eqb a1 $"GETSTATUS" then KGetStatus ps
               else if zlist_eqb a1 $"SETATT" then KSetReg RAtt ps
               else if zlist_eqb a1 $"SETAMP" then KSetReg RAmp ps
               else if zlist_eqb a1 $"SETEQ" then KSetReg REq ps
               else if zlist_eqb a1 $"SETBPF" then KSetReg RBpf ps
               else if zlist_eqb a1 $"ReadALLDIAG" then KAllDiag ps
               else if zlist_eqb a1 $"ReadDIAG" then KDiag ps
               else if zlist_eqb a1 $"SETSTATUS" then KSetStatus ps
               else if zlist_eqb a1 $"GETCOMP" then KGetComp ps
               else if zlist_eqb a1 $"GETCFG" then KGetCfg ps
               else if zlist_eqb a1 $"SETDBEATT" then KSetDbe RAtt ps
               else if zlist_eqb a1 $"GETDBEATT" then KGetDbe RAtt ps
               else if zlist_eqb a1 $"GETFIRM" then KGetFirm ps
               else if zlist_eqb a1 $"SETDBEAMP" then KSetDbe RAmp ps
               else if zlist_eqb a1 $"GETDBEAMP" then KGetDbe RAmp ps
               else if zlist_eqb a1 $"SETDBEEQ" then KSetDbe REq ps
               else if zlist_eqb a1 $"GETDBEEQ" then KGetDbe REq ps
               else if zlist_eqb a1 $"SETDBEBPF" then KSetDbe RBpf ps
               else if zlist_eqb a1 $"GETDBEBPF" then KGetDbe RBpf ps
               else KNak
           end
  end.

(* ---- replies ---- *)
Definition crlf : list Z := [CR; LF].
Definition nak_reply : list Z := $"NAK unknown command" ++ crlf.
Definition ack_reply : list Z := $"ACK" ++ crlf.
Definition err_plain (text : list Z) : list Z := $"ERR DBE " ++ text ++ crlf.
(* error_string.replace("X", addr): each template below has exactly one X *)
Definition err_1005 (a : list Z) := $"ERR DBE BOARD " ++ a ++ $" unreachable" ++ crlf.
Definition err_1007 (a : list Z) := $"ERR DBE BOARD " ++ a ++ $" not existing" ++ crlf.
Definition err_1010 (a : list Z) := $"ERR DBE ATT " ++ a ++ $" not existing" ++ crlf.
Definition err_1012 (a : list Z) := $"ERR DBE AMP " ++ a ++ $" not existing" ++ crlf.
Definition err_1013 (a : list Z) := $"ERR DBE EQ " ++ a ++ $" not existing" ++ crlf.
Definition err_1014 (a : list Z) := $"ERR DBE BPF " ++ a ++ $" not existing" ++ crlf.
Definition err_1011 := err_plain $"value out of range".
Definition err_1003 := err_plain $"CFG file not existing".
Definition err_1008 := err_plain $"writing cfg file".
Definition err_1015 := err_plain $"Output not existing".

Definition R (d : dev) (s : list Z) : dev * outcome := (d, OReply s).

(* ---- state helpers ---- *)
Definition set_status (v : Z) (b : board) : board :=
  {| b_status := v; b_cfg := b_cfg b; b_reg := b_reg b; b_att := b_att b; b_amp := b_amp b;
     b_eq := b_eq b; b_bpf := b_bpf b; b_v5 := b_v5 b; b_v3 := b_v3 b; b_t0 := b_t0 b; b_firm := b_firm b |}.
Definition set_cfg (v : list Z) (b : board) : board :=
  {| b_status := b_status b; b_cfg := v; b_reg := b_reg b; b_att := b_att b; b_amp := b_amp b;
     b_eq := b_eq b; b_bpf := b_bpf b; b_v5 := b_v5 b; b_v3 := b_v3 b; b_t0 := b_t0 b; b_firm := b_firm b |}.
Definition set_att (v : list hval) (b : board) : board :=
  {| b_status := b_status b; b_cfg := b_cfg b; b_reg := b_reg b; b_att := v; b_amp := b_amp b;
     b_eq := b_eq b; b_bpf := b_bpf b; b_v5 := b_v5 b; b_v3 := b_v3 b; b_t0 := b_t0 b; b_firm := b_firm b |}.
Definition set_amp (v : list cval) (b : board) : board :=
  {| b_status := b_status b; b_cfg := b_cfg b; b_reg := b_reg b; b_att := b_att b; b_amp := v;
     b_eq := b_eq b; b_bpf := b_bpf b; b_v5 := b_v5 b; b_v3 := b_v3 b; b_t0 := b_t0 b; b_firm := b_firm b |}.
Definition set_eq (v : list cval) (b : board) : board :=
  {| b_status := b_status b; b_cfg := b_cfg b; b_reg := b_reg b; b_att := b_att b; b_amp := b_amp b;
     b_eq := v; b_bpf := b_bpf b; b_v5 := b_v5 b; b_v3 := b_v3 b; b_t0 := b_t0 b; b_firm := b_firm b |}.
Definition set_bpf (v : list cval) (b : board) : board :=
  {| b_status := b_status b; b_cfg := b_cfg b; b_reg := b_reg b; b_att := b_att b; b_amp := b_amp b;
     b_eq := b_eq b; b_bpf := v; b_v5 := b_v5 b; b_v3 := b_v3 b; b_t0 := b_t0 b; b_firm := b_firm b |}.

Definition with_boards (bs : list board) (d : dev) : dev := {| boards := bs; obs_mode := obs_mode d |}.
Definition upd_board (i : nat) (f : board -> board) (d : dev) : dev :=
  match nth_opt i (boards d) with
  | Some b => with_boards (set_nth i (f b) (boards d)) d
  | None => d
  end.

(* next((sub for sub in boards if index+1 == int(tok)), None): index of the selected board *)
Inductive sel := SelErr | SelMiss | SelNone | SelIdx (i : nat).
Definition select (e : env) (d : dev) (tok : list Z) : sel :=
  match boards d with
  | [] => SelNone                      (* int() is not even called on an empty board list *)
  | _ =>
    match py_int e tok with
    | CvErr => SelErr
    | CvMiss => SelMiss
    | CvOk n => if (1 <=? n) && (n <=? Z.of_nat (length (boards d))) then SelIdx (Z.to_nat (n - 1)) else SelNone
    end
  end.

Definition bnum (i : nat) : list Z := zstr (Z.of_nat i + 1).

(* float(tok) in list(numpy.arange(0, 32, 0.5)) / in [0, 1] *)
Definition on_att_grid (f : fres) : bool :=
  match f with FHalf (HV k) => (0 <=? k) && (k <=? 63) | FHalf HNegZero => true | FOther => false end.
Definition zero_or_one (f : fres) : bool :=
  match f with FHalf (HV k) => (k =? 0) || (k =? 2) | FHalf HNegZero => true | FOther => false end.

(* latin-1 str.isalpha / str.isnumeric of one code point *)
Definition is_alpha (c : Z) : bool :=
  ((65 <=? c) && (c <=? 90)) || ((97 <=? c) && (c <=? 122)) || (c =? 170) || (c =? 181) || (c =? 186)
  || ((192 <=? c) && (c <=? 214)) || ((216 <=? c) && (c <=? 246)) || ((248 <=? c) && (c <=? 255)).
Definition is_numeric_c (c : Z) : bool :=
  ((48 <=? c) && (c <=? 57)) || (c =? 178) || (c =? 179) || (c =? 185) || ((188 <=? c) && (c <=? 190)).
Definition is_numeric (s : list Z) : bool := match s with [] => false | _ => forallb is_numeric_c s end.

Definition bpf_channels : list (list Z) :=
  [$"2"; $"3"; $"4"; $"5"; $"6"; $"7"; $"8"; $"9"; $"10"; $"1a"; $"1b"].
(* channel index written by SETBPF for a name in bpf_channels *)
Definition bpf_index (s : list Z) : nat :=
  if zlist_eqb s $"1a" then 0%nat else if zlist_eqb s $"1b" then 1%nat
  else if zlist_eqb s $"10" then 10%nat
  else match s with [c] => Z.to_nat (c - 48) | _ => 0%nat end.

(* the output tables of the class *)
Definition out_boards : list nat := [0; 0; 0; 1; 1; 2; 2; 3; 3]%nat.     (* int(out_boards[i]) - 1 *)
Definition out_dbe : list (list Z) :=
  [$"1_DBBC2"; $"prova"; $"SARDA_01"; $"prova"; $"prova2"; $"Space_Debris"; $"prova"; $"prova2"; $"SARDA_14"].
Definition out_att : list Z := [11; 3; 2; 1; 8; 1; 5; 16; 7].
Definition out_amp : list Z := [3; 9; 1; 1; 1; 8; 6; 5; 4].
Definition out_eq : list Z := [5; 6; 4; 3; 3; 9; 4; 7; 1].
Definition out_bpf : list Z := [7; 5; 6; 5; 5; 2; 6; 9; 1].
Definition out_tbl (r : reg) : list Z :=
  match r with RAtt => out_att | RAmp => out_amp | REq => out_eq | RBpf => out_bpf end.
Definition reg_name (r : reg) : list Z :=
  match r with RAtt => $"ATT" | RAmp => $"AMP" | REq => $"EQ" | RBpf => $"BPF" end.

(* (board index, register index) for every output called [name], in table order *)
Definition targets (r : reg) (name : list Z) : list (nat * Z) :=
  concat (map (fun t : list Z * (nat * Z) => if zlist_eqb (fst t) name then [snd t] else [])
              (combine out_dbe (combine out_boards (out_tbl r)))).

(* ---- handlers ---- *)
Definition set_allmode_line (m : list Z) (ib : nat * board) : board * list Z :=
  let (i, b) := ib in
  if b_status b =? 1 then (b, $"BOARD " ++ bnum i ++ $" ERR DBE BOARD unreachable" ++ [LF])
  else (set_cfg m b, $"BOARD " ++ bnum i ++ $" ACK" ++ [LF]).

Definition enum {A} (l : list A) : list (nat * A) := combine (seq 0 (length l)) l.

Definition h_set_allmode (d : dev) (ps : list (list Z)) : dev * outcome :=
  match ps with
  | [m] =>
      if negb (mem_s m (obs_mode d)) then R d err_1003
      else
        let rs := map (set_allmode_line m) (enum (boards d)) in
        (with_boards (map fst rs) d, OReply (drop_last (concat (map snd rs)) ++ crlf))
  | _ => R d nak_reply
  end.

Definition h_set_mode (e : env) (d : dev) (ps : list (list Z)) : dev * outcome :=
  match ps with
  | [w; btok; m] =>
      if negb (zlist_eqb w $"BOARD") then R d nak_reply
      else match select e d btok with
           | SelErr => R d nak_reply
           | SelMiss => (d, OOutside)
           | SelNone => R d (err_1007 btok)
           | SelIdx i =>
               match nth_opt i (boards d) with
               | None => (d, OException)
               | Some b =>
                   if negb (mem_s m (obs_mode d)) then R d err_1003
                   else if b_status b =? 1 then R d (err_1005 btok)
                   else (upd_board i (set_cfg m) d, OReply ack_reply)
               end
           end
  | _ => R d nak_reply
  end.

Definition unreachable_list (d : dev) : list (list Z) :=
  concat (map (fun ib : nat * board => if b_status (snd ib) =? 1 then [bnum (fst ib)] else []) (enum (boards d))).

Definition h_store_allmode (d : dev) (ps : list (list Z)) : dev * outcome :=
  match ps with
  | [m] =>
      if mem_s m (obs_mode d) then R d err_1008
      else match unreachable_list d with
           | [] => ({| boards := boards d; obs_mode := obs_mode d ++ [m] |}, OReply ack_reply)
           | errs => R d (err_1005 (join [SP] errs))
           end
  | _ => R d nak_reply
  end.

Fixpoint remove_first (m : list Z) (l : list (list Z)) : list (list Z) :=
  match l with
  | [] => []
  | x :: r => if zlist_eqb x m then r else x :: remove_first m r
  end.

Definition h_delete_file (d : dev) (ps : list (list Z)) : dev * outcome :=
  match ps with
  | [m] =>
      if negb (mem_s m (obs_mode d)) then R d err_1003
      else ({| boards := boards d; obs_mode := remove_first m (obs_mode d) |}, OReply ack_reply)
  | _ => R d nak_reply
  end.

(* the common prologue of GETSTATUS ReadDIAG GETCOMP GETFIRM: BOARD word, selection, reachability *)
Definition with_board (e : env) (d : dev) (ps : list (list Z))
           (k : nat -> board -> dev * outcome) : dev * outcome :=
  match ps with
  | [w; btok] =>
      if negb (zlist_eqb w $"BOARD") then R d nak_reply
      else match select e d btok with
           | SelErr => R d nak_reply
           | SelMiss => (d, OOutside)
           | SelNone => R d (err_1007 btok)
           | SelIdx i =>
               match nth_opt i (boards d) with
               | None => (d, OException)
               | Some b => if b_status b =? 1 then R d (err_1005 btok) else k i b
               end
           end
  | _ => R d nak_reply
  end.

Definition h_get_status (e : env) (d : dev) (ps : list (list Z)) : dev * outcome :=
  with_board e d ps (fun i b =>
    R d ($"ACK" ++ [LF] ++ $"BOARD " ++ bnum i ++ [LF; LF]
         ++ $"REG=[ " ++ join [SP] (map zstr (b_reg b)) ++ $" ]" ++ [LF; LF]
         ++ $"ATT=[ " ++ join [SP; SP] (map hstr (b_att b)) ++ $" ]" ++ crlf)).

Definition volts (b : board) : list Z := $"5V " ++ b_v5 b ++ $" 3V3 " ++ b_v3 b ++ [LF].

Section Fix24.
Variable fix24 : bool.   (* fixes/24-dbesm-diag-negative-status.diff applied *)

Definition h_diag (e : env) (d : dev) (ps : list (list Z)) : dev * outcome :=
  match ps with
  | [w; btok] =>
      if negb (zlist_eqb w $"BOARD") then R d nak_reply
      else match select e d btok with
           | SelErr => R d nak_reply
           | SelMiss => (d, OOutside)
           | SelNone => R d (err_1007 btok)
           | SelIdx i =>
               match nth_opt i (boards d) with
               | None => (d, OException)
               | Some b =>
                   let head := $"ACK" ++ [LF] ++ $"BOARD " ++ bnum i ++ [LF; LF] ++ volts b in
                   if (b_status b =? 1) || (fix24 && (b_status b <? 0)) then R d (err_1005 btok)
                   else if b_status b =? 0 then R d (head ++ $"T0 " ++ b_t0 b ++ crlf)
                   else if 1 <? b_status b then R d (head ++ $"temp sensor not present" ++ crlf)
                   else (d, OException)          (* UnboundLocalError: retval *)
               end
           end
  | _ => R d nak_reply
  end.

Definition all_diag_part (ib : nat * board) : list Z :=
  let (i, b) := ib in
  $"BOARD " ++ bnum i ++ [SP] ++
  (if b_status b =? 0 then $"ACK" ++ [LF] ++ volts b ++ $"T0 " ++ b_t0 b ++ [LF; LF]
   else if (b_status b =? 1) || (fix24 && (b_status b <? 0)) then $"ERR DBE BOARD unreachable" ++ [LF; LF]
   else if 1 <? b_status b then $"ACK" ++ [LF] ++ volts b ++ $"temp sensor not present" ++ [LF; LF]
   else []).

Definition h_all_diag (d : dev) (ps : list (list Z)) : dev * outcome :=
  match ps with
  | [] => R d (drop_last (drop_last (concat (map all_diag_part (enum (boards d))))) ++ crlf)
  | _ => R d nak_reply
  end.
End Fix24.

Definition h_set_status (e : env) (d : dev) (ps : list (list Z)) : dev * outcome :=
  match ps with
  | [_; btok; _; vtok] =>
      match select e d btok with
      | SelErr => R d nak_reply
      | SelMiss => (d, OOutside)
      | SelNone => R d (err_1007 btok)
      | SelIdx i =>
          match py_int e vtok with
          | CvErr => R d nak_reply
          | CvMiss => (d, OOutside)
          | CvOk v => (upd_board i (set_status v) d, OReply ack_reply)
          end
      end
  | _ => R d nak_reply
  end.

Definition h_get_comp (e : env) (d : dev) (ps : list (list Z)) : dev * outcome :=
  with_board e d ps (fun i b =>
    R d ($"ACK" ++ [LF] ++ $"BOARD " ++ bnum i ++ [LF; LF]
         ++ $"AMP=[ " ++ join [SP] (map cstr (b_amp b)) ++ $" ]" ++ [LF]
         ++ $"EQ=[ " ++ join [SP] (map cstr (b_eq b)) ++ $" ]" ++ [LF]
         ++ $"BPF=[ " ++ join [SP] (map cstr (b_bpf b)) ++ $" ]" ++ crlf)).

Definition cfg_part (ib : nat * board) : list Z :=
  let (i, b) := ib in
  $"BOARD " ++ bnum i ++ [SP] ++
  (if (b_status b =? 0) || (1 <? b_status b) then b_cfg b ++ [LF; LF]
   else $"ERR DBE BOARD unreachable" ++ [LF; LF]).

Definition h_get_cfg (d : dev) (ps : list (list Z)) : dev * outcome :=
  match ps with
  | [] => R d (drop_last (drop_last ($"ACK" ++ [LF] ++ concat (map cfg_part (enum (boards d))))) ++ crlf)
  | _ => R d nak_reply
  end.

Definition h_get_firm (e : env) (d : dev) (ps : list (list Z)) : dev * outcome :=
  with_board e d ps (fun i b =>
    R d ($"ACK" ++ [LF] ++ $"BOARD " ++ zstr (Z.of_nat i) ++ $" Prog=DBESM, Rev=rev " ++ b_firm b ++ crlf)).

(* SETATT / SETAMP / SETEQ : params = [chan, 'BOARD', board, 'VALUE', value] *)
Definition h_set_reg (e : env) (d : dev) (r : reg) (ps : list (list Z)) : dev * outcome :=
  match ps with
  | [ctok; w1; btok; w2; vtok] =>
      if negb (zlist_eqb w1 $"BOARD") || negb (zlist_eqb w2 $"VALUE") then R d nak_reply
      else match select e d btok with
      | SelErr => R d nak_reply
      | SelMiss => (d, OOutside)
      | SelNone => R d (err_1007 btok)
      | SelIdx i =>
        match nth_opt i (boards d) with
        | None => (d, OException)
        | Some b =>
          match r with
          | RBpf =>
              if negb (mem_s ctok bpf_channels) then
                match ctok with
                | [] => (d, OException)                      (* params[1][0]: IndexError *)
                | c0 :: _ =>
                    let chars := length (filter is_alpha ctok) in
                    if is_alpha c0 || (1 <? chars)%nat then R d nak_reply
                    else if negb (is_numeric ctok) then
                      if is_alpha (last ctok 0) then R d (err_1014 ctok) else R d nak_reply
                    else R d (err_1014 ctok)
                end
              else
                match py_float e vtok with
                | CvErr => R d nak_reply
                | CvMiss => (d, OOutside)
                | CvOk f =>
                    if negb (zero_or_one f) then R d err_1011
                    else if b_status b =? 1 then R d (err_1005 btok)
                    else (upd_board i (set_bpf (set_nth (bpf_index ctok) (CStr vtok) (b_bpf b))) d,
                          OReply ack_reply)
                end
          | _ =>
              match py_int e ctok with
              | CvErr => R d nak_reply
              | CvMiss => (d, OOutside)
              | CvOk c =>
                  let in_dom := match r with RAtt => (0 <=? c) && (c <=? 16) | _ => (1 <=? c) && (c <=? 10) end in
                  if negb in_dom then
                    R d (match r with RAtt => err_1010 ctok | RAmp => err_1012 ctok | _ => err_1013 ctok end)
                  else
                    match py_float e vtok with
                    | CvErr => R d nak_reply
                    | CvMiss => (d, OOutside)
                    | CvOk f =>
                        let okv := match r with RAtt => on_att_grid f | _ => zero_or_one f end in
                        if negb okv then R d err_1011
                        else if b_status b =? 1 then R d (err_1005 btok)
                        else
                          match r, f with
                          | RAtt, FHalf h =>
                              (upd_board i (set_att (set_nth (Z.to_nat c) h (b_att b))) d, OReply ack_reply)
                          | RAmp, _ =>
                              (upd_board i (set_amp (set_nth (Z.to_nat (c - 1)) (CStr vtok) (b_amp b))) d,
                               OReply ack_reply)
                          | REq, _ =>
                              (upd_board i (set_eq (set_nth (Z.to_nat (c - 1)) (CStr vtok) (b_eq b))) d,
                               OReply ack_reply)
                          | _, _ => (d, OException)
                          end
                    end
              end
          end
        end
      end
  | _ => R d nak_reply
  end.

(* SETDBE* : one line per selected board, boards updated in table order *)
Definition hadd (h : hval) (dk : Z) : hval := match h with HV k => HV (k + dk) | HNegZero => HV dk end.
Definition hk (h : hval) : Z := match h with HV k => k | HNegZero => 0 end.

Definition dbe_line (name : list Z) (i : nat) (text : list Z) : list Z :=
  $"DBE " ++ name ++ $" BOARD " ++ bnum i ++ [SP] ++ text ++ [LF].
Definition dbe_err (name : list Z) (i : nat) (text : list Z) : list Z :=
  $"ERR DBE " ++ name ++ $" BOARD " ++ bnum i ++ [SP] ++ text ++ [LF].

(* result of one board of SETDBEATT; None = IndexError / TypeError *)
Definition set_dbeatt_one (name vtok : list Z) (f : fres) (d : dev) (t : nat * Z) : option (dev * list Z) :=
  let (i, a) := t in
  match nth_opt i (boards d) with
  | None => None
  | Some b =>
      match nth_opt (Z.to_nat a) (b_att b) with
      | None => None
      | Some cur =>
          let plus := zlist_eqb vtok $"+3" in
          let minus := zlist_eqb vtok $"-3" in
          if plus || minus then
            let nk := hk cur + (if plus then 6 else -6) in
            if negb ((0 <=? nk) && (nk <=? 63)) then Some (d, dbe_err name i $"value out of range")
            else if b_status b =? 1 then Some (d, dbe_err name i $"unreachable")
            else Some (upd_board i (set_att (set_nth (Z.to_nat a) (HV nk) (b_att b))) d, dbe_line name i $"ACK")
          else
            if negb (on_att_grid f) then Some (d, dbe_err name i $"value out of range")
            else if b_status b =? 1 then Some (d, dbe_err name i $"unreachable")
            else match f with
                 | FHalf h => Some (upd_board i (set_att (set_nth (Z.to_nat a) h (b_att b))) d,
                                    dbe_line name i $"ACK")
                 | FOther => None
                 end
      end
  end.

Definition reg_list (r : reg) (b : board) : list cval :=
  match r with RAmp => b_amp b | REq => b_eq b | RBpf => b_bpf b | RAtt => map CFlt (b_att b) end.
Definition set_reg_list (r : reg) (v : list cval) (b : board) : board :=
  match r with RAmp => set_amp v b | REq => set_eq v b | RBpf => set_bpf v b | RAtt => b end.

Definition set_dbe01_one (r : reg) (name : list Z) (f : fres) (d : dev) (t : nat * Z) : option (dev * list Z) :=
  let (i, a) := t in
  match nth_opt i (boards d) with
  | None => None
  | Some b =>
      if negb (zero_or_one f) then Some (d, dbe_err name i $"value out of range")
      else if b_status b =? 1 then Some (d, dbe_err name i $"unreachable")
      else match f, nth_opt (Z.to_nat a) (reg_list r b) with
           | FHalf h, Some _ =>
               Some (upd_board i (set_reg_list r (set_nth (Z.to_nat a) (CFlt h) (reg_list r b))) d,
                     dbe_line name i $"ACK")
           | _, _ => None
           end
  end.

Fixpoint fold_lines (one : dev -> nat * Z -> option (dev * list Z)) (d : dev) (ts : list (nat * Z))
  : option (dev * list Z) :=
  match ts with
  | [] => Some (d, [])
  | t :: r =>
      match one d t with
      | None => None
      | Some (d1, l1) =>
          match fold_lines one d1 r with
          | None => None
          | Some (d2, l2) => Some (d2, l1 ++ l2)
          end
      end
  end.

Definition h_set_dbe (e : env) (d : dev) (r : reg) (ps : list (list Z)) : dev * outcome :=
  match ps with
  | [name; vtok] =>
      match targets r name with
      | [] => R d err_1015
      | ts =>
          (* SETDBEATT with +3 / -3 never calls float(); every other path calls it on the first board *)
          let rel := match r with RAtt => zlist_eqb vtok $"+3" || zlist_eqb vtok $"-3" | _ => false end in
          let go (f : fres) :=
            match fold_lines (match r with RAtt => set_dbeatt_one name vtok f | _ => set_dbe01_one r name f end) d ts with
            | None => (d, OException)
            | Some (d', text) => (d', OReply (drop_last text ++ crlf))
            end in
          if rel then go FOther
          else match py_float e vtok with
               | CvErr => (d, OValueError)         (* float() is not inside a try *)
               | CvMiss => (d, OOutside)
               | CvOk f => go f
               end
      end
  | _ => R d nak_reply
  end.

Definition get_dbe_line (r : reg) (name : list Z) (d : dev) (t : nat * Z) : option (list Z) :=
  let (i, a) := t in
  match nth_opt i (boards d) with
  | None => None
  | Some b =>
      if b_status b =? 1 then Some (dbe_err name i $"unreachable")
      else match nth_opt (Z.to_nat a) (reg_list r b) with
           | None => None
           | Some v => Some ($"ACK " ++ name ++ $" BOARD " ++ bnum i ++ [SP] ++ reg_name r ++ [SP] ++ zstr a
                             ++ $" VALUE " ++ cstr v ++ [LF])
           end
  end.

Fixpoint all_some {A} (l : list (option A)) : option (list A) :=
  match l with
  | [] => Some []
  | None :: _ => None
  | Some x :: r => match all_some r with Some xs => Some (x :: xs) | None => None end
  end.

Definition h_get_dbe (d : dev) (r : reg) (ps : list (list Z)) : dev * outcome :=
  match ps with
  | [name] =>
      match targets r name with
      | [] => R d err_1015
      | ts => match all_some (map (get_dbe_line r name d) ts) with
              | None => (d, OException)
              | Some ls => R d (drop_last (concat ls) ++ crlf)
              end
      end
  | _ => R d nak_reply
  end.

Definition exec (fix24 : bool) (e : env) (d : dev) (c : cmd) : dev * outcome :=
  match c with
  | KNak | KNakDev => R d nak_reply
  | KSetAllMode ps => h_set_allmode d ps
  | KSetMode ps => h_set_mode e d ps
  | KStoreAllMode ps => h_store_allmode d ps
  | KDeleteFile ps => h_delete_file d ps
  | KGetStatus ps => h_get_status e d ps
  | KSetReg r ps => h_set_reg e d r ps
  | KAllDiag ps => h_all_diag fix24 d ps
  | KDiag ps => h_diag fix24 e d ps
  | KSetStatus ps => h_set_status e d ps
  | KGetComp ps => h_get_comp e d ps
  | KGetCfg ps => h_get_cfg d ps
  | KGetFirm ps => h_get_firm e d ps
  | KSetDbe r ps => h_set_dbe e d r ps
  | KGetDbe r ps => h_get_dbe d r ps
  end.

(* ---- System.parse: '\n' completes; the character before it is dropped unconditionally ---- *)
Definition step (fix24 : bool) (e : env) (s : st) (b : Z) : st * outcome :=
  if b =? LF then
    let (d', o) := exec fix24 e (dv s) (decode (drop_last (msg s))) in ({| msg := []; dv := d' |}, o)
  else ({| msg := msg s ++ [b]; dv := dv s |}, OTrue).
