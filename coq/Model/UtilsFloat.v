(* Executable model of the IEEE-754 double codecs of simulators/utils.py (C09):
   real_to_bytes(x, 2, le), bytes_to_real(b, 2, le) through struct.pack('!d') / unpack.
   A Python float is a Flocq binary64 (NaN payloads kept). No proofs here. *)
From DS Require Import Base.Prelude Base.Bits.
From Flocq Require Import IEEE754.Binary IEEE754.Bits.

Definition real_to_bytes64 (x : binary64) (le : bool) : list Z :=
  let be := be_enc 8 (bits_of_b64 x) in if le then rev be else be.

(* struct.unpack raises unless exactly 8 bytes are given *)
Definition bytes_to_real64 (l : list Z) (le : bool) : option binary64 :=
  if (length l =? 8)%nat then Some (b64_of_bits (be_dec (if le then rev l else l))) else None.

(* real_to_binary(x, 2): the 64 characters of the big-endian bytes *)
Definition real_to_binary64 (x : binary64) : list bool :=
  concat (map (fun c => zfill 8 (bin c)) (be_enc 8 (bits_of_b64 x))).
