(* Executable model of simulators/utils.py codecs (C09).  No proofs here.
   Conventions: int -> Z, bytes and latin-1 str -> list Z (0..255), '0'/'1' strings -> list bool,
   a Python exception -> None. *)
From DS Require Import Base.Prelude Base.Bits.

(* checksum(msg): bin(sum)[2:].zfill(8)[-8:], int(.,2) ^ 0xFF *)
Definition zsum (l : list Z) : Z := fold_right Z.add 0 l.
Definition checksum (msg : list Z) : Z :=
  let bin_sum := bin (zsum msg) in
  let fixed := lastn 8 (zfill 8 bin_sum) in
  Z.lxor (int2 fixed) 255.

(* binary_complement(bin_string, mask) on well-formed binary strings *)
Definition binary_complement (s mask : list bool) : list bool :=
  let m := if (length s <? length mask)%nat then lastn (length s) mask
           else repeat true (length s - length mask) ++ mask in
  map (fun p : bool * bool => if snd p then negb (fst p) else false) (combine s m).

(* twos_to_int(binary_string); '' raises (1 << -1) *)
Definition twos_to_int (s : list bool) : option Z :=
  match s with
  | [] => None
  | _ =>
    let n := Z.of_nat (length s) in
    let v := int2 s in
    Some (if Z.land v (Z.shiftl 1 (n - 1)) =? 0 then v else v - Z.shiftl 1 n)
  end.

(* int_to_twos(val, n_bytes): math.pow is exact for the widths modelled (n_bytes >= 1,
   8*n_bytes <= 1024) *)
Definition int_to_twos (val : Z) (n_bytes : nat) : option (list bool) :=
  let n_bits := (8 * n_bytes)%nat in
  let min_range := - 2 ^ (Z.of_nat n_bits - 1) in
  let max_range := 2 ^ (Z.of_nat n_bits - 1) - 1 in
  if (val <? min_range) || (max_range <? val) then None
  else Some (zfill n_bits (bin (Z.land val (int2 (repeat true n_bits))))).

(* binary_to_bytes(binary_string, little_endian) *)
Fixpoint chunks8 (fuel : nat) (s : list bool) : list (list bool) :=
  match fuel with
  | O => []
  | S f => match s with
           | [] => []
           | _ => firstn 8 s :: chunks8 f (skipn 8 s)
           end
  end.
Definition binary_to_bytes (s : list bool) (le : bool) : list Z :=
  let bs := map (fun c => Z.land (int2 c) 255) (chunks8 (length s) s) in
  if le then rev bs else bs.

(* bytes_to_binary(byte_string, little_endian) *)
Definition bytes_to_binary (l : list Z) (le : bool) : list bool :=
  concat (map (fun c => zfill 8 (bin c)) (if le then rev l else l)).

(* bytes_to_int: int.from_bytes(.., signed=True) *)
Definition bytes_to_int (l : list Z) (le : bool) : Z :=
  match l with
  | [] => 0
  | _ => to_signed (8 * Z.of_nat (length l)) (if le then le_dec l else be_dec l)
  end.

(* bytes_to_uint: int(bytes_to_binary(..), 2); int('', 2) raises *)
Definition bytes_to_uint (l : list Z) (le : bool) : option Z :=
  match l with
  | [] => None
  | _ => Some (int2 (bytes_to_binary l le))
  end.

(* int_to_bytes: val.to_bytes(n, .., signed=True); OverflowError when it does not fit *)
Definition int_to_bytes (val : Z) (n : nat) (le : bool) : option (list Z) :=
  let w := 8 * Z.of_nat n in
  let fits := match n with
              | O => (val =? 0) || (val =? -1)   (* CPython: (-1).to_bytes(0, signed=True) = b"" *)
              | _ => (- 2 ^ (w - 1) <=? val) && (val <? 2 ^ (w - 1))
              end in
  if fits then Some (if le then le_enc n (of_signed w val) else be_enc n (of_signed w val))
  else None.

(* uint_to_bytes *)
Definition uint_to_bytes (val : Z) (n : nat) (le : bool) : option (list Z) :=
  let n_bits := (8 * n)%nat in
  if (val <? 0) || (2 ^ Z.of_nat n_bits - 1 <? val) then None
  else Some (binary_to_bytes (zfill n_bits (bin val)) le).

(* sign(number) on ints *)
Definition sign (z : Z) : Z := if z =? 0 then 0 else if z <? 0 then -1 else 1.
