(* Executable model of utils.mjd / utils.mjd_to_date (C09) on Coq's primitive binary64 floats
   (kernel primitives = the host's IEEE-754 arithmetic, the same the Python code runs on).
   Constants are hexadecimal literals (exact).  repr()/float() text conversions are inputs
   supplied by the harness (the integral part and the parsed fraction).  No proofs here. *)
From Coq Require Import ZArith List Bool Uint63 PrimFloat.
Import ListNotations.
Open Scope bool_scope.
Open Scope Z_scope.

Definition fz (z : Z) : float := of_uint63 (Uint63.of_Z z).      (* exact for 0 <= z < 2^53 *)

(* math.trunc of a finite non-negative float *)
Definition trunc_pos (x : float) : Z :=
  let (m, e) := frshiftexp x in
  let mant := normfr_mantissa m in                       (* m * 2^53 as a 63-bit integer *)
  if (e <=? 2154)%uint63 then                            (* x < 2^53: drop 2154 - e low bits *)
    Uint63.to_Z (mant >> (2154 - e))%uint63
  else Uint63.to_Z mant * 2 ^ (Uint63.to_Z e - 2154).

(* int(round(x)) for a finite non-negative float: round half to even *)
Definition round_pos (x : float) : Z :=
  let t := trunc_pos x in
  let fr := (x - fz t)%float in
  if (0x1p-1 <? fr)%float then t + 1
  else if (fr =? 0x1p-1)%float then (if Z.even t then t else t + 1)
  else t.

(* modified_julian_day of mjd(): the int(b + c + d + day - 679006) *)
Definition mjd_day (y mo d : Z) : Z :=
  let y' := if mo <=? 2 then y - 1 else y in
  let mo' := if mo <=? 2 then mo + 12 else mo in
  let a := trunc_pos (fz y' / 0x1.9p+6)%float in                      (* year / 100. *)
  let b := 2 - a + trunc_pos (fz a / 0x1p+2)%float in                 (* a / 4. *)
  let c := trunc_pos (0x1.6d4p+8 * fz y')%float in                    (* 365.25 * year *)
  let dd := trunc_pos (0x1.e99a027525461p+4 * fz (mo' + 1))%float in (* 30.6001 * (month + 1) *)
  b + c + dd + d - 679006.

Definition day_us (h mi s us : Z) : Z := ((h * 60 + mi) * 60 + s) * 1000000 + us.

(* mjd(date) *)
Definition mjd (y mo d h mi s us : Z) : float :=
  (fz (mjd_day y mo d) + fz (day_us h mi s us) / 0x1.41dd76p+36)%float.

(* mjd_to_date: [ipart] = int(repr(x).split('.')[0]), [frac] = float('0.' + padded fraction digits) *)
Definition civil_of (ipart : Z) (frac : float) : Z * Z * Z * Z * Z * Z * Z :=
  let micro := round_pos (frac * 0x1.41dd76p+36)%float in
  let mjdate := ((fz ipart + 0x1.24f804p+21) + 0x1p-1)%float in      (* += 2400000.5 ; + 0.5 *)
  let i := trunc_pos mjdate in
  let f := (mjdate - fz i)%float in
  let a := trunc_pos ((fz i - 0x1.c7dd04p+20) / 0x1.1d588p+15)%float in
  let b := i + 1 + a - trunc_pos (fz a / 0x1p+2)%float in
  let c := b + 1524 in
  let d := trunc_pos ((fz c - 0x1.e866666666666p+6) / 0x1.6d4p+8)%float in
  let e := trunc_pos (0x1.6d4p+8 * fz d)%float in
  let g := trunc_pos (fz (c - e) / 0x1.e99a027525461p+4)%float in
  let day := trunc_pos (fz (c - e) + f - fz (trunc_pos (0x1.e99a027525461p+4 * fz g)))%float in
  let month := if g <? 14 then g - 1 else g - 13 in
  let year := if 2 <? month then d - 4716 else d - 4715 in
  let second := micro / 1000000 in
  let us := micro mod 1000000 in
  let minute := second / 60 in
  let hour := minute / 60 in
  (year, month, day, hour, minute mod 60, second mod 60, us).

(* proleptic Gregorian calendar: enumeration of the days of a range of years *)
Definition leap (y : Z) : bool := ((y mod 4 =? 0) && negb (y mod 100 =? 0)) || (y mod 400 =? 0).
Definition mdays (y m : Z) : Z :=
  if m =? 2 then (if leap y then 29 else 28)
  else if (m =? 4) || (m =? 6) || (m =? 9) || (m =? 11) then 30 else 31.
Definition zrange (lo n : nat) : list Z := map Z.of_nat (seq lo n).
Definition days_of_year (y : Z) : list (Z * Z * Z) :=
  flat_map (fun m => map (fun d => (y, m, d)) (zrange 1 (Z.to_nat (mdays y m)))) (zrange 1 12).
Definition days_of_years (y0 n : nat) : list (Z * Z * Z) := flat_map days_of_year (zrange y0 n).

Definition valid_date (t : Z * Z * Z) : bool :=
  let '(y, m, d) := t in (1 <=? m) && (m <=? 12) && (1 <=? d) && (d <=? mdays y m).

Definition day_roundtrips (t : Z * Z * Z) : bool :=
  let '(y, m, d) := t in
  match civil_of (mjd_day y m d) 0%float with
  | (y', m', d', h, mi, s, us) =>
      (y' =? y) && (m' =? m) && (d' =? d) && (h =? 0) && (mi =? 0) && (s =? 0) && (us =? 0)
  end.
