(* Minor-servo PLC (tag Msv): the binary64 instance of the number operations of Model/MsvModel.v
   (Flocq BinarySingleNaN, round to nearest even = CPython float arithmetic), and the
   configuration built from the generated tables.  No proofs. *)
From DS Require Import Base.Prelude Model.MsvTypes Model.MsvModel Gen.MsvTables.
From Flocq Require Import Core.FLX IEEE754.BinarySingleNaN IEEE754.Binary IEEE754.Bits.

Definition F := BinarySingleNaN.binary_float 53 1024.

Definition prec_ok : Prec_gt_0 53 := eq_refl.
Definition emax_ok : Prec_lt_emax 53 1024 := eq_refl.

Definition f_of_bits (z : Z) : F := B2BSN 53 1024 (b64_of_bits z).

Definition f_add (a b : F) : F := @BinarySingleNaN.Bplus 53 1024 prec_ok emax_ok mode_NE a b.
Definition f_sub (a b : F) : F := @BinarySingleNaN.Bminus 53 1024 prec_ok emax_ok mode_NE a b.
Definition f_mul (a b : F) : F := @BinarySingleNaN.Bmult 53 1024 prec_ok emax_ok mode_NE a b.
Definition f_lt (a b : F) : bool :=
  match BinarySingleNaN.Bcompare a b with Some Lt => true | _ => false end.
Definition f_eqb (a b : F) : bool :=
  match BinarySingleNaN.Bcompare a b with Some Eq => true | _ => false end.
Definition f_zero : F := BinarySingleNaN.B754_zero false.
Definition f_one : F := f_of_bits 4607182418800017408.
Definition f_mone : F := f_of_bits 13830554455654793216.
(* numpy.sign: x > 0 -> 1.0, x < 0 -> -1.0, x == 0 -> 0.0 (also for -0.0), nan -> nan *)
Definition f_sign (x : F) : F :=
  match BinarySingleNaN.Bcompare x f_zero with
  | Some Gt => f_one
  | Some Lt => f_mone
  | Some Eq => f_zero
  | None => BinarySingleNaN.B754_nan
  end.

(* float(int): round to nearest even *)
Definition f_ofZ (z : Z) : F := BinarySingleNaN.binary_normalize 53 1024 prec_ok emax_ok mode_NE z 0 false.

Definition fops : numops F :=
  Build_numops F f_add f_sub f_mul f_lt f_eqb (@BinarySingleNaN.Babs 53 1024) f_sign
               (@BinarySingleNaN.is_finite 53 1024) f_zero f_ofZ.

(* structural identity of two doubles (all NaNs identified): used to compare snapshots and to
   look values up in the rendering table *)
Definition f_same (a b : F) : bool :=
  match a, b with
  | BinarySingleNaN.B754_zero s1, BinarySingleNaN.B754_zero s2 => Bool.eqb s1 s2
  | BinarySingleNaN.B754_infinity s1, BinarySingleNaN.B754_infinity s2 => Bool.eqb s1 s2
  | BinarySingleNaN.B754_nan, BinarySingleNaN.B754_nan => true
  | BinarySingleNaN.B754_finite s1 m1 e1 _, BinarySingleNaN.B754_finite s2 m2 e2 _ =>
      Bool.eqb s1 s2 && Pos.eqb m1 m2 && Z.eqb e1 e2
  | _, _ => false
  end.

(* the configuration of the shipped simulator, from the generated tables *)
Fixpoint layout_of (n : list Z) (l : list (list Z * list piece)) : list piece :=
  match l with
  | [] => []
  | (k, v) :: r => if zlist_eqb n k then v else layout_of n r
  end.

Definition gen_cfg {T} (of_bits : Z -> T) (timer_ticks : Z) : cfg T :=
  mk_cfg
    (map (fun r => mk_sconf (sr_name r) (sr_dof r) (sr_pt r) (map of_bits (sr_min r))
                            (map of_bits (sr_max r)) (map of_bits (sr_delta r))
                            (layout_of (sr_name r) g_layouts)) g_servos)
    (map (fun r => match r with
                   | (n, id, rows, cap) => mk_trow n id (map (map (option_map of_bits)) rows) cap
                   end) g_table)
    g_sys_layout g_commands g_bad g_good_prefix timer_ticks (of_bits g_pt_timegap_bits) g_pt_start_finite_check.

Definition fcfg (timer_ticks : Z) : cfg F := gen_cfg f_of_bits timer_ticks.
