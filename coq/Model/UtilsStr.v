(* Executable model of the str-based variants of the simulators/utils.py codecs and of the
   day_* helpers (C09).  No proofs here.
   A Python str is a list of code points (Z); str.encode('latin-1') raises UnicodeEncodeError
   when a code point is outside 0..255 (-> None); bytes.decode('latin-1') never fails and is
   the identity on code points. *)
From DS Require Import Base.Prelude Base.Bits Model.Utils.

Definition encode_latin1 (s : list Z) : option (list Z) :=
  if bytesb s then Some s else None.
Definition decode_latin1 (b : list Z) : list Z := b.

(* string_to_int(string, le) = bytes_to_int(string.encode('latin-1'), le) *)
Definition string_to_int (s : list Z) (le : bool) : option Z :=
  option_map (fun b => bytes_to_int b le) (encode_latin1 s).

(* string_to_binary(string, le) = bytes_to_binary(string.encode('latin-1'), le) *)
Definition string_to_binary (s : list Z) (le : bool) : option (list bool) :=
  option_map (fun b => bytes_to_binary b le) (encode_latin1 s).

(* string_to_uint(string, le) = bytes_to_uint(string.encode('latin-1'), le) *)
Definition string_to_uint (s : list Z) (le : bool) : option Z :=
  match encode_latin1 s with
  | Some b => bytes_to_uint b le
  | None => None
  end.

(* binary_to_string(s, le) = binary_to_bytes(s, le).decode('latin-1') *)
Definition binary_to_string (s : list bool) (le : bool) : list Z :=
  decode_latin1 (binary_to_bytes s le).

(* int_to_string / uint_to_string = the bytes variant decoded *)
Definition int_to_string (v : Z) (n : nat) (le : bool) : option (list Z) :=
  option_map decode_latin1 (int_to_bytes v n le).
Definition uint_to_string (v : Z) (n : nat) (le : bool) : option (list Z) :=
  option_map decode_latin1 (uint_to_bytes v n le).

(* day_microseconds(date): fields of a datetime (hour 0..23, minute/second 0..59, us 0..999999) *)
Definition day_microseconds (h mi s us : Z) : Z :=
  (((h * 60) + mi) * 60 + s) * 1000000 + us.

(* day_milliseconds(date) = int(round(float(us) / 1000)): the quotient us/1000 of an integer
   below 2^53 is correctly rounded, every x.5 below 2^27 is a double, and Python's round() of a
   double is round-half-even: so the result is the half-even rounding of the exact quotient. *)
Definition round_half_even_div (a d : Z) : Z :=
  let q := a / d in
  let r := a mod d in
  if 2 * r <? d then q
  else if d <? 2 * r then q + 1
  else if Z.even q then q else q + 1.
Definition day_milliseconds (h mi s us : Z) : Z :=
  round_half_even_div (day_microseconds h mi s us) 1000.
