(* Executable model of the client-side ACU command encoders (agent Acmd; C10 part acu):
     simulators/acu/acu_utils.py  ModeCommand, ParameterCommand, ProgramTrackEntry,
                                  ProgramTrackCommand, Command.get
   The message counter is an input (the harness presets `command_counter`; 0 would make the
   encoder read the wall clock and is outside the domain).  A double is given by its 64-bit
   pattern; a Python exception (field out of range, empty track sequence) is None.
   No proofs here. *)
From DS Require Import Base.Prelude Base.Bits Gen.AcmdTables.

(* utils.uint_to_string(v, n): ValueError outside 0 .. 256^n - 1 *)
Definition enc_uint (n : nat) (v : Z) : option (list Z) :=
  if (0 <=? v) && (v <? 256 ^ Z.of_nat n) then Some (le_enc n v) else None.
(* utils.int_to_string(v) (4 bytes): OverflowError outside the int32 range *)
Definition enc_int4 (v : Z) : option (list Z) :=
  if (- 2 ^ 31 <=? v) && (v <? 2 ^ 31) then Some (le_enc 4 (v mod 2 ^ 32)) else None.
(* utils.real_to_string(x, 2) of the double with bit pattern [bits] *)
Definition enc_real (bits : Z) : list Z := le_enc 8 bits.

(* ModeCommand.__init__: `if not parameter: parameter = 0.0` (None, 0, 0.0 and -0.0 are falsy) *)
Definition norm_param (bits : Z) : Z := if (bits =? 0) || (bits =? 2 ^ 63) then 0 else bits.

Inductive ecmd :=
| EMode (sub mode p1 p2 : Z)                       (* ModeCommand(sub, mode, p1, p2) *)
| EParam (sub pid p1 p2 : Z)                       (* ParameterCommand(sub, pid, p1, p2) *)
| ETrack (sub pid interp track load t0 raz rel : Z) (entries : list (Z * Z * Z)).
    (* ProgramTrackCommand(load, t0, (raz, rel), pid, interp, track, sub) + add_entry(t, az, el) *)

Definition obind {A B} (x : option A) (f : A -> option B) : option B :=
  match x with Some a => f a | None => None end.
Notation "'do' x <- a ; b" := (obind a (fun x => b)) (at level 200, x name, a at level 100, b at level 200).

Definition enc_entry (e : Z * Z * Z) : option (list Z) :=
  let '(t, az, el) := e in
  do bt <- enc_int4 t; Some (bt ++ enc_real az ++ enc_real el).

Fixpoint enc_entries (es : list (Z * Z * Z)) : option (list Z) :=
  match es with
  | [] => Some []
  | e :: es' => do b <- enc_entry e; do bs <- enc_entries es'; Some (b ++ bs)
  end.

Definition enc_cmd (counter : Z) (c : ecmd) : option (list Z) :=
  match c with
  | EMode sub mode p1 p2 =>
      do b1 <- enc_uint 2 1; do b2 <- enc_uint 2 sub; do b3 <- enc_uint 4 counter;
      do b4 <- enc_uint 2 mode;
      Some (b1 ++ b2 ++ b3 ++ b4 ++ enc_real (norm_param p1) ++ enc_real (norm_param p2))
  | EParam sub pid p1 p2 =>
      do b1 <- enc_uint 2 2; do b2 <- enc_uint 2 sub; do b3 <- enc_uint 4 counter;
      do b4 <- enc_uint 2 pid;
      Some (b1 ++ b2 ++ b3 ++ b4 ++ enc_real p1 ++ enc_real p2)
  | ETrack sub pid interp track load t0 raz rel entries =>
      match entries with
      | [] => None            (* 'Sequence must contain at least one entry.' *)
      | _ =>
        do seq <- enc_entries entries;
        do b1 <- enc_uint 2 4; do b2 <- enc_uint 2 sub; do b3 <- enc_uint 4 counter;
        do b4 <- enc_uint 2 pid; do b5 <- enc_uint 2 interp; do b6 <- enc_uint 2 track;
        do b7 <- enc_uint 2 load; do b8 <- enc_uint 2 (Z.of_nat (length entries));
        Some (b1 ++ b2 ++ b3 ++ b4 ++ b5 ++ b6 ++ b7 ++ b8
              ++ enc_real t0 ++ enc_real raz ++ enc_real rel ++ seq)
      end
  end.

(* the loop of Command.get: command i gets the counter [counter + 1 + i] *)
Fixpoint enc_cmds (next : Z) (cs : list ecmd) : option (list (list Z)) :=
  match cs with
  | [] => Some []
  | c :: cs' => do b <- enc_cmd next c; do bs <- enc_cmds (next + 1) cs'; Some (b :: bs)
  end.

Definition enc_frame (counter : Z) (cs : list ecmd) : option (list Z) :=
  if counter =? 0 then None
  else
    do bodies <- enc_cmds (counter + 1) cs;
    let body := concat bodies in
    do l <- enc_uint 4 (20 + Z.of_nat (length body));
    do c <- enc_uint 4 counter;
    do n <- enc_uint 4 (Z.of_nat (length cs));
    Some (start_flag ++ l ++ c ++ n ++ body ++ end_flag).
