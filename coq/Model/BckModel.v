(* Executable model of the backend simulators (C19; parts C02-C05, C07 backend):
     simulators/backend/grammar.py        parse_message, Message.__str__
     simulators/backend/genericbackend.py System.parse, _parse, every do_* handler, _start/_stop now/at,
                                          system_stop
     simulators/backend/sardara.py        (configuration-name pattern)
     simulators/backend/mistral.py        task flags, error priority, setup/sweep timers, reset
   as FIXED by fixes/16 (empty argument string rendered without the comma), fixes/17 (a re-schedule and
   MISTRAL reset cancel the timer they replace) and fixes/33 (non-finite timestamps refused).
   No proofs here.

   Conventions.  str -> list Z (one code point per element).  Time is Z: an order-preserving image of the
   float clock (the harness uses 2^-11 s units, the clock only takes even values).  Python builtins that are
   not repo code are oracles (record [oracle]): int(str), float(str), float(str)/ACS_TO_UNIX_TIME,
   f'{time.time():.7f}', str(random.random()*100).  threading.Timer objects are entries of the ledger
   [timers] = the started, not yet fired, not cancelled timers; every one of them is a non-daemon thread. *)
From DS Require Import Base.Prelude.
From Coq Require Import String Ascii DecimalString.

Definition zs (s : string) : list Z :=
  map (fun a => Z.of_N (N_of_ascii a)) (list_ascii_of_string s).

(* str(int) *)
Definition dec (z : Z) : list Z := zs (NilZero.string_of_int (Z.to_int z)).

(* ------------------------------------------------------------------------------------------ *)
(* characters and string helpers *)

Definition is_crlf (c : Z) : bool := (c =? 13) || (c =? 10).
Definition not_crlf (c : Z) : bool := negb (is_crlf c).
Definition is_alpha (c : Z) : bool := ((65 <=? c) && (c <=? 90)) || ((97 <=? c) && (c <=? 122)).
Definition is_digit (c : Z) : bool := (48 <=? c) && (c <=? 57).
Definition is_namech (c : Z) : bool := is_alpha c || is_digit c || (c =? 45).

Fixpoint dropwhile (p : Z -> bool) (l : list Z) : list Z :=
  match l with
  | [] => []
  | x :: r => if p x then dropwhile p r else l
  end.
Fixpoint takewhile (p : Z -> bool) (l : list Z) : list Z :=
  match l with
  | [] => []
  | x :: r => if p x then x :: takewhile p r else []
  end.

(* s.strip('\r\n'): both ends, character set {CR, LF} *)
Definition strip_crlf (l : list Z) : list Z :=
  rev (dropwhile is_crlf (rev (dropwhile is_crlf l))).

(* s.split(',') *)
Fixpoint split_comma (l : list Z) : list (list Z) :=
  match l with
  | [] => [[]]
  | c :: r => if c =? 44 then [] :: split_comma r
              else match split_comma r with
                   | [] => [[c]]
                   | h :: t => (c :: h) :: t
                   end
  end.
(* ','.join(l) *)
Fixpoint join_comma (ls : list (list Z)) : list Z :=
  match ls with
  | [] => []
  | a :: r => match r with
              | [] => a
              | _ :: _ => a ++ 44 :: join_comma r
              end
  end.

Fixpoint strip_prefix (p l : list Z) : option (list Z) :=
  match p with
  | [] => Some l
  | a :: p' => match l with
               | b :: l' => if a =? b then strip_prefix p' l' else None
               | [] => None
               end
  end.

(* ------------------------------------------------------------------------------------------ *)
(* grammar.py: hand-written recogniser for request_re and reply_re (the evaluated pattern strings are in
   Model/BckGolden.v and are pinned to the source by Gen/BckTables.v):
     request:  ^ '?' name [ ',' arguments ] [ CR LF ] $
     reply:    ^ '!' name ',' ( ok | fail | invalid ) [ ',' arguments ] [ CR LF ] $
     name = one ASCII letter then letters, digits, '-' (greedy); arguments = one or more characters other
     than CR and LF (greedy).  Python's `$` without MULTILINE matches at the end of the string and just
     before a final LF. *)

Definition is_tail (l : list Z) : bool :=
  zlist_eqb l [] || zlist_eqb l [13; 10] || zlist_eqb l [10] || zlist_eqb l [13; 10; 10].

(* optional arguments, optional CR LF, end -- on the remainder: None = no match, Some None = no arguments *)
Definition parse_optargs (rest : list Z) : option (option (list Z)) :=
  if is_tail rest then Some None
  else match rest with
       | c :: r =>
         if c =? 44 then
           match takewhile not_crlf r with
           | [] => None
           | a => if is_tail (dropwhile not_crlf r) then Some (Some a) else None
           end
         else None
       | [] => None
       end.

(* the name group and what follows it *)
Definition parse_name (l : list Z) : option (list Z * list Z) :=
  match l with
  | c :: r => if is_alpha c then Some (c :: takewhile is_namech r, dropwhile is_namech r) else None
  | [] => None
  end.

Definition args_of (oa : option (list Z)) : list (list Z) :=
  match oa with
  | None => []
  | Some a => split_comma a
  end.

Inductive pm :=
| PMEmpty                                              (* GrammarException('empty message is not valid') *)
| PMBadType (c : Z)                                    (* GrammarException("invalid message type 'c'")  *)
| PMSyntax                                             (* GrammarException('invalid syntax')             *)
| PMReq (name : list Z) (args : list (list Z))
| PMRep (name code : list Z) (args : list (list Z)).

Definition codes : list (list Z) := [zs "ok"; zs "fail"; zs "invalid"].

(* ,(ok|fail|invalid) followed by the optional arguments: ordered alternation with backtracking *)
Fixpoint parse_code (cs : list (list Z)) (rest : list Z) : option (list Z * option (list Z)) :=
  match cs with
  | [] => None
  | c :: cs' =>
    match strip_prefix c rest with
    | Some rest' =>
      match parse_optargs rest' with
      | Some oa => Some (c, oa)
      | None => parse_code cs' rest
      end
    | None => parse_code cs' rest
    end
  end.

Definition parse_message (m : list Z) : pm :=
  match m with
  | [] => PMEmpty
  | t :: body =>
    if t =? 33 then
      match parse_name body with
      | Some (name, rest) =>
        match rest with
        | c :: rest' =>
          if c =? 44 then
            match parse_code codes rest' with
            | Some (code, oa) => PMRep name code (args_of oa)
            | None => PMSyntax
            end
          else PMSyntax
        | [] => PMSyntax
        end
      | None => PMSyntax
      end
    else if t =? 63 then
      match parse_name body with
      | Some (name, rest) =>
        match parse_optargs rest with
        | Some oa => PMReq name (args_of oa)
        | None => PMSyntax
        end
      | None => PMSyntax
      end
    else PMBadType t
  end.

(* Message.__str__ of a reply (fixes/16: the comma is written only before a non-empty argument string) *)
Definition reply_str (name code : list Z) (args : list (list Z)) : list Z :=
  let a := join_comma args in
  [33] ++ name ++ [44] ++ code ++ (match a with [] => [] | _ => 44 :: a end) ++ [13; 10].

(* ------------------------------------------------------------------------------------------ *)
(* oracles: Python builtins applied to argument tokens / to the clock *)

Inductive fres := FErr | FNaN | FPInf | FNInf | FFin (num den : Z).   (* float(tok): num/den, den > 0 *)
Inductive tsres := TsErr | TsNaN | TsPInf | TsNInf | TsFin (t : Z).   (* float(tok)/ACS_TO_UNIX_TIME *)

Record oracle := mkOracle {
  o_int  : list Z -> option Z;        (* int(tok); None = ValueError *)
  o_flt  : list Z -> fres;
  o_ts   : list Z -> tsres;
  o_time : Z -> list Z;               (* f'{time.time():.7f}' at model time t *)
  o_tpi1 : list Z;                    (* str(random.random() * 100), masked by the harness *)
  o_tpi2 : list Z
}.

Inductive variant := VGeneric | VSardara | VMistral.

Inductive tkind := KStart | KStop | KSetup | KTarget | KVna.
Record timer := mkTimer { t_kind : tkind; t_due : Z; t_id : Z }.

Record st := mkSt {
  rbuf : list Z;
  now : Z;
  acq : bool;
  wstart : bool;
  wstop : bool;
  startID : option Z;
  stopID : option Z;
  fname : list Z;
  conf : list Z;
  integ : Z;
  interleave : Z;
  failure : bool;
  ready : bool;
  rsetup : bool;
  rtarget : bool;
  rvna : bool;
  setupID : option Z;
  targetID : option Z;
  vnaID : option Z;
  timers : list timer;
  next_id : Z
}.
Definition set_rbuf (s : st) (x : list Z) : st :=
  mkSt x (now s) (acq s) (wstart s) (wstop s) (startID s) (stopID s) (fname s) (conf s) (integ s) (interleave s) (failure s) (ready s) (rsetup s) (rtarget s) (rvna s) (setupID s) (targetID s) (vnaID s) (timers s) (next_id s).
Definition set_now (s : st) (x : Z) : st :=
  mkSt (rbuf s) x (acq s) (wstart s) (wstop s) (startID s) (stopID s) (fname s) (conf s) (integ s) (interleave s) (failure s) (ready s) (rsetup s) (rtarget s) (rvna s) (setupID s) (targetID s) (vnaID s) (timers s) (next_id s).
Definition set_acq (s : st) (x : bool) : st :=
  mkSt (rbuf s) (now s) x (wstart s) (wstop s) (startID s) (stopID s) (fname s) (conf s) (integ s) (interleave s) (failure s) (ready s) (rsetup s) (rtarget s) (rvna s) (setupID s) (targetID s) (vnaID s) (timers s) (next_id s).
Definition set_wstart (s : st) (x : bool) : st :=
  mkSt (rbuf s) (now s) (acq s) x (wstop s) (startID s) (stopID s) (fname s) (conf s) (integ s) (interleave s) (failure s) (ready s) (rsetup s) (rtarget s) (rvna s) (setupID s) (targetID s) (vnaID s) (timers s) (next_id s).
Definition set_wstop (s : st) (x : bool) : st :=
  mkSt (rbuf s) (now s) (acq s) (wstart s) x (startID s) (stopID s) (fname s) (conf s) (integ s) (interleave s) (failure s) (ready s) (rsetup s) (rtarget s) (rvna s) (setupID s) (targetID s) (vnaID s) (timers s) (next_id s).
Definition set_startID (s : st) (x : option Z) : st :=
  mkSt (rbuf s) (now s) (acq s) (wstart s) (wstop s) x (stopID s) (fname s) (conf s) (integ s) (interleave s) (failure s) (ready s) (rsetup s) (rtarget s) (rvna s) (setupID s) (targetID s) (vnaID s) (timers s) (next_id s).
Definition set_stopID (s : st) (x : option Z) : st :=
  mkSt (rbuf s) (now s) (acq s) (wstart s) (wstop s) (startID s) x (fname s) (conf s) (integ s) (interleave s) (failure s) (ready s) (rsetup s) (rtarget s) (rvna s) (setupID s) (targetID s) (vnaID s) (timers s) (next_id s).
Definition set_fname (s : st) (x : list Z) : st :=
  mkSt (rbuf s) (now s) (acq s) (wstart s) (wstop s) (startID s) (stopID s) x (conf s) (integ s) (interleave s) (failure s) (ready s) (rsetup s) (rtarget s) (rvna s) (setupID s) (targetID s) (vnaID s) (timers s) (next_id s).
Definition set_conf (s : st) (x : list Z) : st :=
  mkSt (rbuf s) (now s) (acq s) (wstart s) (wstop s) (startID s) (stopID s) (fname s) x (integ s) (interleave s) (failure s) (ready s) (rsetup s) (rtarget s) (rvna s) (setupID s) (targetID s) (vnaID s) (timers s) (next_id s).
Definition set_integ (s : st) (x : Z) : st :=
  mkSt (rbuf s) (now s) (acq s) (wstart s) (wstop s) (startID s) (stopID s) (fname s) (conf s) x (interleave s) (failure s) (ready s) (rsetup s) (rtarget s) (rvna s) (setupID s) (targetID s) (vnaID s) (timers s) (next_id s).
Definition set_interleave (s : st) (x : Z) : st :=
  mkSt (rbuf s) (now s) (acq s) (wstart s) (wstop s) (startID s) (stopID s) (fname s) (conf s) (integ s) x (failure s) (ready s) (rsetup s) (rtarget s) (rvna s) (setupID s) (targetID s) (vnaID s) (timers s) (next_id s).
Definition set_failure (s : st) (x : bool) : st :=
  mkSt (rbuf s) (now s) (acq s) (wstart s) (wstop s) (startID s) (stopID s) (fname s) (conf s) (integ s) (interleave s) x (ready s) (rsetup s) (rtarget s) (rvna s) (setupID s) (targetID s) (vnaID s) (timers s) (next_id s).
Definition set_ready (s : st) (x : bool) : st :=
  mkSt (rbuf s) (now s) (acq s) (wstart s) (wstop s) (startID s) (stopID s) (fname s) (conf s) (integ s) (interleave s) (failure s) x (rsetup s) (rtarget s) (rvna s) (setupID s) (targetID s) (vnaID s) (timers s) (next_id s).
Definition set_rsetup (s : st) (x : bool) : st :=
  mkSt (rbuf s) (now s) (acq s) (wstart s) (wstop s) (startID s) (stopID s) (fname s) (conf s) (integ s) (interleave s) (failure s) (ready s) x (rtarget s) (rvna s) (setupID s) (targetID s) (vnaID s) (timers s) (next_id s).
Definition set_rtarget (s : st) (x : bool) : st :=
  mkSt (rbuf s) (now s) (acq s) (wstart s) (wstop s) (startID s) (stopID s) (fname s) (conf s) (integ s) (interleave s) (failure s) (ready s) (rsetup s) x (rvna s) (setupID s) (targetID s) (vnaID s) (timers s) (next_id s).
Definition set_rvna (s : st) (x : bool) : st :=
  mkSt (rbuf s) (now s) (acq s) (wstart s) (wstop s) (startID s) (stopID s) (fname s) (conf s) (integ s) (interleave s) (failure s) (ready s) (rsetup s) (rtarget s) x (setupID s) (targetID s) (vnaID s) (timers s) (next_id s).
Definition set_setupID (s : st) (x : option Z) : st :=
  mkSt (rbuf s) (now s) (acq s) (wstart s) (wstop s) (startID s) (stopID s) (fname s) (conf s) (integ s) (interleave s) (failure s) (ready s) (rsetup s) (rtarget s) (rvna s) x (targetID s) (vnaID s) (timers s) (next_id s).
Definition set_targetID (s : st) (x : option Z) : st :=
  mkSt (rbuf s) (now s) (acq s) (wstart s) (wstop s) (startID s) (stopID s) (fname s) (conf s) (integ s) (interleave s) (failure s) (ready s) (rsetup s) (rtarget s) (rvna s) (setupID s) x (vnaID s) (timers s) (next_id s).
Definition set_vnaID (s : st) (x : option Z) : st :=
  mkSt (rbuf s) (now s) (acq s) (wstart s) (wstop s) (startID s) (stopID s) (fname s) (conf s) (integ s) (interleave s) (failure s) (ready s) (rsetup s) (rtarget s) (rvna s) (setupID s) (targetID s) x (timers s) (next_id s).
Definition set_timers (s : st) (x : list timer) : st :=
  mkSt (rbuf s) (now s) (acq s) (wstart s) (wstop s) (startID s) (stopID s) (fname s) (conf s) (integ s) (interleave s) (failure s) (ready s) (rsetup s) (rtarget s) (rvna s) (setupID s) (targetID s) (vnaID s) x (next_id s).
Definition set_next_id (s : st) (x : Z) : st :=
  mkSt (rbuf s) (now s) (acq s) (wstart s) (wstop s) (startID s) (stopID s) (fname s) (conf s) (integ s) (interleave s) (failure s) (ready s) (rsetup s) (rtarget s) (rvna s) (setupID s) (targetID s) (vnaID s) (timers s) x.

(* time constants in model units (2^-11 s): mistral.setup_time = 60 s, sweep_time = 300 s *)
Definition units_per_s : Z := 2048.
Definition setup_time_s : Z := 60.
Definition sweep_time_s : Z := 300.
Definition max_sections : Z := 14.
Definition max_bandwidth : Z := 2000.

Definition unconfigured : list Z := zs "unconfigured".

Definition init (t0 : Z) : st :=
  mkSt [] t0 false false false None None [] unconfigured 0 0 false
       false false false false None None None [] 0.

(* ledger operations *)
Definition tkind_eqb (a b : tkind) : bool :=
  match a, b with
  | KStart, KStart | KStop, KStop | KSetup, KSetup | KTarget, KTarget | KVna, KVna => true
  | _, _ => false
  end.

Definition cancel_id (s : st) (i : option Z) : st :=      (* timer.cancel() [; timer.join()] *)
  match i with
  | None => s
  | Some k => set_timers s (filter (fun tm => negb (t_id tm =? k)) (timers s))
  end.

Definition new_timer (s : st) (k : tkind) (due : Z) : st * Z :=   (* Timer(...).start() *)
  let i := next_id s in
  (set_next_id (set_timers s (timers s ++ [mkTimer k due i])) (i + 1), i).

(* ------------------------------------------------------------------------------------------ *)
(* handlers *)

Inductive cmd :=
| CStatus | CVersion | CGetConfiguration | CSetConfiguration | CSetIntegration | CGetIntegration
| CSetSection | CGetTpi | CGetTp0 | CCalOn | CSetEnable | CTime | CStart | CStop | CSetFilename
| CGetFilename | CConvertData
| CSetup | CTargetSweep | CVnaSweep | CReset.

Definition handler_name (c : cmd) : list Z :=
  match c with
  | CStatus => zs "do_status" | CVersion => zs "do_version"
  | CGetConfiguration => zs "do_get_configuration" | CSetConfiguration => zs "do_set_configuration"
  | CSetIntegration => zs "do_set_integration" | CGetIntegration => zs "do_get_integration"
  | CSetSection => zs "do_set_section" | CGetTpi => zs "do_getTpi" | CGetTp0 => zs "do_getTp0"
  | CCalOn => zs "do_cal_on" | CSetEnable => zs "do_set_enable" | CTime => zs "do_time"
  | CStart => zs "do_start" | CStop => zs "do_stop" | CSetFilename => zs "do_set_filename"
  | CGetFilename => zs "do_get_filename" | CConvertData => zs "do_convert_data"
  | CSetup => zs "do_setup" | CTargetSweep => zs "do_target_sweep" | CVnaSweep => zs "do_vna_sweep"
  | CReset => zs "do_reset"
  end.

Definition commands_generic : list (list Z * cmd) :=
  [ (zs "status", CStatus); (zs "version", CVersion); (zs "get-configuration", CGetConfiguration);
    (zs "set-configuration", CSetConfiguration); (zs "set-integration", CSetIntegration);
    (zs "get-integration", CGetIntegration); (zs "set-section", CSetSection); (zs "get-tpi", CGetTpi);
    (zs "get-tp0", CGetTp0); (zs "cal-on", CCalOn); (zs "set-enable", CSetEnable); (zs "time", CTime);
    (zs "start", CStart); (zs "stop", CStop); (zs "set-filename", CSetFilename);
    (zs "get-filename", CGetFilename); (zs "convert-data", CConvertData) ].
Definition commands_mistral : list (list Z * cmd) :=
  [ (zs "setup", CSetup); (zs "target-sweep", CTargetSweep); (zs "vna-sweep", CVnaSweep);
    (zs "reset", CReset) ] ++ commands_generic.

Fixpoint assoc {B} (k : list Z) (l : list (list Z * B)) : option B :=
  match l with
  | [] => None
  | (k', v) :: r => if zlist_eqb k k' then Some v else assoc k r
  end.

Definition dispatch (v : variant) (name : list Z) : option cmd :=
  match v with
  | VMistral => assoc name commands_mistral
  | _ => assoc name commands_generic
  end.

Inductive hres :=
| HOk (s : st) (reply_args : list (list Z))
| HFail (msg : list Z).                       (* raise BackendError(msg): nothing was changed before *)

Definition protocol_version : list Z := zs "1.2".

Definition bit (b : bool) : list Z := if b then zs "1" else zs "0".

(* _valid_conf_re: '^[a-z0-9]' (generic, mistral), '^[A-Z0-9]' (sardara) *)
Definition valid_conf (v : variant) (c : list Z) : bool :=
  match c with
  | [] => false
  | x :: _ => is_digit x ||
              match v with
              | VSardara => (65 <=? x) && (x <=? 90)
              | _ => (97 <=? x) && (x <=? 122)
              end
  end.

(* MISTRAL: running_task / error *)
Definition running_task (s : st) : list Z :=
  if rvna s then zs "vna-sweep"
  else if rtarget s then zs "target-sweep"
  else if rsetup s then zs "setup"
  else if acq s then zs "acquisition"
  else [].

Inductive merr := ENone | EFailure | ETask (t : list Z) | ESetup.

Definition merror (s : st) : merr :=
  if failure s then EFailure
  else match running_task s with
       | [] => if ready s then ENone else ESetup
       | t => ETask t
       end.

Definition merr_msg (e : merr) : list Z :=
  match e with
  | ENone => []
  | EFailure => zs "failure description"
  | ETask t => t ++ zs " in progress"
  | ESetup => zs "system not initialized (setup required)"
  end.

Definition quote (pre a : list Z) : list Z := pre ++ zs "'" ++ a ++ zs "'".

(* _start_now / _stop_now: None = raise BackendError *)
Definition start_now (s : st) : option st :=
  if acq s then None else Some (set_acq (set_wstart s false) true).
Definition stop_now (s : st) : option st :=
  if acq s then Some (set_acq (set_wstop (set_wstart s false) false) false) else None.

Definition start_at (s : st) (t : Z) : hres :=
  if t <? now s then HFail (zs "starting time already elapsed")
  else let s1 := cancel_id s (startID s) in
       let (s2, i) := new_timer (set_wstart s1 true) KStart t in
       HOk (set_startID s2 (Some i)) [].
Definition stop_at (s : st) (t : Z) : hres :=
  if t <? now s then HFail (zs "stop time already elapsed")
  else let s1 := cancel_id s (stopID s) in
       let (s2, i) := new_timer (set_wstop s1 true) KStop t in
       HOk (set_stopID s2 (Some i)) [].

Definition do_start_generic (o : oracle) (s : st) (args : list (list Z)) : hres :=
  match args with
  | [] => match start_now s with
          | Some s' => HOk s' []
          | None => HFail (zs "already acquiring")
          end
  | a :: _ => match o_ts o a with
              | TsFin t => start_at s t
              | _ => HFail (quote (zs "wrong timestamp ") a)
              end
  end.
Definition do_stop (o : oracle) (s : st) (args : list (list Z)) : hres :=
  match args with
  | [] => match stop_now s with
          | Some s' => HOk s' []
          | None => HFail (zs "not acquiring")
          end
  | a :: _ => match o_ts o a with
              | TsFin t => stop_at s t
              | _ => HFail (quote (zs "wrong timestamp ") a)
              end
  end.

(* _get_param(p, conv): '*' passes; None = ValueError *)
Definition star : list Z := zs "*".
Inductive param := PStar | PInt (z : Z) | PFlt (f : fres).
Definition get_int (o : oracle) (p : list Z) : option param :=
  if zlist_eqb p star then Some PStar
  else match o_int o p with Some z => Some (PInt z) | None => None end.
Definition get_flt (o : oracle) (p : list Z) : option param :=
  if zlist_eqb p star then Some PStar
  else match o_flt o p with FErr => None | f => Some (PFlt f) end.

(* x > limit on floats: NaN compares false *)
Definition flt_gt (f : fres) (lim : Z) : bool :=
  match f with
  | FPInf => true
  | FFin n d => lim * d <? n
  | _ => false
  end.

Definition do_set_section (o : oracle) (s : st) (args : list (list Z)) : hres :=
  match args with
  | a0 :: a1 :: a2 :: a3 :: _ :: a5 :: a6 :: _ =>
    match get_int o a0, get_flt o a1, get_flt o a2, get_int o a3, get_flt o a5, get_int o a6 with
    | Some section, Some _, Some bandwidth, Some _, Some _, Some _ =>
      if match section with PInt z => max_sections <? z | _ => false end
      then HFail (zs "backend supports 14 sections")
      else if match bandwidth with PFlt f => flt_gt f max_bandwidth | _ => false end
      then HFail (zs "backend maximum bandwidth is 2000.000000")
      else HOk s []                      (* self._sections[section] = ... : no read path, not modelled *)
    | _, _, _, _, _, _ => HFail (zs "wrong parameter format")
    end
  | _ => HFail (zs "set-section needs 7 arguments")
  end.

Definition do_set_enable (o : oracle) (s : st) (args : list (list Z)) : hres :=
  match args with
  | a0 :: a1 :: _ =>
    match o_int o a0, o_int o a1 with
    | Some f1, Some f2 =>
      if negb ((0 <=? f1) && (f1 <? 7)) then HFail (zs "feed1 out of range")
      else if negb ((0 <=? f2) && (f2 <? 7)) then HFail (zs "feed2 out of range")
      else HOk s []                      (* self.current_sections = [...] : no read path, not modelled *)
    | _, _ => HFail (zs "wrong parameter format")
    end
  | _ => HFail (zs "set-enable needs 2 arguments")
  end.

Definition mistral_status_msg (s : st) : list Z :=
  match merr_msg (merror s) with
  | [] => zs "ready to run a task"
  | m => m
  end.

(* do_reset (fixes/17: also cancels the start/stop timers), set_default, GenericBackendSystem.__init__ *)
Definition do_reset (s : st) : st :=
  let s := cancel_id s (setupID s) in
  let s := cancel_id s (targetID s) in
  let s := cancel_id s (vnaID s) in
  let s := cancel_id s (startID s) in
  let s := cancel_id s (stopID s) in
  mkSt [] (now s) false false false None None [] unconfigured 0 0 false
       false false false false None None None (timers s) (next_id s).

Definition task_guard (s : st) (k : hres) : hres :=
  match merror s with
  | ENone => k
  | e => HFail (merr_msg e)
  end.

Definition handler (o : oracle) (v : variant) (c : cmd) (s : st) (args : list (list Z)) : hres :=
  match c with
  | CStatus =>
    HOk s [o_time o (now s);
           match v with VMistral => mistral_status_msg s | _ => zs "ok" end;
           bit (acq s)]
  | CVersion => HOk s [protocol_version]
  | CGetConfiguration => HOk s [conf s]
  | CSetConfiguration =>
    match args with
    | [] => HFail (zs "missing argument: configuration")
    | a :: _ => if valid_conf v a then HOk (set_conf s a) [] else HFail (zs "invalid configuration")
    end
  | CGetIntegration => HOk s [dec (integ s)]
  | CSetIntegration =>
    match args with
    | [] => HFail (zs "missing argument: integration time")
    | a :: _ => match o_int o a with
                | Some z => if z <? 0 then HFail (zs "integration time must be an integer number")
                            else HOk (set_integ s z) []
                | None => HFail (zs "integration time must be an integer number")
                end
    end
  | CSetSection => do_set_section o s args
  | CGetTpi => HOk s [o_tpi1 o; o_tpi2 o]
  | CGetTp0 => HOk s [zs "0"; zs "0"]
  | CCalOn =>
    match args with
    | [] => HOk (set_interleave s 0) []
    | a :: _ => match o_int o a with
                | Some z => if z <? 0 then HFail (zs "interleave samples must be a positive int")
                            else HOk (set_interleave s z) []
                | None => HFail (zs "interleave samples must be a positive int")
                end
    end
  | CSetEnable => do_set_enable o s args
  | CTime => HOk s [o_time o (now s)]
  | CStart =>
    match v with
    | VMistral => task_guard s (do_start_generic o s args)
    | _ => do_start_generic o s args
    end
  | CStop => do_stop o s args
  | CSetFilename =>
    match args with
    | [] => HFail (zs "command needs <filename> as argument")
    | a :: _ => HOk (set_fname s a) []
    end
  | CGetFilename => HOk s [fname s]
  | CConvertData => HOk s []
  | CSetup =>
    match merror s with
    | ENone | ESetup =>
      let (s1, i) := new_timer (set_rsetup s true) KSetup (now s + setup_time_s * units_per_s) in
      HOk (set_setupID s1 (Some i)) []
    | e => HFail (merr_msg e)
    end
  | CTargetSweep =>
    task_guard s
      (let (s1, i) := new_timer (set_rtarget s true) KTarget (now s + sweep_time_s * units_per_s) in
       HOk (set_targetID s1 (Some i)) [])
  | CVnaSweep =>
    task_guard s
      (let (s1, i) := new_timer (set_rvna s true) KVna (now s + sweep_time_s * units_per_s) in
       HOk (set_vnaID s1 (Some i)) [])
  | CReset => HOk (do_reset s) []
  end.

(* ------------------------------------------------------------------------------------------ *)
(* _parse and parse *)

Inductive obs :=
| OTrue                                   (* parse returned True *)
| OReply (r : list Z)                     (* parse returned the reply string *)
| OFired (l : list (tkind * bool))        (* timers fired by an advance, in order; false = the callback raised *)
| OAck (r : list Z)                       (* return value of system_stop *)
| ONone.

Definition undefined : list Z := zs "undefined".
Definition c_ok : list Z := zs "ok".
Definition c_fail : list Z := zs "fail".
Definition c_invalid : list Z := zs "invalid".

Definition syntax_reply (what : list Z) : list Z :=
  reply_str undefined c_invalid [zs "syntax error: " ++ what].

Definition parse_line (o : oracle) (v : variant) (s : st) (line : list Z) : st * obs :=
  match parse_message line with
  | PMEmpty => (s, OReply (syntax_reply (zs "empty message is not valid")))
  | PMBadType c => (s, OReply (syntax_reply (quote (zs "invalid message type ") [c])))
  | PMSyntax => (s, OReply (syntax_reply (zs "invalid syntax")))
  | PMRep _ _ _ => (s, OTrue)
  | PMReq name args =>
    match dispatch v name with
    | None => (s, OReply (reply_str name c_fail [quote (zs "invalid command ") name]))
    | Some c =>
      match handler o v c s args with
      | HOk s' ra => (s', OReply (reply_str name (if failure s' then c_fail else c_ok) ra))
      | HFail m => (s, OReply (reply_str name c_fail [m]))
      end
    end
  end.

(* parse(byte): rbuf is self.msg reversed; msg.endswith('\r\n') after appending the byte *)
Definition ends_crlf (b : Z) (rb : list Z) : bool :=
  match rb with
  | c :: _ => (b =? 10) && (c =? 13)
  | [] => false
  end.

Definition feed (o : oracle) (v : variant) (s : st) (b : Z) : st * obs :=
  if ends_crlf b (rbuf s)
  then parse_line o v (set_rbuf s []) (strip_crlf (rev (b :: rbuf s)))
  else (set_rbuf s (b :: rbuf s), OTrue).

(* ------------------------------------------------------------------------------------------ *)
(* timers firing, system_stop, events *)

(* the timer leaves the ledger, then its callback runs; false = the callback raised (in the timer thread) *)
Definition fire (s : st) (tm : timer) : st * bool :=
  let s := set_timers s (filter (fun x => negb (t_id x =? t_id tm)) (timers s)) in
  match t_kind tm with
  | KStart => match start_now s with Some s' => (s', true) | None => (s, false) end
  | KStop => match stop_now s with Some s' => (s', true) | None => (s, false) end
  | KSetup => (set_rsetup (set_ready s true) false, true)
  | KTarget => (set_rtarget s false, true)
  | KVna => (set_rvna s false, true)
  end.

Definition timer_le (a b : timer) : bool :=
  (t_due a <? t_due b) || ((t_due a =? t_due b) && (t_id a <=? t_id b)).
Fixpoint insert_timer (a : timer) (l : list timer) : list timer :=
  match l with
  | [] => [a]
  | b :: r => if timer_le a b then a :: l else b :: insert_timer a r
  end.
Definition sort_timers (l : list timer) : list timer := fold_right insert_timer [] l.

Fixpoint fire_all (s : st) (l : list timer) : st * list (tkind * bool) :=
  match l with
  | [] => (s, [])
  | tm :: r => let (s1, okb) := fire s tm in
               let (s2, fs) := fire_all s1 r in
               (s2, (t_kind tm, okb) :: fs)
  end.

(* the virtual clock moves to t (never backwards); every timer due by then fires, earliest first,
   equal due times in creation order *)
Definition advance (s : st) (t : Z) : st * obs :=
  let t' := Z.max t (now s) in
  let due := sort_timers (filter (fun tm => t_due tm <=? t') (timers s)) in
  let (s1, fs) := fire_all s due in
  (set_now s1 t', OFired fs).

Definition shutdown_ack : list Z := zs "$server_shutdown%%%%%".

Definition system_stop (v : variant) (s : st) : st * obs :=
  let s := match v with
           | VMistral =>                              (* stop_tasks() *)
             let s := cancel_id s (setupID s) in
             let s := cancel_id s (targetID s) in
             cancel_id s (vnaID s)
           | _ => s
           end in
  let s := cancel_id s (startID s) in                 (* _cancel_timers() *)
  let s := cancel_id s (stopID s) in
  (s, OAck shutdown_ack).

Inductive event :=
| EByte (b : Z)
| EAdvance (t : Z)
| ESysStop
| ESetFailure (f : bool).                 (* the hardware failure flag, set from outside the protocol *)

Definition step (o : oracle) (v : variant) (s : st) (e : event) : st * obs :=
  match e with
  | EByte b => feed o v s b
  | EAdvance t => advance s t
  | ESysStop => system_stop v s
  | ESetFailure f => (set_failure s f, ONone)
  end.

Fixpoint run (o : oracle) (v : variant) (s : st) (es : list event) : st * list obs :=
  match es with
  | [] => (s, [])
  | e :: r => let (s1, x) := step o v s e in
              let (s2, xs) := run o v s1 r in
              (s2, x :: xs)
  end.
