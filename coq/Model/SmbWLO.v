(* Executable model of simulators/lo/w_LO.py : System.parse(byte), with
   fixes/26-wlo-unknown-command-and-ref-readback.diff applied (unknown command names are skipped,
   an empty answer returns True, the Ref getters apply str() before capitalize()).

   parse: '\n' -> msg, self.msg = ''; return self._parse(msg)   | else buffer, return True
   _parse: for command in msg.split(';'): args = command.split('=')
             two or more pieces: name = commands.get(args[0]); unknown -> skip;
                 try: ans = method(float(args[1]))  except ValueError: ans = method(args[1][:-1])
             one piece: name = commands.get(args[0][:-1]) (the last character, normally CR, is
                 dropped); unknown -> skip; ans = method()
             a method called with the wrong number of arguments raises TypeError (after the
             commands before it on the line have been executed)
           return ';'.join(answers) if any else True
   Oracles (per case, computed by the harness with the same builtins):
     fl tok  = WFloat (repr(float(tok))) | WNotFloat (ValueError)
     cap s   = s.capitalize()   (may contain code points >= 256, e.g. 'ÿ' -> U+0178) *)
From DS Require Import Base.Prelude Model.SmbCommon.
From Coq Require String.

Module WLit.
  Import String.
  Local Open Scope string_scope.
  Definition W_ENABLE : list Z := Eval cbv in str "enable USB_devs".
  Definition W_DISABLE : list Z := Eval cbv in str "disable USB_devs".
  Definition W_SET_FH : list Z := Eval cbv in str "set W_LO_freq_PolH".
  Definition W_SET_FV : list Z := Eval cbv in str "set W_LO_freq_PolV".
  Definition W_GET_FH : list Z := Eval cbv in str "get W_LO_PolH".
  Definition W_GET_FV : list Z := Eval cbv in str "get W_LO_PolV".
  Definition W_GET_POLS : list Z := Eval cbv in str "get W_LO_Pols".
  Definition W_GET_SYNTH : list Z := Eval cbv in str "get W_LO_Synths_Temp".
  Definition W_GET_HKP : list Z := Eval cbv in str "get W_LO_HKP_Temp".
  Definition W_SET_RH : list Z := Eval cbv in str "set W_LO_RefH".
  Definition W_SET_RV : list Z := Eval cbv in str "set W_LO_RefV".
  Definition W_GET_RH : list Z := Eval cbv in str "get W_LO_RefH".
  Definition W_GET_RV : list Z := Eval cbv in str "get W_LO_RefV".
  Definition W_GET_STATUS : list Z := Eval cbv in str "get W_LO_status".
  Definition W_SET_AH : list Z := Eval cbv in str "set LO_att_PolH".
  Definition W_SET_AV : list Z := Eval cbv in str "set LO_att_PolV".
  Definition W_GET_AH : list Z := Eval cbv in str "get LO_att_PolH".
  Definition W_GET_AV : list Z := Eval cbv in str "get LO_att_PolV".
  Definition W_GET_ATTS : list Z := Eval cbv in str "get LO_atts".
  Definition W_MHZ : list Z := Eval cbv in str "MHz".
  Definition W_DB : list Z := Eval cbv in str "dB".
  Definition W_ZERO : list Z := Eval cbv in str "0.0".
  Definition W_SYNTH : list Z := Eval cbv in str "0.0C,0.0C".
  Definition W_HKP : list Z := Eval cbv in str "+0.0C,+0.0C+0.0C+0.0C".
  Definition W_STATUS : list Z := Eval cbv in str "0,0".
End WLit.
Export WLit.

Inductive wreg := RFH | RFV | RAH | RAV | RRH | RRV.
Inductive wval := WF (repr : list Z) | WS (s : list Z).     (* a float (by its repr) or a str *)

Record wdev := mkW { usb : Z; wfh : wval; wfv : wval; wah : wval; wav : wval; wrh : wval; wrv : wval }.
Definition w_init : wdev := mkW 0 (WF W_ZERO) (WF W_ZERO) (WF W_ZERO) (WF W_ZERO) (WS []) (WS []).

Definition wget (d : wdev) (r : wreg) : wval :=
  match r with RFH => wfh d | RFV => wfv d | RAH => wah d | RAV => wav d | RRH => wrh d | RRV => wrv d end.
Definition wset (d : wdev) (r : wreg) (v : wval) : wdev :=
  match r with
  | RFH => mkW (usb d) v (wfv d) (wah d) (wav d) (wrh d) (wrv d)
  | RFV => mkW (usb d) (wfh d) v (wah d) (wav d) (wrh d) (wrv d)
  | RAH => mkW (usb d) (wfh d) (wfv d) v (wav d) (wrh d) (wrv d)
  | RAV => mkW (usb d) (wfh d) (wfv d) (wah d) v (wrh d) (wrv d)
  | RRH => mkW (usb d) (wfh d) (wfv d) (wah d) (wav d) v (wrv d)
  | RRV => mkW (usb d) (wfh d) (wfv d) (wah d) (wav d) (wrh d) v
  end.

Inductive wcmd := WEnable | WDisable | WSet (r : wreg) | WGet (r : wreg) | WPols | WAtts | WSynth | WHKP | WStatus.

Definition w_table : list (list Z * wcmd) :=
  [(W_ENABLE, WEnable); (W_DISABLE, WDisable); (W_SET_FH, WSet RFH); (W_SET_FV, WSet RFV);
   (W_GET_FH, WGet RFH); (W_GET_FV, WGet RFV); (W_GET_POLS, WPols); (W_GET_SYNTH, WSynth);
   (W_GET_HKP, WHKP); (W_SET_RH, WSet RRH); (W_SET_RV, WSet RRV); (W_GET_RH, WGet RRH);
   (W_GET_RV, WGet RRV); (W_GET_STATUS, WStatus); (W_SET_AH, WSet RAH); (W_SET_AV, WSet RAV);
   (W_GET_AH, WGet RAH); (W_GET_AV, WGet RAV); (W_GET_ATTS, WAtts)].
Definition w_lookup (name : list Z) : option wcmd := assoc name w_table.

Inductive wfl := WFloat (repr : list Z) | WNotFloat | WMissing.

(* f'{x}' of a stored value *)
Definition wtext (v : wval) : list Z := match v with WF r => r | WS s => s end.

Section WithOracle.
  Variable fl : list Z -> wfl.
  Variable cap : list Z -> option (list Z).

  (* the methods without parameter: None = the oracle lacks an entry *)
  Definition w_call0 (d : wdev) (k : wcmd) : option (wdev * list Z) :=
    match k with
    | WEnable => Some (mkW 1 (wfh d) (wfv d) (wah d) (wav d) (wrh d) (wrv d), ACK ++ CRLF)
    | WDisable => Some (mkW 0 (wfh d) (wfv d) (wah d) (wav d) (wrh d) (wrv d), ACK ++ CRLF)
    | WGet RFH => Some (d, wtext (wfh d) ++ W_MHZ ++ CRLF)
    | WGet RFV => Some (d, wtext (wfv d) ++ W_MHZ ++ CRLF)
    | WGet RAH => Some (d, wtext (wah d) ++ W_DB ++ CRLF)
    | WGet RAV => Some (d, wtext (wav d) ++ W_DB ++ CRLF)
    | WGet RRH => option_map (fun c => (d, c ++ [46] ++ CRLF)) (cap (wtext (wrh d)))
    | WGet RRV => option_map (fun c => (d, c ++ [46] ++ CRLF)) (cap (wtext (wrv d)))
    | WPols => Some (d, wtext (wfh d) ++ W_MHZ ++ [44] ++ wtext (wfv d) ++ W_MHZ ++ CRLF)
    | WAtts => Some (d, wtext (wah d) ++ W_DB ++ [44] ++ wtext (wav d) ++ W_DB ++ CRLF)
    | WSynth => Some (d, W_SYNTH ++ CRLF)
    | WHKP => Some (d, W_HKP ++ CRLF)
    | WStatus => Some (d, W_STATUS ++ CRLF)
    | WSet _ => None      (* not used: arity handled by the caller *)
    end.

  Fixpoint w_cmds (d : wdev) (items : list (list Z)) (cmds : list (list Z)) : wdev * outcome :=
    match cmds with
    | [] => (d, if nonempty items then OReply (join_semi items) else OTrue)
    | c :: r =>
        match split_on 61 c with
        | a0 :: a1 :: _ =>
            match w_lookup a0 with
            | None => w_cmds d items r
            | Some (WSet reg) =>
                match fl a1 with
                | WFloat rp => w_cmds (wset d reg (WF rp)) (items ++ [ACK ++ CRLF]) r
                | WNotFloat => w_cmds (wset d reg (WS (removelast a1))) (items ++ [ACK ++ CRLF]) r
                | WMissing => (d, ONoOracle)
                end
            | Some _ => (d, OException TypeError)       (* a method without parameter given one *)
            end
        | [a0] =>
            match w_lookup (removelast a0) with
            | None => w_cmds d items r
            | Some (WSet _) => (d, OException TypeError)  (* a setter called without its parameter *)
            | Some k =>
                match w_call0 d k with
                | Some (d', ans) => w_cmds d' (items ++ [ans]) r
                | None => (d, ONoOracle)
                end
            end
        | [] => w_cmds d items r
        end
    end.

  Definition w_exec (d : wdev) (msg : list Z) : wdev * outcome :=
    w_cmds d [] (split_on SEMI msg).
End WithOracle.

Definition w_state := @lstate wdev.
Definition w_start : w_state := mkL [] w_init.
Definition w_step fl cap := lstep (w_exec fl cap).
Definition w_run fl cap := lrun (w_exec fl cap).
Definition w_idle : w_state -> bool := lidle.

Definition wfl_of_table (tab : list (list Z * wfl)) (tok : list Z) : wfl :=
  match assoc tok tab with Some r => r | None => WMissing end.
Definition cap_of_table (tab : list (list Z * list Z)) (s : list Z) : option (list Z) := assoc s tab.

(* ---------------------------------------------------------------- specification-side definitions *)
(* C02: the query catalogue (lines without LF; the CR is the character args[0][:-1] drops) *)
Definition w_queries : list (list Z) :=
  map (fun q => q ++ [CR]) [W_GET_FH; W_GET_FV; W_GET_POLS; W_GET_SYNTH; W_GET_HKP; W_GET_RH; W_GET_RV;
                            W_GET_STATUS; W_GET_AH; W_GET_AV; W_GET_ATTS].

(* C05: the six registers *)
Definition w_set_name (r : wreg) : list Z :=
  match r with RFH => W_SET_FH | RFV => W_SET_FV | RAH => W_SET_AH | RAV => W_SET_AV | RRH => W_SET_RH | RRV => W_SET_RV end.
Definition w_get_name (r : wreg) : list Z :=
  match r with RFH => W_GET_FH | RFV => W_GET_FV | RAH => W_GET_AH | RAV => W_GET_AV | RRH => W_GET_RH | RRV => W_GET_RV end.
Definition w_write (r : wreg) (tok : list Z) : list Z := w_set_name r ++ [61] ++ tok.
Definition w_read (r : wreg) : list Z := w_get_name r ++ [CR].

(* C04 decoder: ';'-separated items, each ending with CR LF and containing no other LF *)
Fixpoint ends_crlf (i : list Z) : bool :=
  match i with
  | [] => false
  | x :: r => if zlist_eqb i CRLF then true else negb (x =? LF) && ends_crlf r
  end.
Definition w_reply_wfb (r : list Z) : bool := forallb ends_crlf (split_on SEMI r) && bytesb r.

(* C05: which commands / lines write register r; the read-back rendering of a stored value *)
Definition wreg_eqb (a b : wreg) : bool :=
  match a, b with
  | RFH, RFH | RFV, RFV | RAH, RAH | RAV, RAV | RRH, RRH | RRV, RRV => true
  | _, _ => false
  end.
Definition w_cmd_writes (r : wreg) (c : list Z) : bool :=
  match split_on 61 c with
  | a0 :: _ :: _ => match w_lookup a0 with Some (WSet r') => wreg_eqb r r' | _ => false end
  | _ => false
  end.
Definition w_line_writes (r : wreg) (l : list Z) : bool := existsb (w_cmd_writes r) (split_on SEMI l).
Definition w_render (cap : list Z -> option (list Z)) (r : wreg) (v : wval) : option (list Z) :=
  match r with
  | RFH | RFV => Some (wtext v ++ W_MHZ ++ CRLF)
  | RAH | RAV => Some (wtext v ++ W_DB ++ CRLF)
  | RRH | RRV => option_map (fun c => c ++ [46] ++ CRLF) (cap (wtext v))
  end.
(* the value a parameter text stores *)
Definition w_value (fl : list Z -> wfl) (tok : list Z) : option wval :=
  match fl tok with WFloat rp => Some (WF rp) | WNotFloat => Some (WS (removelast tok)) | WMissing => None end.
