(* C08 -- executable model of the ACU status publisher and its clients.  No proofs here.

   Code modelled (fixes/08-acu-publisher-unsubscribe-race.diff applied):
     simulators/acu/__init__.py   System.subscribe / unsubscribe, the static method _update_loop
                                  (the parts touching subscribe_q, unsubscribe_q, subscribers and
                                  the clients' queues; the counter that selects the publication)
     simulators/server.py         SendHandler.handle: message_queue = Queue(1); subscribe;
                                  loop { recv; message_queue.get(timeout) ; sendto }; unsubscribe

   Granularity: every operation on a queue.Queue is one atomic step (CPython's Queue takes its
   mutex for get/put).  Everything the publisher does between two queue operations is local to
   the update thread (subscribers, unsubscribed, counter, the status buffer) and is fused with the
   queue operation that precedes it.  The publisher's program counter says which queue operation
   it is about to perform.

   Client identifiers stand for the clients' Queue objects (each SendHandler.handle call creates
   a fresh one), frames are numbered by the count of update_status calls.
   [step_pinned] is the loop of the pinned tree (one subscription, then one unsubscription per
   iteration), kept for the refutation witness. *)
From DS Require Import Base.Prelude.

Definition cid := Z.
Definition frame := Z.

Inductive phase := CInit | CRun | CDone.
(* what the publisher is about to do *)
Inductive ppc :=
| PTop        (* evaluate `while not stop.value`                              *)
| PDrainU     (* unsubscribe_q.get_nowait()   (fixed loop: inside `while True`) *)
| PDrainS     (* subscribe_q.get_nowait()                                      *)
| PClear      (* q.get_nowait() for q = head of todo                           *)
| PPut.       (* q.put(status.raw) for q = head of todo                        *)
Inductive pstat :=
| Running
| Dead        (* an exception left _update_loop: the update thread is gone *)
| Blocked.    (* q.put on a full queue: the update thread waits for ever unless the client reads *)

Record cfg := Cfg {
  period : Z;      (* the 20 of `counter % 20 == 0` *)
  cap : Z          (* maxsize of the client's Queue: full iff 0 < cap <= qsize *)
}.

Record state := St {
  subq : list cid;             (* subscribe_q, head = next get *)
  unsubq : list cid;           (* unsubscribe_q *)
  subs : list cid;             (* the publisher's local list `subscribers` *)
  pend : list cid;             (* the publisher's local list `unsubscribed` *)
  todo : list cid;             (* remaining part of `for q in subscribers` *)
  mbox : cid -> list frame;    (* content of each client's queue, head = next get *)
  phase_of : cid -> phase;
  pc : ppc;
  counter : Z;
  cur : frame;                 (* number of update_status calls so far = newest frame *)
  stat : pstat;
  (* ghost state, used only to state the theorems *)
  iter : Z;                    (* number of loop-head passages so far *)
  subtick : cid -> Z;          (* value of iter when the client subscribed *)
  got : cid -> list frame      (* frames the client has taken from its queue, newest first *)
}.

Definition upd {A} (f : cid -> A) (c : cid) (v : A) : cid -> A :=
  fun x => if x =? c then v else f x.

Definition init : state :=
  St [] [] [] [] [] (fun _ => []) (fun _ => CInit) PTop 0 0 Running 0 (fun _ => 0) (fun _ => []).

Inductive label :=
| LSub (c : cid)      (* System.subscribe(q): subscribe_q.put(q)           *)
| LGet (c : cid)      (* message_queue.get(timeout): a frame, or Empty      *)
| LUnsub (c : cid)    (* System.unsubscribe(q): unsubscribe_q.put(q)        *)
| LPub.               (* one publisher step                                 *)

(* what a step shows to an observer (compared with the implementation by Corr/PubCorr.v) *)
Inductive event :=
| ESubscribed | EUnsubscribed
| EGot (f : option frame)
| ETop
| EUns (c : option cid)        (* result of unsubscribe_q.get_nowait() *)
| ESubs (c : option cid)       (* result of subscribe_q.get_nowait()   *)
| EClr (c : cid) (f : option frame)
| EPut (c : cid) (f : frame)
| EFull (c : cid)              (* put attempted on a full queue *)
| EIdle.                       (* publisher dead or blocked: nothing happens *)

(* list.remove(x): None = ValueError *)
Fixpoint remove1 (x : cid) (l : list cid) : option (list cid) :=
  match l with
  | [] => None
  | y :: r => if x =? y then Some r
              else match remove1 x r with Some r' => Some (y :: r') | None => None end
  end.

Fixpoint remove_all (xs l : list cid) : option (list cid) :=
  match xs with
  | [] => Some l
  | x :: r => match remove1 x l with Some l' => remove_all r l' | None => None end
  end.

Definition is_full (cf : cfg) (m : list frame) : bool :=
  (0 <? cap cf) && (cap cf <=? Z.of_nat (length m)).

Definition set_subq (s : state) v := St v (unsubq s) (subs s) (pend s) (todo s) (mbox s)
  (phase_of s) (pc s) (counter s) (cur s) (stat s) (iter s) (subtick s) (got s).

(* end of an iteration: `counter += 1`, sleep, back to the loop head *)
Definition end_iter (s : state) (cnt : Z) : state :=
  St (subq s) (unsubq s) (subs s) [] [] (mbox s) (phase_of s) PTop (cnt + 1) (cur s) (stat s)
     (iter s) (subtick s) (got s).

Definition die (s : state) : state :=
  St (subq s) (unsubq s) (subs s) (pend s) (todo s) (mbox s) (phase_of s) (pc s) (counter s)
     (cur s) Dead (iter s) (subtick s) (got s).

Definition block (s : state) : state :=
  St (subq s) (unsubq s) (subs s) (pend s) (todo s) (mbox s) (phase_of s) (pc s) (counter s)
     (cur s) Blocked (iter s) (subtick s) (got s).

(* the part of the iteration after the subscriber list has been brought up to date:
   `if counter % 20 == 0: update_status(...); for q in subscribers: ...; counter = 0` *)
Definition after_update (cf : cfg) (s : state) (subs' : list cid) : state :=
  if period cf =? 0 then die s      (* ZeroDivisionError *)
  else if counter s mod period cf =? 0 then
    let s1 := St (subq s) (unsubq s) subs' [] subs' (mbox s) (phase_of s) PClear 0 (cur s + 1)
                 (stat s) (iter s) (subtick s) (got s) in
    match subs' with
    | [] => end_iter s1 0
    | _ => s1
    end
  else
    end_iter (St (subq s) (unsubq s) subs' [] [] (mbox s) (phase_of s) (pc s) (counter s) (cur s)
                 (stat s) (iter s) (subtick s) (got s)) (counter s).

(* the publication loop, common to both versions of the code *)
Definition pub_publish (cf : cfg) (s : state) : state * event :=
  match todo s with
  | [] => (die s, EIdle)          (* unreachable: PClear/PPut always have a current queue *)
  | c :: rest =>
    match pc s with
    | PClear =>
      match mbox s c with
      | f :: m => (St (subq s) (unsubq s) (subs s) (pend s) (todo s) (upd (mbox s) c m)
                      (phase_of s) PClear (counter s) (cur s) (stat s) (iter s) (subtick s)
                      (got s), EClr c (Some f))
      | [] => (St (subq s) (unsubq s) (subs s) (pend s) (todo s) (mbox s) (phase_of s) PPut
                  (counter s) (cur s) (stat s) (iter s) (subtick s) (got s), EClr c None)
      end
    | _ =>
      if is_full cf (mbox s c) then (block s, EFull c)
      else
        let s1 := St (subq s) (unsubq s) (subs s) (pend s) rest
                     (upd (mbox s) c (mbox s c ++ [cur s])) (phase_of s) PClear (counter s)
                     (cur s) (stat s) (iter s) (subtick s) (got s) in
        (match rest with [] => end_iter s1 0 | _ => s1 end, EPut c (cur s))
    end
  end.

(* one publisher step of the FIXED loop *)
Definition pub_step (cf : cfg) (s : state) : state * event :=
  match stat s with
  | Running =>
    match pc s with
    | PTop => (St (subq s) (unsubq s) (subs s) [] [] (mbox s) (phase_of s) PDrainU (counter s)
                  (cur s) (stat s) (iter s + 1) (subtick s) (got s), ETop)
    | PDrainU =>
      match unsubq s with
      | x :: r => (St (subq s) r (subs s) (pend s ++ [x]) (todo s) (mbox s) (phase_of s) PDrainU
                      (counter s) (cur s) (stat s) (iter s) (subtick s) (got s), EUns (Some x))
      | [] => (St (subq s) [] (subs s) (pend s) (todo s) (mbox s) (phase_of s) PDrainS
                  (counter s) (cur s) (stat s) (iter s) (subtick s) (got s), EUns None)
      end
    | PDrainS =>
      match subq s with
      | x :: r => (St r (unsubq s) (subs s ++ [x]) (pend s) (todo s) (mbox s) (phase_of s) PDrainS
                      (counter s) (cur s) (stat s) (iter s) (subtick s) (got s), ESubs (Some x))
      | [] =>
        (* `for sub in unsubscribed: subscribers.remove(sub)`, then the rest of the iteration *)
        match remove_all (pend s) (subs s) with
        | Some subs' => (after_update cf s subs', ESubs None)
        | None => (die s, ESubs None)
        end
      end
    | PClear | PPut => pub_publish cf s
    end
  | _ => (s, EIdle)
  end.

(* one publisher step of the PINNED loop: PDrainS / PDrainU are single get_nowait calls, in the
   order subscribe, unsubscribe, and the removal follows the unsubscribe get immediately *)
Definition pub_step_pinned (cf : cfg) (s : state) : state * event :=
  match stat s with
  | Running =>
    match pc s with
    | PTop => (St (subq s) (unsubq s) (subs s) [] [] (mbox s) (phase_of s) PDrainS (counter s)
                  (cur s) (stat s) (iter s + 1) (subtick s) (got s), ETop)
    | PDrainS =>
      match subq s with
      | x :: r => (St r (unsubq s) (subs s ++ [x]) (pend s) (todo s) (mbox s) (phase_of s) PDrainU
                      (counter s) (cur s) (stat s) (iter s) (subtick s) (got s), ESubs (Some x))
      | [] => (St [] (unsubq s) (subs s) (pend s) (todo s) (mbox s) (phase_of s) PDrainU
                  (counter s) (cur s) (stat s) (iter s) (subtick s) (got s), ESubs None)
      end
    | PDrainU =>
      match unsubq s with
      | x :: r =>
        let s1 := St (subq s) r (subs s) (pend s) (todo s) (mbox s) (phase_of s) (pc s)
                     (counter s) (cur s) (stat s) (iter s) (subtick s) (got s) in
        match remove1 x (subs s) with
        | Some subs' => (after_update cf s1 subs', EUns (Some x))
        | None => (die s1, EUns (Some x))
        end
      | [] => (after_update cf s (subs s), EUns None)
      end
    | PClear | PPut => pub_publish cf s
    end
  | _ => (s, EIdle)
  end.

(* client steps.  The order subscribe -> get* -> unsubscribe of one client is the program order
   of SendHandler.handle; a step that does not respect it is not enabled (None). *)
Definition client_step (s : state) (l : label) : option (state * event) :=
  match l with
  | LSub c =>
    match phase_of s c with
    | CInit => Some (St (subq s ++ [c]) (unsubq s) (subs s) (pend s) (todo s) (mbox s)
                        (upd (phase_of s) c CRun) (pc s) (counter s) (cur s) (stat s) (iter s)
                        (upd (subtick s) c (iter s)) (got s), ESubscribed)
    | _ => None
    end
  | LGet c =>
    match phase_of s c with
    | CRun =>
      match mbox s c with
      | f :: m => Some (St (subq s) (unsubq s) (subs s) (pend s) (todo s) (upd (mbox s) c m)
                           (phase_of s) (pc s) (counter s) (cur s) (stat s) (iter s) (subtick s)
                           (upd (got s) c (f :: got s c)), EGot (Some f))
      | [] => Some (s, EGot None)
      end
    | _ => None
    end
  | LUnsub c =>
    match phase_of s c with
    | CRun => Some (St (subq s) (unsubq s ++ [c]) (subs s) (pend s) (todo s) (mbox s)
                       (upd (phase_of s) c CDone) (pc s) (counter s) (cur s) (stat s) (iter s)
                       (subtick s) (got s), EUnsubscribed)
    | _ => None
    end
  | LPub => None
  end.

Definition step_ev (cf : cfg) (s : state) (l : label) : option (state * event) :=
  match l with
  | LPub => Some (pub_step cf s)
  | _ => client_step s l
  end.

Definition step_ev_pinned (cf : cfg) (s : state) (l : label) : option (state * event) :=
  match l with
  | LPub => Some (pub_step_pinned cf s)
  | _ => client_step s l
  end.

Definition step (cf : cfg) (s : state) (l : label) : option state :=
  option_map fst (step_ev cf s l).

Definition step_pinned (cf : cfg) (s : state) (l : label) : option state :=
  option_map fst (step_ev_pinned cf s l).

Fixpoint run (cf : cfg) (s : state) (ls : list label) : option state :=
  match ls with
  | [] => Some s
  | l :: r => match step cf s l with Some s' => run cf s' r | None => None end
  end.

Fixpoint run_pinned (cf : cfg) (s : state) (ls : list label) : option state :=
  match ls with
  | [] => Some s
  | l :: r => match step_pinned cf s l with Some s' => run_pinned cf s' r | None => None end
  end.

(* The same system WITHOUT the program-order hypothesis on the clients: an unsubscription may be
   posted before the subscription.  Used only to show that the hypothesis is necessary. *)
Definition client_step_unordered (s : state) (l : label) : option (state * event) :=
  match l with
  | LUnsub c =>
    Some (St (subq s) (unsubq s ++ [c]) (subs s) (pend s) (todo s) (mbox s)
             (upd (phase_of s) c CDone) (pc s) (counter s) (cur s) (stat s) (iter s)
             (subtick s) (got s), EUnsubscribed)
  | _ => client_step s l
  end.

Fixpoint run_unordered (cf : cfg) (s : state) (ls : list label) : option state :=
  match ls with
  | [] => Some s
  | LPub :: r => run_unordered cf (fst (pub_step cf s)) r
  | l :: r => match client_step_unordered s l with
              | Some (s', _) => run_unordered cf s' r
              | None => None
              end
  end.

(* the reachable states of the fixed system: any number of clients, any interleaving *)
Inductive reachable (cf : cfg) : state -> Prop :=
| reach_init : reachable cf init
| reach_step s l s' : reachable cf s -> step cf s l = Some s' -> reachable cf s'.

Definition acu_cfg : cfg := Cfg 20 1.
