(* C06 — a small heap model of Python attribute resolution, used to state and prove that
   simulator instances share no device state.

   What is modelled
   - one *shared store* (everything that exists once per process: class-body attributes of
     every class, module-level names, default-argument objects), keyed by [skey];
   - per-instance stores; [getattr] looks in the instance store first and falls back to the
     class namespace ([c_cattrs], MRO-flattened by the translator) in the shared store;
   - mutable objects live in [obj] at locations [(region, index)]; region 0 is "import time"
     (objects created by class bodies / module level / default arguments); every device (a
     System instance together with the helper instances it creates) allocates in its own region;
   - rebinding an attribute writes the instance store; an in-place mutation mutates the object
     the lookup found (which is the class-level object when the instance never rebound it);
   - construction of an instance runs an init script (a list of operations through the new
     instance).

   The content of a mutable object is abstract (one [Z] standing for its whole deep state).
   No proofs in this file. *)
From DS Require Import Base.Prelude.
From Coq Require Import String.
Open Scope string_scope.
Open Scope list_scope.

Definition attr := string.
Definition cid := string.
Definition skey := string.
Definition region := nat.
Definition loc := (region * nat)%type.
Definition iid := nat.

Inductive val := VImm (z : Z) | VRef (l : loc).

Record heap := {
  obj    : loc -> option Z;                 (* content of the allocated mutable objects *)
  ctr    : region -> nat;                   (* next free index of each region *)
  sstore : skey -> option val;              (* shared store *)
  istore : iid -> attr -> option val;       (* instance stores *)
  imeta  : iid -> option (cid * region);    (* class and region of the live instances *)
  icount : nat                              (* next instance id *)
}.

(* where the right-hand side of [self.a = ...] comes from *)
Inductive src :=
| SImm (z : Z)                 (* an immutable value *)
| SFresh (c : Z)               (* a newly created object: literal, constructor call, comprehension *)
| SCopy (b : attr)             (* a new object holding a copy of what self.b currently denotes *)
| SSelf (b : attr)             (* (something reachable from) what self.b currently denotes: an alias *)
| SShared (k : skey)           (* (something reachable from) a module-level / Cls.attr / default object *)
| SOther (j : iid) (b : attr). (* (something reachable from) attribute b of another instance of the same device *)

Inductive op :=
| ORebind (a : attr) (s : src)     (* self.a = s *)
| OMutate (a : attr) (c : Z)       (* in-place mutation of the object self.a denotes *)
| ODel (a : attr)                  (* del self.a *)
| OSMutate (k : skey) (c : Z)      (* in-place mutation of a module-level / Cls.attr object, named directly *)
| OSRebind (k : skey) (s : src).   (* Cls.attr = s / global g; g = s *)

Inductive event :=
| ENew (k : cid) (r : region) (script : list op)   (* construct an instance of class k in region r *)
| EOp (i : iid) (o : op).                          (* one operation of a method running with self = i *)

(* ---- the table the translator produces (gen/shr_sharing.py -> Gen/ShrSharing.v) ---- *)
Record class_info := {
  c_name     : cid;
  c_cattrs   : list (attr * skey);    (* class-namespace attributes bound to possibly-mutable shared objects *)
  c_mutated  : list attr;             (* attributes mutated in place through an instance of this class *)
  c_alias    : list (attr * attr);    (* (a, b): some method does self.a = <reachable from self.b> *)
  c_alias_other : list (attr * attr); (* (a, b): self.a = <reachable from x.b>, x another instance *)
  c_alias_shared : list (attr * skey);(* (a, k): self.a = <reachable from shared object k> *)
  c_deleted  : list attr;             (* del self.a somewhere *)
  c_shadowed : list attr;             (* __init__ definitely rebinds a from a fresh/immutable/copied value
                                         before any in-place mutation or aliasing of a *)
  c_smut     : list skey;             (* shared objects mutated in place, named directly or through a local alias *)
  c_srebind  : list skey              (* shared names rebound by the methods of this class *)
}.

Definition table := list class_info.

Fixpoint mem (a : string) (l : list string) : bool :=
  match l with [] => false | x :: xs => String.eqb a x || mem a xs end.

Fixpoint mem2 (a b : string) (l : list (string * string)) : bool :=
  match l with [] => false | (x, y) :: xs => (String.eqb a x && String.eqb b y) || mem2 a b xs end.

Fixpoint assoc (a : string) (l : list (string * string)) : option string :=
  match l with [] => None | (x, y) :: xs => if String.eqb a x then Some y else assoc a xs end.

Fixpoint remove_str (a : string) (l : list string) : list string :=
  match l with [] => [] | x :: xs => if String.eqb a x then remove_str a xs else x :: remove_str a xs end.

Fixpoint find_class (T : table) (k : cid) : option class_info :=
  match T with [] => None | ci :: T' => if String.eqb k (c_name ci) then Some ci else find_class T' k end.

(* ---- attribute lookup ---- *)
Definition class_lookup (T : table) (h : heap) (k : cid) (a : attr) : option val :=
  match find_class T k with
  | Some ci => match assoc a (c_cattrs ci) with Some key => sstore h key | None => None end
  | None => None
  end.

Definition getattr (T : table) (h : heap) (i : iid) (a : attr) : option val :=
  match istore h i a with
  | Some v => Some v
  | None => match imeta h i with Some (k, _) => class_lookup T h k a | None => None end
  end.

(* ---- heap updates ---- *)
Definition loc_eqb (l1 l2 : loc) : bool := Nat.eqb (fst l1) (fst l2) && Nat.eqb (snd l1) (snd l2).

Definition set_obj (h : heap) (l : loc) (c : Z) : heap :=
  {| obj := fun l' => if loc_eqb l' l then Some c else obj h l';
     ctr := ctr h; sstore := sstore h; istore := istore h; imeta := imeta h; icount := icount h |}.

(* in-place mutation only touches allocated objects *)
Definition mutate_at (h : heap) (l : loc) (c : Z) : heap :=
  match obj h l with Some _ => set_obj h l c | None => h end.

Definition alloc (h : heap) (r : region) (c : Z) : heap * loc :=
  let l := (r, ctr h r) in
  ({| obj := fun l' => if loc_eqb l' l then Some c else obj h l';
      ctr := fun r' => if Nat.eqb r' r then S (ctr h r) else ctr h r';
      sstore := sstore h; istore := istore h; imeta := imeta h; icount := icount h |}, l).

Definition set_iattr (h : heap) (i : iid) (a : attr) (v : option val) : heap :=
  {| obj := obj h; ctr := ctr h; sstore := sstore h;
     istore := fun i' a' => if Nat.eqb i' i && String.eqb a' a then v else istore h i' a';
     imeta := imeta h; icount := icount h |}.

Definition set_shared (h : heap) (k : skey) (v : val) : heap :=
  {| obj := obj h; ctr := ctr h;
     sstore := fun k' => if String.eqb k' k then Some v else sstore h k';
     istore := istore h; imeta := imeta h; icount := icount h |}.

(* evaluation of a right-hand side by a method running with self = i, in region r.
   None: the Python code raises (AttributeError / NameError); the operation has no effect. *)
Definition eval_src (T : table) (h : heap) (i : iid) (r : region) (s : src) : option (heap * val) :=
  match s with
  | SImm z => Some (h, VImm z)
  | SFresh c => let (h', l) := alloc h r c in Some (h', VRef l)
  | SCopy b =>
      match getattr T h i b with
      | Some (VImm z) => Some (h, VImm z)
      | Some (VRef l) => match obj h l with
                         | Some c => let (h', l') := alloc h r c in Some (h', VRef l')
                         | None => None
                         end
      | None => None
      end
  | SSelf b => match getattr T h i b with Some v => Some (h, v) | None => None end
  | SShared k => match sstore h k with Some v => Some (h, v) | None => None end
  | SOther j b =>
      if Nat.eqb j i then None else
      match imeta h j with
      | Some (_, rj) => if Nat.eqb rj r then
                          match getattr T h j b with Some v => Some (h, v) | None => None end
                        else None      (* a method can only reach objects of its own device *)
      | None => None
      end
  end.

(* one operation of a method running with self = i.  None: the Python code raises
   (AttributeError, TypeError, NameError) and nothing is changed. *)
Definition step_op_opt (T : table) (h : heap) (i : iid) (o : op) : option heap :=
  match imeta h i with
  | None => None
  | Some (_, r) =>
      match o with
      | ORebind a s => match eval_src T h i r s with
                       | Some (h', v) => Some (set_iattr h' i a (Some v))
                       | None => None
                       end
      | OMutate a c => match getattr T h i a with
                       | Some (VRef l) => Some (mutate_at h l c)
                       | _ => None
                       end
      | ODel a => match istore h i a with
                  | Some _ => Some (set_iattr h i a None)
                  | None => None
                  end
      | OSMutate k c => match sstore h k with
                        | Some (VRef l) => Some (mutate_at h l c)
                        | _ => None
                        end
      | OSRebind k s => match eval_src T h i r s with
                        | Some (h', v) => Some (set_shared h' k v)
                        | None => None
                        end
      end
  end.

Definition step_op (T : table) (h : heap) (i : iid) (o : op) : heap :=
  match step_op_opt T h i o with Some h' => h' | None => h end.

(* an exception inside __init__ propagates: no instance comes into existence *)
Fixpoint run_script (T : table) (h : heap) (i : iid) (script : list op) : option heap :=
  match script with
  | [] => Some h
  | o :: rest => match step_op_opt T h i o with
                 | Some h' => run_script T h' i rest
                 | None => None
                 end
  end.

Definition new_inst (h : heap) (k : cid) (r : region) : heap :=
  {| obj := obj h; ctr := ctr h; sstore := sstore h;
     istore := istore h;
     imeta := fun i' => if Nat.eqb i' (icount h) then Some (k, r) else imeta h i';
     icount := S (icount h) |}.

Definition step (T : table) (h : heap) (e : event) : heap :=
  match e with
  | ENew k r script => match r with
                       | O => h                         (* region 0 is import time *)
                       | S _ => match run_script T (new_inst h k r) (icount h) script with
                                | Some h' => h'
                                | None => h
                                end
                       end
  | EOp i o => step_op T h i o
  end.

Definition run (T : table) (h : heap) (evs : list event) : heap := fold_left (step T) evs h.

(* ---- what an instance can observe ---- *)
Inductive dval := DNone | DImm (z : Z) | DObj (c : option Z).

Definition deep (h : heap) (v : option val) : dval :=
  match v with None => DNone | Some (VImm z) => DImm z | Some (VRef l) => DObj (obj h l) end.

Definition view (T : table) (h : heap) (i : iid) (a : attr) : dval := deep h (getattr T h i a).
Definition sview (h : heap) (k : skey) : dval := deep h (sstore h k).

(* ---- which events the table permits (footprint conformance) ---- *)
Definition src_allowed (ci : class_info) (a : attr) (s : src) : bool :=
  match s with
  | SImm _ | SFresh _ | SCopy _ => true
  | SSelf b => mem2 a b (c_alias ci)
  | SOther _ b => mem2 a b (c_alias_other ci)
  | SShared k => mem2 a k (c_alias_shared ci)
  end.

Definition op_allowed (ci : class_info) (o : op) : bool :=
  match o with
  | ORebind a s => src_allowed ci a s
  | OMutate a _ => mem a (c_mutated ci)
  | ODel a => mem a (c_deleted ci)
  | OSMutate k _ => mem k (c_smut ci)
  | OSRebind k _ => mem k (c_srebind ci)
  end.

(* an init script conforms to the table when every operation is in the footprint and the
   attributes claimed [c_shadowed] are rebound from a fresh/immutable/copied value before
   they are mutated in place or aliased.  X = attributes not yet rebound. *)
Definition src_local (s : src) : bool :=
  match s with SImm _ | SFresh _ | SCopy _ => true | _ => false end.

Definition src_uses_ok (X : list attr) (s : src) : bool :=
  match s with
  | SSelf b => negb (mem b X)
  | SOther _ _ => false                 (* a constructor does not look at sibling instances *)
  | _ => true
  end.

Fixpoint script_conf (ci : class_info) (X : list attr) (script : list op) : bool :=
  match script with
  | [] => match X with [] => true | _ => false end
  | o :: rest =>
      op_allowed ci o &&
      match o with
      | ORebind a s => src_uses_ok X s && script_conf ci (if src_local s then remove_str a X else X) rest
      | OMutate a _ => negb (mem a X) && script_conf ci X rest
      | ODel a => negb (mem a (c_shadowed ci)) && script_conf ci X rest
      | _ => script_conf ci X rest
      end
  end.

Definition allowedb (T : table) (h : heap) (e : event) : bool :=
  match e with
  | ENew k r script =>
      match find_class T k with
      | Some ci => negb (Nat.eqb r 0) && script_conf ci (c_shadowed ci) script
      | None => false
      end
  | EOp i o =>
      match imeta h i with
      | Some (k, _) => match find_class T k with Some ci => op_allowed ci o | None => false end
      | None => false
      end
  end.

(* ---- the decidable side condition on the table ---- *)
(* [owned k]: attributes of class k whose value must never be a region-0 object: the ones mutated
   in place, closed under "a is assigned from b". *)
Definition add_new (l acc : list string) : list string :=
  fold_left (fun acc a => if mem a acc then acc else a :: acc) l acc.

Definition alias_sources (al : list (attr * attr)) (O : list attr) : list attr :=
  map snd (filter (fun p => mem (fst p) O) al).

Fixpoint close_self (fuel : nat) (al : list (attr * attr)) (O : list attr) : list attr :=
  match fuel with
  | O => O
  | S f => close_self f al (add_new (alias_sources al O) O)
  end.

(* attributes flowing in from other instances must be owned in every class: W is that set.
   The per-class closures are tabulated once per round. *)
Definition owned_of (ci : class_info) (W : list attr) : list attr :=
  close_self (S (List.length (c_alias ci))) (c_alias ci) (add_new W (add_new (c_mutated ci) [])).

Definition wild_step (T : table) (W : list attr) : list attr :=
  flat_map (fun ci => alias_sources (c_alias_other ci) (owned_of ci W)) T.

Fixpoint wild_fix (fuel : nat) (T : table) (W : list attr) : list attr :=
  match fuel with
  | O => W
  | S f => let W' := add_new (wild_step T W) W in
           if Nat.eqb (List.length W') (List.length W) then W else wild_fix f T W'
  end.

Definition total_edges (T : table) : nat :=
  fold_left (fun n ci => (n + List.length (c_alias_other ci))%nat) T 0%nat.

Definition wild (T : table) : list attr := wild_fix (S (total_edges T)) T [].

Definition owned_tab (T : table) (W : list attr) : list (cid * list attr) :=
  map (fun ci => (c_name ci, owned_of ci W)) T.

Fixpoint lookup_tab (tab : list (cid * list attr)) (k : cid) : list attr :=
  match tab with
  | [] => []
  | (k', l) :: rest => if String.eqb k k' then l else lookup_tab rest k
  end.

Definition owned (T : table) : cid -> list attr := lookup_tab (owned_tab T (wild T)).

Fixpoint subset (l1 l2 : list string) : bool :=
  match l1 with [] => true | x :: xs => mem x l2 && subset xs l2 end.

(* O: the owned attributes per class; W: attributes that must be owned in every class *)
Definition class_closed (O : cid -> list attr) (W : list attr) (ci : class_info) : bool :=
  let Ok := O (c_name ci) in
  subset (c_mutated ci) Ok
  && subset W Ok
  && forallb (fun p => negb (mem (fst p) Ok) || mem (snd p) Ok) (c_alias ci)
  && forallb (fun p => negb (mem (fst p) Ok) || mem (snd p) W) (c_alias_other ci)
  && forallb (fun p => negb (mem (fst p) Ok)) (c_alias_shared ci)
  && forallb (fun a => negb (mem a Ok)) (c_deleted ci)
  && forallb (fun p => negb (mem (fst p) Ok) || mem (fst p) (c_shadowed ci)) (c_cattrs ci)
  && match c_smut ci with [] => true | _ => false end
  && match c_srebind ci with [] => true | _ => false end.

Fixpoint names_unique (T : table) : bool :=
  match T with
  | [] => true
  | ci :: T' => negb (existsb (fun cj => String.eqb (c_name ci) (c_name cj)) T') && names_unique T'
  end.

Definition closedb (T : table) (O : cid -> list attr) (W : list attr) : bool :=
  names_unique T && forallb (class_closed O W) T.

Definition sharing_ok (T : table) : bool :=
  let W := wild T in
  let tab := owned_tab T W in
  closedb T (lookup_tab tab) W.

(* verdict per class, for reports *)
Definition offending (T : table) : list cid :=
  let W := wild T in
  let tab := owned_tab T W in
  map c_name (filter (fun ci => negb (class_closed (lookup_tab tab) W ci)) T).

Definition class_ok (T : table) (k : cid) : bool := negb (mem k (offending T)) && mem k (map c_name T).

(* the table without the classes of the known findings *)
Definition restrict (ex : list cid) (T : table) : table :=
  filter (fun ci => negb (mem (c_name ci) ex)) T.

(* ---- an import-time heap built from the table (every shared key gets its own object) ---- *)
Definition all_keys (T : table) : list skey :=
  add_new (flat_map (fun ci => map snd (c_cattrs ci) ++ map snd (c_alias_shared ci) ++ c_smut ci ++ c_srebind ci) T) [].

Fixpoint index_of (k : string) (l : list string) (n : nat) : option nat :=
  match l with [] => None | x :: xs => if String.eqb k x then Some n else index_of k xs (S n) end.

Definition boot (T : table) : heap :=
  let keys := all_keys T in
  {| obj := fun l => if Nat.eqb (fst l) 0 && Nat.ltb (snd l) (List.length keys) then Some 0 else None;
     ctr := fun r => if Nat.eqb r 0 then List.length keys else 0%nat;
     sstore := fun k => match index_of k keys 0 with Some n => Some (VRef (0%nat, n)) | None => None end;
     istore := fun _ _ => None;
     imeta := fun _ => None;
     icount := 0 |}.
