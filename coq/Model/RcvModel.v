(* Executable model of simulators/receiver: System.parse / System._parse (__init__.py) and the
   boards of slaves.py (Slave, Dewar, Switch, LNA).  No proofs here.

   Conventions: a latin-1 str is a list Z (one code point per element); the slaves dict is an
   association list in insertion order; Python exceptions are explicit (e_ans = None, OExc).
   Builtins that are not repo code are Section variables (oracles):
     clk n      the value (microseconds since datetime.min) returned by the n-th call of
                datetime.utcnow() -- the number of calls made so far is part of the system state;
     mkdate a   datetime(y, mo, d, h, mi, s, us) for a = [y; mo; d; h; mi; s; us] as microseconds
                since datetime.min, None when the constructor raises ValueError;
     render z   Slave._datetime_to_time of the instant z (None: the subtraction or the rendering
                raised).
   The model follows the tree with fixes/25-receiver-unbound-get-data.diff applied (unmapped DIO bits
   of Dewar/Switch read 0; LNA F32 on a port type other than AD24 falls back to the port map). *)
From DS Require Import Base.Prelude.
From DS Require Import Gen.RcvTables.

Definition mem (x : Z) (l : list Z) : bool := existsb (Z.eqb x) l.
Definition zlen {A} (l : list A) : Z := Z.of_nat (length l).
Definition xor_sum (l : list Z) : Z := fold_left Z.lxor l 0.      (* System.checksum *)

Inductive outcome := OFalse | OTrue | OReply (r : list Z) | OExc.

(* ---- association lists with dict semantics (insertion order kept) ---- *)
Section Assoc.
  Context {K V : Type} (keq : K -> K -> bool).
  Fixpoint aget (l : list (K * V)) (k : K) : option V :=
    match l with
    | [] => None
    | (k', v) :: r => if keq k k' then Some v else aget r k
    end.
  Fixpoint aset (l : list (K * V)) (k : K) (v : V) : list (K * V) :=
    match l with
    | [] => [(k, v)]
    | (k', v') :: r => if keq k k' then (k', v) :: r else (k', v') :: aset r k v
    end.
  Fixpoint adel (l : list (K * V)) (k : K) : list (K * V) :=
    match l with
    | [] => []
    | (k', v') :: r => if keq k k' then r else (k', v') :: adel r k
    end.
End Assoc.

Definition key := (Z * Z * Z)%type.
Definition key_eqb (a b : key) : bool :=
  let '(a1, a2, a3) := a in let '(b1, b2, b3) := b in (a1 =? b1) && (a2 =? b2) && (a3 =? b3).

(* ---- boards ---- *)
Record common := mkCommon {
  c_addr : Z; c_ports : list (key * list Z); c_frame : Z; c_offset : Z;
  c_date : option Z; c_cmd : Z; c_cid : Z; c_ans : Z }.

Record dio_st := mkDio {
  d_lo : Z; d_vs : Z; d_vp : Z; d_vpf : Z; d_vv : Z; d_ch : Z; d_cal : Z; d_sd : Z; d_vlbi : Z;
  d_remote : Z; d_is_sd : Z; d_is_vlbi : Z }.
Record sw_st := mkSw { w_out1 : Z; w_out2 : Z; w_a : Z; w_b : Z; w_c : Z; w_d : Z }.
Record lna_st := mkLna { l_feeds : Z; l_ad : Z; l_en : Z; l_lon : Z; l_ron : Z }.

Inductive kind := KSlave | KDewar (d : dio_st) | KSwitch (d : dio_st) (w : sw_st) | KLna (l : lna_st).
Record board := mkBoard { b_com : common; b_kind : kind }.

Definition init_common (a : Z) : common := mkCommon a [] 126 0 None 0 0 0.
Definition init_dio : dio_st := mkDio 0 1 1 0 1 1 0 0 0 1 0 0.
Definition init_sw : sw_st := mkSw 0 0 2 2 2 2.
(* kind tags used by the harness: 0 Slave, 1 Dewar, 2 Switch, 3 LNA *)
Definition init_kind (tag feeds : Z) : kind :=
  if tag =? 1 then KDewar init_dio else if tag =? 2 then KSwitch init_dio init_sw
  else if tag =? 3 then KLna (mkLna feeds 0 0 0 0) else KSlave.
Definition init_board (tag feeds a : Z) : board := mkBoard (init_common a) (init_kind tag feeds).

Definition set_last (c : common) (code cid ans now : Z) : common :=
  mkCommon (c_addr c) (c_ports c) (c_frame c) (c_offset c) (Some now) code cid ans.
Definition reset_last (c : common) : common :=
  mkCommon (c_addr c) (c_ports c) (c_frame c) (c_offset c) None 0 0 0.
Definition set_addr (c : common) (a : Z) : common :=
  mkCommon a (c_ports c) (c_frame c) (c_offset c) (c_date c) (c_cmd c) (c_cid c) (c_ans c).
Definition set_frame (c : common) (f : Z) : common :=
  mkCommon (c_addr c) (c_ports c) f (c_offset c) (c_date c) (c_cmd c) (c_cid c) (c_ans c).
Definition set_offset (c : common) (o : Z) : common :=
  mkCommon (c_addr c) (c_ports c) (c_frame c) o (c_date c) (c_cmd c) (c_cid c) (c_ans c).
Definition set_ports (c : common) (p : list (key * list Z)) : common :=
  mkCommon (c_addr c) p (c_frame c) (c_offset c) (c_date c) (c_cmd c) (c_cid c) (c_ans c).

(* ---- commands ---- *)
Inductive cmdk := KInquiry | KReset | KVersion | KSave | KRestore | KGetAddr | KSetAddr | KGetTime
  | KSetTime | KGetFrame | KSetFrame | KGetPort | KSetPort | KGetData | KSetData.

(* the elif chain of System._parse *)
Definition classify (c : Z) : option cmdk :=
  if mem c CMD_INQUIRY then Some KInquiry else if mem c CMD_RESET then Some KReset
  else if mem c CMD_VERSION then Some KVersion else if mem c CMD_SAVE then Some KSave
  else if mem c CMD_RESTORE then Some KRestore else if mem c CMD_GET_ADDR then Some KGetAddr
  else if mem c CMD_SET_ADDR then Some KSetAddr else if mem c CMD_GET_TIME then Some KGetTime
  else if mem c CMD_SET_TIME then Some KSetTime else if mem c CMD_GET_FRAME then Some KGetFrame
  else if mem c CMD_SET_FRAME then Some KSetFrame else if mem c CMD_GET_PORT then Some KGetPort
  else if mem c CMD_SET_PORT then Some KSetPort else if mem c CMD_GET_DATA then Some KGetData
  else if mem c CMD_SET_DATA then Some KSetData else None.

Definition ext_code (k : cmdk) : Z :=
  match k with
  | KInquiry => CMD_EXT_INQUIRY | KReset => CMD_EXT_RESET | KVersion => CMD_EXT_VERSION
  | KSave => CMD_EXT_SAVE | KRestore => CMD_EXT_RESTORE | KGetAddr => CMD_EXT_GET_ADDR
  | KSetAddr => CMD_EXT_SET_ADDR | KGetTime => CMD_EXT_GET_TIME | KSetTime => CMD_EXT_SET_TIME
  | KGetFrame => CMD_EXT_GET_FRAME | KSetFrame => CMD_EXT_SET_FRAME | KGetPort => CMD_EXT_GET_PORT
  | KSetPort => CMD_EXT_SET_PORT | KGetData => CMD_EXT_GET_DATA | KSetData => CMD_EXT_SET_DATA
  end.
Definition abbr_code (k : cmdk) : Z :=
  match k with
  | KInquiry => CMD_ABBR_INQUIRY | KReset => CMD_ABBR_RESET | KVersion => CMD_ABBR_VERSION
  | KSave => CMD_ABBR_SAVE | KRestore => CMD_ABBR_RESTORE | KGetAddr => CMD_ABBR_GET_ADDR
  | KSetAddr => CMD_ABBR_SET_ADDR | KGetTime => CMD_ABBR_GET_TIME | KSetTime => CMD_ABBR_SET_TIME
  | KGetFrame => CMD_ABBR_GET_FRAME | KSetFrame => CMD_ABBR_SET_FRAME | KGetPort => CMD_ABBR_GET_PORT
  | KSetPort => CMD_ABBR_SET_PORT | KGetData => CMD_ABBR_GET_DATA | KSetData => CMD_ABBR_SET_DATA
  end.
(* `DEF.CMD_EXT_X if extended else DEF.CMD_ABBR_X` *)
Definition code_of (k : cmdk) (ext : bool) : Z := if ext then ext_code k else abbr_code k.

(* the three membership tests shared by get/set port/data; Some e = refused with code e *)
Definition check_key (dt pt pn : Z) : option Z :=
  if negb (mem dt DATA_TYPES) then Some CMD_ERR_DATA_TYPE
  else if negb (mem pt PORT_TYPES) then Some CMD_ERR_PORT_TYPE
  else if negb (mem pn PORT_NUMBERS) then Some CMD_ERR_PORT_NUMBER
  else None.

Definition ports_get (c : common) (k : key) : list Z :=      (* port_settings.get(key, '\x00') *)
  match aget key_eqb (c_ports c) k with Some v => v | None => [0] end.

Definition zeros (n : nat) : list Z := repeat 0 n.

(* ---- Dewar / Switch DIO bits ---- *)
Definition dewar_get (d : dio_st) (pn : Z) : Z :=
  if pn =? PORT_NUMBER_00 then d_lo d else if pn =? PORT_NUMBER_04 then d_vs d
  else if pn =? PORT_NUMBER_05 then d_vp d else if pn =? PORT_NUMBER_06 then d_vpf d
  else if pn =? PORT_NUMBER_07 then d_vv d else if pn =? PORT_NUMBER_08 then d_ch d
  else if pn =? PORT_NUMBER_11 then d_cal d else if pn =? PORT_NUMBER_12 then d_cal d
  else if pn =? PORT_NUMBER_13 then d_sd d else if pn =? PORT_NUMBER_14 then d_vlbi d
  else if pn =? PORT_NUMBER_16 then (if d_lo d =? 0 then 1 else 0)
  else if pn =? PORT_NUMBER_17 then (if d_lo d =? 1 then 1 else 0)
  else if pn =? PORT_NUMBER_18 then (if d_lo d =? 1 then 1 else 0)
  else if pn =? PORT_NUMBER_24 then d_ch d else if pn =? PORT_NUMBER_26 then d_remote d
  else if pn =? PORT_NUMBER_29 then d_is_sd d else if pn =? PORT_NUMBER_30 then d_is_vlbi d
  else 0.

Definition dio_with_lo d v := mkDio v (d_vs d) (d_vp d) (d_vpf d) (d_vv d) (d_ch d) (d_cal d) (d_sd d) (d_vlbi d) (d_remote d) (d_is_sd d) (d_is_vlbi d).
Definition dio_with_vs d v := mkDio (d_lo d) v (d_vp d) (d_vpf d) (d_vv d) (d_ch d) (d_cal d) (d_sd d) (d_vlbi d) (d_remote d) (d_is_sd d) (d_is_vlbi d).
Definition dio_with_vp d v := mkDio (d_lo d) (d_vs d) v (d_vpf d) (d_vv d) (d_ch d) (d_cal d) (d_sd d) (d_vlbi d) (d_remote d) (d_is_sd d) (d_is_vlbi d).
Definition dio_with_vv d v := mkDio (d_lo d) (d_vs d) (d_vp d) (d_vpf d) v (d_ch d) (d_cal d) (d_sd d) (d_vlbi d) (d_remote d) (d_is_sd d) (d_is_vlbi d).
Definition dio_with_ch d v := mkDio (d_lo d) (d_vs d) (d_vp d) (d_vpf d) (d_vv d) v (d_cal d) (d_sd d) (d_vlbi d) (d_remote d) (d_is_sd d) (d_is_vlbi d).
Definition dio_with_cal d v := mkDio (d_lo d) (d_vs d) (d_vp d) (d_vpf d) (d_vv d) (d_ch d) v (d_sd d) (d_vlbi d) (d_remote d) (d_is_sd d) (d_is_vlbi d).
Definition dio_with_sd d v :=
  let is_sd := if v =? 0 then 1 else d_is_sd d in
  let is_vl := if v =? 0 then 0 else d_is_vlbi d in
  mkDio (d_lo d) (d_vs d) (d_vp d) (d_vpf d) (d_vv d) (d_ch d) (d_cal d) v (d_vlbi d) (d_remote d) is_sd is_vl.
Definition dio_with_vlbi d v :=
  let is_sd := if v =? 0 then 0 else d_is_sd d in
  let is_vl := if v =? 0 then 1 else d_is_vlbi d in
  mkDio (d_lo d) (d_vs d) (d_vp d) (d_vpf d) (d_vv d) (d_ch d) (d_cal d) (d_sd d) v (d_remote d) is_sd is_vl.

(* the bits Dewar and Switch set in the same way (ports 4,5,7,8,11,12,13,14); None: not one of them *)
Definition dio_set_shared (d : dio_st) (pn v : Z) : option dio_st :=
  if pn =? PORT_NUMBER_04 then Some (dio_with_vs d v) else if pn =? PORT_NUMBER_05 then Some (dio_with_vp d v)
  else if pn =? PORT_NUMBER_07 then Some (dio_with_vv d v) else if pn =? PORT_NUMBER_08 then Some (dio_with_ch d v)
  else if pn =? PORT_NUMBER_11 then Some (dio_with_cal d v) else if pn =? PORT_NUMBER_12 then Some (dio_with_cal d v)
  else if pn =? PORT_NUMBER_13 then Some (dio_with_sd d v) else if pn =? PORT_NUMBER_14 then Some (dio_with_vlbi d v)
  else None.

Definition dewar_set (d : dio_st) (pn v : Z) : dio_st :=
  if pn =? PORT_NUMBER_00 then dio_with_lo d v
  else match dio_set_shared d pn v with Some d' => d' | None => d end.

Definition sw_pos (out2 s : Z) : Z :=      (* `value` of ports 16..19; 0 when Out2 is neither 0 nor 1 *)
  if out2 =? 1 then (if s =? 0 then 1 else 0) else if out2 =? 0 then (if s =? 1 then 1 else 0) else 0.

Definition switch_get (d : dio_st) (w : sw_st) (pn : Z) : Z :=
  if pn =? PORT_NUMBER_00 then d_lo d else if pn =? PORT_NUMBER_01 then w_out1 w
  else if pn =? PORT_NUMBER_02 then w_out2 w else if pn =? PORT_NUMBER_04 then d_vs d
  else if pn =? PORT_NUMBER_05 then d_vp d else if pn =? PORT_NUMBER_06 then d_vpf d
  else if pn =? PORT_NUMBER_07 then d_vv d else if pn =? PORT_NUMBER_08 then d_ch d
  else if pn =? PORT_NUMBER_11 then d_cal d else if pn =? PORT_NUMBER_12 then d_cal d
  else if pn =? PORT_NUMBER_13 then d_sd d else if pn =? PORT_NUMBER_14 then d_vlbi d
  else if pn =? PORT_NUMBER_16 then sw_pos (w_out2 w) (w_a w)
  else if pn =? PORT_NUMBER_17 then sw_pos (w_out2 w) (w_b w)
  else if pn =? PORT_NUMBER_18 then sw_pos (w_out2 w) (w_c w)
  else if pn =? PORT_NUMBER_19 then sw_pos (w_out2 w) (w_d w)
  else if pn =? PORT_NUMBER_24 then d_ch d else if pn =? PORT_NUMBER_26 then d_remote d
  else if pn =? PORT_NUMBER_29 then d_is_sd d else if pn =? PORT_NUMBER_30 then d_is_vlbi d
  else 0.

Definition switch_set (d : dio_st) (w : sw_st) (pn v : Z) : dio_st * sw_st :=
  if pn =? PORT_NUMBER_00 then (dio_with_lo d v, w)
  else if pn =? PORT_NUMBER_01 then
    (d, if v =? 1 then (if d_lo d =? 1 then mkSw v (w_out2 w) 0 1 1 0 else mkSw v (w_out2 w) 1 0 0 1)
        else mkSw v (w_out2 w) 2 2 2 2)
  else if pn =? PORT_NUMBER_02 then (d, mkSw (w_out1 w) v (w_a w) (w_b w) (w_c w) (w_d w))
  else match dio_set_shared d pn v with Some d' => (d', w) | None => (d, w) end.

(* LNA.get_data, F32 / AD24 / PORT_NUMBER_00_07: four (left, right) pairs of float32; every feed value
   is the constant 0 (Feed.__init__, never written), real_to_string(0) = four zero bytes; an index or
   a stage out of range is the caught IndexError branch *)
Definition lna_chunk (l : lna_st) (i : Z) : list Z :=
  let stage := l_ad l / 3 in
  let en := Z.max (l_en l - 1) 0 in
  let en := if l_en l >? 2 then en + 6 else en in
  let index := en + 2 * i in
  if (index <? l_feeds l) && (stage <? 5) then zeros 4 ++ zeros 4 else zeros 8.
Definition lna_f32 (l : lna_st) : list Z := lna_chunk l 0 ++ lna_chunk l 1 ++ lna_chunk l 2 ++ lna_chunk l 3.

(* ---- one command on one board ---- *)
(* e_ans = Some (code, extra): the answer code and what follows it ([] or len :: data);
   None: a Python exception escaped after the effects recorded in e_board / e_tick *)
Record eres := mkRes { e_board : board; e_tick : nat; e_ans : option (Z * list Z) }.

Section Exec.
  Variable clk : nat -> Z.
  Variable mkdate : list Z -> option Z.
  Variable render : Z -> option (list Z).

  Definition with_data (d : list Z) : list Z := zlen d :: d.     (* chr(len(data)) + data *)

  (* handlers that end with _set_last_cmd(code, cmd_id, ans) on common state c' and kind kd' *)
  Definition fin (c' : common) (kd' : kind) (t : nat) (k : cmdk) (ext : bool) (cid ans : Z)
             (extra : list Z) : eres :=
    mkRes (mkBoard (set_last c' (code_of k ext) cid ans (clk t)) kd') (S t) (Some (ans, extra)).

  (* int(f'{a:02d}{b:02d}') for code points a, b *)
  Definition year_of (a b : Z) : Z := if b <? 100 then a * 100 + b else a * 1000 + b.

  (* get_port / get_data answer: `data = params[:3] + data` when ans == ACK *)
  Definition get_extra (ans : Z) (p data : list Z) : list Z :=
    if ans =? CMD_ACK then with_data (firstn 3 p ++ data) else [].

  (* generic Slave.get_port / Slave.get_data *)
  Definition gen_get (b : board) (t : nat) (k : cmdk) (ext : bool) (cid : Z) (p : list Z) : eres :=
    let c := b_com b in
    match p with
    | [dt; pt; pn] =>
        match check_key dt pt pn with
        | Some e => fin c (b_kind b) t k ext cid e (get_extra e p [])
        | None => fin c (b_kind b) t k ext cid CMD_ACK (get_extra CMD_ACK p (ports_get c (dt, pt, pn)))
        end
    | _ => fin c (b_kind b) t k ext cid CMD_ERR_FORM (get_extra CMD_ERR_FORM p [])
    end.

  Definition store (c : common) (dt pt pn : Z) (v : list Z) : common :=
    set_ports c (aset key_eqb (c_ports c) (dt, pt, pn) v).

  (* the value a DIO / B01 write carries, Dewar and Switch: Some v (0 or 1) or refused *)
  Definition dio_value (v : list Z) : option Z :=
    match v with
    | [x] => if (x =? 0) || (x =? 1) then Some x else None
    | _ => None
    end.

  Definition set_data (b : board) (t : nat) (ext : bool) (cid : Z) (p : list Z) : eres :=
    let c := b_com b in
    let kd := b_kind b in
    let f c' kd' ans := fin c' kd' t KSetData ext cid ans [] in
    if zlen p <? 4 then f c kd CMD_ERR_FORM else
    match p with
    | dt :: pt :: pn :: v =>
        match check_key dt pt pn with
        | Some e => f c kd e
        | None =>
            match kd with
            | KSlave => f (store c dt pt pn v) kd CMD_ACK
            | KDewar d =>
                if (dt =? DATA_TYPE_B01) && (pt =? PORT_TYPE_DIO) then
                  match dio_value v with
                  | Some x => f c (KDewar (dewar_set d pn x)) CMD_ACK
                  | None => f c kd CMD_ERR_DATA
                  end
                else f c kd CMD_ACK
            | KSwitch d w =>
                if (dt =? DATA_TYPE_B01) && (pt =? PORT_TYPE_DIO) then
                  match dio_value v with
                  | Some x => let '(d', w') := switch_set d w pn x in f c (KSwitch d' w') CMD_ACK
                  | None => f c kd CMD_ERR_DATA
                  end
                else f c kd CMD_ACK
            | KLna l =>
                if pt =? PORT_TYPE_DIO then
                  if dt =? DATA_TYPE_B01 then
                    match v with
                    | [x] =>
                        if pn =? PORT_NUMBER_08 then f c (KLna (mkLna (l_feeds l) (l_ad l) (l_en l) x (l_ron l))) CMD_ACK
                        else if pn =? PORT_NUMBER_09 then f c (KLna (mkLna (l_feeds l) (l_ad l) (l_en l) (l_lon l) x)) CMD_ACK
                        else f (store c dt pt pn v) kd CMD_ACK
                    | _ => f c kd CMD_ERR_DATA
                    end
                  else if dt =? DATA_TYPE_U08 then
                    if pn =? PORT_NUMBER_00_07 then
                      (* string_to_binary(...)[:4] / [4:8] of the first character *)
                      match v with
                      | x :: _ => f c (KLna (mkLna (l_feeds l) (x / 16) (x mod 16) (l_lon l) (l_ron l))) CMD_ACK
                      | [] => mkRes b t None
                      end
                    else if negb (zlen v =? 1) then f c kd CMD_ERR_DATA
                    else f (store c dt pt pn v) kd CMD_ACK
                  else f (store c dt pt pn v) kd CMD_ACK
                else f (store c dt pt pn v) kd CMD_ACK
            end
        end
    | _ => f c kd CMD_ERR_FORM
    end.

  Definition get_data (b : board) (t : nat) (ext : bool) (cid : Z) (p : list Z) : eres :=
    let c := b_com b in
    let kd := b_kind b in
    let f ans data := fin c kd t KGetData ext cid ans (get_extra ans p data) in
    match kd with
    | KSlave => gen_get b t KGetData ext cid p
    | _ =>
      match p with
      | [dt; pt; pn] =>
          match check_key dt pt pn with
          | Some e => f e []
          | None =>
              match kd with
              | KSlave => f CMD_ACK (ports_get c (dt, pt, pn))
              | KDewar d =>
                  if (pt =? PORT_TYPE_AD24) && (dt =? DATA_TYPE_F32) then f CMD_ACK (zeros 32)
                  else if (pt =? PORT_TYPE_DIO) && (dt =? DATA_TYPE_B01) then f CMD_ACK [dewar_get d pn]
                  else f CMD_ACK (ports_get c (dt, pt, pn))
              | KSwitch d w =>
                  if (pt =? PORT_TYPE_AD24) && (dt =? DATA_TYPE_F32) then f CMD_ACK (zeros 32)
                  else if (pt =? PORT_TYPE_DIO) && (dt =? DATA_TYPE_B01) then f CMD_ACK [switch_get d w pn]
                  else f CMD_ACK (ports_get c (dt, pt, pn))
              | KLna l =>
                  if dt =? DATA_TYPE_F32 then
                    if pt =? PORT_TYPE_AD24 then
                      if pn =? PORT_NUMBER_00_07 then f CMD_ACK (lna_f32 l) else f CMD_ACK (zeros 32)
                    else f CMD_ACK (ports_get c (dt, pt, pn))
                  else f CMD_ACK (ports_get c (dt, pt, pn))
              end
          end
      | _ => f CMD_ERR_FORM []
      end
    end.

  (* keys: the addresses present in System.slaves when the command runs (`address in slaves`) *)
  Definition exec (keys : list Z) (b : board) (t : nat) (k : cmdk) (ext : bool) (cid : Z)
             (p : list Z) : eres :=
    let c := b_com b in
    let kd := b_kind b in
    match k with
    | KInquiry =>
        let head := [c_cmd c; c_cid c; c_ans c] in
        match c_date c with
        | None => mkRes b t (Some (CMD_ACK, with_data (head ++ zeros 8)))
        | Some d =>
            match render (d - c_offset c) with
            | Some r => mkRes b t (Some (CMD_ACK, with_data (head ++ r)))
            | None => mkRes b t None
            end
        end
    | KReset => mkRes (mkBoard (reset_last c) kd) t (Some (CMD_ACK, []))
    | KVersion => fin c kd t k ext cid CMD_ACK (with_data VERSION)
    | KSave | KRestore => fin c kd t k ext cid CMD_ACK []
    | KGetAddr => fin c kd t k ext cid CMD_ACK (with_data [c_addr c])
    | KSetAddr =>
        match p with
        | [a] =>
            if negb (mem a SLAVE_ADDR_ACCEPTED) || mem a keys then fin c kd t k ext cid CMD_ERR_DATA []
            else fin (set_addr c a) kd t k ext cid CMD_ACK []
        | _ => fin c kd t k ext cid CMD_ERR_FORM []
        end
    | KGetTime =>
        let b1 := mkBoard (set_last c (code_of k ext) cid CMD_ACK (clk t)) kd in
        match render (clk (S t) - c_offset c) with
        | Some r => mkRes b1 (S (S t)) (Some (CMD_ACK, with_data r))
        | None => mkRes b1 (S (S t)) None
        end
    | KSetTime =>
        match p with
        | [t0; t1; t2; t3; t4; t5; t6; t7] =>
            match mkdate [year_of t0 t1; t2; t3; t4; t5; t6; Z.min (t7 * 10000) 999999] with
            | Some d => fin (set_offset c (clk t - d)) kd (S t) k ext cid CMD_ACK []
            | None => fin c kd t k ext cid CMD_ERR_DATA []
            end
        | _ => fin c kd t k ext cid CMD_ERR_FORM []
        end
    | KGetFrame => fin c kd t k ext cid CMD_ACK (with_data [c_frame c])
    | KSetFrame =>
        match p with
        | [f] =>
            if negb (mem f FRAME_SIZE_ACCEPTED) then fin c kd t k ext cid CMD_ERR_FRAME_SIZE []
            else fin (set_frame c f) kd t k ext cid CMD_ACK []
        | _ => fin c kd t k ext cid CMD_ERR_FORM []
        end
    | KGetPort => gen_get b t k ext cid p
    | KSetPort =>
        match p with
        | [dt; pt; pn; v] =>
            match check_key dt pt pn with
            | Some e => fin c kd t k ext cid e []
            | None => fin (store c dt pt pn [v]) kd t k ext cid CMD_ACK []
            end
        | _ => fin c kd t k ext cid CMD_ERR_FORM []
        end
    | KGetData => get_data b t ext cid p
    | KSetData => set_data b t ext cid p
    end.

  (* ---- System._parse ---- *)
  Record req := mkReq { q_master : Z; q_cmd : Z; q_cid : Z; q_ext : bool; q_chk : bool;
                        q_params : list Z }.

  Definition slaves := list (Z * board).
  Definition keys_of (sl : slaves) : list Z := map fst sl.

  (* what one board contributes to the answer: bytes after the 5-byte header and whether the
     checksum + EOT trailer follows; plus the board after the command *)
  Record bres := mkB { r_board : board; r_tick : nat; r_tail : option (list Z); r_trailer : bool;
                       r_moved : option (option Z) }.
  (* r_moved = Some (Some a'): set_address acknowledged, re-key to a';  Some None: acknowledged
     with a parameter string that is not one character (cannot happen; kept as an error value) *)

  Definition exec_req (q : req) (keys : list Z) (b : board) (t : nat) : bres :=
    if negb (mem (q_cmd q) ACCEPTED_COMMANDS) then mkB b t (Some [CMD_ERR_CMD]) false None
    else if q_chk q then mkB b t (Some [CMD_ERR_CHKS]) (q_ext q) None
    else match classify (q_cmd q) with
         | None => mkB b t (Some []) (q_ext q) None
         | Some k =>
             let r := exec keys b t k (q_ext q) (q_cid q) (q_params q) in
             match e_ans r with
             | None => mkB (e_board r) (e_tick r) None (q_ext q) None
             | Some (code, extra) =>
                 let moved :=
                   match k with
                   | KSetAddr => if code =? CMD_ACK
                                 then Some (match q_params q with [a] => Some a | _ => None end)
                                 else None
                   | _ => None
                   end in
                 mkB (e_board r) (e_tick r) (Some (code :: extra)) (q_ext q) moved
             end
         end.

  Definition frame (q : req) (a : Z) (tail : list Z) (trailer : bool) : list Z :=
    let body := [CMD_STX; q_master q; a; q_cmd q; q_cid q] ++ tail in
    if trailer then body ++ [xor_sum body; CMD_EOT] else body.

  (* the loop over the addressed boards; None in the third component: an exception escaped *)
  Fixpoint run_targets (q : req) (targets : list Z) (sl : slaves) (t : nat) (acc : list Z)
    : slaves * nat * option (list Z) :=
    match targets with
    | [] => (sl, t, Some acc)
    | a :: rest =>
        match aget Z.eqb sl a with
        | None => run_targets q rest sl t acc
        | Some b =>
            let r := exec_req q (keys_of sl) b t in
            let sl1 := aset Z.eqb sl a (r_board r) in
            match r_tail r with
            | None => (sl1, r_tick r, None)
            | Some tail =>
                match r_moved r with
                | Some None => (sl1, r_tick r, None)
                | Some (Some a') =>
                    run_targets q rest (aset Z.eqb (adel Z.eqb sl1 a) a' (r_board r)) (r_tick r)
                                (acc ++ frame q a tail (r_trailer r))
                | None => run_targets q rest sl1 (r_tick r) (acc ++ frame q a tail (r_trailer r))
                end
            end
        end
    end.

  Definition with_params (c : Z) : bool := mem c (CMD_EXT_WITH_PARAMS ++ CMD_ABBR_WITH_PARAMS).

  (* the request as _parse reads it off a complete message; None: IndexError *)
  Definition decode (m : list Z) : option (Z * req) :=
    match m with
    | _ :: sa :: ma :: c :: id :: _ =>
        let ext := mem c CMD_EXT in
        let n := length m in
        match nth_error m (n - 2) with          (* msg[CHECKSUM_IDX] *)
        | None => None
        | Some ck =>
            let chk := ext && negb (ck =? xor_sum (firstn (n - 2) m)) in
            let p := if with_params c
                     then let p := skipn 6 m in if ext then firstn (length p - 2) p else p
                     else [] in
            Some (sa, mkReq ma c id ext chk p)
        end
    | _ => None
    end.

  Definition targets_of (sa : Z) (sl : slaves) : list Z :=
    if negb (mem sa SLAVE_ADDR_BROADCAST) then [sa] else keys_of sl.
  Definition send_answer (sa : Z) : bool :=
    negb (mem sa SLAVE_ADDR_BROADCAST && (sa =? SLAVE_ADDR_BROADCAST_NO_ANSWER)).

  Definition handle (sl : slaves) (t : nat) (m : list Z) : slaves * nat * outcome :=
    match decode m with
    | None => (sl, t, OExc)
    | Some (sa, q) =>
        let '(sl', t', res) := run_targets q (targets_of sa sl) sl t [] in
        match res with
        | None => (sl', t', OExc)
        | Some total =>
            (sl', t', if send_answer sa && negb (match total with [] => true | _ => false end)
                      then OReply total else OTrue)
        end
    end.

  (* ---- System.parse: framing ---- *)
  Inductive fstep := FReject | FMore (msg : list Z) | FDone (m : list Z).

  Definition frame_step (msg : list Z) (b : Z) : fstep :=
    let m := msg ++ [b] in
    match length msg with
    | 0%nat => if b =? CMD_SOH then FMore m else FReject
    | 1%nat | 2%nat | 3%nat | 5%nat => FMore m
    | 4%nat =>
        let c := nth 3 m 0 in
        if mem c CMD_ABBR_NO_PARAMS || negb (mem c ACCEPTED_COMMANDS) then FDone m else FMore m
    | _ =>
        let c := nth 3 m 0 in
        let l := nth 5 m 0 in
        if (zlen m =? 7) && mem c CMD_EXT_NO_PARAMS then FDone m
        else if zlen m =? 6 + l then (if mem c CMD_ABBR_WITH_PARAMS then FDone m else FMore m)
        else if zlen m =? 8 + l then FDone m
        else FMore m
    end.

  Record sys := mkSys { s_slaves : slaves; s_msg : list Z; s_tick : nat }.

  Definition parse (s : sys) (b : Z) : sys * outcome :=
    match frame_step (s_msg s) b with
    | FReject => (mkSys (s_slaves s) [] (s_tick s), OFalse)
    | FMore m => (mkSys (s_slaves s) m (s_tick s), OTrue)
    | FDone m =>
        let '(sl, t, o) := handle (s_slaves s) (s_tick s) m in (mkSys sl [] t, o)
    end.

  Fixpoint run (s : sys) (bs : list Z) : sys * list outcome :=
    match bs with
    | [] => (s, [])
    | b :: r => let '(s1, o) := parse s b in let '(s2, os) := run s1 r in (s2, o :: os)
    end.
End Exec.

(* System.__init__(slave_type, min_index, max_index, feeds): boards at the given addresses *)
Definition init_sys (tag feeds : Z) (addrs : list Z) : sys :=
  mkSys (map (fun a => (a, init_board tag feeds a)) addrs) [] 0.
