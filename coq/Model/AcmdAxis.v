(* Executable model of the ACU command acceptance logic (agent Acmd; C14):
     simulators/acu/axis_status.py  MasterAxisStatus._mode_command, _validate_mode_command,
        the thirteen mode handlers up to their first sleep (the "immediate acceptance effect"),
        _move / _calc_position for an elapsed time of zero, _parameter_command,
        _absolute_position_offset, _relative_position_offset, update_status (stowPosOk only)
     simulators/acu/pointing_status.py  PointingStatus._parameter_command for the parameter ids
        other than 50 / 51 (time source / time offset: wall-clock arithmetic, not modelled)
   with the repairs fixes/09 (comparisons written so that NaN fails), fixes/10 (relative preset
   rate no longer truncated by int()) and fixes/11 (command counter decoded unsigned) applied.
   No proofs here.

   IEEE doubles are Flocq `BinarySingleNaN.binary_float 53 1024` values; they enter as 8 wire
   bytes (little endian).  `x <= y` on Python floats is [fle] (false when unordered), a Python
   int compared with / multiplied by a float is first converted exactly ([f_of_Z]; every int the
   code uses this way is far below 2^53).  int(x) is [py_int], int(round(x)) is [py_round_int];
   both are None where Python raises (NaN: ValueError, infinity: OverflowError).

   Threads: a command thread is one atomic step that ends Done (the method returned), Parked (the
   method reached `time.sleep` inside its loop; what it did before is kept) or Died (an exception
   escaped the method; what it did before is kept).  Later loop iterations belong to C15.
   Not modelled: the 27 error flags cleared by `_reset`, the limit / rate warning bits of
   `update_status`, `next_pos` (always None here: no program-track table is active). *)
From DS Require Import Base.Prelude Base.Bits Model.Utils Gen.AcmdTables.
From DS Require Import Model.AcmdFrame.
From Flocq Require Import Core IEEE754.BinarySingleNaN IEEE754.Binary IEEE754.Bits.

Definition f64 := BinarySingleNaN.binary_float 53 1024.
#[global] Instance acmd_prec_gt_0 : Prec_gt_0 53 := eq_refl.
#[global] Instance acmd_prec_lt_emax : Prec_lt_emax 53 1024 := eq_refl.

Definition of_bits (z : Z) : f64 := B2BSN 53 1024 (b64_of_bits z).
(* utils.string_to_real(s, 2): struct.unpack('!d') needs exactly 8 bytes *)
Definition real_le (l : list Z) : option f64 :=
  if (length l =? 8)%nat then Some (of_bits (le_dec l)) else None.

Definition f_of_Z (z : Z) : f64 := BinarySingleNaN.binary_normalize 53 1024 _ _ mode_NE z 0 false.
Definition fmul : f64 -> f64 -> f64 := BinarySingleNaN.Bmult mode_NE.
Definition fadd : f64 -> f64 -> f64 := BinarySingleNaN.Bplus mode_NE.
Definition fdiv : f64 -> f64 -> f64 := BinarySingleNaN.Bdiv mode_NE.
Definition fabs : f64 -> f64 := BinarySingleNaN.Babs.
Definition fle (x y : f64) : bool :=
  match BinarySingleNaN.Bcompare x y with Some Lt | Some Eq => true | _ => false end.
Definition flt (x y : f64) : bool :=
  match BinarySingleNaN.Bcompare x y with Some Lt => true | _ => false end.
Definition fgt (x y : f64) : bool :=
  match BinarySingleNaN.Bcompare x y with Some Gt => true | _ => false end.
Definition py_int (x : f64) : option Z :=
  if BinarySingleNaN.is_finite x then Some (BinarySingleNaN.Btrunc x) else None.
Definition py_round_int (x : f64) : option Z :=
  if BinarySingleNaN.is_finite x
  then Some (BinarySingleNaN.Btrunc (BinarySingleNaN.Bnearbyint mode_NE x)) else None.

Definition million : Z := 1000000.
Definition fits_i32 (v : Z) : bool := (- 2 ^ 31 <=? v) && (v <? 2 ^ 31).

(* ---------------------------------------------------------------- configuration *)

Record acfg := mkCfg {
  c_motors : Z;          (* n_motors *)
  c_maxv : f64;          (* max_rates[0] *)
  c_min : Z;             (* op_range[0] (a Python int) *)
  c_max : Z;             (* op_range[1] *)
  c_start : Z;           (* start_pos *)
  c_stow : list Z        (* stow_pos or [] *)
}.

Definition cfg_AZ : acfg :=
  mkCfg AZ_n_motors (of_bits AZ_max_velocity_bits) AZ_min_pos AZ_max_pos AZ_start_pos AZ_stow_pos.
Definition cfg_EL : acfg :=
  mkCfg EL_n_motors (of_bits EL_max_velocity_bits) EL_min_pos EL_max_pos EL_start_pos EL_stow_pos.

Definition has_stow (cfg : acfg) : bool := match c_stow cfg with [] => false | _ => true end.
Definition mask (k : Z) : Z := 2 ^ k - 1.          (* k low bits set *)
Definition pin_selection (cfg : acfg) : Z := mask (Z.of_nat (length (c_stow cfg))).
Definition lo_udeg (cfg : acfg) : Z := c_min cfg * million.   (* int(round(self.min_pos * 1000000)) *)
Definition hi_udeg (cfg : acfg) : Z := c_max cfg * million.

(* ---------------------------------------------------------------- axis state *)

(* the fields a refused command must leave alone: motion, brakes, stow pins, offset *)
Record motion := mkMo {
  axis_state : Z;
  traj : Z;                 (* axis_trajectory_state *)
  p_Soll : Z;
  p_Ist : Z;
  v_Soll : Z;
  v_Ist : Z;
  p_Offset : Z;
  brakes : Z;               (* brakes_open as a bit mask *)
  stowed : bool;
  stowPosOk : bool;
  pin_in : Z;               (* stow_pin_in as a bit mask *)
  pin_out : Z;
  pins_extracted : bool;    (* Stowpins_Extracted *)
  cmc : option Z;           (* curr_mode_counter *)
  pt_active : bool          (* program_track_active *)
}.

Record axis := mkAx {
  mo : motion;
  rx_counter : Z; rx_mode : Z; rx_answer : Z;       (* received_mode_command_* *)
  ex_counter : Z; ex_mode : Z; ex_answer : Z;       (* executed_mode_command_* *)
  par_counter : Z; par_id : Z; par_answer : Z       (* parameter_command_* *)
}.

Definition with_mo (ax : axis) (m : motion) : axis :=
  mkAx m (rx_counter ax) (rx_mode ax) (rx_answer ax) (ex_counter ax) (ex_mode ax) (ex_answer ax)
       (par_counter ax) (par_id ax) (par_answer ax).
Definition set_rx (ax : axis) (c m a : Z) : axis :=
  mkAx (mo ax) c m a (ex_counter ax) (ex_mode ax) (ex_answer ax)
       (par_counter ax) (par_id ax) (par_answer ax).
Definition set_ex (ax : axis) (c m a : Z) : axis :=
  mkAx (mo ax) (rx_counter ax) (rx_mode ax) (rx_answer ax) c m a
       (par_counter ax) (par_id ax) (par_answer ax).
Definition set_par (ax : axis) (c i a : Z) : axis :=
  mkAx (mo ax) (rx_counter ax) (rx_mode ax) (rx_answer ax) (ex_counter ax) (ex_mode ax) (ex_answer ax)
       c i a.

(* MasterAxisStatus.__init__ followed by the update_status call of System.__init__ *)
Definition stow_match (cfg : acfg) (p : Z) : bool := zmem p (map (fun s => s * million) (c_stow cfg)).
Definition axis_init (cfg : acfg) : axis :=
  let p := c_start cfg * million in
  let st := has_stow cfg && stow_match cfg p in
  mkAx (mkMo 0 0 p p 0 0 0 0 st st
             (if st then 0 else pin_selection cfg) (if st then pin_selection cfg else 0) st
             None false)
       0 0 0 0 0 0 0 0 0.

(* property setters with a side condition *)
Definition clamp_pos (cfg : acfg) (v : Z) : Z :=      (* p_Soll / p_Ist setters *)
  Z.max (Z.min v (hi_udeg cfg + 1)) (lo_udeg cfg - 1).

(* ---------------------------------------------------------------- validation *)

Definition in_range (cfg : acfg) (x : f64) : bool :=     (* self.min_pos <= x <= self.max_pos *)
  fle (f_of_Z (c_min cfg)) x && fle x (f_of_Z (c_max cfg)).
Definition rate_ok (cfg : acfg) (r : f64) : bool :=      (* abs(r) <= self.max_velocity *)
  fle (fabs r) (c_maxv cfg).
Definition rel_target (m : motion) (p1 : f64) : f64 :=   (* self.p_Ist / 1000000 + parameter_1 *)
  fadd (fdiv (f_of_Z (p_Ist m)) (f_of_Z million)) p1.

(* first if / elif chain: 4 = command received in wrong mode *)
Definition state_permits (m : motion) (mode : Z) : bool :=
  if mode =? 2 then axis_state m =? st_inactive
  else if zmem mode [3; 4; 5; 7; 8; 52] then axis_state m =? st_active
  else if mode =? 15 then zmem (axis_state m) [0; 1]
  else if mode =? 50 then stowPosOk m
  else true.

(* second chain: 5 = command has invalid parameters (overrides 4) *)
Definition params_ok (cfg : acfg) (m : motion) (mode : Z) (p1 p2 : f64) : bool :=
  if mode =? 3 then in_range cfg p1 && rate_ok cfg p2
  else if mode =? 4 then in_range cfg (rel_target m p1) && rate_ok cfg p2
  else if mode =? 5 then fle (fabs p1) (f_of_Z slew_limit) && rate_ok cfg p2
  else if mode =? 8 then rate_ok cfg p2
  else if mode =? 52 then
    if has_stow cfg
    then (fle (f_of_Z 0) p1 && flt p1 (f_of_Z (Z.of_nat (length (c_stow cfg)))))
         && fle (fabs p2) (fmul (of_bits stow_rate_factor_bits) (c_maxv cfg))
    else true
  else true.

Definition validate (cfg : acfg) (m : motion) (mode : Z) (p1 p2 : f64) : Z :=
  if params_ok cfg m mode p1 p2 then (if state_permits m mode then 9 else 4) else 5.

(* ---------------------------------------------------------------- handlers *)

Inductive tout := TDone | TParked | TDied | TSkipped.

Definition set_motion_state (m : motion) (st tr : Z) : motion :=
  mkMo st tr (p_Soll m) (p_Ist m) (v_Soll m) (v_Ist m) (p_Offset m) (brakes m) (stowed m)
       (stowPosOk m) (pin_in m) (pin_out m) (pins_extracted m) (cmc m) (pt_active m).
Definition set_traj (m : motion) (tr : Z) : motion := set_motion_state m (axis_state m) tr.
Definition set_cmc (m : motion) (c : Z) : motion :=
  mkMo (axis_state m) (traj m) (p_Soll m) (p_Ist m) (v_Soll m) (v_Ist m) (p_Offset m) (brakes m)
       (stowed m) (stowPosOk m) (pin_in m) (pin_out m) (pins_extracted m) (Some c) (pt_active m).
Definition set_pos (m : motion) (ps pi : Z) : motion :=
  mkMo (axis_state m) (traj m) ps pi (v_Soll m) (v_Ist m) (p_Offset m) (brakes m)
       (stowed m) (stowPosOk m) (pin_in m) (pin_out m) (pins_extracted m) (cmc m) (pt_active m).
Definition set_vel (m : motion) (vs vi : Z) : motion :=
  mkMo (axis_state m) (traj m) (p_Soll m) (p_Ist m) vs vi (p_Offset m) (brakes m)
       (stowed m) (stowPosOk m) (pin_in m) (pin_out m) (pins_extracted m) (cmc m) (pt_active m).
Definition set_offset (m : motion) (o : Z) : motion :=
  mkMo (axis_state m) (traj m) (p_Soll m) (p_Ist m) (v_Soll m) (v_Ist m) o (brakes m)
       (stowed m) (stowPosOk m) (pin_in m) (pin_out m) (pins_extracted m) (cmc m) (pt_active m).
Definition set_brakes (m : motion) (b : Z) : motion :=
  mkMo (axis_state m) (traj m) (p_Soll m) (p_Ist m) (v_Soll m) (v_Ist m) (p_Offset m) b
       (stowed m) (stowPosOk m) (pin_in m) (pin_out m) (pins_extracted m) (cmc m) (pt_active m).
Definition set_stow (m : motion) (st : bool) (pin pout : Z) : motion :=
  mkMo (axis_state m) (traj m) (p_Soll m) (p_Ist m) (v_Soll m) (v_Ist m) (p_Offset m) (brakes m)
       st (stowPosOk m) pin pout st (cmc m) (pt_active m).
Definition set_stowPosOk (m : motion) (b : bool) : motion :=
  mkMo (axis_state m) (traj m) (p_Soll m) (p_Ist m) (v_Soll m) (v_Ist m) (p_Offset m) (brakes m)
       (stowed m) b (pin_in m) (pin_out m) (pins_extracted m) (cmc m) (pt_active m).
Definition set_pt_active (m : motion) (b : bool) : motion :=
  mkMo (axis_state m) (traj m) (p_Soll m) (p_Ist m) (v_Soll m) (v_Ist m) (p_Offset m) (brakes m)
       (stowed m) (stowPosOk m) (pin_in m) (pin_out m) (pins_extracted m) (cmc m) b.

(* _move up to its first sleep, elapsed time 0 *)
Inductive mres := MArrived | MSuperseded | MParked | MDied.

Definition move (cfg : acfg) (m : motion) (counter desired_pos desired_rate : Z) : motion * mres :=
  let m1 := set_pos m (clamp_pos cfg desired_pos) (p_Ist m) in          (* self.p_Soll = desired_pos *)
  if fits_i32 desired_rate then
    let m2 := set_vel m1 desired_rate (v_Ist m1) in                      (* self.v_Soll = desired_rate *)
    (* _calc_position(0.0, ..): no displacement, clamped into the operating range *)
    let cur := Z.max (Z.min (p_Ist m2) (hi_udeg cfg)) (lo_udeg cfg) in
    if option_eqb Z.eqb (Some counter) (cmc m2) then
      let m3 := if (axis_state m2 =? 3) && negb (stowed m2)
                then set_pos (set_vel m2 (v_Soll m2) desired_rate) (p_Soll m2) (clamp_pos cfg cur)
                else set_vel m2 (v_Soll m2) 0 in
      if p_Ist m3 =? desired_pos then (set_vel m3 (v_Soll m3) 0, MArrived)
      else (m3, MParked)
    else (set_vel m2 (v_Soll m2) 0, MSuperseded)
  else (m1, MDied).

Definition finish (ax : axis) (m : motion) (counter mode : Z) : axis * tout :=
  (set_ex (with_mo ax m) counter mode 1, TDone).

Definition after_move (ax : axis) (r : motion * mres) (counter mode : Z) : axis * tout :=
  match snd r with
  | MArrived => finish ax (fst r) counter mode
  | MSuperseded => (with_mo ax (fst r), TDone)
  | MParked => (with_mo ax (fst r), TParked)
  | MDied => (with_mo ax (fst r), TDied)
  end.

Definition run_handler (cfg : acfg) (h : mhandler) (ax : axis) (counter : Z) (p1 p2 : f64)
  : axis * tout :=
  let m := mo ax in
  match h with
  | H_ignore => (ax, TDone)      (* never called: filtered out by _mode_command *)
  | H_inactive =>
      finish ax (set_vel (set_brakes (set_motion_state m 0 0) 0) 0 0) counter 1
  | H_active =>
      finish ax (set_brakes (set_motion_state m 3 1) (mask (c_motors cfg))) counter 2
  | H_preset_absolute =>
      let m1 := set_traj (set_cmc m counter) 6 in
      match py_round_int (fmul p1 (f_of_Z million)), py_round_int (fmul p2 (f_of_Z million)) with
      | Some dp, Some dr => after_move ax (move cfg m1 counter dp dr) counter 3
      | _, _ => (with_mo ax m1, TDied)
      end
  | H_preset_relative =>
      let m1 := set_traj (set_cmc m counter) 6 in
      match py_round_int (fmul p1 (f_of_Z million)), py_round_int (fmul p2 (f_of_Z million)) with
      | Some da, Some dr =>
          let base := if rel_from_p_Ist then p_Ist m1 else p_Soll m1 in
          after_move ax (move cfg m1 counter (base + da) dr) counter 4
      | _, _ => (with_mo ax m1, TDied)
      end
  | H_slew =>
      let m1 := set_traj (set_cmc m counter) 4 in
      match py_round_int (fmul (fmul p2 (f_of_Z million)) p1) with
      | Some dr =>
          let dp := if 0 <? sign dr then hi_udeg cfg
                    else if sign dr <? 0 then lo_udeg cfg else p_Ist m1 in
          after_move ax (move cfg m1 counter dp dr) counter 5
      | None => (with_mo ax m1, TDied)
      end
  | H_stop => finish ax (set_traj (set_cmc m counter) 3) counter 7
  | H_program_track =>
      let ax1 := set_ex (with_mo ax (set_cmc m counter)) counter 8 1 in
      if pt_active m then (ax1, TDone)
      else
        (* first loop iteration with next_pos = None: trajectory state 7, velocities 0, sleep *)
        let m1 := set_traj (set_pt_active (set_cmc m counter) true) 7 in
        (with_mo ax1 (set_vel (set_pos m1 (p_Soll m1) (clamp_pos cfg (p_Ist m1))) 0 0), TParked)
  | H_interlock => finish ax m counter 14
  | H_reset => finish ax m counter 15
  | H_stow =>
      let m1 := if has_stow cfg
                then set_vel (set_stow (set_cmc m counter) true 0 (pin_selection cfg)) 0 0
                else m in
      finish ax m1 counter 50
  | H_unstow =>
      let m1 := if has_stow cfg then set_stow (set_cmc m counter) false (pin_selection cfg) 0 else m in
      finish ax m1 counter 51
  | H_drive_to_stow =>
      match py_int p1 with
      | None => (ax, TDied)
      | Some idx =>
        if has_stow cfg then
          let m1 := set_cmc m counter in
          match (if idx <? 0 then None else nth_error (c_stow cfg) (Z.to_nat idx)),
                py_round_int (fmul p2 (f_of_Z million)) with
          | Some sp, Some dr =>
              let r := move cfg (set_traj m1 6) counter (sp * million) dr in
              match snd r with
              | MArrived =>
                  finish ax (set_vel (set_stow (fst r) true 0 (pin_selection cfg)) 0 0) counter 52
              | MSuperseded => (with_mo ax (fst r), TDone)
              | MParked => (with_mo ax (fst r), TParked)
              | MDied => (with_mo ax (fst r), TDied)
              end
          | _, _ => (with_mo ax m1, TDied)
          end
        else finish ax m counter 52
      end
  end.

(* MasterAxisStatus._mode_command *)
Definition mode_command (cfg : acfg) (ax : axis) (cmd : list Z) : axis * tout :=
  match uint_le (slice 4 8 cmd) with
  | None => (ax, TDied)
  | Some cnt =>
    let mode := int_le (slice 8 10 cmd) in
    match real_le (slice 10 18 cmd), real_le (slice 18 26 cmd) with
    | Some p1, Some p2 =>
      match zlookup mode mode_commands with
      | None | Some H_ignore => (set_rx ax cnt 0 0, TDone)
      | Some h =>
        let a := validate cfg (mo ax) mode p1 p2 in
        let ax1 := set_rx ax cnt mode a in
        if a =? 9 then run_handler cfg h (set_ex ax1 cnt mode 2) cnt p1 p2
        else (ax1, TDone)
      end
    | _, _ => (ax, TDied)
    end
  end.

(* MasterAxisStatus._parameter_command *)
Definition offset_command (ax : axis) (base : Z) (p1 : f64) : axis * tout :=
  match py_round_int (fmul p1 (f_of_Z million)) with
  | Some v =>
      if fits_i32 (base + v)
      then (set_par (with_mo ax (set_offset (mo ax) (base + v))) (par_counter ax) (par_id ax) 1, TDone)
      else (ax, TDied)              (* OverflowError in the p_Offset setter *)
  | None => (ax, TDied)             (* int(round(nan / inf)) *)
  end.

Definition parameter_command (ax : axis) (cmd : list Z) : axis * tout :=
  match uint_le (slice 4 8 cmd) with
  | None => (ax, TDied)
  | Some cnt =>
    let ax1 := set_par ax cnt (par_id ax) (par_answer ax) in
    match uint_le (slice 8 10 cmd), real_le (slice 10 18 cmd), real_le (slice 18 26 cmd) with
    | Some pid, Some p1, Some p2 =>
      let ax2 := set_par ax1 cnt pid (par_answer ax1) in
      if negb (axis_state (mo ax2) =? 3) then (set_par ax2 cnt pid 4, TDone)
      else if pid =? 11 then offset_command ax2 0 p1
      else if pid =? 12 then offset_command ax2 (p_Offset (mo ax2)) p1
      else (set_par ax2 cnt pid 5, TDone)
    | _, _, _ => (ax1, TDied)
    end
  end.

(* update_status: only the part the validation reads *)
Definition tick (cfg : acfg) (ax : axis) : axis :=
  if has_stow cfg then with_mo ax (set_stowPosOk (mo ax) (stow_match cfg (p_Ist (mo ax)))) else ax.

(* ---------------------------------------------------------------- pointing subsystem *)

Record pstate := mkPs { ps_counter : Z; ps_id : Z; ps_answer : Z; ps_pt_offset : Z }.
Definition ps_init : pstate := mkPs 0 0 0 0.

(* PointingStatus._parameter_command; ids 50 and 51 are intercepted by the harness (TSkipped) *)
Definition ps_parameter_command (ps : pstate) (cmd : list Z) : pstate * tout :=
  match uint_le (slice 4 8 cmd), uint_le (slice 8 10 cmd),
        real_le (slice 10 18 cmd), real_le (slice 18 26 cmd) with
  | Some cnt, Some pid, Some p1, Some p2 =>
    if (pid =? 50) || (pid =? 51) then (ps, TSkipped)
    else
      let ps1 := mkPs cnt pid (ps_answer ps) (ps_pt_offset ps) in
      if pid =? 60 then
        if fgt (fabs p1) (f_of_Z 86400000) then (mkPs cnt pid 5 (ps_pt_offset ps), TDone)
        else match py_round_int (fmul p1 (f_of_Z 1000)) with
             | Some v => if fits_i32 v then (mkPs cnt pid 1 v, TDone) else (ps1, TDied)
             | None => (ps1, TDied)
             end
      else (mkPs cnt pid 5 (ps_pt_offset ps), TDone)
  | _, _, _, _ => (ps, TDied)
  end.

(* ---------------------------------------------------------------- the whole command path *)

Record sys := mkSys { s_fr : fstate; s_az : axis; s_el : axis; s_ps : pstate }.
Definition sys_init : sys := mkSys f_init (axis_init cfg_AZ) (axis_init cfg_EL) ps_init.

(* one started command thread: which subsystem, which command id, how it ended *)
Definition apply_dispatch (s : sys) (d : dispatch) : sys * tout :=
  let '(sub, cid, cmd) := d in
  match zlookup sub subsystems with
  | Some 0 =>
      let r := if cid =? 1 then mode_command cfg_AZ (s_az s) cmd
               else if cid =? 2 then parameter_command (s_az s) cmd else (s_az s, TDied) in
      (mkSys (s_fr s) (fst r) (s_el s) (s_ps s), snd r)
  | Some 1 =>
      let r := if cid =? 1 then mode_command cfg_EL (s_el s) cmd
               else if cid =? 2 then parameter_command (s_el s) cmd else (s_el s, TDied) in
      (mkSys (s_fr s) (s_az s) (fst r) (s_ps s), snd r)
  | Some 2 =>
      let r := if cid =? 2 then ps_parameter_command (s_ps s) cmd
               else (s_ps s, TSkipped) in    (* program track table: owned by C17, intercepted *)
      (mkSys (s_fr s) (s_az s) (s_el s) (fst r), snd r)
  | _ => (s, TDied)
  end.

Fixpoint apply_all (s : sys) (ds : list dispatch) : sys * list tout :=
  match ds with
  | [] => (s, [])
  | d :: ds' =>
    let '(s1, t) := apply_dispatch s d in
    let '(s2, ts) := apply_all s1 ds' in
    (s2, t :: ts)
  end.

Definition with_fr (s : sys) (fr : fstate) : sys := mkSys fr (s_az s) (s_el s) (s_ps s).

(* System.parse on one byte, command threads run synchronously *)
Definition sys_step (s : sys) (b : Z) : sys * outcome * option (list dispatch) * list tout :=
  let '(fr, o, d) := parse (s_fr s) b in
  match d with
  | None => (with_fr s fr, o, None, [])
  | Some ds => let '(s1, ts) := apply_all (with_fr s fr) ds in (s1, o, Some ds, ts)
  end.
