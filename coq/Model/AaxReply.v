(* Aax — the "reply" of an ACU axis (C04, part acu): the received-mode-command triple, the
   executed-mode-command triple and the parameter-command triple of the axis status block, on top
   of the thread-ledger model of Model/AaxModel.v.  No proofs here.

   _mode_command(cmd): unknown mode id or 0 ('_ignore') -> received = (counter, 0, 0), nothing
   else; otherwise received = (counter, mode id, answer of validation); answer 9 -> the handler
   runs (AaxModel.cmd_step, which stamps executed = (counter, mode id, 2) first).
   The verdict of validation is an input of the event (command validation is property C14). *)
From DS Require Import Base.Prelude Model.AaxModel.

Record rsys := mkR {
  base : sys;
  rcnt : Z; rcmd : Z; rans : Z;        (* received_mode_command_counter / _command / _answer *)
  pcnt : Z; pcmd : Z; pans : Z }.      (* parameter_command_counter / _command / _answer *)

Inductive verdict := VUnknown | VRefused (ans : Z) | VAccepted (cm : cmd).

Inductive revent :=
| RMode (cnt mid : Z) (vd : verdict)     (* one call of _mode_command *)
| RParam (cnt pid z : Z)                 (* one call of _parameter_command, z = int(round(par_1*1e6)) *)
| RTick (id k : Z)                       (* one loop iteration of command thread id *)
| RUpdate
| RFeed (next : option Z) (pt bahn : Z).

Definition recv_of (cnt mid : Z) (vd : verdict) : Z * Z * Z :=
  match vd with
  | VUnknown => (cnt, 0, 0)
  | VRefused a => (cnt, mid, a)
  | VAccepted cm => (cnt, mode_id cm, 9)
  end.

Definition with_base (r : rsys) (b : sys) : rsys :=
  mkR b (rcnt r) (rcmd r) (rans r) (pcnt r) (pcmd r) (pans r).

(* answer of _parameter_command; None = the handler raised (INT32 setter) before writing it *)
Definition param_answer (s : ax) (pid z : Z) : option Z :=
  if negb (ast s =? 3) then Some 4
  else if pid =? 11 then (if int32b z then Some 1 else None)
  else if pid =? 12 then (if int32b (poff s + z) then Some 1 else None)
  else Some 5.

Definition rstep (c : cfg) (r : rsys) (e : revent) : rsys :=
  match e with
  | RMode cnt mid vd =>
      let '(a, b, d) := recv_of cnt mid vd in
      let bs := match vd with VAccepted cm => step c (base r) (ECmd cnt cm) | _ => base r end in
      mkR bs a b d (pcnt r) (pcmd r) (pans r)
  | RParam cnt pid z =>
      let s := axs (base r) in
      let bs := if pid =? 11 then step c (base r) (EOffAbs z)
                else if pid =? 12 then step c (base r) (EOffRel z) else base r in
      mkR bs (rcnt r) (rcmd r) (rans r) cnt pid
          (match param_answer s pid z with Some a => a | None => pans r end)
  | RTick id k => with_base r (step c (base r) (ETick id k))
  | RUpdate => with_base r (step c (base r) EUpdate)
  | RFeed nx pt bahn => with_base r (step c (base r) (EFeed nx pt bahn))
  end.

Definition rrun (c : cfg) (r : rsys) (es : list revent) : rsys := fold_left (rstep c) es r.

Definition rinit (c : cfg) (p0 : Z) : rsys := mkR (init c p0) 0 0 0 0 0 0.

Definition recv (r : rsys) : Z * Z * Z := (rcnt r, rcmd r, rans r).
Definition exec (s : sys) : Z * Z * Z := (ecnt (axs s), ecmd (axs s), eans (axs s)).
Definition parm (r : rsys) : Z * Z * Z := (pcnt r, pcmd r, pans r).

Definition robs (r : rsys) : list Z :=
  obs (base r) ++ [rcnt r; rcmd r; rans r; pcnt r; pcmd r; pans r].
