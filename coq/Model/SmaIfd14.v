(* Executable model of simulators/if_distributor/IFD_14_channels.py  System.parse(byte).  No proofs.
   Framing: header '#', terminator '\n', at most 12 characters; _execute receives msg[1:-1].
   Device: channels[96] (attenuation multipliers; the default 127.0 and the settable ints 0..126
   are only ever observed through str(x * 0.25), so they are modelled as Z), switched. *)
From DS Require Import Base.Prelude Model.SmaCommon.

Definition i14_is_hdr (b : Z) : bool := b =? 35.
Definition i14_is_tail (b : Z) : bool := b =? 10.

Definition i14_fcfg : fcfg :=
  {| is_hdr := i14_is_hdr; is_tail := i14_is_tail; maxlen := 12; body := fun m => removelast (tl m) |}.

Record i14_dev := { chans : list Z; switched : bool }.

Definition i14_max_channels : Z := 96.
Definition i14_max_mult : Z := 127.           (* max_att / att_step = 31.75 / 0.25 *)

Definition i14_dev0 : i14_dev := {| chans := repeat i14_max_mult 96; switched := false |}.

(* str(v * 0.25) for an integer-valued v, 0 <= v: quarters are exact in binary64 and repr prints
   them as <int>.<0|25|5|75> *)
Definition render_quarter (v : Z) : list Z :=
  render_int (v / 4) ++ [46] ++
  (if v mod 4 =? 0 then [48] else if v mod 4 =? 1 then [50; 53] else if v mod 4 =? 2 then [53] else [55; 53]).

Definition tok_ATT : list Z := [65; 84; 84].
Definition tok_SWT : list Z := [83; 87; 84].
Definition msg_IDN : list Z := [42; 73; 68; 78; 63].      (* *IDN? *)
Definition msg_RST : list Z := [42; 82; 83; 84].          (* *RST *)
Definition i14_version : list Z :=                        (* 'SRT IF Distributor Simulator 1.0' *)
  [83; 82; 84; 32; 73; 70; 32; 68; 105; 115; 116; 114; 105; 98; 117; 116; 111; 114; 32;
   83; 105; 109; 117; 108; 97; 116; 111; 114; 32; 49; 46; 48].
Definition i14_unknown : list Z :=                        (* '#COMMAND UNKNOWN\n' *)
  [35; 67; 79; 77; 77; 65; 78; 68; 32; 85; 78; 75; 78; 79; 87; 78; 10].

Definition i14_att_reply (v : Z) : list Z := [35] ++ render_quarter v ++ [10].
Definition i14_swt_reply (b : bool) : list Z := [35; if b then 49 else 48; 10].

Definition chan_ok (c : Z) : bool := negb ((i14_max_channels <=? c) || (c <? 0)).

Definition i14_set (d : i14_dev) (toks : list (list Z)) : i14_dev * outcome :=
  match toks with
  | [command; channel; value] =>
      if negb (zlist_eqb command tok_ATT || zlist_eqb command tok_SWT) then (d, OValueError)
      else match parse_int channel with
      | None => (d, OValueError)
      | Some ch =>
          if negb (chan_ok ch) then (d, OValueError)
          else match parse_int value with
          | None => (d, OValueError)
          | Some v =>
              if zlist_eqb command tok_ATT then
                if (v <? 0) || (i14_max_mult <=? v) then (d, OValueError)
                else match set_nth (Z.to_nat ch) v (chans d) with
                     | Some l => ({| chans := l; switched := switched d |}, OEmpty)
                     | None => (d, OException)
                     end
              else
                if v =? 0 then ({| chans := chans d; switched := false |}, OEmpty)
                else if v =? 1 then ({| chans := chans d; switched := true |}, OEmpty)
                else (d, OValueError)
          end
      end
  | _ => (d, OValueError)
  end.

Definition i14_get (d : i14_dev) (toks : list (list Z)) : i14_dev * outcome :=
  match toks with
  | [command; channel] =>
      match parse_int channel with
      | None => (d, OValueError)
      | Some ch =>
          if negb (chan_ok ch) then (d, OValueError)
          else if zlist_eqb command tok_ATT then
            match nth_error (chans d) (Z.to_nat ch) with
            | Some v => (d, OReply (i14_att_reply v))
            | None => (d, OException)
            end
          else if zlist_eqb command tok_SWT then (d, OReply (i14_swt_reply (switched d)))
          else (d, OValueError)
      end
  | _ => (d, OValueError)
  end.

(* _execute(msg): classification of the line, then the action *)
Inductive i14_req := RSet (toks : list (list Z)) | RGet (toks : list (list Z)) | RIdn | RRst | RUnknown.

Definition i14_parse (msg : list Z) : i14_req :=
  if mem 32 msg && negb (mem 63 msg) then RSet (split_ws msg)
  else if mem 32 msg && mem 63 msg then RGet (split_ws (rstrip_ch 63 msg))
  else if zlist_eqb msg msg_IDN then RIdn
  else if zlist_eqb msg msg_RST then RRst
  else RUnknown.

Definition i14_apply (d : i14_dev) (r : i14_req) : i14_dev * outcome :=
  match r with
  | RSet toks => i14_set d toks
  | RGet toks => i14_get d toks
  | RIdn => (d, OReply i14_version)
  | RRst => (i14_dev0, ONone)
  | RUnknown => (d, OReply i14_unknown)
  end.

Definition i14_exec (d : i14_dev) (msg : list Z) : i14_dev * outcome := i14_apply d (i14_parse msg).

Definition i14_state := sstate i14_dev.
Definition i14_init : i14_state := {| buf := []; dev := i14_dev0 |}.
Definition i14_step : i14_state -> Z -> i14_state * outcome := sstep (fstep i14_fcfg) i14_exec.
Definition i14_run : i14_state -> list Z -> i14_state * list outcome := srun (fstep i14_fcfg) i14_exec.
Definition i14_idle : i14_state -> bool := sidle.
