(* Executable model of simulators/server.py request handlers (C01, C07 custom-command path).
   No proofs here.

   Modelled, line by line:  BaseHandler.setup / _execute_custom_command,
   ListenHandler.setup / handle / _handle (TCP and UDP), SendHandler.handle.
   Not modelled: Server / Simulator (process and socketserver plumbing), logging.

   Conventions.  A Python str or bytes object is the list of its code points / byte values
   ([list Z]).  The device (the `System` instance) is a black box: an arbitrary state machine
   with state type [E], a [sparse] function giving the outcome of `system.parse(byte)` and a
   [scall] function giving the outcome of `getattr(system, name)(..params)`.  The socket is
   a black box too: [sendok k] tells whether the k-th `sendto` of the connection succeeds
   ([false] = it raises IOError).  Everything the handler does to its environment is an
   [action]; an exception leaving the handler is the explicit action [Dies].

   The model has two switches ([variant]) selecting the code before / after the proposed
   repairs fixes/01-server-custom-two-colons.diff and fixes/02-server-unencodable-reply.diff.
   Theorems and the correspondence use [fixed]; [pristine] is kept for the refutation
   witnesses only. *)
From DS Require Import Base.Prelude.

(* ------------------------------------------------------------------------- *)
(* Python str primitives used by the handlers                                 *)

Definition HEADER : Z := 36.     (* '$' *)
Definition PCT : Z := 37.        (* '%' *)
Definition COLON : Z := 58.
Definition COMMA : Z := 44.
Definition NEWLINE : Z := 10.
Definition custom_tail : list Z := [37; 37; 37; 37; 37].

(* '$server_shutdown%%%%%' *)
Definition shutdown_ack : list Z :=
  [36; 115; 101; 114; 118; 101; 114; 95; 115; 104; 117; 116; 100; 111; 119; 110;
   37; 37; 37; 37; 37].
(* 'system_stop' *)
Definition stop_name : list Z := [115; 121; 115; 116; 101; 109; 95; 115; 116; 111; 112].
(* b'$system_stop%%%%%' *)
Definition stop_command : list Z := HEADER :: stop_name ++ custom_tail.

(* s.startswith('$') *)
Definition starts_with_header (s : list Z) : bool :=
  match s with c :: _ => c =? HEADER | [] => false end.

(* s.endswith(suf) *)
Definition ends_with (suf s : list Z) : bool := zlist_eqb (lastn (length suf) s) suf.

(* s[1:-5] *)
Definition slice_1_m5 (s : list Z) : list Z := firstn (length s - 6) (skipn 1 s).

(* c in s *)
Definition py_in (c : Z) (s : list Z) : bool := existsb (Z.eqb c) s.

(* s.split(c)  (one-character separator; ''.split(c) = ['']) *)
Fixpoint py_split (c : Z) (s : list Z) : list (list Z) :=
  match s with
  | [] => [[]]
  | x :: r =>
      if x =? c then [] :: py_split c r
      else match py_split c r with
           | h :: t => (x :: h) :: t
           | [] => [[x]]
           end
  end.

(* s.encode('latin-1'): None = UnicodeEncodeError *)
Definition encode_latin1 (s : list Z) : option (list Z) :=
  if forallb (fun c => c <? 256) s then Some s else None.

(* ------------------------------------------------------------------------- *)
(* Values, outcomes, actions                                                   *)

(* The Python object bound to the local variable `response` of _handle.  [VBytes] is what
   `response = response.encode('latin-1')` rebinds it to; [VOther] is any other object that is
   neither bool nor str (int, bytes, list, ...). *)
Inductive value := VNone | VBool (b : bool) | VStr (s : list Z) | VBytes | VOther.

(* outcome of system.parse(byte) *)
Inductive outcome := ORet (v : value) | OValueError | OException.

(* outcome of getattr(system, name)(..params):
   a str, another object, AttributeError (unknown name), any other exception *)
Inductive sysres := RStr (s : list Z) | RNonStr | RAttrErr | RExc.

Inductive exn := EValueError | EUnicodeEncode | EIOError.

Inductive action :=
| Parse (b : Z)                                   (* system.parse(chr(b)) *)
| Send (p : list Z)                               (* socket.sendto(p, client) returned *)
| SendFail (p : list Z)                           (* socket.sendto(p, client) raised IOError *)
| Call (name : list Z) (params : list (list Z))   (* getattr(system, name)(..params) *)
| Stop                                            (* self.stop()  (Server.stop) *)
| Subscribe | Unsubscribe                         (* SendHandler: system.subscribe / unsubscribe *)
| Dies (x : exn).                                 (* exception leaves the handler *)

Record variant := { fix01 : bool; fix02 : bool }.
Definition fixed : variant := {| fix01 := true; fix02 := true |}.
Definition pristine : variant := {| fix01 := false; fix02 := false |}.

Inductive flow := Continue | Break | Died.

Section Handler.
  Variable fx : variant.
  Variable E : Type.
  Variable sparse : E -> Z -> outcome * E.
  Variable scall : E -> list Z -> list (list Z) -> sysres * E.
  Variable sendok : nat -> bool.

  (* per-connection handler state: self.custom_msg, number of sendto calls so far, device *)
  Record hst := { cmsg : list Z; nsend : nat; env : E }.

  Definition set_cmsg (h : hst) (m : list Z) : hst :=
    {| cmsg := m; nsend := nsend h; env := env h |}.
  Definition set_env (h : hst) (e : E) : hst :=
    {| cmsg := cmsg h; nsend := nsend h; env := e |}.
  Definition bump (h : hst) : hst :=
    {| cmsg := cmsg h; nsend := S (nsend h); env := env h |}.

  (* name / parameter extraction of _execute_custom_command; None = the ValueError of
     `name, params_str = msg_body.split(':')` when the body has two or more ':' *)
  Definition split_command (body : list Z) : option (list Z * list (list Z)) :=
    let np := if py_in COLON body
              then match py_split COLON body with
                   | [a; b] => Some (a, b)
                   | _ => None
                   end
              else Some (body, []) in
    match np with
    | None => None
    | Some (name, ps) =>
        Some (name, match ps with [] => [] | _ => py_split COMMA ps end)
    end.

  (* BaseHandler._execute_custom_command(msg_body) *)
  Definition exec_custom (h : hst) (body : list Z) : list action * hst * flow :=
    match split_command body with
    | None =>
        if fix01 fx then ([], h, Continue)          (* inside the try: logged *)
        else ([Dies EValueError], h, Died)          (* pristine: raised before the try *)
    | Some (name, params) =>
        let (r, e') := scall (env h) name params in
        let h1 := set_env h e' in
        match r with
        | RStr s =>
            match encode_latin1 s with
            | None => ([Call name params], h1, Continue)    (* caught by `except Exception` *)
            | Some p =>
                if sendok (nsend h1)
                then (Call name params :: Send p ::
                        (if zlist_eqb s shutdown_ack then [Stop] else []),
                      bump h1, Continue)
                else ([Call name params; SendFail p], bump h1, Continue)
            end
        | _ => ([Call name params], h1, Continue)
        end
    end.

  (* second half of the loop body of _handle: the custom-command buffer *)
  Definition custom_step (h : hst) (b : Z) : list action * hst * flow :=
    if b =? HEADER then ([], set_cmsg h [b], Continue)
    else if starts_with_header (cmsg h) then
      let cm := cmsg h ++ [b] in
      if ends_with custom_tail cm
      then exec_custom (set_cmsg h []) (slice_1_m5 cm)
      else ([], set_cmsg h cm, Continue)
    else ([], h, Continue).

  (* first half of the loop body: parse, classify, send *)
  Definition relay_step (resp : value) (h : hst) (b : Z) : list action * value * hst * flow :=
    let (o, e1) := sparse (env h) b in
    let h1 := set_env h e1 in
    let resp1 := match o with ORet v => v | _ => resp end in
    match resp1 with
    | VBool _ => ([Parse b], resp1, h1, Continue)
    | VStr (c :: s) =>
        match encode_latin1 (c :: s) with
        | Some p =>
            if sendok (nsend h1)
            then ([Parse b; Send p], VBytes, bump h1, Continue)
            else ([Parse b; SendFail p], VBytes, bump h1, Break)
        | None =>
            if fix02 fx then ([Parse b], resp1, h1, Continue)
            else ([Parse b; Dies EUnicodeEncode], resp1, h1, Died)
        end
    | _ => ([Parse b], resp1, h1, Continue)       (* logged as unexpected response *)
    end.

  (* one iteration of `for byte in msg` *)
  Definition step_byte (resp : value) (h : hst) (b : Z) : list action * value * hst * flow :=
    let '(a1, resp', h1, f1) := relay_step resp h b in
    match f1 with
    | Continue =>
        let '(a2, h2, f2) := custom_step h1 b in (a1 ++ a2, resp', h2, f2)
    | _ => (a1, resp', h1, f1)
    end.

  (* the loop of _handle from a given binding of `response`; the result flow is Continue
     (returned normally, also after `break`) or Died *)
  Fixpoint handle_bytes (resp : value) (h : hst) (bs : list Z) : list action * hst * flow :=
    match bs with
    | [] => ([], h, Continue)
    | b :: r =>
        let '(a, resp', h', f) := step_byte resp h b in
        match f with
        | Continue => let '(a2, h2, f2) := handle_bytes resp' h' r in (a ++ a2, h2, f2)
        | Break => (a, h', Continue)
        | Died => (a, h', Died)
        end
    end.

  (* ListenHandler._handle(msg) *)
  Definition handle_segment (h : hst) (seg : list Z) : list action * hst * flow :=
    handle_bytes VNone h seg.

  (* the TCP loop of ListenHandler.handle; one event per `recv`: Some seg = bytes received,
     None = recv raised IOError; the end of the list = recv returned b'' *)
  Fixpoint handle_tcp (h : hst) (evs : list (option (list Z))) : list action * hst * flow :=
    match evs with
    | [] => ([], h, Continue)
    | None :: _ => ([], h, Continue)
    | Some [] :: _ => ([], h, Continue)
    | Some seg :: r =>
        let '(a, h', f) := handle_segment h seg in
        match f with
        | Died => (a, h', Died)
        | _ => let '(a2, h2, f2) := handle_tcp h' r in (a ++ a2, h2, f2)
        end
    end.

  Definition init (e : E) : hst := {| cmsg := []; nsend := 0; env := e |}.

  (* ListenHandler.setup on a TCP connection: the greeting (system_greet() returned None or a
     str) *)
  Definition setup_tcp (greet : option (list Z)) (h : hst) : list action * hst * flow :=
    match greet with
    | None | Some [] => ([], h, Continue)
    | Some g =>
        match encode_latin1 g with
        | None => ([Dies EUnicodeEncode], h, Died)
        | Some p =>
            if sendok (nsend h) then ([Send p], bump h, Continue)
            else ([SendFail p; Dies EIOError], bump h, Died)
        end
    end.

  (* a whole TCP connection of a listening server: setup, handle *)
  Definition listen_tcp (greet : option (list Z)) (e : E) (evs : list (option (list Z)))
    : list action * hst * flow :=
    let '(a, h, f) := setup_tcp greet (init e) in
    match f with
    | Continue => let '(a2, h2, f2) := handle_tcp h evs in (a ++ a2, h2, f2)
    | _ => (a, h, f)
    end.

  (* a UDP datagram of a listening server: setup (no greeting), msg += b'\n', _handle(msg) *)
  Definition listen_udp (e : E) (msg : list Z) : list action * hst * flow :=
    handle_segment (init e) (msg ++ [NEWLINE]).

  (* --------------------------------------------------------------------- *)
  (* SendHandler.handle *)

  Inductive recv_ev := RChunk (c : list Z) | RNoData.      (* RNoData: recv raised IOError *)
  Inductive queue_ev := QEmpty | QMsg (p : list Z).        (* message_queue.get(timeout) *)

  (* the part of an iteration after a chunk was obtained; returns also `false` when the loop
     is left by the `break` after an empty chunk *)
  Definition send_chunk (h : hst) (c : list Z) : list action * hst * flow :=
    if starts_with_header c && ends_with custom_tail c
    then exec_custom h (slice_1_m5 c)
    else ([], h, Continue).

  Definition send_queue (udp : bool) (h : hst) (q : queue_ev) : list action * hst * flow :=
    match q with
    | QEmpty => ([], h, Continue)
    | QMsg p =>
        if sendok (nsend h)
        then ([Send p], bump h, if udp then Break else Continue)
        else ([SendFail p], bump h, Break)
    end.

  Definition hd_queue (qs : list queue_ev) : queue_ev :=
    match qs with [] => QEmpty | q :: _ => q end.

  (* one iteration given the result of the first try block *)
  Definition send_iter (udp : bool) (h : hst) (r : recv_ev) (q : queue_ev)
    : list action * hst * flow :=
    match r with
    | RChunk [] => ([], h, Break)
    | RNoData => send_queue udp h q
    | RChunk c =>
        let '(a, h1, f) := send_chunk h c in
        match f with
        | Continue => let '(a2, h2, f2) := send_queue udp h1 q in (a ++ a2, h2, f2)
        | _ => (a, h1, f)
        end
    end.

  (* `while True` with recv events; the end of the list = recv returned b'' *)
  Fixpoint send_loop (udp : bool) (h : hst) (rs : list recv_ev) (qs : list queue_ev)
    : list action * hst * flow :=
    match rs with
    | [] => ([], h, Break)
    | r :: rs' =>
        let '(a, h1, f) := send_iter udp h r (hd_queue qs) in
        match f with
        | Continue =>
            let '(a2, h2, f2) := send_loop udp h1 rs' (tl qs) in (a ++ a2, h2, f2)
        | _ => (a, h1, f)
        end
    end.

  (* SendHandler.handle: [first] is the datagram of a UDP request (None for TCP; an empty
     datagram is falsy, so the first iteration then calls recv like any other) *)
  Definition send_handle (first : option (list Z)) (e : E)
             (rs : list recv_ev) (qs : list queue_ev) : list action * hst * flow :=
    let udp := match first with Some _ => true | None => false end in
    let rs' := match first with
               | Some (c :: m) => RChunk (c :: m) :: rs
               | _ => rs
               end in
    let '(a, h, f) := send_loop udp (init e) rs' qs in
    match f with
    | Died => (Subscribe :: a, h, Died)
    | _ => (Subscribe :: a ++ [Unsubscribe], h, Continue)
    end.

End Handler.

Arguments cmsg {E}.
Arguments nsend {E}.
Arguments env {E}.

Definition actions_of {E} (r : list action * hst E * flow) : list action := fst (fst r).
Definition flow_of {E} (r : list action * hst E * flow) : flow := snd r.
Definition state_of {E} (r : list action * hst E * flow) : hst E := snd (fst r).
