(* Shared definitions of the Smc models (mscu, totalpower, dbesm): parse outcomes, Python str
   helpers on code-point lists (split, strip, str(int)), list updates.  No proofs here. *)
From DS Require Import Base.Prelude.
From Coq Require String Ascii.
Export String.StringSyntax.

(* What System.parse(byte) did, as ListenHandler._handle classifies it. *)
Inductive outcome :=
| OFalse | OTrue
| OReply (s : list Z)          (* a str, one code point per element *)
| OBadRet                      (* None, '' or a non-str *)
| OValueError                  (* raise ValueError *)
| OException                   (* any other exception *)
| OOutside.                    (* model only: the request is outside the modelled domain *)

Definition outcome_eqb (a b : outcome) : bool :=
  match a, b with
  | OFalse, OFalse | OTrue, OTrue | OBadRet, OBadRet | OValueError, OValueError
  | OException, OException => true
  | OReply x, OReply y => zlist_eqb x y
  | _, _ => false
  end.

Definition is_reply (o : outcome) : bool := match o with OReply _ => true | _ => false end.

(* string literals *)
Definition s2z (s : String.string) : list Z :=
  map (fun a => Z.of_N (Ascii.N_of_ascii a)) (String.list_ascii_of_string s).
Bind Scope string_scope with String.string.
Delimit Scope string_scope with string.
Arguments s2z _%string.
Notation "'$' s" := (s2z s) (at level 0, s at level 0, only parsing).

Definition CR : Z := 13.
Definition LF : Z := 10.
Definition SP : Z := 32.

(* str.strip(): the code points below 256 for which chr(c).isspace() *)
Definition py_ws (c : Z) : bool :=
  ((9 <=? c) && (c <=? 13)) || ((28 <=? c) && (c <=? 32)) || (c =? 133) || (c =? 160).

Fixpoint lstrip (l : list Z) : list Z :=
  match l with
  | c :: r => if py_ws c then lstrip r else l
  | [] => []
  end.
Definition rstrip (l : list Z) : list Z := rev (lstrip (rev l)).
Definition strip (l : list Z) : list Z := rstrip (lstrip l).

(* str.split(sep) for a one-character separator: never empty, keeps empty fields *)
Fixpoint split_on (sep : Z) (l : list Z) : list (list Z) :=
  match l with
  | [] => [[]]
  | c :: r =>
      if c =? sep then [] :: split_on sep r
      else match split_on sep r with
           | h :: t => (c :: h) :: t
           | [] => [[c]]
           end
  end.

Fixpoint join (sep : list Z) (ls : list (list Z)) : list Z :=
  match ls with
  | [] => []
  | [x] => x
  | x :: r => x ++ sep ++ join sep r
  end.

Fixpoint starts_with (p l : list Z) : bool :=
  match p, l with
  | [], _ => true
  | a :: p', b :: l' => (a =? b) && starts_with p' l'
  | _ :: _, [] => false
  end.
Definition ends_with (p l : list Z) : bool := starts_with (rev p) (rev l).

Definition mem_z (c : Z) (l : list Z) : bool := existsb (Z.eqb c) l.
Definition mem_s (s : list Z) (l : list (list Z)) : bool := existsb (zlist_eqb s) l.

(* s[:-1] *)
Definition drop_last (l : list Z) : list Z := removelast l.

(* str(int) *)
Fixpoint udigits (fuel : nat) (n : Z) (acc : list Z) : list Z :=
  match fuel with
  | O => acc
  | S f => if n <? 10 then (48 + n) :: acc else udigits f (n / 10) ((48 + n mod 10) :: acc)
  end.
Definition zstr (z : Z) : list Z :=
  if z <? 0 then 45 :: udigits (S (Z.to_nat (Z.log2 (- z)))) (- z) []
  else udigits (S (Z.to_nat (Z.log2 z))) z [].

(* list helpers with explicit failure *)
Fixpoint nth_opt {A} (n : nat) (l : list A) : option A :=
  match l, n with
  | [], _ => None
  | x :: _, O => Some x
  | _ :: r, S k => nth_opt k r
  end.
Fixpoint set_nth {A} (n : nat) (v : A) (l : list A) : list A :=
  match l, n with
  | [], _ => []
  | _ :: r, O => v :: r
  | x :: r, S k => x :: set_nth k v r
  end.

(* association tables supplied per case by the harness (graphs of Python builtins) *)
Fixpoint assoc_s {A} (k : list Z) (t : list (list Z * A)) : option A :=
  match t with
  | [] => None
  | (k', v) :: r => if zlist_eqb k k' then Some v else assoc_s k r
  end.
Fixpoint assoc_z {A} (k : Z) (t : list (Z * A)) : option A :=
  match t with
  | [] => None
  | (k', v) :: r => if k =? k' then Some v else assoc_z k r
  end.

(* result of a text-to-number builtin on one token *)
Inductive conv (A : Type) :=
| CvOk (v : A)          (* the builtin returned v *)
| CvErr                 (* the builtin raised ValueError *)
| CvMiss.               (* the case's table has no entry: the harness is incomplete *)
Arguments CvOk {A} v.
Arguments CvErr {A}.
Arguments CvMiss {A}.

Definition conv_of_tbl {A} (t : list (list Z * option A)) (k : list Z) : conv A :=
  match assoc_s k t with
  | Some (Some v) => CvOk v
  | Some None => CvErr
  | None => CvMiss
  end.

(* fold a step function over a list of inputs, collecting the outcomes *)
Section Run.
  Context {S I O : Type} (step : S -> I -> S * O).
  Fixpoint run (s : S) (l : list I) : S * list O :=
    match l with
    | [] => (s, [])
    | i :: r => let (s1, o) := step s i in let (s2, os) := run s1 r in (s2, o :: os)
    end.
End Run.
