(* Shared definitions for the five small text-protocol simulators (tag Smb):
   generic_LO, w_LO, solar_attenuator, switch_matrix, weather_station.

   - parse outcomes (what `System.parse(byte)` returns or raises),
   - the Python string builtins the parsers use, on latin-1 strings (list Z, one code point per
     element): str.split(sep), str.split(), str.strip(), re.split(r'\W+', s), int(str), str(int),
   - the line framer shared by four of the simulators: buffer every byte until '\n', then hand the
     buffered text to `_parse` (the buffer is cleared BEFORE `_parse` runs).
   No proofs here. *)
From DS Require Import Base.Prelude.
From Coq Require String Ascii Decimal.

(* ---------------------------------------------------------------- outcomes *)
Inductive exn := TypeError | AttributeError | KeyError | OverflowError
  | OtherExn.   (* any other exception type: no model produces it *)

Inductive outcome :=
| OFalse | OTrue
| OReply (s : list Z)          (* a non-empty str *)
| OBadRet                      (* '' / None / non-str *)
| OValueError                  (* raise ValueError *)
| OException (e : exn)         (* any other exception, by type *)
| ONoOracle.                   (* the case's oracle table lacks a token the model needs: never equal
                                  to an observation, so the correspondence fails loudly *)

Definition exn_eqb (a b : exn) : bool :=
  match a, b with
  | TypeError, TypeError | AttributeError, AttributeError | KeyError, KeyError
  | OverflowError, OverflowError => true
  | _, _ => false      (* OtherExn equals nothing *)
  end.

Definition outcome_eqb (a b : outcome) : bool :=
  match a, b with
  | OFalse, OFalse | OTrue, OTrue | OBadRet, OBadRet | OValueError, OValueError => true
  | OReply x, OReply y => zlist_eqb x y
  | OException x, OException y => exn_eqb x y
  | _, _ => false           (* ONoOracle equals nothing, not even itself *)
  end.

Definition is_reply (o : outcome) : bool := match o with OReply _ => true | _ => false end.

(* ---------------------------------------------------------------- literals *)
Definition str (x : String.string) : list Z :=
  map (fun a => Z.of_N (Ascii.N_of_ascii a)) (String.list_ascii_of_string x).

Definition LF : Z := 10.
Definition CR : Z := 13.
Definition SEMI : Z := 59.
Definition SP : Z := 32.
Definition CRLF : list Z := [13; 10].
Definition ACK : list Z := [65; 67; 75].
Definition NACK : list Z := [78; 65; 67; 75].

Definition nonempty {A} (l : list A) : bool := match l with [] => false | _ => true end.

(* ---------------------------------------------------------------- character classes *)
(* str.isspace() for code points < 256 (str.split() / str.strip() use it) *)
Definition is_space (c : Z) : bool :=
  ((9 <=? c) && (c <=? 13)) || ((28 <=? c) && (c <=? 32)) || (c =? 133) || (c =? 160).

(* re `\w` on str patterns (Unicode) for code points < 256: [A-Za-z0-9_] and the latin-1
   alphanumerics *)
Definition is_word (c : Z) : bool :=
  ((48 <=? c) && (c <=? 57)) || ((65 <=? c) && (c <=? 90)) || (c =? 95) ||
  ((97 <=? c) && (c <=? 122)) ||
  (c =? 170) || (c =? 178) || (c =? 179) || (c =? 181) || (c =? 185) || (c =? 186) ||
  ((188 <=? c) && (c <=? 190)) || ((192 <=? c) && (c <=? 214)) ||
  ((216 <=? c) && (c <=? 246)) || ((248 <=? c) && (c <=? 255)).

Definition is_digit (c : Z) : bool := (48 <=? c) && (c <=? 57).

(* ---------------------------------------------------------------- splitting *)
(* split at every character satisfying [sep]; never returns [] (Python: s.split(c)) *)
Fixpoint split_by (sep : Z -> bool) (s : list Z) : list (list Z) :=
  match s with
  | [] => [[]]
  | x :: s' =>
      if sep x then [] :: split_by sep s'
      else match split_by sep s' with
           | [] => [[x]]
           | h :: t => (x :: h) :: t
           end
  end.

Definition split_on (c : Z) (s : list Z) : list (list Z) := split_by (Z.eqb c) s.

(* s.split(): maximal runs of non-whitespace *)
Definition split_ws (s : list Z) : list (list Z) := filter nonempty (split_by is_space s).

(* re.split(r'\W+', s): split at every maximal run of non-word characters; a leading / trailing
   run leaves an empty first / last piece *)
Fixpoint drop_inner_empty (l : list (list Z)) : list (list Z) :=
  match l with
  | [] => []
  | [x] => [x]
  | x :: r => if nonempty x then x :: drop_inner_empty r else drop_inner_empty r
  end.

Definition re_split_nonword (s : list Z) : list (list Z) :=
  match split_by (fun c => negb (is_word c)) s with
  | [] => []
  | p0 :: r => p0 :: drop_inner_empty r
  end.

Fixpoint lstrip (s : list Z) : list Z :=
  match s with
  | c :: r => if is_space c then lstrip r else s
  | [] => []
  end.
Definition strip (s : list Z) : list Z := rev (lstrip (rev (lstrip s))).

(* ';'.join(items) written the way the parsers do it: every item followed by ';', then the last
   character removed *)
Definition semi_all (items : list (list Z)) : list Z := concat (map (fun i => i ++ [SEMI]) items).
Definition join_semi (items : list (list Z)) : list Z := removelast (semi_all items).

(* ---------------------------------------------------------------- int(str), str(int) *)
(* decimal digits with single underscores between digits; returns value and digit count *)
Fixpoint int_body (acc n : Z) (prev_digit : bool) (s : list Z) : option (Z * Z) :=
  match s with
  | [] => if prev_digit then Some (acc, n) else None
  | c :: r =>
      if is_digit c then int_body (10 * acc + (c - 48)) (n + 1) true r
      else if (c =? 95) && prev_digit then int_body acc n false r
      else None
  end.

Definition MAX_STR_DIGITS : Z := 4300.      (* sys.int_info.default_max_str_digits *)

Definition int_unsigned (s : list Z) : option Z :=
  match int_body 0 0 false s with
  | Some (v, n) => if n <=? MAX_STR_DIGITS then Some v else None
  | None => None
  end.

(* int(tok) for a token without whitespace: None = ValueError *)
Definition py_int (tok : list Z) : option Z :=
  match tok with
  | 43 :: r => int_unsigned r
  | 45 :: r => option_map Z.opp (int_unsigned r)
  | _ => int_unsigned tok
  end.

Fixpoint uint_digits (u : Decimal.uint) : list Z :=
  match u with
  | Decimal.Nil => []
  | Decimal.D0 r => 48 :: uint_digits r
  | Decimal.D1 r => 49 :: uint_digits r
  | Decimal.D2 r => 50 :: uint_digits r
  | Decimal.D3 r => 51 :: uint_digits r
  | Decimal.D4 r => 52 :: uint_digits r
  | Decimal.D5 r => 53 :: uint_digits r
  | Decimal.D6 r => 54 :: uint_digits r
  | Decimal.D7 r => 55 :: uint_digits r
  | Decimal.D8 r => 56 :: uint_digits r
  | Decimal.D9 r => 57 :: uint_digits r
  end.

(* str(z) *)
Definition dec (z : Z) : list Z :=
  match Z.to_int z with
  | Decimal.Pos u => uint_digits u
  | Decimal.Neg u => 45 :: uint_digits u
  end.

(* ---------------------------------------------------------------- oracle tables *)
Fixpoint assoc {A} (k : list Z) (tab : list (list Z * A)) : option A :=
  match tab with
  | [] => None
  | (k', v) :: r => if zlist_eqb k k' then Some v else assoc k r
  end.

(* ---------------------------------------------------------------- the '\n' line framer *)
Section Line.
  Context {dev : Type}.
  Variable exec : dev -> list Z -> dev * outcome.     (* _parse(msg) on the device state *)

  Record lstate := mkL { lmsg : list Z; ldev : dev }.

  Definition lstep (s : lstate) (b : Z) : lstate * outcome :=
    if b =? LF then
      let r := exec (ldev s) (lmsg s) in (mkL [] (fst r), snd r)
    else (mkL (lmsg s ++ [b]) (ldev s), OTrue).

  Fixpoint lrun (s : lstate) (bs : list Z) : lstate * list outcome :=
    match bs with
    | [] => (s, [])
    | b :: bs' =>
        let r1 := lstep s b in
        let r2 := lrun (fst r1) bs' in
        (fst r2, snd r1 :: snd r2)
    end.

  Definition lidle (s : lstate) : bool := negb (nonempty (lmsg s)).

  (* a history given as complete lines *)
  Definition line_bytes (l : list Z) : list Z := l ++ [LF].
  Definition lines_bytes (ls : list (list Z)) : list Z := concat (map line_bytes ls).
  Fixpoint exec_lines (d : dev) (ls : list (list Z)) : dev * list outcome :=
    match ls with
    | [] => (d, [])
    | l :: r => let r1 := exec d l in let r2 := exec_lines (fst r1) r in (fst r2, snd r1 :: snd r2)
    end.
End Line.
Arguments mkL {dev}.
Arguments lmsg {dev}.
Arguments ldev {dev}.

(* observations kept in a correspondence case: the outcomes that are not `True`, with their index *)
Fixpoint notable_from (i : Z) (os : list outcome) : list (Z * outcome) :=
  match os with
  | [] => []
  | OTrue :: r => notable_from (i + 1) r
  | o :: r => (i, o) :: notable_from (i + 1) r
  end.
Definition notable (os : list outcome) : list (Z * outcome) := notable_from 0 os.

Definition obs_eqb (a b : Z * outcome) : bool := (fst a =? fst b) && outcome_eqb (snd a) (snd b).
