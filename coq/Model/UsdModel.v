(* Executable, code-faithful integer model of simulators/active_surface/usd.py (class USD) and of
   the unicast command handlers of simulators/active_surface/__init__.py (System._soft_reset ...
   System._set_working_mode, reached through the System.functions table), with the fixes
   fixes/06, 07, 31, 32 applied.  No proofs here.

   Conventions: int -> Z; a Python list of three ints -> triple; Queue -> list (FIFO, head =
   oldest); None/int attributes -> option Z; bit strings -> list bool exactly as the code builds
   them (bin(x)[2:].zfill(8), indexing, int(.., 2)); floats that only carry quarters
   (standby_mode 0/0.25/0.5, current_percentage) -> number of quarters; time stamps -> units of
   1/1024 s of the harness' virtual clock.  Python exceptions / a blocking Queue.get are explicit
   outcomes, never defaults. *)
From DS Require Import Base.Prelude Base.Bits Model.Utils.

Definition tri := (Z * Z * Z)%type.
Definition tri_eqb (a b : tri) : bool :=
  let '(a0, a1, a2) := a in let '(b0, b1, b2) := b in (a0 =? b0) && (a1 =? b1) && (a2 =? b2).
Definition qitem_eqb (a b : Z * bool) : bool := (fst a =? fst b) && Bool.eqb (snd a) (snd b).

(* class constants *)
Definition min_position : Z := -21000 * 128.
Definition max_position : Z := 21000 * 128.
Definition out_of_scale_position : Z := max_position + 1.

(* resolutions = {0:1, 1:2, ..., 7:128};  .get(k) *)
Definition resolutions_get (k : Z) : option Z :=
  if (0 <=? k) && (k <=? 7) then Some (2 ^ k) else None.
(* standby_modes = {0:0, 1:0, 2:0.25, 3:0.50} in quarters *)
Definition standby_modes_get (k : Z) : option Z :=
  if k =? 0 then Some 0 else if k =? 1 then Some 0 else if k =? 2 then Some 1
  else if k =? 3 then Some 2 else None.
(* baud_rates = {0: 9600, 1: 19200} *)
Definition baud_rates_get (k : Z) : option Z :=
  if k =? 0 then Some 9600 else if k =? 1 then Some 19200 else None.

Record usd := {
  usd_index : Z;
  reference_position : Z;
  current_position : Z;
  position_queue : list (Z * bool);
  delay_multiplier : Z;
  standby_delay_multiplier : Z;
  standby_mode : Z;
  current_percentage : Z;
  version : list Z;
  driver_type : Z;
  slope_delayer : Z;
  min_frequency : Z;
  max_frequency : Z;
  io_dir : tri;
  io_val : tri;
  trigger_io_level : tri;
  trigger_io_enable : tri;
  stop_io_level : tri;
  stop_io_enable : tri;
  pos_io_level : tri;
  pos_io_enable : tri;
  home_io_level : tri;
  home_io_enable : tri;
  running : bool;
  delayed_execution : bool;
  ready : bool;
  full_current : bool;
  auto_resolution : bool;
  resolution : Z;
  velocity : option Z;
  baud_rate : Z;
  cmd_position : option Z;
  standby : bool;
  last_movement : option Z
}.

Definition set_usd_index (v : Z) (u : usd) : usd :=
  {| usd_index := v;
     reference_position := reference_position u;
     current_position := current_position u;
     position_queue := position_queue u;
     delay_multiplier := delay_multiplier u;
     standby_delay_multiplier := standby_delay_multiplier u;
     standby_mode := standby_mode u;
     current_percentage := current_percentage u;
     version := version u;
     driver_type := driver_type u;
     slope_delayer := slope_delayer u;
     min_frequency := min_frequency u;
     max_frequency := max_frequency u;
     io_dir := io_dir u;
     io_val := io_val u;
     trigger_io_level := trigger_io_level u;
     trigger_io_enable := trigger_io_enable u;
     stop_io_level := stop_io_level u;
     stop_io_enable := stop_io_enable u;
     pos_io_level := pos_io_level u;
     pos_io_enable := pos_io_enable u;
     home_io_level := home_io_level u;
     home_io_enable := home_io_enable u;
     running := running u;
     delayed_execution := delayed_execution u;
     ready := ready u;
     full_current := full_current u;
     auto_resolution := auto_resolution u;
     resolution := resolution u;
     velocity := velocity u;
     baud_rate := baud_rate u;
     cmd_position := cmd_position u;
     standby := standby u;
     last_movement := last_movement u |}.
Definition set_reference_position (v : Z) (u : usd) : usd :=
  {| usd_index := usd_index u;
     reference_position := v;
     current_position := current_position u;
     position_queue := position_queue u;
     delay_multiplier := delay_multiplier u;
     standby_delay_multiplier := standby_delay_multiplier u;
     standby_mode := standby_mode u;
     current_percentage := current_percentage u;
     version := version u;
     driver_type := driver_type u;
     slope_delayer := slope_delayer u;
     min_frequency := min_frequency u;
     max_frequency := max_frequency u;
     io_dir := io_dir u;
     io_val := io_val u;
     trigger_io_level := trigger_io_level u;
     trigger_io_enable := trigger_io_enable u;
     stop_io_level := stop_io_level u;
     stop_io_enable := stop_io_enable u;
     pos_io_level := pos_io_level u;
     pos_io_enable := pos_io_enable u;
     home_io_level := home_io_level u;
     home_io_enable := home_io_enable u;
     running := running u;
     delayed_execution := delayed_execution u;
     ready := ready u;
     full_current := full_current u;
     auto_resolution := auto_resolution u;
     resolution := resolution u;
     velocity := velocity u;
     baud_rate := baud_rate u;
     cmd_position := cmd_position u;
     standby := standby u;
     last_movement := last_movement u |}.
Definition set_current_position (v : Z) (u : usd) : usd :=
  {| usd_index := usd_index u;
     reference_position := reference_position u;
     current_position := v;
     position_queue := position_queue u;
     delay_multiplier := delay_multiplier u;
     standby_delay_multiplier := standby_delay_multiplier u;
     standby_mode := standby_mode u;
     current_percentage := current_percentage u;
     version := version u;
     driver_type := driver_type u;
     slope_delayer := slope_delayer u;
     min_frequency := min_frequency u;
     max_frequency := max_frequency u;
     io_dir := io_dir u;
     io_val := io_val u;
     trigger_io_level := trigger_io_level u;
     trigger_io_enable := trigger_io_enable u;
     stop_io_level := stop_io_level u;
     stop_io_enable := stop_io_enable u;
     pos_io_level := pos_io_level u;
     pos_io_enable := pos_io_enable u;
     home_io_level := home_io_level u;
     home_io_enable := home_io_enable u;
     running := running u;
     delayed_execution := delayed_execution u;
     ready := ready u;
     full_current := full_current u;
     auto_resolution := auto_resolution u;
     resolution := resolution u;
     velocity := velocity u;
     baud_rate := baud_rate u;
     cmd_position := cmd_position u;
     standby := standby u;
     last_movement := last_movement u |}.
Definition set_position_queue (v : list (Z * bool)) (u : usd) : usd :=
  {| usd_index := usd_index u;
     reference_position := reference_position u;
     current_position := current_position u;
     position_queue := v;
     delay_multiplier := delay_multiplier u;
     standby_delay_multiplier := standby_delay_multiplier u;
     standby_mode := standby_mode u;
     current_percentage := current_percentage u;
     version := version u;
     driver_type := driver_type u;
     slope_delayer := slope_delayer u;
     min_frequency := min_frequency u;
     max_frequency := max_frequency u;
     io_dir := io_dir u;
     io_val := io_val u;
     trigger_io_level := trigger_io_level u;
     trigger_io_enable := trigger_io_enable u;
     stop_io_level := stop_io_level u;
     stop_io_enable := stop_io_enable u;
     pos_io_level := pos_io_level u;
     pos_io_enable := pos_io_enable u;
     home_io_level := home_io_level u;
     home_io_enable := home_io_enable u;
     running := running u;
     delayed_execution := delayed_execution u;
     ready := ready u;
     full_current := full_current u;
     auto_resolution := auto_resolution u;
     resolution := resolution u;
     velocity := velocity u;
     baud_rate := baud_rate u;
     cmd_position := cmd_position u;
     standby := standby u;
     last_movement := last_movement u |}.
Definition set_delay_multiplier (v : Z) (u : usd) : usd :=
  {| usd_index := usd_index u;
     reference_position := reference_position u;
     current_position := current_position u;
     position_queue := position_queue u;
     delay_multiplier := v;
     standby_delay_multiplier := standby_delay_multiplier u;
     standby_mode := standby_mode u;
     current_percentage := current_percentage u;
     version := version u;
     driver_type := driver_type u;
     slope_delayer := slope_delayer u;
     min_frequency := min_frequency u;
     max_frequency := max_frequency u;
     io_dir := io_dir u;
     io_val := io_val u;
     trigger_io_level := trigger_io_level u;
     trigger_io_enable := trigger_io_enable u;
     stop_io_level := stop_io_level u;
     stop_io_enable := stop_io_enable u;
     pos_io_level := pos_io_level u;
     pos_io_enable := pos_io_enable u;
     home_io_level := home_io_level u;
     home_io_enable := home_io_enable u;
     running := running u;
     delayed_execution := delayed_execution u;
     ready := ready u;
     full_current := full_current u;
     auto_resolution := auto_resolution u;
     resolution := resolution u;
     velocity := velocity u;
     baud_rate := baud_rate u;
     cmd_position := cmd_position u;
     standby := standby u;
     last_movement := last_movement u |}.
Definition set_standby_delay_multiplier (v : Z) (u : usd) : usd :=
  {| usd_index := usd_index u;
     reference_position := reference_position u;
     current_position := current_position u;
     position_queue := position_queue u;
     delay_multiplier := delay_multiplier u;
     standby_delay_multiplier := v;
     standby_mode := standby_mode u;
     current_percentage := current_percentage u;
     version := version u;
     driver_type := driver_type u;
     slope_delayer := slope_delayer u;
     min_frequency := min_frequency u;
     max_frequency := max_frequency u;
     io_dir := io_dir u;
     io_val := io_val u;
     trigger_io_level := trigger_io_level u;
     trigger_io_enable := trigger_io_enable u;
     stop_io_level := stop_io_level u;
     stop_io_enable := stop_io_enable u;
     pos_io_level := pos_io_level u;
     pos_io_enable := pos_io_enable u;
     home_io_level := home_io_level u;
     home_io_enable := home_io_enable u;
     running := running u;
     delayed_execution := delayed_execution u;
     ready := ready u;
     full_current := full_current u;
     auto_resolution := auto_resolution u;
     resolution := resolution u;
     velocity := velocity u;
     baud_rate := baud_rate u;
     cmd_position := cmd_position u;
     standby := standby u;
     last_movement := last_movement u |}.
Definition set_standby_mode (v : Z) (u : usd) : usd :=
  {| usd_index := usd_index u;
     reference_position := reference_position u;
     current_position := current_position u;
     position_queue := position_queue u;
     delay_multiplier := delay_multiplier u;
     standby_delay_multiplier := standby_delay_multiplier u;
     standby_mode := v;
     current_percentage := current_percentage u;
     version := version u;
     driver_type := driver_type u;
     slope_delayer := slope_delayer u;
     min_frequency := min_frequency u;
     max_frequency := max_frequency u;
     io_dir := io_dir u;
     io_val := io_val u;
     trigger_io_level := trigger_io_level u;
     trigger_io_enable := trigger_io_enable u;
     stop_io_level := stop_io_level u;
     stop_io_enable := stop_io_enable u;
     pos_io_level := pos_io_level u;
     pos_io_enable := pos_io_enable u;
     home_io_level := home_io_level u;
     home_io_enable := home_io_enable u;
     running := running u;
     delayed_execution := delayed_execution u;
     ready := ready u;
     full_current := full_current u;
     auto_resolution := auto_resolution u;
     resolution := resolution u;
     velocity := velocity u;
     baud_rate := baud_rate u;
     cmd_position := cmd_position u;
     standby := standby u;
     last_movement := last_movement u |}.
Definition set_current_percentage (v : Z) (u : usd) : usd :=
  {| usd_index := usd_index u;
     reference_position := reference_position u;
     current_position := current_position u;
     position_queue := position_queue u;
     delay_multiplier := delay_multiplier u;
     standby_delay_multiplier := standby_delay_multiplier u;
     standby_mode := standby_mode u;
     current_percentage := v;
     version := version u;
     driver_type := driver_type u;
     slope_delayer := slope_delayer u;
     min_frequency := min_frequency u;
     max_frequency := max_frequency u;
     io_dir := io_dir u;
     io_val := io_val u;
     trigger_io_level := trigger_io_level u;
     trigger_io_enable := trigger_io_enable u;
     stop_io_level := stop_io_level u;
     stop_io_enable := stop_io_enable u;
     pos_io_level := pos_io_level u;
     pos_io_enable := pos_io_enable u;
     home_io_level := home_io_level u;
     home_io_enable := home_io_enable u;
     running := running u;
     delayed_execution := delayed_execution u;
     ready := ready u;
     full_current := full_current u;
     auto_resolution := auto_resolution u;
     resolution := resolution u;
     velocity := velocity u;
     baud_rate := baud_rate u;
     cmd_position := cmd_position u;
     standby := standby u;
     last_movement := last_movement u |}.
Definition set_version (v : list Z) (u : usd) : usd :=
  {| usd_index := usd_index u;
     reference_position := reference_position u;
     current_position := current_position u;
     position_queue := position_queue u;
     delay_multiplier := delay_multiplier u;
     standby_delay_multiplier := standby_delay_multiplier u;
     standby_mode := standby_mode u;
     current_percentage := current_percentage u;
     version := v;
     driver_type := driver_type u;
     slope_delayer := slope_delayer u;
     min_frequency := min_frequency u;
     max_frequency := max_frequency u;
     io_dir := io_dir u;
     io_val := io_val u;
     trigger_io_level := trigger_io_level u;
     trigger_io_enable := trigger_io_enable u;
     stop_io_level := stop_io_level u;
     stop_io_enable := stop_io_enable u;
     pos_io_level := pos_io_level u;
     pos_io_enable := pos_io_enable u;
     home_io_level := home_io_level u;
     home_io_enable := home_io_enable u;
     running := running u;
     delayed_execution := delayed_execution u;
     ready := ready u;
     full_current := full_current u;
     auto_resolution := auto_resolution u;
     resolution := resolution u;
     velocity := velocity u;
     baud_rate := baud_rate u;
     cmd_position := cmd_position u;
     standby := standby u;
     last_movement := last_movement u |}.
Definition set_driver_type (v : Z) (u : usd) : usd :=
  {| usd_index := usd_index u;
     reference_position := reference_position u;
     current_position := current_position u;
     position_queue := position_queue u;
     delay_multiplier := delay_multiplier u;
     standby_delay_multiplier := standby_delay_multiplier u;
     standby_mode := standby_mode u;
     current_percentage := current_percentage u;
     version := version u;
     driver_type := v;
     slope_delayer := slope_delayer u;
     min_frequency := min_frequency u;
     max_frequency := max_frequency u;
     io_dir := io_dir u;
     io_val := io_val u;
     trigger_io_level := trigger_io_level u;
     trigger_io_enable := trigger_io_enable u;
     stop_io_level := stop_io_level u;
     stop_io_enable := stop_io_enable u;
     pos_io_level := pos_io_level u;
     pos_io_enable := pos_io_enable u;
     home_io_level := home_io_level u;
     home_io_enable := home_io_enable u;
     running := running u;
     delayed_execution := delayed_execution u;
     ready := ready u;
     full_current := full_current u;
     auto_resolution := auto_resolution u;
     resolution := resolution u;
     velocity := velocity u;
     baud_rate := baud_rate u;
     cmd_position := cmd_position u;
     standby := standby u;
     last_movement := last_movement u |}.
Definition set_slope_delayer (v : Z) (u : usd) : usd :=
  {| usd_index := usd_index u;
     reference_position := reference_position u;
     current_position := current_position u;
     position_queue := position_queue u;
     delay_multiplier := delay_multiplier u;
     standby_delay_multiplier := standby_delay_multiplier u;
     standby_mode := standby_mode u;
     current_percentage := current_percentage u;
     version := version u;
     driver_type := driver_type u;
     slope_delayer := v;
     min_frequency := min_frequency u;
     max_frequency := max_frequency u;
     io_dir := io_dir u;
     io_val := io_val u;
     trigger_io_level := trigger_io_level u;
     trigger_io_enable := trigger_io_enable u;
     stop_io_level := stop_io_level u;
     stop_io_enable := stop_io_enable u;
     pos_io_level := pos_io_level u;
     pos_io_enable := pos_io_enable u;
     home_io_level := home_io_level u;
     home_io_enable := home_io_enable u;
     running := running u;
     delayed_execution := delayed_execution u;
     ready := ready u;
     full_current := full_current u;
     auto_resolution := auto_resolution u;
     resolution := resolution u;
     velocity := velocity u;
     baud_rate := baud_rate u;
     cmd_position := cmd_position u;
     standby := standby u;
     last_movement := last_movement u |}.
Definition set_min_frequency_attr (v : Z) (u : usd) : usd :=
  {| usd_index := usd_index u;
     reference_position := reference_position u;
     current_position := current_position u;
     position_queue := position_queue u;
     delay_multiplier := delay_multiplier u;
     standby_delay_multiplier := standby_delay_multiplier u;
     standby_mode := standby_mode u;
     current_percentage := current_percentage u;
     version := version u;
     driver_type := driver_type u;
     slope_delayer := slope_delayer u;
     min_frequency := v;
     max_frequency := max_frequency u;
     io_dir := io_dir u;
     io_val := io_val u;
     trigger_io_level := trigger_io_level u;
     trigger_io_enable := trigger_io_enable u;
     stop_io_level := stop_io_level u;
     stop_io_enable := stop_io_enable u;
     pos_io_level := pos_io_level u;
     pos_io_enable := pos_io_enable u;
     home_io_level := home_io_level u;
     home_io_enable := home_io_enable u;
     running := running u;
     delayed_execution := delayed_execution u;
     ready := ready u;
     full_current := full_current u;
     auto_resolution := auto_resolution u;
     resolution := resolution u;
     velocity := velocity u;
     baud_rate := baud_rate u;
     cmd_position := cmd_position u;
     standby := standby u;
     last_movement := last_movement u |}.
Definition set_max_frequency_attr (v : Z) (u : usd) : usd :=
  {| usd_index := usd_index u;
     reference_position := reference_position u;
     current_position := current_position u;
     position_queue := position_queue u;
     delay_multiplier := delay_multiplier u;
     standby_delay_multiplier := standby_delay_multiplier u;
     standby_mode := standby_mode u;
     current_percentage := current_percentage u;
     version := version u;
     driver_type := driver_type u;
     slope_delayer := slope_delayer u;
     min_frequency := min_frequency u;
     max_frequency := v;
     io_dir := io_dir u;
     io_val := io_val u;
     trigger_io_level := trigger_io_level u;
     trigger_io_enable := trigger_io_enable u;
     stop_io_level := stop_io_level u;
     stop_io_enable := stop_io_enable u;
     pos_io_level := pos_io_level u;
     pos_io_enable := pos_io_enable u;
     home_io_level := home_io_level u;
     home_io_enable := home_io_enable u;
     running := running u;
     delayed_execution := delayed_execution u;
     ready := ready u;
     full_current := full_current u;
     auto_resolution := auto_resolution u;
     resolution := resolution u;
     velocity := velocity u;
     baud_rate := baud_rate u;
     cmd_position := cmd_position u;
     standby := standby u;
     last_movement := last_movement u |}.
Definition set_io_dir (v : tri) (u : usd) : usd :=
  {| usd_index := usd_index u;
     reference_position := reference_position u;
     current_position := current_position u;
     position_queue := position_queue u;
     delay_multiplier := delay_multiplier u;
     standby_delay_multiplier := standby_delay_multiplier u;
     standby_mode := standby_mode u;
     current_percentage := current_percentage u;
     version := version u;
     driver_type := driver_type u;
     slope_delayer := slope_delayer u;
     min_frequency := min_frequency u;
     max_frequency := max_frequency u;
     io_dir := v;
     io_val := io_val u;
     trigger_io_level := trigger_io_level u;
     trigger_io_enable := trigger_io_enable u;
     stop_io_level := stop_io_level u;
     stop_io_enable := stop_io_enable u;
     pos_io_level := pos_io_level u;
     pos_io_enable := pos_io_enable u;
     home_io_level := home_io_level u;
     home_io_enable := home_io_enable u;
     running := running u;
     delayed_execution := delayed_execution u;
     ready := ready u;
     full_current := full_current u;
     auto_resolution := auto_resolution u;
     resolution := resolution u;
     velocity := velocity u;
     baud_rate := baud_rate u;
     cmd_position := cmd_position u;
     standby := standby u;
     last_movement := last_movement u |}.
Definition set_io_val (v : tri) (u : usd) : usd :=
  {| usd_index := usd_index u;
     reference_position := reference_position u;
     current_position := current_position u;
     position_queue := position_queue u;
     delay_multiplier := delay_multiplier u;
     standby_delay_multiplier := standby_delay_multiplier u;
     standby_mode := standby_mode u;
     current_percentage := current_percentage u;
     version := version u;
     driver_type := driver_type u;
     slope_delayer := slope_delayer u;
     min_frequency := min_frequency u;
     max_frequency := max_frequency u;
     io_dir := io_dir u;
     io_val := v;
     trigger_io_level := trigger_io_level u;
     trigger_io_enable := trigger_io_enable u;
     stop_io_level := stop_io_level u;
     stop_io_enable := stop_io_enable u;
     pos_io_level := pos_io_level u;
     pos_io_enable := pos_io_enable u;
     home_io_level := home_io_level u;
     home_io_enable := home_io_enable u;
     running := running u;
     delayed_execution := delayed_execution u;
     ready := ready u;
     full_current := full_current u;
     auto_resolution := auto_resolution u;
     resolution := resolution u;
     velocity := velocity u;
     baud_rate := baud_rate u;
     cmd_position := cmd_position u;
     standby := standby u;
     last_movement := last_movement u |}.
Definition set_trigger_io_level (v : tri) (u : usd) : usd :=
  {| usd_index := usd_index u;
     reference_position := reference_position u;
     current_position := current_position u;
     position_queue := position_queue u;
     delay_multiplier := delay_multiplier u;
     standby_delay_multiplier := standby_delay_multiplier u;
     standby_mode := standby_mode u;
     current_percentage := current_percentage u;
     version := version u;
     driver_type := driver_type u;
     slope_delayer := slope_delayer u;
     min_frequency := min_frequency u;
     max_frequency := max_frequency u;
     io_dir := io_dir u;
     io_val := io_val u;
     trigger_io_level := v;
     trigger_io_enable := trigger_io_enable u;
     stop_io_level := stop_io_level u;
     stop_io_enable := stop_io_enable u;
     pos_io_level := pos_io_level u;
     pos_io_enable := pos_io_enable u;
     home_io_level := home_io_level u;
     home_io_enable := home_io_enable u;
     running := running u;
     delayed_execution := delayed_execution u;
     ready := ready u;
     full_current := full_current u;
     auto_resolution := auto_resolution u;
     resolution := resolution u;
     velocity := velocity u;
     baud_rate := baud_rate u;
     cmd_position := cmd_position u;
     standby := standby u;
     last_movement := last_movement u |}.
Definition set_trigger_io_enable (v : tri) (u : usd) : usd :=
  {| usd_index := usd_index u;
     reference_position := reference_position u;
     current_position := current_position u;
     position_queue := position_queue u;
     delay_multiplier := delay_multiplier u;
     standby_delay_multiplier := standby_delay_multiplier u;
     standby_mode := standby_mode u;
     current_percentage := current_percentage u;
     version := version u;
     driver_type := driver_type u;
     slope_delayer := slope_delayer u;
     min_frequency := min_frequency u;
     max_frequency := max_frequency u;
     io_dir := io_dir u;
     io_val := io_val u;
     trigger_io_level := trigger_io_level u;
     trigger_io_enable := v;
     stop_io_level := stop_io_level u;
     stop_io_enable := stop_io_enable u;
     pos_io_level := pos_io_level u;
     pos_io_enable := pos_io_enable u;
     home_io_level := home_io_level u;
     home_io_enable := home_io_enable u;
     running := running u;
     delayed_execution := delayed_execution u;
     ready := ready u;
     full_current := full_current u;
     auto_resolution := auto_resolution u;
     resolution := resolution u;
     velocity := velocity u;
     baud_rate := baud_rate u;
     cmd_position := cmd_position u;
     standby := standby u;
     last_movement := last_movement u |}.
Definition set_stop_io_level (v : tri) (u : usd) : usd :=
  {| usd_index := usd_index u;
     reference_position := reference_position u;
     current_position := current_position u;
     position_queue := position_queue u;
     delay_multiplier := delay_multiplier u;
     standby_delay_multiplier := standby_delay_multiplier u;
     standby_mode := standby_mode u;
     current_percentage := current_percentage u;
     version := version u;
     driver_type := driver_type u;
     slope_delayer := slope_delayer u;
     min_frequency := min_frequency u;
     max_frequency := max_frequency u;
     io_dir := io_dir u;
     io_val := io_val u;
     trigger_io_level := trigger_io_level u;
     trigger_io_enable := trigger_io_enable u;
     stop_io_level := v;
     stop_io_enable := stop_io_enable u;
     pos_io_level := pos_io_level u;
     pos_io_enable := pos_io_enable u;
     home_io_level := home_io_level u;
     home_io_enable := home_io_enable u;
     running := running u;
     delayed_execution := delayed_execution u;
     ready := ready u;
     full_current := full_current u;
     auto_resolution := auto_resolution u;
     resolution := resolution u;
     velocity := velocity u;
     baud_rate := baud_rate u;
     cmd_position := cmd_position u;
     standby := standby u;
     last_movement := last_movement u |}.
Definition set_stop_io_enable (v : tri) (u : usd) : usd :=
  {| usd_index := usd_index u;
     reference_position := reference_position u;
     current_position := current_position u;
     position_queue := position_queue u;
     delay_multiplier := delay_multiplier u;
     standby_delay_multiplier := standby_delay_multiplier u;
     standby_mode := standby_mode u;
     current_percentage := current_percentage u;
     version := version u;
     driver_type := driver_type u;
     slope_delayer := slope_delayer u;
     min_frequency := min_frequency u;
     max_frequency := max_frequency u;
     io_dir := io_dir u;
     io_val := io_val u;
     trigger_io_level := trigger_io_level u;
     trigger_io_enable := trigger_io_enable u;
     stop_io_level := stop_io_level u;
     stop_io_enable := v;
     pos_io_level := pos_io_level u;
     pos_io_enable := pos_io_enable u;
     home_io_level := home_io_level u;
     home_io_enable := home_io_enable u;
     running := running u;
     delayed_execution := delayed_execution u;
     ready := ready u;
     full_current := full_current u;
     auto_resolution := auto_resolution u;
     resolution := resolution u;
     velocity := velocity u;
     baud_rate := baud_rate u;
     cmd_position := cmd_position u;
     standby := standby u;
     last_movement := last_movement u |}.
Definition set_pos_io_level (v : tri) (u : usd) : usd :=
  {| usd_index := usd_index u;
     reference_position := reference_position u;
     current_position := current_position u;
     position_queue := position_queue u;
     delay_multiplier := delay_multiplier u;
     standby_delay_multiplier := standby_delay_multiplier u;
     standby_mode := standby_mode u;
     current_percentage := current_percentage u;
     version := version u;
     driver_type := driver_type u;
     slope_delayer := slope_delayer u;
     min_frequency := min_frequency u;
     max_frequency := max_frequency u;
     io_dir := io_dir u;
     io_val := io_val u;
     trigger_io_level := trigger_io_level u;
     trigger_io_enable := trigger_io_enable u;
     stop_io_level := stop_io_level u;
     stop_io_enable := stop_io_enable u;
     pos_io_level := v;
     pos_io_enable := pos_io_enable u;
     home_io_level := home_io_level u;
     home_io_enable := home_io_enable u;
     running := running u;
     delayed_execution := delayed_execution u;
     ready := ready u;
     full_current := full_current u;
     auto_resolution := auto_resolution u;
     resolution := resolution u;
     velocity := velocity u;
     baud_rate := baud_rate u;
     cmd_position := cmd_position u;
     standby := standby u;
     last_movement := last_movement u |}.
Definition set_pos_io_enable (v : tri) (u : usd) : usd :=
  {| usd_index := usd_index u;
     reference_position := reference_position u;
     current_position := current_position u;
     position_queue := position_queue u;
     delay_multiplier := delay_multiplier u;
     standby_delay_multiplier := standby_delay_multiplier u;
     standby_mode := standby_mode u;
     current_percentage := current_percentage u;
     version := version u;
     driver_type := driver_type u;
     slope_delayer := slope_delayer u;
     min_frequency := min_frequency u;
     max_frequency := max_frequency u;
     io_dir := io_dir u;
     io_val := io_val u;
     trigger_io_level := trigger_io_level u;
     trigger_io_enable := trigger_io_enable u;
     stop_io_level := stop_io_level u;
     stop_io_enable := stop_io_enable u;
     pos_io_level := pos_io_level u;
     pos_io_enable := v;
     home_io_level := home_io_level u;
     home_io_enable := home_io_enable u;
     running := running u;
     delayed_execution := delayed_execution u;
     ready := ready u;
     full_current := full_current u;
     auto_resolution := auto_resolution u;
     resolution := resolution u;
     velocity := velocity u;
     baud_rate := baud_rate u;
     cmd_position := cmd_position u;
     standby := standby u;
     last_movement := last_movement u |}.
Definition set_home_io_level (v : tri) (u : usd) : usd :=
  {| usd_index := usd_index u;
     reference_position := reference_position u;
     current_position := current_position u;
     position_queue := position_queue u;
     delay_multiplier := delay_multiplier u;
     standby_delay_multiplier := standby_delay_multiplier u;
     standby_mode := standby_mode u;
     current_percentage := current_percentage u;
     version := version u;
     driver_type := driver_type u;
     slope_delayer := slope_delayer u;
     min_frequency := min_frequency u;
     max_frequency := max_frequency u;
     io_dir := io_dir u;
     io_val := io_val u;
     trigger_io_level := trigger_io_level u;
     trigger_io_enable := trigger_io_enable u;
     stop_io_level := stop_io_level u;
     stop_io_enable := stop_io_enable u;
     pos_io_level := pos_io_level u;
     pos_io_enable := pos_io_enable u;
     home_io_level := v;
     home_io_enable := home_io_enable u;
     running := running u;
     delayed_execution := delayed_execution u;
     ready := ready u;
     full_current := full_current u;
     auto_resolution := auto_resolution u;
     resolution := resolution u;
     velocity := velocity u;
     baud_rate := baud_rate u;
     cmd_position := cmd_position u;
     standby := standby u;
     last_movement := last_movement u |}.
Definition set_home_io_enable (v : tri) (u : usd) : usd :=
  {| usd_index := usd_index u;
     reference_position := reference_position u;
     current_position := current_position u;
     position_queue := position_queue u;
     delay_multiplier := delay_multiplier u;
     standby_delay_multiplier := standby_delay_multiplier u;
     standby_mode := standby_mode u;
     current_percentage := current_percentage u;
     version := version u;
     driver_type := driver_type u;
     slope_delayer := slope_delayer u;
     min_frequency := min_frequency u;
     max_frequency := max_frequency u;
     io_dir := io_dir u;
     io_val := io_val u;
     trigger_io_level := trigger_io_level u;
     trigger_io_enable := trigger_io_enable u;
     stop_io_level := stop_io_level u;
     stop_io_enable := stop_io_enable u;
     pos_io_level := pos_io_level u;
     pos_io_enable := pos_io_enable u;
     home_io_level := home_io_level u;
     home_io_enable := v;
     running := running u;
     delayed_execution := delayed_execution u;
     ready := ready u;
     full_current := full_current u;
     auto_resolution := auto_resolution u;
     resolution := resolution u;
     velocity := velocity u;
     baud_rate := baud_rate u;
     cmd_position := cmd_position u;
     standby := standby u;
     last_movement := last_movement u |}.
Definition set_running (v : bool) (u : usd) : usd :=
  {| usd_index := usd_index u;
     reference_position := reference_position u;
     current_position := current_position u;
     position_queue := position_queue u;
     delay_multiplier := delay_multiplier u;
     standby_delay_multiplier := standby_delay_multiplier u;
     standby_mode := standby_mode u;
     current_percentage := current_percentage u;
     version := version u;
     driver_type := driver_type u;
     slope_delayer := slope_delayer u;
     min_frequency := min_frequency u;
     max_frequency := max_frequency u;
     io_dir := io_dir u;
     io_val := io_val u;
     trigger_io_level := trigger_io_level u;
     trigger_io_enable := trigger_io_enable u;
     stop_io_level := stop_io_level u;
     stop_io_enable := stop_io_enable u;
     pos_io_level := pos_io_level u;
     pos_io_enable := pos_io_enable u;
     home_io_level := home_io_level u;
     home_io_enable := home_io_enable u;
     running := v;
     delayed_execution := delayed_execution u;
     ready := ready u;
     full_current := full_current u;
     auto_resolution := auto_resolution u;
     resolution := resolution u;
     velocity := velocity u;
     baud_rate := baud_rate u;
     cmd_position := cmd_position u;
     standby := standby u;
     last_movement := last_movement u |}.
Definition set_delayed_execution_attr (v : bool) (u : usd) : usd :=
  {| usd_index := usd_index u;
     reference_position := reference_position u;
     current_position := current_position u;
     position_queue := position_queue u;
     delay_multiplier := delay_multiplier u;
     standby_delay_multiplier := standby_delay_multiplier u;
     standby_mode := standby_mode u;
     current_percentage := current_percentage u;
     version := version u;
     driver_type := driver_type u;
     slope_delayer := slope_delayer u;
     min_frequency := min_frequency u;
     max_frequency := max_frequency u;
     io_dir := io_dir u;
     io_val := io_val u;
     trigger_io_level := trigger_io_level u;
     trigger_io_enable := trigger_io_enable u;
     stop_io_level := stop_io_level u;
     stop_io_enable := stop_io_enable u;
     pos_io_level := pos_io_level u;
     pos_io_enable := pos_io_enable u;
     home_io_level := home_io_level u;
     home_io_enable := home_io_enable u;
     running := running u;
     delayed_execution := v;
     ready := ready u;
     full_current := full_current u;
     auto_resolution := auto_resolution u;
     resolution := resolution u;
     velocity := velocity u;
     baud_rate := baud_rate u;
     cmd_position := cmd_position u;
     standby := standby u;
     last_movement := last_movement u |}.
Definition set_ready (v : bool) (u : usd) : usd :=
  {| usd_index := usd_index u;
     reference_position := reference_position u;
     current_position := current_position u;
     position_queue := position_queue u;
     delay_multiplier := delay_multiplier u;
     standby_delay_multiplier := standby_delay_multiplier u;
     standby_mode := standby_mode u;
     current_percentage := current_percentage u;
     version := version u;
     driver_type := driver_type u;
     slope_delayer := slope_delayer u;
     min_frequency := min_frequency u;
     max_frequency := max_frequency u;
     io_dir := io_dir u;
     io_val := io_val u;
     trigger_io_level := trigger_io_level u;
     trigger_io_enable := trigger_io_enable u;
     stop_io_level := stop_io_level u;
     stop_io_enable := stop_io_enable u;
     pos_io_level := pos_io_level u;
     pos_io_enable := pos_io_enable u;
     home_io_level := home_io_level u;
     home_io_enable := home_io_enable u;
     running := running u;
     delayed_execution := delayed_execution u;
     ready := v;
     full_current := full_current u;
     auto_resolution := auto_resolution u;
     resolution := resolution u;
     velocity := velocity u;
     baud_rate := baud_rate u;
     cmd_position := cmd_position u;
     standby := standby u;
     last_movement := last_movement u |}.
Definition set_full_current (v : bool) (u : usd) : usd :=
  {| usd_index := usd_index u;
     reference_position := reference_position u;
     current_position := current_position u;
     position_queue := position_queue u;
     delay_multiplier := delay_multiplier u;
     standby_delay_multiplier := standby_delay_multiplier u;
     standby_mode := standby_mode u;
     current_percentage := current_percentage u;
     version := version u;
     driver_type := driver_type u;
     slope_delayer := slope_delayer u;
     min_frequency := min_frequency u;
     max_frequency := max_frequency u;
     io_dir := io_dir u;
     io_val := io_val u;
     trigger_io_level := trigger_io_level u;
     trigger_io_enable := trigger_io_enable u;
     stop_io_level := stop_io_level u;
     stop_io_enable := stop_io_enable u;
     pos_io_level := pos_io_level u;
     pos_io_enable := pos_io_enable u;
     home_io_level := home_io_level u;
     home_io_enable := home_io_enable u;
     running := running u;
     delayed_execution := delayed_execution u;
     ready := ready u;
     full_current := v;
     auto_resolution := auto_resolution u;
     resolution := resolution u;
     velocity := velocity u;
     baud_rate := baud_rate u;
     cmd_position := cmd_position u;
     standby := standby u;
     last_movement := last_movement u |}.
Definition set_auto_resolution (v : bool) (u : usd) : usd :=
  {| usd_index := usd_index u;
     reference_position := reference_position u;
     current_position := current_position u;
     position_queue := position_queue u;
     delay_multiplier := delay_multiplier u;
     standby_delay_multiplier := standby_delay_multiplier u;
     standby_mode := standby_mode u;
     current_percentage := current_percentage u;
     version := version u;
     driver_type := driver_type u;
     slope_delayer := slope_delayer u;
     min_frequency := min_frequency u;
     max_frequency := max_frequency u;
     io_dir := io_dir u;
     io_val := io_val u;
     trigger_io_level := trigger_io_level u;
     trigger_io_enable := trigger_io_enable u;
     stop_io_level := stop_io_level u;
     stop_io_enable := stop_io_enable u;
     pos_io_level := pos_io_level u;
     pos_io_enable := pos_io_enable u;
     home_io_level := home_io_level u;
     home_io_enable := home_io_enable u;
     running := running u;
     delayed_execution := delayed_execution u;
     ready := ready u;
     full_current := full_current u;
     auto_resolution := v;
     resolution := resolution u;
     velocity := velocity u;
     baud_rate := baud_rate u;
     cmd_position := cmd_position u;
     standby := standby u;
     last_movement := last_movement u |}.
Definition set_resolution_attr (v : Z) (u : usd) : usd :=
  {| usd_index := usd_index u;
     reference_position := reference_position u;
     current_position := current_position u;
     position_queue := position_queue u;
     delay_multiplier := delay_multiplier u;
     standby_delay_multiplier := standby_delay_multiplier u;
     standby_mode := standby_mode u;
     current_percentage := current_percentage u;
     version := version u;
     driver_type := driver_type u;
     slope_delayer := slope_delayer u;
     min_frequency := min_frequency u;
     max_frequency := max_frequency u;
     io_dir := io_dir u;
     io_val := io_val u;
     trigger_io_level := trigger_io_level u;
     trigger_io_enable := trigger_io_enable u;
     stop_io_level := stop_io_level u;
     stop_io_enable := stop_io_enable u;
     pos_io_level := pos_io_level u;
     pos_io_enable := pos_io_enable u;
     home_io_level := home_io_level u;
     home_io_enable := home_io_enable u;
     running := running u;
     delayed_execution := delayed_execution u;
     ready := ready u;
     full_current := full_current u;
     auto_resolution := auto_resolution u;
     resolution := v;
     velocity := velocity u;
     baud_rate := baud_rate u;
     cmd_position := cmd_position u;
     standby := standby u;
     last_movement := last_movement u |}.
Definition set_velocity_attr (v : option Z) (u : usd) : usd :=
  {| usd_index := usd_index u;
     reference_position := reference_position u;
     current_position := current_position u;
     position_queue := position_queue u;
     delay_multiplier := delay_multiplier u;
     standby_delay_multiplier := standby_delay_multiplier u;
     standby_mode := standby_mode u;
     current_percentage := current_percentage u;
     version := version u;
     driver_type := driver_type u;
     slope_delayer := slope_delayer u;
     min_frequency := min_frequency u;
     max_frequency := max_frequency u;
     io_dir := io_dir u;
     io_val := io_val u;
     trigger_io_level := trigger_io_level u;
     trigger_io_enable := trigger_io_enable u;
     stop_io_level := stop_io_level u;
     stop_io_enable := stop_io_enable u;
     pos_io_level := pos_io_level u;
     pos_io_enable := pos_io_enable u;
     home_io_level := home_io_level u;
     home_io_enable := home_io_enable u;
     running := running u;
     delayed_execution := delayed_execution u;
     ready := ready u;
     full_current := full_current u;
     auto_resolution := auto_resolution u;
     resolution := resolution u;
     velocity := v;
     baud_rate := baud_rate u;
     cmd_position := cmd_position u;
     standby := standby u;
     last_movement := last_movement u |}.
Definition set_baud_rate (v : Z) (u : usd) : usd :=
  {| usd_index := usd_index u;
     reference_position := reference_position u;
     current_position := current_position u;
     position_queue := position_queue u;
     delay_multiplier := delay_multiplier u;
     standby_delay_multiplier := standby_delay_multiplier u;
     standby_mode := standby_mode u;
     current_percentage := current_percentage u;
     version := version u;
     driver_type := driver_type u;
     slope_delayer := slope_delayer u;
     min_frequency := min_frequency u;
     max_frequency := max_frequency u;
     io_dir := io_dir u;
     io_val := io_val u;
     trigger_io_level := trigger_io_level u;
     trigger_io_enable := trigger_io_enable u;
     stop_io_level := stop_io_level u;
     stop_io_enable := stop_io_enable u;
     pos_io_level := pos_io_level u;
     pos_io_enable := pos_io_enable u;
     home_io_level := home_io_level u;
     home_io_enable := home_io_enable u;
     running := running u;
     delayed_execution := delayed_execution u;
     ready := ready u;
     full_current := full_current u;
     auto_resolution := auto_resolution u;
     resolution := resolution u;
     velocity := velocity u;
     baud_rate := v;
     cmd_position := cmd_position u;
     standby := standby u;
     last_movement := last_movement u |}.
Definition set_cmd_position (v : option Z) (u : usd) : usd :=
  {| usd_index := usd_index u;
     reference_position := reference_position u;
     current_position := current_position u;
     position_queue := position_queue u;
     delay_multiplier := delay_multiplier u;
     standby_delay_multiplier := standby_delay_multiplier u;
     standby_mode := standby_mode u;
     current_percentage := current_percentage u;
     version := version u;
     driver_type := driver_type u;
     slope_delayer := slope_delayer u;
     min_frequency := min_frequency u;
     max_frequency := max_frequency u;
     io_dir := io_dir u;
     io_val := io_val u;
     trigger_io_level := trigger_io_level u;
     trigger_io_enable := trigger_io_enable u;
     stop_io_level := stop_io_level u;
     stop_io_enable := stop_io_enable u;
     pos_io_level := pos_io_level u;
     pos_io_enable := pos_io_enable u;
     home_io_level := home_io_level u;
     home_io_enable := home_io_enable u;
     running := running u;
     delayed_execution := delayed_execution u;
     ready := ready u;
     full_current := full_current u;
     auto_resolution := auto_resolution u;
     resolution := resolution u;
     velocity := velocity u;
     baud_rate := baud_rate u;
     cmd_position := v;
     standby := standby u;
     last_movement := last_movement u |}.
Definition set_standby (v : bool) (u : usd) : usd :=
  {| usd_index := usd_index u;
     reference_position := reference_position u;
     current_position := current_position u;
     position_queue := position_queue u;
     delay_multiplier := delay_multiplier u;
     standby_delay_multiplier := standby_delay_multiplier u;
     standby_mode := standby_mode u;
     current_percentage := current_percentage u;
     version := version u;
     driver_type := driver_type u;
     slope_delayer := slope_delayer u;
     min_frequency := min_frequency u;
     max_frequency := max_frequency u;
     io_dir := io_dir u;
     io_val := io_val u;
     trigger_io_level := trigger_io_level u;
     trigger_io_enable := trigger_io_enable u;
     stop_io_level := stop_io_level u;
     stop_io_enable := stop_io_enable u;
     pos_io_level := pos_io_level u;
     pos_io_enable := pos_io_enable u;
     home_io_level := home_io_level u;
     home_io_enable := home_io_enable u;
     running := running u;
     delayed_execution := delayed_execution u;
     ready := ready u;
     full_current := full_current u;
     auto_resolution := auto_resolution u;
     resolution := resolution u;
     velocity := velocity u;
     baud_rate := baud_rate u;
     cmd_position := cmd_position u;
     standby := v;
     last_movement := last_movement u |}.
Definition set_last_movement (v : option Z) (u : usd) : usd :=
  {| usd_index := usd_index u;
     reference_position := reference_position u;
     current_position := current_position u;
     position_queue := position_queue u;
     delay_multiplier := delay_multiplier u;
     standby_delay_multiplier := standby_delay_multiplier u;
     standby_mode := standby_mode u;
     current_percentage := current_percentage u;
     version := version u;
     driver_type := driver_type u;
     slope_delayer := slope_delayer u;
     min_frequency := min_frequency u;
     max_frequency := max_frequency u;
     io_dir := io_dir u;
     io_val := io_val u;
     trigger_io_level := trigger_io_level u;
     trigger_io_enable := trigger_io_enable u;
     stop_io_level := stop_io_level u;
     stop_io_enable := stop_io_enable u;
     pos_io_level := pos_io_level u;
     pos_io_enable := pos_io_enable u;
     home_io_level := home_io_level u;
     home_io_enable := home_io_enable u;
     running := running u;
     delayed_execution := delayed_execution u;
     ready := ready u;
     full_current := full_current u;
     auto_resolution := auto_resolution u;
     resolution := resolution u;
     velocity := velocity u;
     baud_rate := baud_rate u;
     cmd_position := cmd_position u;
     standby := standby u;
     last_movement := v |}.

Definition usd_eqb (a b : usd) : bool :=
  Z.eqb (usd_index a) (usd_index b)
  && Z.eqb (reference_position a) (reference_position b)
  && Z.eqb (current_position a) (current_position b)
  && list_eqb qitem_eqb (position_queue a) (position_queue b)
  && Z.eqb (delay_multiplier a) (delay_multiplier b)
  && Z.eqb (standby_delay_multiplier a) (standby_delay_multiplier b)
  && Z.eqb (standby_mode a) (standby_mode b)
  && Z.eqb (current_percentage a) (current_percentage b)
  && zlist_eqb (version a) (version b)
  && Z.eqb (driver_type a) (driver_type b)
  && Z.eqb (slope_delayer a) (slope_delayer b)
  && Z.eqb (min_frequency a) (min_frequency b)
  && Z.eqb (max_frequency a) (max_frequency b)
  && tri_eqb (io_dir a) (io_dir b)
  && tri_eqb (io_val a) (io_val b)
  && tri_eqb (trigger_io_level a) (trigger_io_level b)
  && tri_eqb (trigger_io_enable a) (trigger_io_enable b)
  && tri_eqb (stop_io_level a) (stop_io_level b)
  && tri_eqb (stop_io_enable a) (stop_io_enable b)
  && tri_eqb (pos_io_level a) (pos_io_level b)
  && tri_eqb (pos_io_enable a) (pos_io_enable b)
  && tri_eqb (home_io_level a) (home_io_level b)
  && tri_eqb (home_io_enable a) (home_io_enable b)
  && Bool.eqb (running a) (running b)
  && Bool.eqb (delayed_execution a) (delayed_execution b)
  && Bool.eqb (ready a) (ready b)
  && Bool.eqb (full_current a) (full_current b)
  && Bool.eqb (auto_resolution a) (auto_resolution b)
  && Z.eqb (resolution a) (resolution b)
  && option_eqb Z.eqb (velocity a) (velocity b)
  && Z.eqb (baud_rate a) (baud_rate b)
  && option_eqb Z.eqb (cmd_position a) (cmd_position b)
  && Bool.eqb (standby a) (standby b)
  && option_eqb Z.eqb (last_movement a) (last_movement b).

(* ------------------------------------------------------------------ *)
(* __init__ / _set_default *)
Definition usd_default (idx : Z) (lm : option Z) : usd :=
  {| usd_index := idx; reference_position := 0; current_position := 0; position_queue := [];
     delay_multiplier := 5; standby_delay_multiplier := 0; standby_mode := 0;
     current_percentage := 4; version := [1; 3]; driver_type := 32; slope_delayer := 1;
     min_frequency := 20; max_frequency := 10000;
     io_dir := (0, 1, 0); io_val := (0, 0, 0);
     trigger_io_level := (0, 0, 0); trigger_io_enable := (0, 0, 0);
     stop_io_level := (0, 0, 0); stop_io_enable := (0, 0, 0);
     pos_io_level := (0, 0, 0); pos_io_enable := (0, 0, 0);
     home_io_level := (0, 0, 0); home_io_enable := (0, 0, 0);
     running := false; delayed_execution := false; ready := false; full_current := true;
     auto_resolution := false; resolution := 2; velocity := Some 0; baud_rate := 9600;
     cmd_position := None; standby := false; last_movement := lm |}.

(* USD(usd_index): _set_default() then last_movement = None *)
Definition usd_init (idx : Z) : usd := usd_default idx None.

(* soft_reset: _set_default() keeps usd_index and last_movement (they are set in __init__ only);
   the 100 ms sleep is not modelled *)
Definition soft_reset (u : usd) : usd := usd_default (usd_index u) (last_movement u).

(* "if self.velocity:" *)
Definition truthy (v : option Z) : bool :=
  match v with Some x => negb (x =? 0) | None => false end.

(* result of a method that may block for ever in Queue.get() *)
Inductive mres := MOk (u : usd) | MBlock | MRaise.

(* soft_trigger *)
Definition soft_trigger (u : usd) : mres :=
  if ready u then
    match position_queue u with
    | [] => MBlock                                    (* Queue.get() on an empty queue *)
    | (next_position, absolute) :: rest =>
        let u1 := set_position_queue rest u in
        let u2 := if negb (truthy (velocity u1)) then
                    if absolute then set_cmd_position (Some next_position) u1
                    else set_cmd_position (Some (current_position u1 + next_position)) u1
                  else u1 in
        MOk (match rest with [] => set_ready false u2 | _ => u2 end)
    end
  else MOk u.

Definition soft_stop (u : usd) : usd := set_cmd_position None (set_velocity_attr None u).

(* get_status: the three bytes par0, par1, par2; None = UnboundLocalError (resolution not in the
   table) *)
Definition res_key (r : Z) : option Z :=
  find (fun k => 2 ^ k =? r) [0; 1; 2; 3; 4; 5; 6; 7].
Definition zbit (z : Z) : option bool :=       (* str(z) used as a binary digit *)
  if z =? 0 then Some false else if z =? 1 then Some true else None.
Definition get_status (u : usd) : option (list Z) :=
  let '(d0, d1, d2) := io_dir u in
  let '(v0, v1, v2) := io_val u in
  match zbit d2, zbit d1, zbit d0, zbit v2, zbit v1, zbit v0, res_key (resolution u) with
  | Some bd2, Some bd1, Some bd0, Some bv2, Some bv1, Some bv0, Some res =>
      let par1 := [false; bd2; bd1; bd0; false; bv2; bv1; bv0] in
      let par2 := [running u; delayed_execution u; ready u; full_current u; auto_resolution u]
                  ++ zfill 3 (bin res) in
      Some [0; int2 par1; int2 par2]
  | _, _, _, _, _, _, _ => None
  end.

Definition set_min_frequency (f : Z) (u : usd) : usd * bool :=
  if (f <? 20) || (10000 <? f) then (u, false)
  else if max_frequency u <? f then (u, false)
  else (set_min_frequency_attr f u, true).

Definition set_max_frequency (f : Z) (u : usd) : usd * bool :=
  if (f <? 20) || (10000 <? f) then (u, false)
  else if f <? min_frequency u then (u, false)
  else (set_max_frequency_attr f u, true).

(* binary_string = bin(param)[2:].zfill(8);  binary_string[i] -> IndexError as None *)
Definition bstr (p : Z) : list bool := zfill 8 (bin p).
Definition digit (s : list bool) (i : nat) : option Z := option_map b2z (nth_error s i).

(* the pattern shared by set_delayed_execution / set_stop_io / set_positioning_io / set_home_io:
   enable[k] = int(s[7-k]); level[k] = int(s[4-k]) if enable[k] == 1 else 0 *)
Definition level_enable (s : list bool) : option (tri * tri) :=
  match digit s 7, digit s 4, digit s 6, digit s 3, digit s 5, digit s 2 with
  | Some e0, Some l0, Some e1, Some l1, Some e2, Some l2 =>
      Some ((if e0 =? 1 then l0 else 0, if e1 =? 1 then l1 else 0, if e2 =? 1 then l2 else 0),
            (e0, e1, e2))
  | _, _, _, _, _, _ => None
  end.

Definition set_io_pins (p : Z) (u : usd) : option usd :=
  let s := bstr p in
  match digit s 3, digit s 7, digit s 2, digit s 6, digit s 1, digit s 5 with
  | Some d0, Some v0, Some d1, Some v1, Some d2, Some v2 =>
      Some (set_io_val (if d0 =? 1 then v0 else 0, if d1 =? 1 then v1 else 0,
                        if d2 =? 1 then v2 else 0)
             (set_io_dir (d0, d1, d2) u))
  | _, _, _, _, _, _ => None
  end.

(* set_resolution(resolution): None (automatic) or a key of the table *)
Definition set_resolution (r : option Z) (u : usd) : option usd :=
  match r with
  | None => option_map (fun d => set_resolution_attr d (set_auto_resolution true u))
                       (resolutions_get 0)
  | Some k => option_map (fun d => set_resolution_attr d (set_auto_resolution false u))
                         (resolutions_get k)       (* .get(k) = None is never stored here *)
  end.

Definition set_current_reduction (mode mult : Z) (u : usd) : option usd :=
  option_map (fun m => set_standby_delay_multiplier mult (set_standby_mode m u))
             (standby_modes_get mode).

(* set_delayed_execution (fixes 07 and 31): delayed = (s[0] == '1'); trigger lines; queue
   emptied and ready cleared *)
Definition set_delayed_execution (p : Z) (u : usd) : option usd :=
  let s := bstr p in
  match nth_error s 0, level_enable s with
  | Some b0, Some (lv, en) =>
      Some (set_ready false (set_position_queue []
             (set_trigger_io_level lv (set_trigger_io_enable en (set_delayed_execution_attr b0 u)))))
  | _, _ => None
  end.

Definition set_stop_io (p : Z) (u : usd) : option usd :=
  option_map (fun le => set_stop_io_level (fst le) (set_stop_io_enable (snd le) u))
             (level_enable (bstr p)).
Definition set_positioning_io (p : Z) (u : usd) : option usd :=
  option_map (fun le => set_pos_io_level (fst le) (set_pos_io_enable (snd le) u))
             (level_enable (bstr p)).
Definition set_home_io (p : Z) (u : usd) : option usd :=
  option_map (fun le => set_home_io_level (fst le) (set_home_io_enable (snd le) u))
             (level_enable (bstr p)).

(* set_working_mode(params): baud_rates.get(int(bin(params[0])...[7])) *)
Definition set_working_mode (p0 : Z) (u : usd) : option usd :=
  match digit (bstr p0) 7 with
  | Some k => option_map (fun b => set_baud_rate b u) (baud_rates_get k)
  | None => None
  end.

Definition set_absolute_position (position : Z) (u : usd) : usd * bool :=
  let cmd := reference_position u + position in
  if delayed_execution u then
    (set_ready true (set_position_queue (position_queue u ++ [(cmd, true)]) u), true)
  else if running u then (u, false)
  else (set_cmd_position (Some cmd) u, true).

(* fix 32: the relative offset itself is queued; soft_trigger adds the position of that moment *)
Definition set_relative_position (position : Z) (u : usd) : usd * bool :=
  let cmd := current_position u + position in
  if delayed_execution u then
    (set_ready true (set_position_queue (position_queue u ++ [(position, false)]) u), true)
  else if running u then (u, false)
  else (set_cmd_position (Some cmd) u, true).

Definition rotate (sgn : Z) (u : usd) : usd * bool :=
  if running u then (u, false)
  else (set_cmd_position (Some (sgn * out_of_scale_position)) u, true).

Definition set_velocity (v : Z) (u : usd) : usd * bool :=
  if negb (auto_resolution u) && ((Z.abs v <? 10) && negb (v =? 0)) then (u, false)
  else (set_velocity_attr (if v =? 0 then None else Some v) (set_cmd_position None u), true).

(* ------------------------------------------------------------------ *)
(* calc_position.  [d] is int(round(steps_per_second * elapsed)) >= 0, [now] the clock
   (time.time(), > 0) in units of 1/1024 s. *)
Definition clamp (p : Z) : Z := Z.min (Z.max p min_position) max_position.

(* elapsed >= standby_delay_multiplier * 0.004096  with elapsed = e/1024 s:
   e/1024 >= m*4096/10^6  <->  e*15625 >= m*65536 *)
Definition standby_due (e mult : Z) : bool := mult * 65536 <=? e * 15625.

Definition standby_part (now : Z) (u : usd) : usd :=
  if negb (running u) && negb (standby u) then
    match last_movement u with
    | Some lm =>
        if negb (lm =? 0) &&               (* "if self.last_movement:" (0.0 is falsy) *)
           standby_due (now - lm) (standby_delay_multiplier u) then
          set_standby true (set_last_movement None
            (set_full_current (negb (0 <? standby_mode u))
              (set_current_percentage (4 - standby_mode u) u)))
        else u
    | None => u
    end
  else u.

Definition moving_part (now : Z) (u : usd) : usd :=
  set_last_movement (Some now) (set_standby false (set_full_current true
    (set_current_percentage 4 (set_running true u)))).

Definition calc_position (d now : Z) (u : usd) : usd :=
  let u1 :=
    if truthy (velocity u) then
      match velocity u with
      | Some v =>
          let um := moving_part now u in
          set_current_position (clamp (current_position u + sign v * d)) um
      | None => u   (* not reachable: truthy *)
      end
    else
      match cmd_position u with
      | Some cmd =>
          let um := moving_part now u in
          let sign0 := sign (cmd - current_position u) in
          let new_position := clamp (current_position u + sign0 * d) in
          let sign1 := sign (cmd - new_position) in
          if (sign0 =? 0) || negb (sign1 =? sign0) then       (* fix 06 *)
            set_running false (set_cmd_position None (set_current_position cmd um))
          else set_current_position new_position um
      | None => set_running false u
      end in
  standby_part now u1.

(* int(round(n / m)) for n >= 0, m > 0: Python 3 round-half-even *)
Definition round_half_even (n m : Z) : Z :=
  let q := n / m in let r := n mod m in
  if 2 * r <? m then q else if m <? 2 * r then q + 1 else if Z.even q then q else q + 1.

(* steps_per_second = frequency * (128 / resolution); elapsed = k/1024 s.  The float product is
   exact on this grid, so int(round(.)) is round_half_even (sps * k) 1024. *)
Definition frequency_of (u : usd) : Z :=
  if truthy (velocity u) then match velocity u with Some v => Z.abs v | None => 0 end
  else max_frequency u.
Definition displacement (u : usd) (k : Z) : Z :=
  round_half_even (frequency_of u * (128 / resolution u) * k) 1024.

(* one iteration of the positioning thread for this unit: the clock has advanced by k/1024 s *)
Definition tick (k now : Z) (u : usd) : usd := calc_position (displacement u k) now u.

(* ------------------------------------------------------------------ *)
(* Unicast handlers of System (params = [driver, byte_start, [bytes]]), return value only. *)
Inductive outcome :=
| OReply (s : list Z)       (* the handler's return value: ACK, NAK or a data frame *)
| OValueError               (* _parse: unknown command code *)
| OException                (* any other exception (IndexError, OverflowError, ...) *)
| OBlock                    (* the call never returns (Queue.get on an empty queue) *)
| OSilent.                  (* _parse returns True: nothing is sent back *)

Definition ack : list Z := [6].
Definition nak : list Z := [21].

(* bin(n)[2:].zfill(3) + bin(usd_index)[2:].zfill(5) -> binary_to_string(.., little_endian=False) *)
Definition address_field (nbytes idx : Z) : list Z :=
  binary_to_bytes (zfill 3 (bin nbytes) ++ zfill 5 (bin idx)) false.

Definition data_frame (byte_start nbytes idx : Z) (payload : list Z) : list Z :=
  let r := [6; byte_start] ++ (if byte_start =? 252 then address_field nbytes idx else [])
           ++ payload in
  r ++ [checksum r].

Definition of_bool (ub : usd * bool) : usd * outcome :=
  (fst ub, OReply (if snd ub then ack else nak)).
Definition of_opt (u : usd) (o : option usd) : usd * outcome :=
  match o with Some u' => (u', OReply ack) | None => (u, OException) end.

Definition handle (code byte_start : Z) (params : list Z) (u : usd) : usd * outcome :=
  let nparams := length params in
  let none := match params with [] => true | _ => false end in
  if code =? 1 then                                   (* _soft_reset *)
    if none then (soft_reset u, OReply ack) else (u, OReply nak)
  else if code =? 2 then                              (* _soft_trigger *)
    if none then match soft_trigger u with
                 | MOk u' => (u', OReply ack) | MBlock => (u, OBlock) | MRaise => (u, OException)
                 end
    else (u, OReply nak)
  else if code =? 16 then                             (* _get_version *)
    if none then (u, OReply (data_frame byte_start 1 (usd_index u) [zsum (version u) + 15]))
    else (u, OReply nak)
  else if code =? 17 then                             (* _soft_stop *)
    if none then (soft_stop u, OReply ack) else (u, OReply nak)
  else if code =? 18 then                             (* _get_position *)
    if none then
      match int_to_bytes (current_position u) 4 false with
      | Some b => (u, OReply (data_frame byte_start 4 (usd_index u) b))
      | None => (u, OException)
      end
    else (u, OReply nak)
  else if code =? 19 then                             (* _get_status *)
    if none then
      match get_status u with
      | Some b => (u, OReply (data_frame byte_start 3 (usd_index u) b))
      | None => (u, OException)
      end
    else (u, OReply nak)
  else if code =? 20 then                             (* _get_driver_type *)
    if none then
      match int_to_bytes (driver_type u) 1 false with
      | Some b => (u, OReply (data_frame byte_start 1 (usd_index u) b))
      | None => (u, OException)
      end
    else (u, OReply nak)
  else if code =? 32 then                             (* _set_min_frequency *)
    if (nparams =? 2)%nat then of_bool (set_min_frequency (bytes_to_int params false) u)
    else (u, OReply nak)
  else if code =? 33 then                             (* _set_max_frequency *)
    if (nparams =? 2)%nat then of_bool (set_max_frequency (bytes_to_int params false) u)
    else (u, OReply nak)
  else if code =? 34 then                             (* _set_slope_delayer *)
    match params with
    | [p] => (set_slope_delayer (p + 1) u, OReply ack)
    | _ => (u, OReply nak)
    end
  else if code =? 35 then                             (* _set_reference_position *)
    if (nparams =? 4)%nat then
      (set_reference_position (bytes_to_int params false) u, OReply ack)
    else (u, OReply nak)
  else if code =? 37 then                             (* _set_io_pins *)
    match params with [p] => of_opt u (set_io_pins p u) | _ => (u, OReply nak) end
  else if code =? 38 then                             (* _set_resolution *)
    match params with
    | [p] =>
        (* resolution = bin(p)[2:].zfill(4); auto if int(resolution[0], 2) == 1 else
           int(resolution[-3:], 2) *)
        let s := zfill 4 (bin p) in
        match nth_error s 0 with
        | Some b0 => of_opt u (set_resolution (if b0 then None else Some (int2 (lastn 3 s))) u)
        | None => (u, OException)
        end
    | _ => (u, OReply nak)
    end
  else if code =? 39 then                             (* _set_current_reduction *)
    match params with
    | [p] => let s := bstr p in
             of_opt u (set_current_reduction (int2 (firstn 2 s)) (int2 (skipn 2 s)) u)
    | _ => (u, OReply nak)
    end
  else if code =? 40 then                             (* _set_response_delay *)
    match params with
    | [p] => (set_delay_multiplier p u, OReply ack)
    | _ => (u, OReply nak)
    end
  else if code =? 41 then                             (* _set_delayed_execution *)
    match params with [p] => of_opt u (set_delayed_execution p u) | _ => (u, OReply nak) end
  else if code =? 48 then                             (* _set_absolute_position *)
    if (nparams =? 4)%nat then of_bool (set_absolute_position (bytes_to_int params false) u)
    else (u, OReply nak)
  else if code =? 49 then                             (* _set_relative_position *)
    if (nparams =? 4)%nat then of_bool (set_relative_position (bytes_to_int params false) u)
    else (u, OReply nak)
  else if code =? 50 then                             (* _rotate *)
    match params with
    | [p] => match twos_to_int (bstr p) with
             | Some t => of_bool (rotate (sign t) u)
             | None => (u, OException)
             end
    | _ => (u, OReply nak)
    end
  else if code =? 53 then                             (* _set_velocity *)
    if (nparams =? 3)%nat then
      let v := bytes_to_int params false in
      if (100000 <? v) || (v <? -100000) then (u, OReply nak)
      else of_bool (set_velocity v u)
    else (u, OReply nak)
  else if code =? 42 then                             (* _set_stop_io *)
    match params with [p] => of_opt u (set_stop_io p u) | _ => (u, OReply nak) end
  else if code =? 43 then                             (* _set_positioning_io *)
    match params with [p] => of_opt u (set_positioning_io p u) | _ => (u, OReply nak) end
  else if code =? 44 then                             (* _set_home_io *)
    match params with [p] => of_opt u (set_home_io p u) | _ => (u, OReply nak) end
  else if code =? 45 then                             (* _set_working_mode *)
    match params with
    | [p0; _] => of_opt u (set_working_mode p0 u)
    | _ => (u, OReply nak)
    end
  else (u, OValueError).                              (* functions.get(command) is None *)

(* System._parse, tail of the unicast path: after the handler returned, a unit whose
   delay_multiplier is 255 (read AFTER the command ran) does not answer (_parse returns True) *)
Definition parse1 (code byte_start : Z) (params : list Z) (u : usd) : usd * outcome :=
  let '(u', o) := handle code byte_start params u in
  (u', match o with
       | OReply r => if delay_multiplier u' =? 255 then OSilent else OReply r
       | _ => o
       end).

(* System.functions *)
Definition known_code (code : Z) : bool :=
  existsb (Z.eqb code)
    [1; 2; 16; 17; 18; 19; 20; 32; 33; 34; 35; 37; 38; 39; 40; 41; 42; 43; 44; 45; 48; 49; 50; 53].

(* broadcast path of the handlers (params[0] is None): the method is called on every unit of the
   line with the same decoded arguments and its result is ignored; getters and refused parameters
   do nothing; nothing is answered.  The effect on each unit is that of the unicast command. *)
Definition bcast (code byte_start : Z) (params : list Z) (us : list usd) : list usd :=
  map (fun u => fst (handle code byte_start params u)) us.

(* ------------------------------------------------------------------ *)
(* histories: commands interleaved with iterations of the positioning thread *)
Inductive event :=
| ECmd (code byte_start : Z) (params : list Z)
| ETick (k : Z).                       (* k/1024 s elapse, then calc_position(k/1024) *)

(* simulation state: the unit and the virtual clock (1/1024 s) *)
Definition sim := (usd * Z)%type.

Definition step (s : sim) (e : event) : sim * option outcome :=
  let '(u, now) := s in
  match e with
  | ECmd c b p => let '(u', o) := parse1 c b p u in ((u', now), Some o)
  | ETick k => ((tick k (now + k) u, now + k), None)
  end.

Fixpoint run (s : sim) (h : list event) : sim * list (option outcome) :=
  match h with
  | [] => (s, [])
  | e :: h' => let '(s1, o) := step s e in
               let '(s2, os) := run s1 h' in (s2, o :: os)
  end.

(* ------------------------------------------------------------------ *)
(* a line of several units: unicast to unit j, broadcast, one iteration of the positioning thread
   (calc_position for every unit with the same elapsed time) *)
Inductive levent :=
| LUni (j : nat) (code byte_start : Z) (params : list Z)
| LBcast (code byte_start : Z) (params : list Z)
| LTick (k : Z).

Definition lstate := (list usd * Z)%type.

Fixpoint upd_nth (us : list usd) (j : nat) (x : usd) : list usd :=
  match us, j with
  | [], _ => []
  | _ :: t, O => x :: t
  | h :: t, S j' => h :: upd_nth t j' x
  end.

Definition lstep (s : lstate) (e : levent) : lstate * option outcome :=
  let '(us, now) := s in
  match e with
  | LUni j c b p =>
      match nth_error us j with
      | Some u => let '(u', o) := parse1 c b p u in ((upd_nth us j u', now), Some o)
      | None => ((us, now), Some OException)
      end
  | LBcast c b p =>
      if known_code c then ((bcast c b p us, now), Some OSilent) else ((us, now), Some OValueError)
  | LTick k => ((map (tick k (now + k)) us, now + k), None)
  end.

Fixpoint lrun (s : lstate) (h : list levent) : lstate * list (option outcome) :=
  match h with
  | [] => (s, [])
  | e :: h' => let '(s1, o) := lstep s e in
               let '(s2, os) := lrun s1 h' in (s2, o :: os)
  end.
