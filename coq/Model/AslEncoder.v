(* Executable model of simulators/active_surface/command_library.py: _compose and the 24
   encoder functions with their argument checks (part c10_as).  No proofs here.
   A raised exception (TypeError / ValueError / OverflowError / IndexError) is None.
   Arguments are ints (Z); the encoders that also accept a one-character str take a [bytearg]. *)
From DS Require Import Base.Prelude Base.Bits Model.Utils Model.AslLine.

(* byte_value: an int, or a str of length 1 given by its code point *)
Inductive bytearg := BInt (z : Z) | BChr (c : Z).
Definition bval (b : bytearg) : Z := match b with BInt z => z | BChr c => c end.

Definition start_of (aor : bool) : Z := if aor then 252 else 250.   (* byte_start_fc / _fa *)

(* _compose(address_on_response, usd_index, byte_command, params); params as code points *)
Definition compose (aor : bool) (idx : option Z) (code : Z) (params : list Z)
  : option (list Z) :=
  let cmd := code :: params in
  match idx with
  | None =>
      (* command += '\x00'; command += utils.int_to_string(val=len(cmd), n_bytes=1) *)
      match int_to_bytes (Z.of_nat (length cmd)) 1 true with
      | Some lb => Some (close ([start_of aor; 0] ++ lb ++ cmd))
      | None => None
      end
  | Some i =>
      if (0 <=? i) && (i <? 32) then                 (* usd_index in range(32) else IndexError *)
        let len := zfill 3 (bin (Z.of_nat (length cmd))) in
        let address := zfill 5 (bin i) in
        match twos_to_int (len ++ address) with
        | Some v => match int_to_bytes v 1 true with
                    | Some hb => Some (close ([start_of aor] ++ hb ++ cmd))
                    | None => None
                    end
        | None => None
        end
      else None
  end.

Inductive ecmd :=
| ESoftReset | ESoftTrigger | EGetVersion | ESoftStop | EGetPosition | EGetStatus
| EGetDriverType
| ESetMinFrequency (f : Z) | ESetMaxFrequency (f : Z) | ESetSlopeMultiplier (m : Z)
| ESetReferencePosition (p : Z) | ESetIoPins (b : bytearg) | ESetResolution (b : bytearg)
| EReduceCurrent (b : bytearg) | ESetResponseDelay (d : Z)
| EToggleDelayedExecution (b : bytearg)
| ESetAbsolutePosition (p : Z) | ESetRelativePosition (p : Z) | ERotate (d : Z)
| ESetVelocity (v : Z)
| ESetStopIo (b : bytearg) | ESetPositioningIo (b : bytearg) | ESetHomeIo (b : bytearg)
| ESetWorkingMode (b : bytearg).

Definition code_of (e : ecmd) : Z :=
  match e with
  | ESoftReset => 1 | ESoftTrigger => 2 | EGetVersion => 16 | ESoftStop => 17
  | EGetPosition => 18 | EGetStatus => 19 | EGetDriverType => 20
  | ESetMinFrequency _ => 32 | ESetMaxFrequency _ => 33 | ESetSlopeMultiplier _ => 34
  | ESetReferencePosition _ => 35 | ESetIoPins _ => 37 | ESetResolution _ => 38
  | EReduceCurrent _ => 39 | ESetResponseDelay _ => 40 | EToggleDelayedExecution _ => 41
  | ESetAbsolutePosition _ => 48 | ESetRelativePosition _ => 49 | ERotate _ => 50
  | ESetVelocity _ => 53
  | ESetStopIo _ => 42 | ESetPositioningIo _ => 43 | ESetHomeIo _ => 44
  | ESetWorkingMode _ => 45
  end.

(* isinstance(byte_value, int): utils.uint_to_string(val, n_bytes=1); a 1-char str passes *)
Definition byte_param (b : bytearg) : option (list Z) :=
  match b with
  | BInt z => uint_to_bytes z 1 true
  | BChr c => Some [c]
  end.

(* position encoders: explicit range check, then int_to_string(val, 4, little_endian=False) *)
Definition pos_param (p : Z) : option (list Z) :=
  if (p <? -2147483648) || (2147483647 <? p) then None else int_to_bytes p 4 false.

(* the parameter characters each encoder passes to _compose *)
Definition params_of (e : ecmd) : option (list Z) :=
  match e with
  | ESoftReset | ESoftTrigger | EGetVersion | ESoftStop | EGetPosition | EGetStatus
  | EGetDriverType => Some []
  | ESetMinFrequency f | ESetMaxFrequency f => int_to_bytes f 2 false
  | ESetSlopeMultiplier m => int_to_bytes m 1 true
  | ESetReferencePosition p | ESetAbsolutePosition p | ESetRelativePosition p => pos_param p
  | ESetIoPins b | ESetResolution b | EReduceCurrent b | EToggleDelayedExecution b
  | ESetStopIo b | ESetPositioningIo b | ESetHomeIo b => byte_param b
  | ESetResponseDelay d => uint_to_bytes d 1 true
  | ERotate d => int_to_bytes d 1 true
  | ESetVelocity v => int_to_bytes v 3 false
  | ESetWorkingMode b =>                     (* params = [byte_value, '\x00'] *)
      match byte_param b with Some l => Some (l ++ [0]) | None => None end
  end.

(* encoder(args..., usd_index=idx, address_on_response=aor) *)
Definition enc (e : ecmd) (idx : option Z) (aor : bool) : option (list Z) :=
  match params_of e with
  | Some ps => compose aor idx (code_of e) ps
  | None => None
  end.

(* the request a message stands for *)
Definition target_req (aor : bool) (idx : option Z) (code : Z) (ps : list Z) : request :=
  match idx with
  | None => QBcast (start_of aor) code ps
  | Some i => QUni (start_of aor) i code ps
  end.

(* What the command means to the unit, in terms of the encoder ARGUMENTS (the protocol's
   reading of the parameter bytes, written from the docstrings/bit tables with arithmetic):
   the USD method call the simulator must make, or its refusal. *)
Definition expected (e : ecmd) : dres :=
  match e with
  | ESoftReset => DCall (mkcall 1 []) KAck
  | ESoftTrigger => DCall (mkcall 2 []) KAck
  | EGetVersion => DCall (mkcall 16 []) KVersion
  | ESoftStop => DCall (mkcall 17 []) KAck
  | EGetPosition => DCall (mkcall 18 []) KPosition
  | EGetStatus => DCall (mkcall 19 []) KStatus
  | EGetDriverType => DCall (mkcall 20 []) KType
  | ESetMinFrequency f => DCall (mkcall 32 [AInt f]) KBool
  | ESetMaxFrequency f => DCall (mkcall 33 [AInt f]) KBool
  | ESetSlopeMultiplier m => DCall (mkcall 34 [AInt (m mod 256 + 1)]) KAck   (* m + 1, 0 <= m *)
  | ESetReferencePosition p => DCall (mkcall 35 [AInt p]) KAck
  | ESetIoPins b => DCall (mkcall 37 [AInt (bval b)]) KAck
  | ESetResolution b =>          (* bit 3: automatic resolution; bits 0-2: resolution index *)
      DCall (mkcall 38 [if bval b <? 8 then AInt (bval b) else ANone]) KAck
  | EReduceCurrent b =>          (* bits 6-7: standby mode; bits 0-5: delay multiplier *)
      DCall (mkcall 39 [AInt (bval b / 64); AInt (bval b mod 64)]) KAck
  | ESetResponseDelay d => DCall (mkcall 40 [AInt d]) KAck
  | EToggleDelayedExecution b => DCall (mkcall 41 [AInt (bval b)]) KAck
  | ESetAbsolutePosition p => DCall (mkcall 48 [AInt p]) KBool
  | ESetRelativePosition p => DCall (mkcall 49 [AInt p]) KBool
  | ERotate d => DCall (mkcall 50 [AInt (sign d)]) KBool
  | ESetVelocity v =>
      if (100000 <? v) || (v <? -100000) then DNak else DCall (mkcall 53 [AInt v]) KBool
  | ESetStopIo b => DCall (mkcall 42 [AInt (bval b)]) KAck
  | ESetPositioningIo b => DCall (mkcall 43 [AInt (bval b)]) KAck
  | ESetHomeIo b => DCall (mkcall 44 [AInt (bval b)]) KAck
  | ESetWorkingMode b => DCall (mkcall 45 [AList [bval b; 0]]) KAck
  end.
