(* Python float arithmetic on binary64 values given by their bit patterns (every NaN is the one
   canonical quiet NaN 0x7FF8000000000000: Python renders all of them as 'nan').  Flocq 4
   BinarySingleNaN, round to nearest even.  No proofs here. *)
From DS Require Import Base.Prelude.
From Flocq Require Import IEEE754.BinarySingleNaN IEEE754.Bits IEEE754.Binary.

Definition Hprec : FLX.Prec_gt_0 53 := eq_refl.
Definition Hmax : Prec_lt_emax 53 1024 := eq_refl.
Definition F64 := BinarySingleNaN.binary_float 53 1024.

Definition nan_bits : Z := 9221120237041090560.      (* 0x7FF8000000000000 *)
Definition inf_bits : Z := 9218868437227405312.      (* 0x7FF0000000000000 *)
Definition sign_bit : Z := 9223372036854775808.      (* 2^63 *)

Definition of_bits (b : Z) : F64 := B2BSN 53 1024 (b64_of_bits b).

Definition to_bits (x : F64) : Z :=
  match x with
  | BinarySingleNaN.B754_zero s => if s then sign_bit else 0
  | BinarySingleNaN.B754_infinity s => (if s then sign_bit else 0) + inf_bits
  | BinarySingleNaN.B754_nan => nan_bits
  | BinarySingleNaN.B754_finite s m e _ =>
      let mz := Zpos m in
      if 2 ^ 52 <=? mz then join_bits 52 11 s (mz - 2 ^ 52) (e + 1075) else join_bits 52 11 s mz 0
  end.

(* float(int): OverflowError (None) when the correctly rounded value is not finite *)
Definition of_int (z : Z) : option F64 :=
  match BinarySingleNaN.binary_normalize 53 1024 Hprec Hmax mode_NE z 0 false with
  | BinarySingleNaN.B754_infinity _ => None
  | x => Some x
  end.

Definition fadd (x y : F64) : F64 := @BinarySingleNaN.Bplus 53 1024 Hprec Hmax mode_NE x y.
Definition fsub (x y : F64) : F64 := @BinarySingleNaN.Bminus 53 1024 Hprec Hmax mode_NE x y.
Definition fmul (x y : F64) : F64 := @BinarySingleNaN.Bmult 53 1024 Hprec Hmax mode_NE x y.
Definition fdiv (x y : F64) : F64 := @BinarySingleNaN.Bdiv 53 1024 Hprec Hmax mode_NE x y.
