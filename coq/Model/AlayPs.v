(* C16 (tag Alay) — PointingStatus.update_status (simulators/acu/pointing_status.py), the part that
   decides which fields of the pointing block are written with what.  No proofs here.

   Inputs (everything the method reads outside the pointing block): the ACU clock value
   curr_time = utcnow + time_source_offset + time_offset as its calendar fields and utils.mjd
   (a binary64 bit pattern); p_Ist / p_Offset of the azimuth and elevation status objects; whether
   curr_time < start_time + actPtTimeOffset; bisect_left(relative_times, elapsed) and
   len(relative_times).  The tracking state machine that produces those (and the spline
   evaluation, whose results go to the axis blocks only) is C17's Model/AtrkModel.v; here only
   the writes to the pointing block are modelled:

     year .. second, actTime            <- clock
     posEncAz, pointOffsetAz, posEncEl, pointOffsetEl  <- axes
     if ptState = 2 and not before start: ptState <- 3
     if ptState = 3 (now): table exhausted (index = len):
                              ptState <- 4, ptTableLength <- 0, ptActTableIndex <- 0, ptEndTableIndex <- 0
                           else ptActTableIndex <- index, ptTableLength <- len - index,
                                ptEndTableIndex <- max (len - index - 1) 0
   A setter exception aborts the method ([None]). *)
From Coq Require Import String.
From DS Require Import Base.Prelude Base.Bits Model.Utils Model.AlayModel.
Local Open Scope string_scope.

Record ps_input := {
  pi_year : Z; pi_month : Z; pi_day : Z; pi_hour : Z; pi_minute : Z; pi_second : Z;
  pi_mjd : Z;                       (* utils.mjd(curr_time), binary64 bits *)
  pi_az_p : Z; pi_az_off : Z; pi_el_p : Z; pi_el_off : Z;
  pi_before_start : bool;           (* curr_time < start_time + actPtTimeOffset ms *)
  pi_index : Z;                     (* bisect_left(relative_times, elapsed) *)
  pi_ntimes : Z                     (* len(relative_times) *)
}.

Definition ps_head_ops (i : ps_input) : list (string * value) :=
  [("year", VInt (pi_year i)); ("month", VInt (pi_month i)); ("day", VInt (pi_day i));
   ("hour", VInt (pi_hour i)); ("minute", VInt (pi_minute i)); ("second", VInt (pi_second i));
   ("actTime", VReal (pi_mjd i));
   ("posEncAz", VInt (pi_az_p i)); ("pointOffsetAz", VInt (pi_az_off i));
   ("posEncEl", VInt (pi_el_p i)); ("pointOffsetEl", VInt (pi_el_off i))].

Definition ps_running_ops (i : ps_input) : list (string * value) :=
  if Z.eqb (pi_index i) (pi_ntimes i)
  then [("ptState", VInt 4); ("ptTableLength", VInt 0); ("ptActTableIndex", VInt 0); ("ptEndTableIndex", VInt 0)]
  else [("ptActTableIndex", VInt (pi_index i));
        ("ptTableLength", VInt (pi_ntimes i - pi_index i));
        ("ptEndTableIndex", VInt (Z.max (pi_ntimes i - pi_index i - 1) 0))].

(* [st]: the ptState field as read after the clock / encoder writes *)
Definition ps_track_ops (i : ps_input) (st : Z) : list (string * value) :=
  if Z.eqb st 2 then (if pi_before_start i then [] else ("ptState", VInt 3) :: ps_running_ops i)
  else if Z.eqb st 3 then ps_running_ops i
  else [].

Definition ps_update (t : list field) (e : axis_env) (i : ps_input) (b : block) : option block :=
  bind (seq_sets t e (ps_head_ops i) b) (fun b1 =>
  bind (get_int t "ptState" b1) (fun st =>
  seq_sets t e (ps_track_ops i st) b1)).

(* every field update_status may write *)
Definition ps_written_names : list string :=
  ["year"; "month"; "day"; "hour"; "minute"; "second"; "actTime";
   "posEncAz"; "pointOffsetAz"; "posEncEl"; "pointOffsetEl";
   "ptState"; "ptTableLength"; "ptActTableIndex"; "ptEndTableIndex"].
