(* C07 — the ledger of background activities of one simulator instance (generic part).

   A [table] is what the translator gen/ldg_ledger.py recovers from the source of one System class:
   every creation site of a Thread / Timer / HTTP server thread / socket, the attribute the created
   object is stored in, its daemon flag, whether it is started, what the code does to the previous
   occupant of the attribute before the store (the [guard]), every `attr = None` (a [clear]) and
   what `system_stop` cancels / joins / shuts down / closes.

   A [ledger] is the set of live activities of an instance together with the attribute -> object
   reference map.  Commands, timer callbacks and `system_stop` act on it through [sop]s / [op]s; an
   op the table does not permit makes the run [None] (the history is outside what the table
   describes — the correspondence harness checks that real histories are never [None]).

   No proofs in this file. *)
From Coq Require Import String.
From DS Require Import Base.Prelude.

Inductive kind := KThread | KTimer | KHttpd | KSocket.

(* what happens to the previous occupant of the attribute before the store *)
Inductive guard :=
| GNone      (* nothing: blind overwrite *)
| GCancel    (* cancelled first (unconditionally, or under `if <the attribute itself>`) *)
| GCond      (* cancelled only under some other condition *)
| GInit      (* the store is in __init__: the attribute did not exist before *)
| GChain.    (* re-arm: the store is made by the callback of a timer held in the same attribute *)

Inductive action := ACancel | AJoin | AShutdown | AClose.

Record site := mkSite {
  s_fn : string;             (* function containing the creation call *)
  s_kind : kind;
  s_attr : option string;    (* attribute the object is stored in; None: a local variable only *)
  s_multi : bool;            (* the attribute is a collection (Queue.put): a store never overwrites *)
  s_daemon : bool;           (* daemon flag when started *)
  s_started : bool;          (* .start() is called at the site (sockets: opened) *)
  s_guard : guard }.

Record clear := mkClear { c_fn : string; c_attr : string; c_guard : guard }.

Record table := mkTable {
  t_sites : list site;
  t_clears : list clear;
  t_stop : list (string * list action);   (* attribute -> what system_stop calls on it *)
  t_flag : bool;                          (* system_stop sets the stop flag the threads poll *)
  t_reply : option (list Z) }.            (* the string system_stop returns (code points), if it is a literal *)

Definition ack : list Z :=   (* "$server_shutdown%%%%%" *)
  [36; 115; 101; 114; 118; 101; 114; 95; 115; 104; 117; 116; 100; 111; 119; 110; 37; 37; 37; 37; 37].

(* ---- decidable equalities ---- *)
Definition kind_eqb (a b : kind) : bool :=
  match a, b with
  | KThread, KThread | KTimer, KTimer | KHttpd, KHttpd | KSocket, KSocket => true
  | _, _ => false
  end.
Definition guard_eqb (a b : guard) : bool :=
  match a, b with
  | GNone, GNone | GCancel, GCancel | GCond, GCond | GInit, GInit | GChain, GChain => true
  | _, _ => false
  end.
Definition action_eqb (a b : action) : bool :=
  match a, b with
  | ACancel, ACancel | AJoin, AJoin | AShutdown, AShutdown | AClose, AClose => true
  | _, _ => false
  end.
Definition ostr_eqb (a b : option string) : bool :=
  match a, b with
  | Some x, Some y => String.eqb x y
  | None, None => true
  | _, _ => false
  end.
Definition site_eqb (a b : site) : bool :=
  String.eqb (s_fn a) (s_fn b) && kind_eqb (s_kind a) (s_kind b) && ostr_eqb (s_attr a) (s_attr b)
  && Bool.eqb (s_multi a) (s_multi b) && Bool.eqb (s_daemon a) (s_daemon b)
  && Bool.eqb (s_started a) (s_started b) && guard_eqb (s_guard a) (s_guard b).
Definition clear_eqb (a b : clear) : bool :=
  String.eqb (c_fn a) (c_fn b) && String.eqb (c_attr a) (c_attr b) && guard_eqb (c_guard a) (c_guard b).

(* ---- ledger ---- *)
Definition key := (Z * string)%type.     (* (owner object index, attribute name); owner 0 = the System *)
Definition key_eqb (a b : key) : bool := (fst a =? fst b) && String.eqb (snd a) (snd b).

Record act := mkAct { a_id : Z; a_site : site; a_owner : Z }.

Record ledger := mkLedger {
  l_live : list act;            (* started and not yet finished / cancelled / closed *)
  l_slots : list (key * Z);     (* attribute -> id of the object it refers to *)
  l_next : Z }.                 (* creation counter = id of the next created object *)

Definition empty_ledger : ledger := mkLedger [] [] 0.

Definition zmem (x : Z) (l : list Z) : bool := existsb (Z.eqb x) l.
Definition occupants (sl : list (key * Z)) (k : key) : list Z :=
  map snd (filter (fun e => key_eqb (fst e) k) sl).
Definition remove_key (k : key) (sl : list (key * Z)) : list (key * Z) :=
  filter (fun e => negb (key_eqb (fst e) k)) sl.
Definition kill_ids (ids : list Z) (live : list act) : list act :=
  filter (fun a => negb (zmem (a_id a) ids)) live.
Definition is_live (l : ledger) (id : Z) : bool := existsb (fun a => a_id a =? id) (l_live l).

(* an activity that keeps the process from exiting: started, not daemon, and a thread of some kind *)
Definition blocks (s : site) : bool :=
  s_started s && negb (s_daemon s) && negb (kind_eqb (s_kind s) KSocket).

Definition blocking_alive (l : ledger) : list act := filter (fun x => blocks (a_site x)) (l_live l).

(* ---- simple operations (what a command handler or a callback does to the ledger) ---- *)
Inductive sop :=
| SCreate (s : site) (owner : Z) (cancelled : bool)   (* run creation site s; [cancelled]: the guard's cancel was executed *)
| SKill (owner : Z) (attr : string)                   (* cancel() / close() on the attribute, reference kept *)
| SClear (c : clear) (owner : Z) (cancelled : bool).  (* attribute := None *)

Definition do_kill (o : Z) (a : string) (l : ledger) : ledger :=
  mkLedger (kill_ids (occupants (l_slots l) (o, a)) (l_live l)) (l_slots l) (l_next l).

Definition do_create (s : site) (o : Z) (c : bool) (l : ledger) : ledger :=
  let l1 := match s_attr s with
            | Some a => if c then do_kill o a l else l
            | None => l
            end in
  let id := l_next l in
  let live' := if s_started s then mkAct id s o :: l_live l1 else l_live l1 in
  let slots' := match s_attr s with
                | Some a => if s_multi s then ((o, a), id) :: l_slots l1
                            else ((o, a), id) :: remove_key (o, a) (l_slots l1)
                | None => l_slots l1
                end in
  mkLedger live' slots' (id + 1).

Definition do_clear (a : string) (o : Z) (c : bool) (l : ledger) : ledger :=
  let l1 := if c then do_kill o a l else l in
  mkLedger (l_live l1) (remove_key (o, a) (l_slots l1)) (l_next l1).

(* Is the store permitted by the table's description of the site?  [boot]: inside __init__;
   [firing]: the activity whose callback is running, if any. *)
Definition guard_permits (boot : bool) (firing : option act) (l : ledger) (s : site) (o : Z) (c : bool) : bool :=
  match s_guard s with
  | GNone => negb c
  | GCancel => c
  | GCond => true
  | GInit =>
      boot && negb c &&
      match s_attr s with
      | Some a => s_multi s || match occupants (l_slots l) (o, a) with [] => true | _ => false end
      | None => true
      end
  | GChain =>
      negb c &&
      match firing, s_attr s with
      | Some f, Some a =>
          (a_owner f =? o) && ostr_eqb (s_attr (a_site f)) (Some a) &&
          (* what the store overwrites is the firing timer itself, or nothing that blocks *)
          forallb (fun x => negb (blocks (a_site x)) || negb (zmem (a_id x) (occupants (l_slots l) (o, a)))
                            || (a_id x =? a_id f)) (l_live l)
      | _, _ => false
      end
  end.

Definition clear_permits (cl : clear) (c : bool) : bool :=
  match c_guard cl with
  | GNone => negb c
  | GCancel => c
  | _ => true
  end.

Definition exec_sop (T : table) (boot : bool) (firing : option act) (l : ledger) (p : sop) : option ledger :=
  match p with
  | SCreate s o c =>
      if existsb (site_eqb s) (t_sites T) && guard_permits boot firing l s o c
      then Some (do_create s o c l) else None
  | SKill o a => Some (do_kill o a l)
  | SClear cl o c =>
      if existsb (clear_eqb cl) (t_clears T) && clear_permits cl c
      then Some (do_clear (c_attr cl) o c l) else None
  end.

Fixpoint exec_body (T : table) (boot : bool) (firing : option act) (l : ledger) (body : list sop)
  : option ledger :=
  match body with
  | [] => Some l
  | p :: ps => match exec_sop T boot firing l p with
               | Some l' => exec_body T boot firing l' ps
               | None => None
               end
  end.

(* ---- system_stop ---- *)
Definition has (a : action) (l : list action) : bool := existsb (action_eqb a) l.

Definition stop_acts (T : table) (a : string) : list action :=
  match find (fun e => String.eqb (fst e) a) (t_stop T) with
  | Some e => snd e
  | None => []
  end.

(* do the calls system_stop makes on the attribute end an activity of kind k held there? *)
Definition adequate (T : table) (k : kind) (acts : list action) : bool :=
  match k with
  | KTimer => has ACancel acts
  | KThread => has AJoin acts && t_flag T
  | KHttpd => has AJoin acts && has AShutdown acts
  | KSocket => has AClose acts
  end.

Definition stopped_by (T : table) (sl : list (key * Z)) (x : act) : bool :=
  match s_attr (a_site x) with
  | Some a => zmem (a_id x) (occupants sl (a_owner x, a))
              && adequate T (s_kind (a_site x)) (stop_acts T a)
  | None => false
  end.

Definition stop (T : table) (l : ledger) : ledger :=
  mkLedger (filter (fun x => negb (stopped_by T (l_slots l) x)) (l_live l)) (l_slots l) (l_next l).

Definition stop_reply (T : table) : option (list Z) := t_reply T.

(* ---- histories ---- *)
Inductive op :=
| OCmd (body : list sop)              (* a command handler *)
| OFire (id : Z) (body : list sop)    (* the callback of activity id runs [body], then id ends *)
| OStop.                              (* system_stop *)

Definition end_act (id : Z) (l : ledger) : ledger :=
  mkLedger (filter (fun a => negb (a_id a =? id)) (l_live l)) (l_slots l) (l_next l).

Definition exec_op (T : table) (l : ledger) (o : op) : option ledger :=
  match o with
  | OCmd body => exec_body T false None l body
  | OFire id body =>
      match find (fun a => a_id a =? id) (l_live l) with
      | Some f => match exec_body T false (Some f) l body with
                  | Some l' => Some (end_act id l')
                  | None => None
                  end
      | None => None
      end
  | OStop => Some (stop T l)
  end.

Fixpoint run (T : table) (l : ledger) (ops : list op) : option ledger :=
  match ops with
  | [] => Some l
  | o :: os => match exec_op T l o with
               | Some l' => run T l' os
               | None => None
               end
  end.

Definition boot (T : table) (init : list sop) : option ledger := exec_body T true None empty_ledger init.

(* ---- the side conditions of the generic theorem: booleans over the table ---- *)
Definition attr_is (s : site) (a : string) : bool :=
  match s_attr s with Some b => String.eqb a b | None => false end.

(* can the attribute hold an activity that blocks process exit? *)
Definition nd_attr (T : table) (a : string) : bool :=
  existsb (fun s => blocks s && attr_is s a) (t_sites T).

(* every blocking activity is stored in an attribute on which system_stop does the right thing *)
Definition site_ok (T : table) (s : site) : bool :=
  if blocks s then
    match s_attr s with
    | Some a => adequate T (s_kind s) (stop_acts T a)
    | None => false
    end
  else true.

(* every store into such an attribute deals with the previous occupant *)
Definition store_ok (T : table) (s : site) : bool :=
  match s_attr s with
  | Some a =>
      if nd_attr T a then
        s_multi s || match s_guard s with GCancel | GInit | GChain => true | _ => false end
      else true
  | None => true
  end.

Definition clear_ok (T : table) (c : clear) : bool :=
  if nd_attr T (c_attr c) then guard_eqb (c_guard c) GCancel else true.

Definition reply_ok (T : table) : bool := option_eqb zlist_eqb (t_reply T) (Some ack).

Definition ledger_ok (T : table) : bool :=
  forallb (site_ok T) (t_sites T) && forallb (store_ok T) (t_sites T)
  && forallb (clear_ok T) (t_clears T).

(* a table with no creation site at all: the class starts nothing *)
Definition starts_nothing (T : table) : bool :=
  match t_sites T with [] => true | _ => false end.

(* observation used by the correspondence files: ids alive, ascending *)
Fixpoint zinsert (x : Z) (l : list Z) : list Z :=
  match l with
  | [] => [x]
  | y :: ys => if x <=? y then x :: l else y :: zinsert x ys
  end.
Definition zsort (l : list Z) : list Z := fold_right zinsert [] l.
Definition alive_ids (l : ledger) : list Z := zsort (map a_id (l_live l)).
Definition blocking_ids (l : ledger) : list Z := zsort (map a_id (blocking_alive l)).
Definition slot_of (l : ledger) (k : key) : list Z := zsort (occupants (l_slots l) k).
