(* Executable model of simulators/mscu: System.parse(byte) and _parse (__init__.py), the ten Servo
   commands and History.insert / clean / get (servo.py), the tables of parameters.py.  No proofs here.

   Time: Servo.ctime() is an input.  The clock is constant between two [ETick now] events; [now] is
   the value Servo.ctime() returns.  The setup Timer (3 s, drive cabinet 'ready') never fires here.
   Python ints are Z; Python floats are binary64 bit patterns and the interpolation of History.get
   is computed with Flocq (Model/SmcFloat.v).

   Inputs that are not repo code (oracle tables, never axioms): the graphs of int(tok), int(tok, 16),
   float(tok) on the tokens of the case and of repr(float) on the floats that are rendered.

   Outside the modelled domain (outcome OOutside, excluded from [reachable] in the theorems):
     - a command name beginning with '__' (getattr reaches object internals, e.g. __init__);
     - setpos whose time stamp parameter is a non-zero float (History sorts ints and floats, NaN
       included, with a comparison the model does not reproduce).

   [fix22]: fixes/22-mscu-history-clean.diff applied (History.clean keeps every entry that is not
   later than the target time; the original drops one more entry whenever none is later). *)
From DS Require Import Base.Prelude Model.SmcBase Model.SmcFloat.

Inductive pval := PInt (z : Z) | PFlt (bits : Z).

Definition pval_eqb (a b : pval) : bool :=
  match a, b with PInt x, PInt y => x =? y | PFlt x, PFlt y => x =? y | _, _ => false end.

Record env := {
  py_int : list Z -> conv Z;        (* int(tok) *)
  py_int16 : list Z -> conv Z;      (* int(tok, 16) *)
  py_float : list Z -> conv Z;      (* float(tok), as bits *)
  py_repr : Z -> option (list Z)    (* repr(float); None = not in the case's table *)
}.

Definition entry := (Z * list pval)%type.         (* [timestamp, axis values...] *)
Record servo := { hist : list entry; cab : Z }.
Record dev := { servos : list servo; nak : bool; now : Z }.
Record st := { msg : list Z; dv : dev }.

(* parameters.py *)
Definition axes_of (a : nat) : nat :=
  match a with 0 => 3 | 1 => 6 | 2 => 1 | _ => 1 end%nat.
Definition f_2730_15 : Z := 4658222078414867661.    (* bits of 2730.15 *)
Definition stow_of (a : nat) : list pval :=
  match a with
  | 0 => [PFlt f_2730_15; PInt 0; PInt (-195)]
  | 1 => [PInt (-125); PInt (-125); PInt (-125); PInt 0; PInt 0; PInt 0]
  | _ => [PInt 0]
  end%nat.
Definition CAB_STARTING : Z := 1.
Definition CAB_STOW : Z := 3.
Definition hist_cap : Z := 32768.                   (* 2 ** 15 *)

(* list.sort(key=itemgetter(0)): stable *)
Fixpoint ins_sorted (x : entry) (l : list entry) : list entry :=
  match l with
  | [] => [x]
  | y :: r => if fst x <? fst y then x :: l else y :: ins_sorted x r
  end.
Definition sort_entries (l : list entry) : list entry := fold_left (fun acc x => ins_sorted x acc) l [].
Definition keep_last (l : list entry) : list entry :=
  skipn (Z.to_nat (Z.of_nat (length l) - hist_cap)) l.

Definition h_insert (h : list entry) (ts : Z) (pos : list pval) : list entry :=
  keep_last (sort_entries (h ++ [(ts, pos)])).

Fixpoint take_until_later (t : Z) (l : list entry) : list entry * bool :=   (* prefix, found a later one *)
  match l with
  | [] => ([], false)
  | x :: r => if t <? fst x then ([], true) else let (p, f) := take_until_later t r in (x :: p, f)
  end.
Definition h_clean (fix22 : bool) (h : list entry) (t : Z) : list entry :=
  let s := sort_entries h in
  let (p, found) := take_until_later t s in
  if found || fix22 then p else removelast s.

(* History.get(now) *)
Inductive got := GDirect (e : entry) | GInterp (cur nxt : entry) | GEmpty.
Fixpoint get_back (t : Z) (r : list entry) (nxt : option entry) : option got :=
  match r with
  | [] => None
  | cur :: r' =>
      if fst cur <=? t then Some (match nxt with None => GDirect cur | Some n => GInterp cur n end)
      else get_back t r' (Some cur)
  end.
Definition h_get (h : list entry) (t : Z) : got :=
  match get_back t (rev h) None with
  | Some g => g
  | None => match h with e :: _ => GDirect e | [] => GEmpty end
  end.

Definition to_f (p : pval) : option F64 :=
  match p with PInt z => of_int z | PFlt b => Some (of_bits b) end.

(* (1 - factor) * c + factor * n, each int operand converted by float(); None = OverflowError *)
Definition interp1 (factor : F64) (c n : pval) : option pval :=
  match of_int 1, to_f c, to_f n with
  | Some one, Some fc, Some fn =>
      Some (PFlt (to_bits (fadd (fmul (fsub one factor) fc) (fmul factor fn))))
  | _, _, _ => None
  end.

Fixpoint interp_all (factor : F64) (cs ns : list pval) : option (option (list pval)) :=
  (* outer None = IndexError (nxt shorter than current), inner None = OverflowError *)
  match cs, ns with
  | [], _ => Some (Some [])
  | _ :: _, [] => None
  | c :: cs', n :: ns' =>
      match interp1 factor c n with
      | None => Some None
      | Some v => match interp_all factor cs' ns' with
                  | Some (Some vs) => Some (Some (v :: vs))
                  | x => x
                  end
      end
  end.

(* the positions History.get returns, or the exception it raises *)
Inductive pres := POk (vs : list pval) | PIndexError | POverflow.
Definition positions_r (h : list entry) (t : Z) : pres :=
  match h_get h t with
  | GEmpty => PIndexError                              (* self.history[0] on an empty list *)
  | GDirect e => POk (snd e)
  | GInterp cur nxt =>
      match of_int (t - fst cur), of_int (fst nxt - fst cur) with
      | Some a, Some b =>
          match interp_all (fdiv a b) (snd cur) (snd nxt) with
          | Some (Some vs) => POk vs
          | Some None => POverflow
          | None => PIndexError                        (* nxt[i] beyond the end of nxt *)
          end
      | _, _ => POverflow                              (* float(int) of a huge difference *)
      end
  end.
Definition positions (h : list entry) (t : Z) : option (list pval) :=
  match positions_r h t with POk vs => Some vs | _ => None end.

(* ---- text ---- *)
Definition crlf : list Z := [CR; LF].
Definition render (e : env) (p : pval) : option (list Z) :=
  match p with PInt z => Some (zstr z) | PFlt b => py_repr e b end.
Fixpoint render_list (e : env) (ps : list pval) : option (list Z) :=   (* ",p1,p2..." *)
  match ps with
  | [] => Some []
  | p :: r => match render e p, render_list e r with
              | Some a, Some b => Some ([44] ++ a ++ b)
              | _, _ => None
              end
  end.

Inductive cmd := KBad | KMiss | KMsg (name : list Z) (num : Z) (params : list pval).

Definition conv_param (e : env) (p : list Z) : conv pval :=
  let p' := strip p in
  if mem_z 120 p' then match py_int16 e p' with CvOk z => CvOk (PInt z) | CvErr => CvErr | CvMiss => CvMiss end
  else if mem_z 46 p' then match py_float e p' with CvOk b => CvOk (PFlt b) | CvErr => CvErr | CvMiss => CvMiss end
  else match py_int e p' with CvOk z => CvOk (PInt z) | CvErr => CvErr | CvMiss => CvMiss end.

Fixpoint conv_params (e : env) (ps : list (list Z)) : conv (list pval) :=
  match ps with
  | [] => CvOk []
  | p :: r => match conv_param e p with
              | CvOk v => match conv_params e r with CvOk vs => CvOk (v :: vs) | x => x end
              | CvErr => CvErr
              | CvMiss => CvMiss
              end
  end.

(* the try block of _parse *)
Definition decode (e : env) (m : list Z) : cmd :=
  let body := rstrip (tl m) in
  match split_on 61 body with
  | [whole; pstr] =>
      match split_on 58 whole with
      | [name; numtok] =>
          match py_int e numtok with
          | CvErr => KBad
          | CvMiss => KMiss
          | CvOk num =>
              match conv_params e (split_on 44 pstr) with
              | CvOk ps => KMsg name num ps
              | CvErr => KBad
              | CvMiss => KMiss
              end
          end
      | _ => KBad
      end
  | _ => KBad
  end.

(* ---- state helpers ---- *)
Definition upd_servo (a : nat) (f : servo -> servo) (d : dev) : dev :=
  match nth_opt a (servos d) with
  | Some s => {| servos := set_nth a (f s) (servos d); nak := nak d; now := now d |}
  | None => d
  end.
Definition set_hist (h : list entry) (s : servo) : servo := {| hist := h; cab := cab s |}.
Definition set_cab (c : Z) (s : servo) : servo := {| hist := hist s; cab := c |}.

Definition head_line (mark : Z) (name : list Z) (num : Z) (a : nat) : list Z :=
  [mark] ++ name ++ [58] ++ zstr num ++ [61] ++ zstr (Z.of_nat a).

(* '?name:n=a,params\r\n@name:n=a,params\r\n' *)
Definition echo2 (e : env) (name : list Z) (num : Z) (a : nat) (ps : list pval) : option (list Z) :=
  match render_list e ps with
  | Some t => Some (head_line 63 name num a ++ t ++ crlf ++ head_line 64 name num a ++ t ++ crlf)
  | None => None
  end.

Definition known_commands : list (list Z) :=
  [$"getpos"; $"getappstatus"; $"getstatus"; $"setpos"; $"setup"; $"stow"; $"disable"; $"clean";
   $"getspar"; $"setsdatbitb16"].
(* the other attributes of a Servo instance whose name does not begin with '__': calling them with
   (cmd_num, *params) raises TypeError *)
Definition other_attrs : list (list Z) :=
  [$"ctime"; $"stop"; $"id"; $"name"; $"axes"; $"stow_position"; $"history"; $"dc"; $"setpos_NAK"; $"dc_thread"].

Definition pval_is_int (p : pval) (z : Z) : bool :=
  match p with
  | PInt x => x =? z
  | PFlt b => match of_int z with
              | Some f => (b =? to_bits f) || ((z =? 0) && (b =? sign_bit))
              | None => false
              end
  end.
Definition is_zero (p : pval) : bool := pval_is_int p 0.

Definition lastn_p (n : nat) (l : list pval) : list pval := skipn (length l - n) l.

Section Fix22.
Variable fix22 : bool.

Definition exec_servo (e : env) (d : dev) (a : nat) (s : servo) (name : list Z) (num : Z) (ps : list pval)
  : dev * outcome :=
  let reply (o : option (list Z)) (d' : dev) : dev * outcome :=
    match o with Some t => (d', OReply t) | None => (d, OOutside) end in
  if zlist_eqb name $"getpos" then
    match ps with
    | [] =>
        match positions (hist s) (now d) with
        | None => (d, OException)
        | Some vs =>
            reply (match render_list e vs with
                   | Some t => Some (head_line 63 name num a ++ $"> " ++ zstr (now d) ++ t ++ crlf)
                   | None => None
                   end) d
        end
    | _ => (d, OException)                 (* TypeError: too many positional arguments *)
    end
  else if zlist_eqb name $"getappstatus" then
    match ps with
    | [] => (d, OReply (head_line 63 name num a ++ $"> 0000030D" ++ crlf))
    | _ => (d, OException)
    end
  else if zlist_eqb name $"getstatus" then
    match ps with
    | [] =>
        match positions (hist s) (now d) with
        | None => (d, OException)
        | Some vs =>
            reply (match render_list e vs with
                   | Some t => Some (head_line 63 name num a ++ $"> " ++ zstr (now d) ++ $",4,FFFF," ++ zstr (cab s)
                                     ++ t ++ crlf)
                   | None => None
                   end) d
        end
    | _ => (d, OException)
    end
  else if zlist_eqb name $"setpos" then
    if nak d || negb (length ps =? axes_of a + 3)%nat then
      let line := [33] ++ $"NAK_setpos:" ++ zstr num ++ [61] ++ zstr (Z.of_nat a)
                  ++ $",cannot set the position" ++ crlf in
      (d, OReply (line ++ line))
    else
      match ps with
      | tsp :: _ =>
          let pos := lastn_p (axes_of a) ps in
          match (match tsp with
                 | PInt z => Some (if z =? 0 then now d else z)
                 | PFlt _ => if is_zero tsp then Some (now d) else None
                 end) with
          | None => (d, OOutside)
          | Some ts =>
              reply (echo2 e name num a ps) (upd_servo a (set_hist (h_insert (hist s) ts pos)) d)
          end
      | [] => (d, OException)
      end
  else if zlist_eqb name $"setup" then
    reply (echo2 e name num a ps) (upd_servo a (set_cab CAB_STARTING) d)
  else if zlist_eqb name $"stow" then
    reply (echo2 e name num a ps)
          (upd_servo a (fun s0 => set_hist (h_insert (hist s0) (now d) (stow_of a)) (set_cab CAB_STOW s0)) d)
  else if zlist_eqb name $"disable" then
    reply (echo2 e name num a ps) (upd_servo a (set_cab CAB_STOW) d)
  else if zlist_eqb name $"clean" then
    reply (echo2 e name num a ps) (upd_servo a (set_hist (h_clean fix22 (hist s) (now d))) d)
  else if zlist_eqb name $"getspar" then
    let v := match lastn_p 2 ps with
             | [p; q] => if pval_is_int p 1250 && is_zero q then $"3"
                         else if pval_is_int p 1240 && is_zero q then $"10" else $"0"
             | _ => $"0"
             end in
    (d, OReply (head_line 63 name num a ++ $"> " ++ v ++ crlf))
  else if zlist_eqb name $"setsdatbitb16" then
    reply (match render_list e ps with
           | Some t => Some (head_line 64 name num a ++ t ++ crlf)
           | None => None
           end) d
  else if mem_s name other_attrs then (d, OException)
  else if starts_with $"__" name then (d, OOutside)
  else (d, OValueError).                   (* AttributeError -> ValueError('Command ... unknown!') *)

Definition exec (e : env) (d : dev) (c : cmd) : dev * outcome :=
  match c with
  | KBad => (d, OValueError)
  | KMiss => (d, OOutside)
  | KMsg name num ps =>
      match ps with
      | PInt a :: rest =>
          if (0 <=? a) && (a <? Z.of_nat (length (servos d))) then
            match nth_opt (Z.to_nat a) (servos d) with
            | Some s => exec_servo e d (Z.to_nat a) s name num rest
            | None => (d, OException)
            end
          else (d, OException)            (* KeyError *)
      | _ => (d, OException)              (* float address: KeyError or TypeError; no address: unreachable *)
      end
  end.

(* ---- System.parse ---- *)
Definition is_header (b : Z) : bool := (b =? 35) || (b =? 33) || (b =? 63) || (b =? 64).
Definition closed (m : list Z) : bool := ends_with [CR; LF] m || ends_with [LF; CR] m.

Inductive ev := EByte (b : Z) | ETick (t : Z) | ENak (v : bool).

Definition step_byte (e : env) (s : st) (b : Z) : st * outcome :=
  let m := if is_header b then [b] else msg s ++ [b] in
  match m with
  | h :: _ =>
      if is_header h then
        if closed m then
          let (d', o) := exec e (dv s) (decode e m) in ({| msg := []; dv := d' |}, o)
        else ({| msg := m; dv := dv s |}, OTrue)
      else ({| msg := []; dv := dv s |}, OFalse)
  | [] => ({| msg := []; dv := dv s |}, OFalse)
  end.

Definition step (e : env) (s : st) (x : ev) : st * outcome :=
  match x with
  | EByte b => step_byte e s b
  | ETick t => ({| msg := msg s; dv := {| servos := servos (dv s); nak := nak (dv s); now := t |} |}, OTrue)
  | ENak v => ({| msg := msg s; dv := {| servos := servos (dv s); nak := v; now := now (dv s) |} |}, OTrue)
  end.
End Fix22.

(* System(): four servos, each History(n_axes) then stow(0), all at the construction time t0 *)
Definition servo0 (t0 : Z) (a : nat) : servo :=
  {| hist := h_insert (h_insert [] t0 (repeat (PInt 0) (axes_of a))) t0 (stow_of a); cab := CAB_STOW |}.
Definition init (t0 : Z) : st :=
  {| msg := []; dv := {| servos := map (servo0 t0) [0; 1; 2; 3]%nat; nak := false; now := t0 |} |}.
Definition idle (s : st) : bool := match msg s with [] => true | _ => false end.
