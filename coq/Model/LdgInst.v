(* C07 — ledger instances: what each command / callback / system_stop of a concrete simulator does
   to the ledger, expressed as generic [op]s over the generated table of that simulator.  The sites
   are looked up in the table by (function name, attribute); a site that is no longer there makes the
   step [None].  No proofs in this file. *)
From Coq Require Import String.
From DS Require Import Base.Prelude Model.LdgLedger.
Open Scope string_scope.
Open Scope Z_scope.
Open Scope list_scope.

Definition find_site (T : table) (fn : string) (attr : option string) : option site :=
  find (fun s => String.eqb (s_fn s) fn && ostr_eqb (s_attr s) attr) (t_sites T).
Definition find_clear (T : table) (fn : string) (attr : string) : option clear :=
  find (fun c => String.eqb (c_fn c) fn && String.eqb (c_attr c) attr) (t_clears T).

(* the cancel of a GCancel guard is always executed; GCond sites take it from the instance *)
Definition cflag (s : site) : bool := match s_guard s with GCancel => true | _ => false end.
Definition create (s : site) (o : Z) : sop := SCreate s o (cflag s).

Definition occ_alive (l : ledger) (k : key) : bool :=
  existsb (fun id => is_live l id) (occupants (l_slots l) k).

(* generic driver: an instance maps (control state, ledger, event) to a new control state and an op *)
Section Driver.
  Context {C E : Type}.
  Variable opf : table -> C -> ledger -> E -> option (C * op).

  Definition istep (T : table) (st : C * ledger) (e : E) : option (C * ledger) :=
    match opf T (fst st) (snd st) e with
    | Some (c', o) => match exec_op T (snd st) o with
                      | Some l' => Some (c', l')
                      | None => None
                      end
    | None => None
    end.

  Fixpoint iruns (T : table) (st : C * ledger) (evs : list E) : option (C * ledger) :=
    match evs with
    | [] => Some st
    | e :: es => match istep T st e with
                 | Some st' => iruns T st' es
                 | None => None
                 end
    end.
End Driver.

(* ------------------------------------------------------------------------------------------- *)
(* totalpower *)
Record tp_ctrl := mkTp {
  tp_conf : bool;      (* data_configured *)
  tp_stop : bool;      (* stop.value *)
  tp_pause : bool;     (* pause.value *)
  tp_spz : bool;       (* sample_period = 0 (every use divides by it) *)
  tp_sock : bool }.    (* data_socket is an open, connected socket *)

Inductive tp_ev :=
| TpX (connect_ok spz : bool)    (* well-formed X command; did connect() succeed; is the period 0 *)
| TpS (spz : bool)               (* S n *)
| TpResume | TpPause | TpStop
| TpNop                          (* any other input: no effect on the ledger *)
| TpFire (id : Z) (inject : bool)   (* timer id fires; inject: the peer makes this sendall fail *)
| TpSysStop.

Definition tp_init_ctrl : tp_ctrl := mkTp false false true false false.

Definition tp_waiter (T : table) (l : ledger) : option (list sop) :=
  if occ_alive l (0, "data_timer") then
    match find_site T "_stop" None with
    | Some s => Some [create s 0]
    | None => None
    end
  else Some [].

Definition tp_op (T : table) (c : tp_ctrl) (l : ledger) (e : tp_ev) : option (tp_ctrl * op) :=
  match e with
  | TpX cok spz =>
      match find_site T "_X" (Some "data_socket") with
      | Some s => Some (mkTp (tp_conf c || cok) false false spz cok, OCmd [create s 0])
      | None => None
      end
  | TpS spz => Some (mkTp (tp_conf c) (tp_stop c) (tp_pause c) spz (tp_sock c), OCmd [])
  | TpResume =>
      if tp_conf c then
        let c' := mkTp true false false (tp_spz c) (tp_sock c) in
        if tp_spz c then Some (c', OCmd [])          (* ZeroDivisionError before the Timer exists *)
        else match find_site T "_resume" (Some "data_timer") with
             | Some s => Some (c', OCmd [create s 0])
             | None => None
             end
      else Some (c, OCmd [])
  | TpPause => Some (mkTp (tp_conf c) (tp_stop c) true (tp_spz c) (tp_sock c), OCmd [])
  | TpStop =>
      match tp_waiter T l with
      | Some w => Some (mkTp (tp_conf c) true (tp_pause c) (tp_spz c) (tp_sock c), OCmd w)
      | None => None
      end
  | TpNop => Some (c, OCmd [])
  | TpFire id inject =>
      match find (fun a => a_id a =? id) (l_live l) with
      | None => None
      | Some f =>
          match s_attr (a_site f) with
          | None =>            (* the waiter of _stop: join returned, data_timer := None *)
              match find_clear T "_stop._wait_for_timer" "data_timer" with
              | Some cl => Some (c, OFire id [SClear cl 0 (match c_guard cl with GCancel => true | _ => false end)])
              | None => None
              end
          | Some _ =>          (* _send_packet *)
              if tp_spz c then Some (c, OFire id [])      (* ZeroDivisionError: the thread dies *)
              else
                let fail := inject || negb (tp_sock c) in
                match (if fail then tp_waiter T l else Some []) with
                | None => None
                | Some w =>
                    let stp := tp_stop c || fail in
                    if stp then
                      Some (mkTp (tp_conf c) true (tp_pause c) (tp_spz c) false,
                            OFire id (w ++ [SKill 0 "data_socket"]))
                    else if tp_pause c then Some (c, OFire id w)
                    else match find_site T "_send_packet" (Some "data_timer") with
                         | Some s => Some (c, OFire id (w ++ [create s 0]))
                         | None => None
                         end
                end
          end
      end
  | TpSysStop =>
      Some (mkTp (tp_conf c) (tp_stop c || t_flag T) (tp_pause c) (tp_spz c)
                 (tp_sock c && negb (has AClose (stop_acts T "data_socket"))), OStop)
  end.

Definition tp_boot : list sop := [].

(* ------------------------------------------------------------------------------------------- *)
(* mscu: four servos (owners 1..4), each with a drive-cabinet timer *)
Inductive ms_ev := MsSetup (servo : Z) | MsNop | MsFire (id : Z) | MsSysStop.

Definition ms_op (T : table) (c : unit) (l : ledger) (e : ms_ev) : option (unit * op) :=
  match e with
  | MsSetup k => match find_site T "setup" (Some "dc_thread") with
                 | Some s => Some (tt, OCmd [create s k])
                 | None => None
                 end
  | MsNop => Some (tt, OCmd [])
  | MsFire id => Some (tt, OFire id [])
  | MsSysStop => Some (tt, OStop)
  end.

Definition ms_boot : list sop := [].

(* ------------------------------------------------------------------------------------------- *)
(* minor servos: System (owner 0) with cover_timer, update thread, REST server; eight servos
   (owners 1..8) with an operative-mode timer each *)
Record mv_ctrl := mkMv { mv_cap : Z; mv_pend : list (Z * Z) }.   (* gregorian_cap.value; timer id -> value it will set *)

Inductive mv_ev :=
| MvSetup (cap_pos : Z)          (* SETUP=<configuration>; its GREGORIAN_CAP position *)
| MvStowCap (pos : Z)            (* STOW=GREGORIAN_CAP,pos   (pos in 0..4) *)
| MvStowServo (k : Z)            (* STOW=<servo>,n *)
| MvCancelOp (k : Z)             (* STOP=<servo> or an accepted-so-far PRESET=<servo>,... *)
| MvNop
| MvFire (id : Z)
| MvSysStop.

Definition mv_servos : list Z := [1; 2; 3; 4; 5; 6; 7; 8].
Definition opm : string := "operative_mode_timer".

Definition mv_op (T : table) (c : mv_ctrl) (l : ledger) (e : mv_ev) : option (mv_ctrl * op) :=
  match e with
  | MvSetup cp =>
      let kills := map (fun k => SKill k opm) mv_servos in
      if negb (cp =? 0) && negb (mv_cap c =? cp) then
        match find_site T "_setup" (Some "cover_timer") with
        | Some s => Some (mkMv 0 ((l_next l, cp) :: mv_pend c), OCmd (kills ++ [create s 0]))
        | None => None
        end
      else Some (c, OCmd kills)
  | MvStowCap pos =>
      if mv_cap c =? pos then Some (c, OCmd [])
      else if (mv_cap c <=? 1) || (pos =? 1) then
        match find_site T "_stow" (Some "cover_timer") with
        | Some s => Some (mkMv 0 ((l_next l, pos) :: mv_pend c), OCmd [SKill 0 "cover_timer"; create s 0])
        | None => None
        end
      else Some (mkMv pos (mv_pend c), OCmd [SKill 0 "cover_timer"])
  | MvStowServo k =>
      match find_site T "_stow" (Some opm) with
      | Some s => Some (c, OCmd [create s k])
      | None => None
      end
  | MvCancelOp k => Some (c, OCmd [SKill k opm])
  | MvNop => Some (c, OCmd [])
  | MvFire id =>
      let cap' := match find (fun p => fst p =? id) (mv_pend c) with
                  | Some p => snd p
                  | None => mv_cap c
                  end in
      Some (mkMv cap' (mv_pend c), OFire id [])
  | MvSysStop => Some (c, OStop)
  end.

Definition opt_list {A} (l : list (option A)) : option (list A) :=
  fold_right (fun x acc => match x, acc with Some v, Some r => Some (v :: r) | _, _ => None end) (Some []) l.

Definition mv_boot (T : table) (rest_api : bool) : option (list sop) :=
  match find_site T "__init__" (Some opm), find_site T "__init__" (Some "update_thread"),
        find_site T "__init__" (Some "cover_timer") with
  | Some so, Some su, Some sc =>
      let servos := map (fun k => create so k) mv_servos in
      if rest_api then
        match find_site T "__init__" (Some "httpserver"), find_site T "__init__" (Some "server_thread") with
        | Some sh, Some st => Some (servos ++ [create su 0; create sh 0; create st 0; create sc 0])
        | _, _ => None
        end
      else Some (servos ++ [create su 0; create sc 0])
  | _, _, _ => None
  end.

(* ------------------------------------------------------------------------------------------- *)
(* acu: update thread + one daemon thread per accepted command, kept in a queue *)
Inductive acu_ev := AcuSpawn (n : nat) | AcuNop | AcuSysStop.

Definition acu_op (T : table) (c : unit) (l : ledger) (e : acu_ev) : option (unit * op) :=
  match e with
  | AcuSpawn n => match find_site T "_parse_commands" (Some "command_threads") with
                  | Some s => Some (tt, OCmd (repeat (create s 0) n))
                  | None => None
                  end
  | AcuNop => Some (tt, OCmd [])
  | AcuSysStop => Some (tt, OStop)
  end.

Definition acu_boot (T : table) : option (list sop) :=
  match find_site T "__init__" (Some "update_thread") with
  | Some s => Some [create s 0]
  | None => None
  end.

(* ------------------------------------------------------------------------------------------- *)
(* active surface: the positioning thread; simulators that start nothing *)
Inductive plain_ev := PlNop | PlSysStop.

Definition plain_op (T : table) (c : unit) (l : ledger) (e : plain_ev) : option (unit * op) :=
  match e with
  | PlNop => Some (tt, OCmd [])
  | PlSysStop => Some (tt, OStop)
  end.

Definition as_boot (T : table) : option (list sop) :=
  match find_site T "__init__" (Some "positioning_thread") with
  | Some s => Some [create s 0]
  | None => None
  end.
