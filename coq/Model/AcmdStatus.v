(* Executable model of MasterAxisStatus.update_status on the extended axis state of
   Model/AcmdReset.v (stowPosOk as in AcmdAxis.tick, plus the limit / rate warning bits) and of
   SlaveAxisStatus.update_status (the cable wrap: brakes follow the master's axis state)
   (agent Acmd; C14).  Bit numbers and the cable wrap's constructor arguments are generated.
   `int(round(self.min_pos * 1000000))` is [lo_udeg] (min_pos is a Python int, see AcmdAxis.v);
   `int(round(self.max_velocity * 1000000))` is [py_round_int] of the binary64 product and is
   None where Python raises (non-finite rate).  No proofs here. *)
From DS Require Import Base.Prelude Base.Bits Model.Utils Gen.AcmdTables.
From DS Require Import Model.AcmdFrame Model.AcmdAxis Model.AcmdReset.

Definition set_bit (w k : Z) (b : bool) : Z := if b then Z.setbit w k else Z.clearbit w k.

Definition rate_limit_udeg (cfg : acfg) : option Z := py_round_int (fmul (c_maxv cfg) (f_of_Z million)).

(* the five flag assignments of update_status, in source order *)
Definition limit_bits (cfg : acfg) (vmax p v w : Z) : Z :=
  let w1 := set_bit (set_bit w bit_Pre_Limit_Dn (p <=? lo_udeg cfg)) bit_Fin_Limit_Dn (p <? lo_udeg cfg) in
  let w2 := set_bit (set_bit w1 bit_Pre_Limit_Up (hi_udeg cfg <=? p)) bit_Fin_Limit_Up (hi_udeg cfg <? p) in
  set_bit w2 bit_Rate_Limit (vmax <? Z.abs v).

Definition xtick (cfg : acfg) (x : xaxis) : option xaxis :=
  let ax := tick cfg (xa_ax x) in
  match rate_limit_udeg cfg with
  | Some vmax =>
      Some (mkXa ax (xa_gen x) (limit_bits cfg vmax (p_Ist (mo ax)) (v_Ist (mo ax)) (xa_warn x))
                 (xa_err x) (xa_aux x))
  | None => None
  end.

(* SlaveAxisStatus.update_status: the brake mask of the cable wrap from the master's state *)
Definition cw_brakes (master_state : Z) : Z :=
  if master_state =? CW_master_active then mask CW_n_motors else 0.
