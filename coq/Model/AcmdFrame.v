(* Executable model of the ACU command framing (agent Acmd; C14, C03 part acu, C10 part acu):
     simulators/acu/__init__.py  System.parse, System._set_default, System._parse_commands,
                                 System._get_method
   with the repairs fixes/03 (declared length below the minimum rejected at byte 8), fixes/12
   (all handlers resolved before the first command is started; a missing handler is a
   ValueError) and fixes/41 (a truncated 26-byte command is rejected) applied.
   No proofs here.

   Conventions: a latin-1 str is a list Z (one code point 0..255 per element); Python slicing is
   [slice]; `raise ValueError` is the outcome OValueError; results that Python cannot produce
   (fuel exhausted, an integer field of zero bytes where the code guarantees at least one) are the
   outcome OModelError, which the theorems exclude, never a normal-looking default.
   All literals come from Gen/AcmdTables.v (regenerated from the source on every run). *)
From DS Require Import Base.Prelude Base.Bits Gen.AcmdTables.

(* s[a:b] for 0 <= a <= b *)
Definition slice (a b : nat) (l : list Z) : list Z := firstn (b - a) (skipn a l).

(* utils.string_to_uint (little endian): int(bits, 2) of a non-empty string; int('', 2) raises *)
Definition uint_le (l : list Z) : option Z :=
  match l with [] => None | _ => Some (le_dec l) end.

(* utils.string_to_int (little endian): int.from_bytes(.., signed=True); b'' gives 0 *)
Definition int_le (l : list Z) : Z :=
  match l with [] => 0 | _ => to_signed (8 * Z.of_nat (length l)) (le_dec l) end.

Definition zmem (x : Z) (l : list Z) : bool := existsb (Z.eqb x) l.

Fixpoint zlookup {A} (k : Z) (t : list (Z * A)) : option A :=
  match t with
  | [] => None
  | (k', v) :: t' => if k =? k' then Some v else zlookup k t'
  end.

(* ---------------------------------------------------------------- framing state *)

Record fstate := mkF {
  f_msg : list Z;        (* self.msg *)
  f_len : Z;             (* self.msg_length *)
  f_cnt : option Z;      (* self.cmd_counter (None until the first message) *)
  f_num : Z              (* self.cmds_number *)
}.

Definition f_init : fstate := mkF [] 0 None 0.
Definition f_idle (last : option Z) : fstate := mkF [] 0 last 0.
Definition set_default (st : fstate) : fstate := mkF [] 0 (f_cnt st) 0.
Definition fidle (st : fstate) : Prop := f_msg st = [].
Definition fidleb (st : fstate) : bool := match f_msg st with [] => true | _ => false end.

Inductive outcome := OFalse | OTrue | OValueError | OModelError.

(* one command handed to a subsystem: subsystem id, command id, the command's bytes *)
Definition dispatch := (Z * Z * list Z)%type.

(* ---------------------------------------------------------------- _parse_commands *)

Inductive perr :=
| EIdField          (* unreachable: commands_string[:2] of a non-empty string *)
| ETruncated        (* fixes/41: fewer than 26 bytes left for a mode / parameter command *)
| ESeqField         (* int('', 2): program track header shorter than 17 bytes *)
| ETrack            (* 'Malformed program track sequence.' *)
| EUnknownCommand   (* 'Unknown command.' *)
| ESubField         (* int('', 2): command shorter than 3 bytes (unreachable after fixes/41) *)
| EDuplicate        (* 'More than one command for subsystem' *)
| ECount            (* 'Malformed message.' *)
| ENoMethod.        (* 'Command has invalid parameters.' (unknown subsystem / no such handler) *)

Inductive sresult := SOk (cmds : list (list Z)) | SErr (e : perr) | SFuel.

(* the while loop of _parse_commands; fuel = len(commands_string) *)
Fixpoint split (fuel : nat) (cs : list Z) (subs : list Z) (acc : list (list Z)) : sresult :=
  match cs with
  | [] => SOk (rev acc)
  | _ :: _ =>
    match fuel with
    | O => SFuel
    | S fuel' =>
      match uint_le (firstn 2 cs) with
      | None => SErr EIdField
      | Some cid =>
        let n := Z.of_nat (length cs) in
        let take (k : Z) : sresult :=
          let c := firstn (Z.to_nat k) cs in
          match uint_le (slice 2 4 c) with
          | None => SErr ESubField
          | Some sub =>
            if zmem sub subs then SErr EDuplicate
            else split fuel' (skipn (Z.to_nat k) cs) (subs ++ [sub]) (c :: acc)
          end in
        if (cid =? 1) || (cid =? 2) then
          if n <? cmd_len then SErr ETruncated else take cmd_len
        else if cid =? 4 then
          match uint_le (slice 16 18 (firstn (Z.to_nat pt_head) cs)) with
          | None => SErr ESeqField
          | Some sl =>
            let el := pt_head + sl * pt_entry in
            if n <? el then SErr ETrack else take el
          end
        else SErr EUnknownCommand
      end
    end
  end.

(* _get_method: None when the subsystem id is unknown or the subsystem has no such handler *)
Definition has_handler (sub cid : Z) : bool :=
  existsb (fun p : Z * Z => (fst p =? sub) && (snd p =? cid)) handlers.

Definition get_method (c : list Z) : option dispatch :=
  match uint_le (firstn 2 c), uint_le (slice 2 4 c) with
  | Some cid, Some sub => if has_handler sub cid then Some (sub, cid, c) else None
  | _, _ => None
  end.

Fixpoint resolve (cmds : list (list Z)) : option (list dispatch) :=
  match cmds with
  | [] => Some []
  | c :: cs =>
    match get_method c, resolve cs with
    | Some d, Some ds => Some (d :: ds)
    | _, _ => None
    end
  end.

Inductive cresult := COk (ds : list dispatch) | CErr (e : perr) | CFuel.

Definition commands_string (msg : list Z) : list Z := slice 16 (length msg - 4) msg.

Definition parse_commands (msg : list Z) : cresult :=
  let num := int_le (slice 12 16 msg) in
  let cs := commands_string msg in
  match split (length cs) cs [] [] with
  | SFuel => CFuel
  | SErr e => CErr e
  | SOk cmds =>
    if Z.of_nat (length cmds) =? num then
      match resolve cmds with
      | Some ds => COk ds
      | None => CErr ENoMethod
      end
    else CErr ECount
  end.

(* ---------------------------------------------------------------- parse *)

(* result: new framing state, what `parse` returned / raised, and [Some ds] exactly when
   _parse_commands returned normally, i.e. the message was executed (ds: the commands started,
   in order) *)
Definition parse (st : fstate) (b : Z) : fstate * outcome * option (list dispatch) :=
  let m0 := f_msg st ++ [b] in
  let n := Z.of_nat (length m0) in
  let m := if n <=? hdr_flag_len
           then (if zlist_eqb m0 (firstn (length m0) start_flag) then m0 else [])
           else m0 in
  match m with
  | [] => (mkF [] (f_len st) (f_cnt st) (f_num st), OFalse, None)
  | _ :: _ =>
    if n =? hdr_at_len then
      match uint_le (lastn 4 m) with
      | None => (st, OModelError, None)
      | Some l =>
        if l <? min_msg_length then (set_default st, OValueError, None)
        else (mkF m l (f_cnt st) (f_num st), OTrue, None)
      end
    else if n =? hdr_at_cnt then
      match uint_le (lastn 4 m) with
      | None => (st, OModelError, None)
      | Some c =>
        if option_eqb Z.eqb (Some c) (f_cnt st) then (set_default st, OValueError, None)
        else (mkF m (f_len st) (Some c) (f_num st), OTrue, None)
      end
    else if n =? hdr_at_num then
      (mkF m (f_len st) (f_cnt st) (int_le (lastn 4 m)), OTrue, None)
    else if (hdr_at_num <? n) && (n =? f_len st) then
      if zlist_eqb (lastn 4 m) end_flag then
        match parse_commands m with
        | COk ds => (set_default st, OTrue, Some ds)
        | CErr _ => (set_default st, OValueError, None)
        | CFuel => (set_default st, OModelError, None)
        end
      else (set_default st, OValueError, None)
    else (mkF m (f_len st) (f_cnt st) (f_num st), OTrue, None)
  end.

(* feeding a byte string: final state and the per-byte results *)
Fixpoint frun (st : fstate) (bs : list Z) : fstate * list (outcome * option (list dispatch)) :=
  match bs with
  | [] => (st, [])
  | b :: bs' =>
    let '(st1, o, d) := parse st b in
    let '(st2, r) := frun st1 bs' in
    (st2, (o, d) :: r)
  end.

Definition fstate_of (st : fstate) (bs : list Z) : fstate := fst (frun st bs).
