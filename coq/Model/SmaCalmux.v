(* Executable model of simulators/calmux/__init__.py  System.parse(byte).  No proofs here.
   Framing: first byte must be a key of `commands` (I C ? F), line ends at \n or \r, at most 7
   characters (a non-terminator as 7th character resets and raises ValueError).
   Device: current_channel, polarities[17], calon[17] (only calon[slow_channel = 16] is ever
   written).  time.sleep in _get_frequency is not modelled (no state, no reply content). *)
From DS Require Import Base.Prelude Model.SmaCommon.

Definition cm_ack : list Z := [97; 99; 107; 10].     (* 'ack\n' *)
Definition cm_nak : list Z := [110; 97; 107; 10].    (* 'nak\n' *)
Definition cm_freq_reply : list Z := [48; 32; 48; 32; 48].   (* '0 0 0' (no terminator) *)

Inductive cm_cmd := CmI | CmC | CmQ | CmF.

(* self.commands.get(args[0]) : keys 'I' 'C' '?' 'F' *)
Definition cm_lookup (tok : list Z) : option cm_cmd :=
  match tok with
  | [73] => Some CmI
  | [67] => Some CmC
  | [63] => Some CmQ
  | [70] => Some CmF
  | _ => None
  end.

Definition cm_is_hdr (b : Z) : bool := (b =? 73) || (b =? 67) || (b =? 63) || (b =? 70).
Definition cm_is_tail (b : Z) : bool := (b =? 10) || (b =? 13).

Definition cm_fcfg : fcfg :=
  {| is_hdr := cm_is_hdr; is_tail := cm_is_tail; maxlen := 7; body := fun m => removelast m |}.

Definition cm_max_channels : Z := 17.
Definition cm_slow_channel : Z := 16.
Definition cm_max_period : Z := 5000.

Record cdev := { cur : Z; pol : list Z; calon : list Z }.

Definition cm_dev0 : cdev :=
  {| cur := cm_slow_channel; pol := repeat 0 17; calon := repeat 0 17 |}.

Definition in01 (v : Z) : bool := (v =? 0) || (v =? 1).
Definition in_range (n v : Z) : bool := (0 <=? v) && (v <? n).

Definition cm_set_input (d : cdev) (params : list Z) : cdev * outcome :=
  match params with
  | [channel; polarity] =>
      if negb (in_range cm_max_channels channel) then (d, OReply cm_nak)
      else if negb (in01 polarity) then (d, OReply cm_nak)
      else match set_nth (Z.to_nat channel) polarity (pol d) with
           | None => ({| cur := channel; pol := pol d; calon := calon d |}, OException)
           | Some p => ({| cur := channel; pol := p; calon := calon d |}, OReply cm_ack)
           end
  | _ => (d, OReply cm_nak)
  end.

Definition cm_set_calibration (d : cdev) (params : list Z) : cdev * outcome :=
  match params with
  | [v] =>
      if negb (in01 v) then (d, OReply cm_nak)
      else match set_nth (Z.to_nat cm_slow_channel) v (calon d) with
           | None => (d, OException)
           | Some c => ({| cur := cur d; pol := pol d; calon := c |}, OReply cm_ack)
           end
  | _ => (d, OReply cm_nak)
  end.

(* Python list indexing with an int index: negative indices count from the end *)
Definition py_nth (l : list Z) (i : Z) : option Z :=
  if 0 <=? i then nth_error l (Z.to_nat i)
  else if 0 <=? Z.of_nat (length l) + i then nth_error l (Z.to_nat (Z.of_nat (length l) + i))
  else None.

Definition cm_status_reply (c p k : Z) : list Z :=
  render_int c ++ [32] ++ render_int p ++ [32] ++ render_int k ++ [10].

Definition cm_get_status (d : cdev) (params : list Z) : cdev * outcome :=
  match params with
  | [] =>
      match py_nth (pol d) (cur d), py_nth (calon d) (cur d) with
      | Some p, Some k => (d, OReply (cm_status_reply (cur d) p k))
      | _, _ => (d, OException)
      end
  | _ => (d, OReply cm_nak)
  end.

Definition cm_get_frequency (d : cdev) (params : list Z) : cdev * outcome :=
  match params with
  | [period] =>
      if (period <? 0) || (cm_max_period <? period) then (d, OReply cm_nak)
      else (d, OReply cm_freq_reply)
  | _ => (d, OReply cm_nak)
  end.

(* _execute(msg), split in tokenisation and dispatch *)
Definition cm_tokens (msg : list Z) : list (list Z) := map strip (split_on 32 msg).

Definition cm_handle (c : cm_cmd) (d : cdev) (params : list Z) : cdev * outcome :=
  match c with
  | CmI => cm_set_input d params
  | CmC => cm_set_calibration d params
  | CmQ => cm_get_status d params
  | CmF => cm_get_frequency d params
  end.

Definition cm_exec (d : cdev) (msg : list Z) : cdev * outcome :=
  match cm_tokens msg with
  | [] => (d, OException)                        (* unreachable: split never returns [] *)
  | a0 :: rest =>
      match cm_lookup a0 with
      | None => (d, OException)                  (* getattr(self, None): TypeError *)
      | Some c =>
          match map_opt parse_int rest with
          | None => (d, OReply cm_nak)
          | Some params => cm_handle c d params
          end
      end
  end.

Definition cm_state := sstate cdev.
Definition cm_init : cm_state := {| buf := []; dev := cm_dev0 |}.
Definition cm_step : cm_state -> Z -> cm_state * outcome := sstep (fstep cm_fcfg) cm_exec.
Definition cm_run : cm_state -> list Z -> cm_state * list outcome := srun (fstep cm_fcfg) cm_exec.
Definition cm_idle : cm_state -> bool := sidle.

