(* Shared pieces of the four small text-protocol simulator models (IFD, IFD_14_channels, calmux,
   gaia): parse outcomes, Python str helpers on code-point lists, int(str) / str(int), and the
   bounded line framer that IFD, IFD_14 and calmux share.  No proofs here. *)
From DS Require Import Base.Prelude.

(* What System.parse(byte) can do, as ListenHandler._handle classifies it. *)
Inductive outcome :=
| OFalse | OTrue
| OReply (s : list Z)      (* a non-empty str *)
| OEmpty                   (* the empty str '' *)
| ONone                    (* None *)
| OValueError              (* raise ValueError *)
| OException               (* any other exception (IndexError, TypeError, ...) *)
| ONoOracle.               (* model only: the case's oracle table lacks a needed entry *)

Definition outcome_eqb (a b : outcome) : bool :=
  match a, b with
  | OFalse, OFalse | OTrue, OTrue | OEmpty, OEmpty | ONone, ONone
  | OValueError, OValueError | OException, OException | ONoOracle, ONoOracle => true
  | OReply x, OReply y => zlist_eqb x y
  | _, _ => false
  end.

(* ---- str helpers (code points 0..255) ---- *)

(* str.isspace() for a single code point below 256 *)
Definition is_ws (c : Z) : bool :=
  ((9 <=? c) && (c <=? 13)) || ((28 <=? c) && (c <=? 32)) || (c =? 133) || (c =? 160).

Fixpoint lstrip (l : list Z) : list Z :=
  match l with
  | c :: r => if is_ws c then lstrip r else l
  | [] => []
  end.
Definition rstrip (l : list Z) : list Z := rev (lstrip (rev l)).
Definition strip (l : list Z) : list Z := rstrip (lstrip l).      (* s.strip() *)

(* s.lstrip(ch) / s.rstrip(ch) for a one-character argument *)
Fixpoint lstrip_ch (ch : Z) (l : list Z) : list Z :=
  match l with
  | c :: r => if c =? ch then lstrip_ch ch r else l
  | [] => []
  end.
Definition rstrip_ch (ch : Z) (l : list Z) : list Z := rev (lstrip_ch ch (rev l)).

(* s.split(sep) for a one-character separator: every separator splits, empty items are kept,
   the result is never empty *)
Fixpoint split_on (sep : Z) (l : list Z) : list (list Z) :=
  match l with
  | [] => [[]]
  | c :: r =>
      if c =? sep then [] :: split_on sep r
      else match split_on sep r with
           | tok :: toks => (c :: tok) :: toks
           | [] => [[c]]          (* unreachable: split_on never returns [] *)
           end
  end.

(* s.split(): maximal runs of non-whitespace *)
Fixpoint split_ws_aux (cur : list Z) (l : list Z) : list (list Z) :=
  match l with
  | [] => match cur with [] => [] | _ => [rev cur] end
  | c :: r =>
      if is_ws c then match cur with [] => split_ws_aux [] r | _ => rev cur :: split_ws_aux [] r end
      else split_ws_aux (c :: cur) r
  end.
Definition split_ws (l : list Z) : list (list Z) := split_ws_aux [] l.

Definition mem (c : Z) (l : list Z) : bool := existsb (Z.eqb c) l.      (* ch in s *)

Fixpoint join (sep : list Z) (items : list (list Z)) : list Z :=
  match items with
  | [] => []
  | [x] => x
  | x :: r => x ++ sep ++ join sep r
  end.

(* ---- int(tok) for a token without leading/trailing whitespace ----
   Python accepts: optional sign, then decimal digits 0-9 with single underscores between
   digits.  Anything else (empty, other characters, interior whitespace, leading/trailing or
   doubled underscore) raises ValueError = None.  More than 4300 digits raise ValueError too
   (sys.get_int_max_str_digits()). *)
Definition is_digit (c : Z) : bool := (48 <=? c) && (c <=? 57).

(* state: acc value, number of digits, whether the previous character was a digit *)
Fixpoint parse_digits (l : list Z) (acc : Z) (n : Z) (prev_digit : bool) : option (Z * Z) :=
  match l with
  | [] => if prev_digit then Some (acc, n) else None
  | c :: r =>
      if is_digit c then parse_digits r (10 * acc + (c - 48)) (n + 1) true
      else if (c =? 95) && prev_digit then parse_digits r acc n false
      else None
  end.

Definition max_str_digits : Z := 4300.

Definition parse_unsigned (l : list Z) : option Z :=
  match parse_digits l 0 0 false with
  | Some (v, n) => if max_str_digits <? n then None else Some v
  | None => None
  end.

Definition parse_int (tok : list Z) : option Z :=
  match tok with
  | 43 :: r => parse_unsigned r
  | 45 :: r => option_map Z.opp (parse_unsigned r)
  | _ => parse_unsigned tok
  end.

(* ---- str(int) ---- *)
Fixpoint digits_fuel (fuel : nat) (n : Z) (acc : list Z) : list Z :=
  match fuel with
  | O => acc
  | S f => let acc' := (48 + n mod 10) :: acc in
           if n <? 10 then acc' else digits_fuel f (n / 10) acc'
  end.
Definition render_nat (n : Z) : list Z := digits_fuel (S (Z.to_nat (Z.log2 n))) n [].
Definition render_int (z : Z) : list Z :=
  if z <? 0 then 45 :: render_nat (- z) else render_nat z.

(* parse a list of tokens with the same converter; first failure wins *)
Fixpoint map_opt {A B} (f : A -> option B) (l : list A) : option (list B) :=
  match l with
  | [] => Some []
  | x :: r => match f x with
              | None => None
              | Some y => option_map (cons y) (map_opt f r)
              end
  end.

(* list update, None when out of range (an IndexError in Python) *)
Fixpoint set_nth {A} (n : nat) (v : A) (l : list A) : option (list A) :=
  match n, l with
  | O, _ :: r => Some (v :: r)
  | S k, x :: r => option_map (cons x) (set_nth k v r)
  | _, [] => None
  end.

(* ---- the bounded line framer of IFD / IFD_14 / calmux ----
   parse(byte):  self.msg += byte
                 if len == 1:  header? True : (reset, False)
                 elif len < max: not tail -> True
                 elif len == max: not tail -> reset, raise ValueError
                 (fall through) complete: reset, execute *)
Record fcfg := {
  is_hdr : Z -> bool;
  is_tail : Z -> bool;
  maxlen : Z;
  body : list Z -> list Z      (* what is handed to _execute: msg[:-1] or msg[1:-1] *)
}.

Inductive fevent :=
| EOut (o : outcome)           (* parse returned / raised without executing *)
| EExec (m : list Z).          (* a complete line was handed to _execute *)

Definition fstep (c : fcfg) (buf : list Z) (b : Z) : list Z * fevent :=
  let m := buf ++ [b] in
  let n := Z.of_nat (length m) in
  if n =? 1 then
    if is_hdr c b then (m, EOut OTrue) else ([], EOut OFalse)
  else if (n <? maxlen c) && negb (is_tail c b) then (m, EOut OTrue)
  else if (n =? maxlen c) && negb (is_tail c b) then ([], EOut OValueError)
  else ([], EExec (body c m)).

(* a simulator built from a framer and an _execute function on a device state *)
Record sstate (D : Type) := { buf : list Z; dev : D }.
Arguments buf {D}. Arguments dev {D}. Arguments Build_sstate {D}.

Section Sim.
  Context {D : Type}.
  Variable fstep_ : list Z -> Z -> list Z * fevent.
  Variable exec : D -> list Z -> D * outcome.

  Definition sstep (s : sstate D) (b : Z) : sstate D * outcome :=
    match fstep_ (buf s) b with
    | (buf', EOut o) => (Build_sstate buf' (dev s), o)
    | (buf', EExec m) => let (d', o) := exec (dev s) m in (Build_sstate buf' d', o)
    end.

  Fixpoint srun (s : sstate D) (bs : list Z) : sstate D * list outcome :=
    match bs with
    | [] => (s, [])
    | b :: r => let (s1, o) := sstep s b in
                let (s2, os) := srun s1 r in (s2, o :: os)
    end.

  Definition sidle (s : sstate D) : bool := match buf s with [] => true | _ => false end.
End Sim.

(* the pure framer run (no device): buffer and event per byte *)
Fixpoint frun (fs : list Z -> Z -> list Z * fevent) (buf0 : list Z) (bs : list Z)
  : list Z * list fevent :=
  match bs with
  | [] => (buf0, [])
  | b :: r => let (b1, e) := fs buf0 b in
              let (b2, es) := frun fs b1 r in (b2, e :: es)
  end.

Definition ascii_nl : Z := 10.
Definition ascii_cr : Z := 13.
Definition ascii_sp : Z := 32.
