(* Executable model of simulators/solar_attenuator/__init__.py : System.parse(byte).

   parse: '\n' -> msg, self.msg = '' ; return self._parse(msg)   | else buffer, return True
   _parse: for command in msg.split(';'): args = command.split(); fewer than 2 tokens -> skip;
           cmd_name = commands.get(args[0] + ' ' + args[1]); method = getattr(self, cmd_name)
           (an unknown name gives getattr(self, None) -> TypeError, AFTER the commands before it
           on the same line have been executed); answer += method() + ';'
           return answer[:-1] if answer else True
   Device state: mode (str), home (int).  cal_temp is never read or written by a command. *)
From DS Require Import Base.Prelude Model.SmbCommon.
From Coq Require String.

Module SolarLit.
  Import String.
  Local Open Scope string_scope.
  Definition SET_HOME : list Z := Eval cbv in str "set W_home".
  Definition SET_ATTN : list Z := Eval cbv in str "set W_solar_attn".
  Definition SET_CAL : list Z := Eval cbv in str "set W_cal".
  Definition SET_PASS : list Z := Eval cbv in str "set W_passthrough".
  Definition GET_MODE : list Z := Eval cbv in str "get W_mode".
  Definition ATTENUATOR : list Z := Eval cbv in str "Attenuator".
  Definition CALIBRATOR : list Z := Eval cbv in str "Calibrator".
  Definition PASSTHROUGH : list Z := Eval cbv in str "Pass-through".
End SolarLit.
Export SolarLit.

Record sdev := mkS { mode : list Z; home : Z }.

Definition solar_init : sdev := mkS [] 1.

Inductive scmd := SHome | SAttn | SCal | SPass | SGetMode.

(* the `commands` dictionary *)
Definition solar_lookup (name : list Z) : option scmd :=
  if zlist_eqb name SET_HOME then Some SHome
  else if zlist_eqb name SET_ATTN then Some SAttn
  else if zlist_eqb name SET_CAL then Some SCal
  else if zlist_eqb name SET_PASS then Some SPass
  else if zlist_eqb name GET_MODE then Some SGetMode
  else None.

(* the five methods: new device state and the returned string *)
Definition solar_apply (d : sdev) (c : scmd) : sdev * list Z :=
  match c with
  | SHome => (mkS (mode d) 1, ACK ++ CRLF)
  | SAttn => (mkS ATTENUATOR (home d), ACK ++ CRLF)
  | SCal => (mkS CALIBRATOR (home d), ACK ++ CRLF)
  | SPass => (mkS PASSTHROUGH (home d), ACK ++ CRLF)
  | SGetMode => (d, mode d ++ CRLF)
  end.

(* args[0] + ' ' + args[1] of a command with at least two tokens *)
Definition cmd_name2 (args : list (list Z)) : option (list Z) :=
  match args with
  | a0 :: a1 :: _ => Some (a0 ++ [SP] ++ a1)
  | _ => None
  end.

Fixpoint solar_cmds (d : sdev) (items : list (list Z)) (cmds : list (list Z)) : sdev * outcome :=
  match cmds with
  | [] => (d, if nonempty items then OReply (join_semi items) else OTrue)
  | c :: r =>
      match cmd_name2 (split_ws c) with
      | None => solar_cmds d items r
      | Some name =>
          match solar_lookup name with
          | None => (d, OException TypeError)
          | Some k => let a := solar_apply d k in solar_cmds (fst a) (items ++ [snd a]) r
          end
      end
  end.

Definition solar_exec (d : sdev) (msg : list Z) : sdev * outcome :=
  solar_cmds d [] (split_on SEMI msg).

Definition solar_state := @lstate sdev.
Definition solar_start : solar_state := mkL [] solar_init.
Definition solar_step := lstep solar_exec.
Definition solar_run := lrun solar_exec.
Definition solar_idle : solar_state -> bool := lidle.

(* ---------------------------------------------------------------- specification-side definitions *)
Definition solar_modes : list (list Z) := [[]; ATTENUATOR; CALIBRATOR; PASSTHROUGH].

(* C04: independent decoder of a reply: ';'-separated items, each `ACK` or a mode name (possibly
   empty) followed by CR LF *)
Definition solar_item_okb (i : list Z) : bool :=
  existsb (zlist_eqb i) (map (fun m => m ++ CRLF) (ACK :: solar_modes)).
Definition solar_reply_wfb (r : list Z) : bool := forallb solar_item_okb (split_on SEMI r).

(* C05: the register catalogue: mode is written by three value-less commands and read by get W_mode *)
Definition solar_mode_writes : list (list Z * list Z) :=
  [(SET_ATTN, ATTENUATOR); (SET_CAL, CALIBRATOR); (SET_PASS, PASSTHROUGH)].

Definition solar_cmd_writes_mode (c : list Z) : bool :=
  match cmd_name2 (split_ws c) with
  | Some n => match solar_lookup n with
              | Some SAttn | Some SCal | Some SPass => true
              | _ => false
              end
  | None => false
  end.
Definition solar_line_writes_mode (l : list Z) : bool :=
  existsb solar_cmd_writes_mode (split_on SEMI l).

(* C02: the query catalogue (lines, without the final LF) *)
Definition solar_queries : list (list Z) := [GET_MODE ++ [CR]; GET_MODE].
