(* Minor-servo PLC simulator (tag Msv) — executable model of simulators/minor_servos/__init__.py
   WITH the proposed fixes 18 (PRESET validated before side effects), 19 (non-finite rejected)
   and 20 (SETUP passes a copy of the table row; the table is never written).  No proofs here.

   The model is generic in the number type T: every arithmetic operation the code performs on
   Python floats goes through a [numops T] record, in the order the code performs it.
     * instance on Flocq binary64 (Model/MsvFloat.v): bit-exact, used by the correspondence;
     * instance on the reals (Proofs/MsvKin.v): the ideal arithmetic the kinematic theorems
       (limits, speed bound, arrival) are proved for.
   Structural theorems (atomicity of refused commands, SETUP '*' cells, operative-mode
   sequence, framing) are proved for every instance, hence for the bit-exact one.

   Python builtins that are not repo code are oracles carried in [oracles T]:
   float(tok), int(tok), f'{x:.6f}'.  random.uniform draws, the spline values of splev and the
   acceptance of a PROGRAMTRACK point by the (unmodelled) trajectory bookkeeping are inputs of the
   environment record [env T] that accompanies every command.  Time is explicit: [e_now] is what
   time.time() returns during the command; timers live on an integer tick clock [e_tick]. *)
From DS Require Import Base.Prelude Model.MsvTypes.
From Coq Require Import String Ascii DecimalString.

Record numops (T : Type) := {
  nadd : T -> T -> T;
  nsub : T -> T -> T;
  nmul : T -> T -> T;
  nlt : T -> T -> bool;        (* Python a < b *)
  neqb : T -> T -> bool;       (* Python a == b *)
  nabs : T -> T;
  nsign : T -> T;              (* numpy.sign on float64 *)
  nfinite : T -> bool;         (* math.isfinite *)
  nzero : T;                   (* the int 0 of the initial lists (behaves as +0.0) *)
  nofZ : Z -> T }.             (* float(int): int operands of mixed int/float arithmetic *)
Arguments nadd {T}. Arguments nsub {T}. Arguments nmul {T}. Arguments nlt {T}. Arguments neqb {T}.
Arguments nabs {T}. Arguments nsign {T}. Arguments nfinite {T}. Arguments nzero {T}. Arguments nofZ {T}.

Record oracles (T : Type) := {
  pyfloat : list Z -> option T;     (* float(tok); None = ValueError *)
  pyint : list Z -> option Z;       (* int(tok);   None = ValueError *)
  fmt6 : T -> list Z }.             (* f'{x:.6f}' *)
Arguments pyfloat {T}. Arguments pyint {T}. Arguments fmt6 {T}.

Record sconf (T : Type) := mk_sconf {
  sc_name : list Z; sc_dof : nat; sc_pt : bool;
  sc_min : list T; sc_max : list T; sc_delta : list T; sc_layout : list piece }.
Arguments sc_name {T}. Arguments sc_dof {T}. Arguments sc_pt {T}. Arguments sc_min {T}.
Arguments sc_max {T}. Arguments sc_delta {T}. Arguments sc_layout {T}. Arguments mk_sconf {T}.

Record trow (T : Type) := mk_trow {
  tr_name : list Z; tr_id : Z; tr_rows : list (list (option T)); tr_cap : option Z }.
Arguments tr_name {T}. Arguments tr_id {T}. Arguments tr_rows {T}. Arguments tr_cap {T}.
Arguments mk_trow {T}.

Record cfg (T : Type) := mk_cfg {
  c_servos : list (sconf T);
  c_table : list (trow T);
  c_sys_layout : list piece;
  c_commands : list (list Z * list Z);   (* System.commands *)
  c_bad : list Z; c_good_prefix : list Z;
  c_timer : Z;                            (* timer_value, in clock ticks *)
  c_gap : T;                              (* program_track_timegap *)
  c_start_check : bool }.                 (* _programTrack refuses a non-finite explicit start time *)
Arguments c_servos {T}. Arguments c_table {T}. Arguments c_sys_layout {T}. Arguments c_commands {T}.
Arguments c_bad {T}. Arguments c_good_prefix {T}. Arguments c_timer {T}. Arguments c_gap {T}. Arguments c_start_check {T}. Arguments mk_cfg {T}.

(* program-track bookkeeping of a servo: what _programTrack maintains and get_status reads *)
Record trk (T : Type) := mk_trk {
  tk_id : option Z;            (* trajectory_id *)
  tk_start : option T;         (* trajectory_start_time *)
  tk_pid : option Z;           (* trajectory_point_id *)
  tk_times : list T;           (* trajectory[0]: the times of the loaded points *)
  tk_pt : bool }.              (* pt_table is non-empty (a spline has been computed) *)
Arguments tk_id {T}. Arguments tk_start {T}. Arguments tk_pid {T}. Arguments tk_times {T}.
Arguments tk_pt {T}. Arguments mk_trk {T}.

Record servo (T : Type) := mk_servo {
  sv_mode : Z;                 (* operative_mode.value *)
  sv_future : Z;               (* future_oper_mode *)
  sv_coords : list T;
  sv_cmd : list T;             (* cmd_coords *)
  sv_offs : list T;
  sv_last : T;                 (* last_status_read *)
  sv_timer : option (Z * Z);   (* pending operative_mode_timer: (fire tick, mode to set) *)
  sv_alias : bool;             (* cmd_coords IS the list object coords (after a STOP/STOW refresh) *)
  sv_trk : trk T }.
Arguments sv_mode {T}. Arguments sv_future {T}. Arguments sv_coords {T}. Arguments sv_cmd {T}.
Arguments sv_offs {T}. Arguments sv_last {T}. Arguments sv_timer {T}. Arguments sv_alias {T}.
Arguments sv_trk {T}.
Arguments mk_servo {T}.

Record sys (T : Type) := mk_sys {
  s_msg : list Z;              (* receive buffer *)
  s_conf : Z;                  (* configuration *)
  s_gcap : Z;                  (* gregorian_cap.value *)
  s_cover : option (Z * Z);    (* pending cover_timer *)
  s_last : option T;           (* last_executed_command: None = the int 0, Some t = plc_time(t) *)
  s_servos : list (servo T) }.
Arguments s_msg {T}. Arguments s_conf {T}. Arguments s_gcap {T}. Arguments s_cover {T}.
Arguments s_last {T}. Arguments s_servos {T}. Arguments mk_sys {T}.

Record env (T : Type) := mk_env {
  e_tick : Z;                  (* virtual clock, integer ticks (timers) *)
  e_now : T;                   (* time.time() *)
  e_draws : list T;            (* random.uniform results, in call order *)
  e_spl : list T;              (* splev(now, pt_table[i]) for i < DOF (read only when the model calls splev) *)
  e_pt_ok : bool }.            (* scipy splrep returns (does not raise) on the trajectory of this command *)
Arguments e_tick {T}. Arguments e_now {T}. Arguments e_draws {T}. Arguments e_spl {T}.
Arguments e_pt_ok {T}. Arguments mk_env {T}.

Inductive outcome := OTrue | OReply (r : list Z) | OExc.

(* ------------------------------------------------------------------------------------------ *)
(* strings *)

Definition zs (s : string) : list Z := map (fun a => Z.of_N (N_of_ascii a)) (list_ascii_of_string s).
Definition dec (z : Z) : list Z := zs (NilZero.string_of_int (Z.to_int z)).

(* str.strip() on code points 0..255: \t \n \v \f \r, FS GS RS US, space, NEL, NBSP *)
Definition is_ws (c : Z) : bool :=
  ((9 <=? c) && (c <=? 13)) || ((28 <=? c) && (c <=? 32)) || (c =? 133) || (c =? 160).
Fixpoint lstrip (l : list Z) : list Z :=
  match l with c :: r => if is_ws c then lstrip r else l | [] => [] end.
Definition strip (l : list Z) : list Z := rev (lstrip (rev (lstrip l))).

(* re.split('=|,', msg) *)
Fixpoint split_eqc (acc l : list Z) : list (list Z) :=
  match l with
  | [] => [rev acc]
  | c :: r => if (c =? 61) || (c =? 44) then rev acc :: split_eqc [] r else split_eqc (c :: acc) r
  end.
Definition tokens (msg : list Z) : list (list Z) := map strip (split_eqc [] msg).

Fixpoint ends_crlf (l : list Z) : bool :=
  match l with
  | [a; b] => (a =? 13) && (b =? 10)
  | _ :: r => ends_crlf r
  | [] => false
  end.

Fixpoint assoc {A} (k : list Z) (l : list (list Z * A)) : option A :=
  match l with
  | [] => None
  | (k', v) :: r => if zlist_eqb k k' then Some v else assoc k r
  end.

(* ------------------------------------------------------------------------------------------ *)
Section Model.
Context {T : Type} (ops : numops T) (orc : oracles T) (cf : cfg T).

Definition init_servo (sc : sconf T) : servo T :=
  let z := repeat (nzero ops) (sc_dof sc) in mk_servo 0 0 z z z (nzero ops) None false (mk_trk None None None [] false).
Definition init_sys : sys T := mk_sys [] 0 1 None None (map init_servo (c_servos cf)).

(* index of a servo by name: `servo_id in self.servos` / self.servos.get(servo_id) *)
Fixpoint find_servo (k : list Z) (i : nat) (l : list (sconf T)) : option (nat * sconf T) :=
  match l with
  | [] => None
  | sc :: r => if zlist_eqb k (sc_name sc) then Some (i, sc) else find_servo k (S i) r
  end.
Fixpoint find_row (k : list Z) (l : list (trow T)) : option (trow T) :=
  match l with
  | [] => None
  | r :: l' => if zlist_eqb k (tr_name r) then Some r else find_row k l'
  end.

Fixpoint upd {A} (i : nat) (x : A) (l : list A) : list A :=
  match l, i with
  | [], _ => []
  | _ :: r, O => x :: r
  | y :: r, S j => y :: upd j x r
  end.

Definition set_servo (s : sys T) (i : nat) (sv : servo T) : sys T :=
  mk_sys (s_msg s) (s_conf s) (s_gcap s) (s_cover s) (s_last s) (upd i sv (s_servos s)).
Definition set_last (s : sys T) (t : T) : sys T :=
  mk_sys (s_msg s) (s_conf s) (s_gcap s) (s_cover s) (Some t) (s_servos s).
Definition set_msg (s : sys T) (m : list Z) : sys T :=
  mk_sys m (s_conf s) (s_gcap s) (s_cover s) (s_last s) (s_servos s).

(* good(now) = 'OUTPUT:GOOD,' + f'{now:.6f}' *)
Definition good (e : env T) : list Z := c_good_prefix cf ++ fmt6 orc (e_now e).

(* ---- Servo.set_coords (fixed: non-finite refused; the caller passes a copy) --------------- *)
Inductive scres := SOk (l : list T) | SRefused | SError.
Definition cons_res (x : T) (r : scres) : scres :=
  match r with SOk l => SOk (x :: l) | _ => r end.

Fixpoint sc_loop (apply : bool) (sc : sconf T) (cmd offs : list T) (i : nat) (vals : list (option T)) : scres :=
  match vals with
  | [] => SOk []
  | None :: vs =>
      match nth_error cmd i with
      | None => SError
      | Some c => cons_res c (sc_loop apply sc cmd offs (S i) vs)
      end
  | Some x :: vs =>
      match (if apply then option_map (nadd ops x) (nth_error offs i) else Some x) with
      | None => SError
      | Some v =>
          if negb (nfinite ops v) then SRefused else
          match nth_error (sc_min sc) i, nth_error (sc_max sc) i with
          | Some lo, Some hi =>
              if nlt ops v lo || nlt ops hi v then SRefused else cons_res v (sc_loop apply sc cmd offs (S i) vs)
          | _, _ => SError
          end
      end
  end.

Definition commit_coords (sv : servo T) (l : list T) (fm : Z) : servo T :=
  mk_servo (sv_mode sv) fm (sv_coords sv) l (sv_offs sv) (sv_last sv) (sv_timer sv) false (sv_trk sv).

(* returns the servo and: Some true / Some false (the bool result), None = IndexError *)
Definition set_coords (sc : sconf T) (sv : servo T) (vals : list (option T)) (fm : Z) (apply : bool)
  : servo T * option bool :=
  match sc_loop apply sc (sv_cmd sv) (sv_offs sv) 0 vals with
  | SOk l => (commit_coords sv l fm, Some true)
  | SRefused => (sv, Some false)
  | SError => (sv, None)
  end.

(* operative_mode_timer.cancel(); operative_mode.value = m *)
Definition cancel_set_mode (sv : servo T) (m : Z) : servo T :=
  mk_servo m (sv_future sv) (sv_coords sv) (sv_cmd sv) (sv_offs sv) (sv_last sv) None (sv_alias sv) (sv_trk sv).

(* ---- Servo.get_status: the motion step ------------------------------------------------------ *)
Definition move1 (m dt coord target : T) : T :=
  let d := nsub ops target coord in
  let dir := nsign ops d in
  let ad := nabs ops d in
  let lim := nmul ops m dt in
  let st := if nlt ops ad lim then ad else lim in        (* min(lim, ad) *)
  nadd ops coord (nmul ops dir st).

Definition clamp (lo hi c : T) : T :=
  let c1 := if nlt ops c lo then lo else c in            (* max(c, lo) *)
  if nlt ops hi c1 then hi else c1.                      (* min(c1, hi) *)

Fixpoint move_all (dt : T) (ms coords targets : list T) : list T :=
  match ms, coords, targets with
  | m :: ms', c :: cs', t :: ts' => move1 m dt c t :: move_all dt ms' cs' ts'
  | _, _, _ => []
  end.

Fixpoint clamp_all (los his cs : list T) : list T :=
  match los, his, cs with
  | lo :: l', hi :: h', c :: c' => clamp lo hi c :: clamp_all l' h' c'
  | _, _, _ => []
  end.

Fixpoint list_eq (a b : list T) : bool :=
  match a, b with
  | [], [] => true
  | x :: a', y :: b' => neqb ops x y && list_eq a' b'
  | _, _ => false
  end.

(* `a >= b` of Python *)
Definition nge (a b : T) : bool := nlt ops b a || neqb ops a b.

Definition no_trk : trk T := mk_trk None None None [] false.

(* get_status raises IndexError: operative mode 50, a spline table is loaded, but trajectory[0] is
   empty (`self.trajectory[0][0]`) *)
Definition gs_raises (sv : servo T) : bool :=
  (sv_mode sv =? 50) && tk_pt (sv_trk sv) && match tk_times (sv_trk sv) with [] => true | _ => false end.

(* the code calls splev (and moves): mode 50, table loaded, now >= first time *)
Definition gs_tracks (e : env T) (sv : servo T) : bool :=
  (sv_mode sv =? 50) && tk_pt (sv_trk sv) &&
  match tk_times (sv_trk sv) with [] => false | first :: _ => nge (e_now e) first end.

(* total: when [gs_raises] holds the result is the state the exception leaves behind
   (last_status_read already updated) *)
Definition get_status (sc : sconf T) (e : env T) (sv : servo T) : servo T :=
  let dt := nsub ops (e_now e) (sv_last sv) in
  let now := e_now e in
  let mode := sv_mode sv in
  let tk := sv_trk sv in
  if mode =? 50 then
    match tk_pt tk, tk_times tk with
    | true, first :: rest =>
        let lastt := last rest first in
        (* the spline values are the oracle inputs [e_spl]: used when exactly DOF are supplied *)
        let moves := nge now first && (List.length (e_spl e) =? sc_dof sc)%nat && negb (sc_dof sc =? 0)%nat in
        let cs := if moves
                  then move_all dt (sc_delta sc) (sv_coords sv) (clamp_all (sc_min sc) (sc_max sc) (e_spl e))
                  else sv_coords sv in
        (* in-place update of self.coords: an aliased cmd_coords follows *)
        let cmd := if moves && sv_alias sv then cs else sv_cmd sv in
        (* now > last_time: the trajectory is over, everything is reset (the mode stays 50) *)
        let tk' := if nlt ops lastt now then no_trk else tk in
        mk_servo mode (sv_future sv) cs cmd (sv_offs sv) now (sv_timer sv) (sv_alias sv) tk'
    | _, _ =>
        mk_servo mode (sv_future sv) (sv_coords sv) (sv_cmd sv) (sv_offs sv) now (sv_timer sv) (sv_alias sv) tk
    end
  else if (mode =? 20) || (mode =? 30) then
    mk_servo mode (sv_future sv) (sv_coords sv) (sv_coords sv) (sv_offs sv) now (sv_timer sv) true tk
  else if negb (list_eq (sv_coords sv) (sv_cmd sv)) || negb (sv_future sv =? 0) then
    let cs := move_all dt (sc_delta sc) (sv_coords sv) (sv_cmd sv) in
    if list_eq cs (sv_cmd sv)
    then mk_servo (sv_future sv) 0 cs (sv_cmd sv) (sv_offs sv) now (sv_timer sv) false tk
    else mk_servo mode (sv_future sv) cs (sv_cmd sv) (sv_offs sv) now (sv_timer sv) false tk
  else mk_servo mode (sv_future sv) (sv_coords sv) (sv_cmd sv) (sv_offs sv) now (sv_timer sv) (sv_alias sv) tk.

(* ---- rendering ------------------------------------------------------------------------------- *)
(* pieces of a servo status line; [mode] is the operative mode read before the motion step,
   [sv] the servo after it.  None = IndexError (cannot happen under the generated layouts). *)
Fixpoint render_servo (ps : list piece) (mode : Z) (sv : servo T) (draws : list T) : option (list Z) :=
  match ps with
  | [] => Some []
  | p :: ps' =>
      match p with
      | PLit s => option_map (app s) (render_servo ps' mode sv draws)
      | PMode => option_map (app (dec mode)) (render_servo ps' mode sv draws)
      | PRnd => match draws with
                | d :: ds => option_map (app (fmt6 orc d)) (render_servo ps' mode sv ds)
                | [] => None
                end
      | PCoord i => match nth_error (sv_coords sv) i with
                    | Some c => option_map (app (fmt6 orc c)) (render_servo ps' mode sv draws)
                    | None => None
                    end
      | POffs i => match nth_error (sv_offs sv) i with
                   | Some c => option_map (app (fmt6 orc c)) (render_servo ps' mode sv draws)
                   | None => None
                   end
      | _ => None
      end
  end.

Fixpoint render_sys (ps : list piece) (e : env T) (s : sys T) : option (list Z) :=
  match ps with
  | [] => Some []
  | p :: ps' =>
      match p with
      | PLit x => option_map (app x) (render_sys ps' e s)
      | PCfg => option_map (app (dec (s_conf s))) (render_sys ps' e s)
      | PTime => option_map (app (fmt6 orc (e_now e))) (render_sys ps' e s)
      | PGcap => option_map (app (dec (s_gcap s))) (render_sys ps' e s)
      | PLast => option_map (app (match s_last s with None => dec 0 | Some t => fmt6 orc t end))
                            (render_sys ps' e s)
      | _ => None
      end
  end.

(* ---- command handlers: result = new state and the reply: BAD, GOOD (with the text that follows
   'OUTPUT:GOOD,<plc time>'), or a Python exception ------------------------------------------------ *)
Inductive hreply := RBad | RGood (body : list Z) | RExc.
Definition hres := (sys T * hreply)%type.
Definition bad (s : sys T) : hres := (s, RBad).
Definition good_opt (o : option (list Z)) : hreply :=
  match o with Some b => RGood b | None => RExc end.

Definition h_status (s : sys T) (e : env T) (args : list (list Z)) : hres :=
  match args with
  | [] => (s, good_opt (render_sys (c_sys_layout cf) e s))
  | [sid] =>
      match find_servo sid 0 (c_servos cf) with
      | None => bad s
      | Some (i, sc) =>
          match nth_error (s_servos s) i with
          | None => (s, RExc)
          | Some sv =>
              let sv' := get_status sc e sv in
              if gs_raises sv then (set_servo s i sv', RExc) else
              (set_servo s i sv',
               good_opt (render_servo (sc_layout sc) (sv_mode sv) sv' (e_draws e)))
          end
      end
  | _ => bad s
  end.

(* the loop of _setup over self.servos.items(); rows of the chosen configuration in servo order *)
Fixpoint setup_loop (scs : list (sconf T)) (rows : list (list (option T))) (svs : list (servo T))
  : option (list (servo T)) :=
  match scs, svs with
  | [], _ => Some svs
  | sc :: scs', sv :: svs' =>
      match rows with
      | [] => None                                         (* KeyError *)
      | row :: rows' =>
          match set_coords sc (cancel_set_mode sv 0) row 10 false with
          | (sv', Some _) => option_map (cons sv') (setup_loop scs' rows' svs')
          | (_, None) => None
          end
      end
  | _ :: _, [] => None
  end.

Definition h_setup (s : sys T) (e : env T) (args : list (list Z)) : hres :=
  match args with
  | [name] =>
      match find_row name (c_table cf) with
      | None => bad s
      | Some r =>
          match setup_loop (c_servos cf) (tr_rows r) (s_servos s) with
          | None => (s, RExc)
          | Some svs =>
              let fire := match tr_cap r with
                          | Some p => negb (p =? 0) && negb (s_gcap s =? p)
                          | None => false
                          end in
              let gc := if fire then 0 else s_gcap s in
              let cov := if fire then match tr_cap r with
                                      | Some p => Some (e_tick e + c_timer cf, p)
                                      | None => s_cover s
                                      end
                         else s_cover s in
              (mk_sys (s_msg s) (tr_id r) gc cov (Some (e_now e)) svs, RGood [])
          end
      end
  | _ => bad s
  end.

Definition gcap_name : list Z := zs "GREGORIAN_CAP".

Definition h_stow (s : sys T) (e : env T) (args : list (list Z)) : hres :=
  match args with
  | [sid; pos] =>
      let fs := find_servo sid 0 (c_servos cf) in
      let is_cap := zlist_eqb sid gcap_name in
      match fs, is_cap with
      | None, false => bad s
      | _, _ =>
          match pyint orc pos with
          | None => bad s
          | Some p =>
              match fs with
              | Some (i, sc) =>
                  (* a servo name wins over the literal GREGORIAN_CAP only when they differ;
                     the code tests `servo_id == 'GREGORIAN_CAP'` first *)
                  if is_cap then (s, RExc) else
                  match nth_error (s_servos s) i with
                  | None => (s, RExc)
                  | Some sv =>
                      let sv1 := cancel_set_mode sv 0 in
                      let sv2 := mk_servo (sv_mode sv1) (sv_future sv1) (sv_coords sv1) (sv_cmd sv1)
                                          (sv_offs sv1) (sv_last sv1)
                                          (Some (e_tick e + c_timer cf, 20)) (sv_alias sv1) (sv_trk sv1) in
                      (set_last (set_servo s i sv2) (e_now e), RGood [])
                  end
              | None =>
                  if (p <? 0) || (4 <? p) then bad s else
                  if s_gcap s =? p then (set_last s (e_now e), RGood []) else
                  if (s_gcap s <=? 1) || (p =? 1)
                  then (mk_sys (s_msg s) (s_conf s) 0 (Some (e_tick e + c_timer cf, p)) (Some (e_now e))
                               (s_servos s), RGood [])
                  else (mk_sys (s_msg s) (s_conf s) p None (Some (e_now e)) (s_servos s), RGood [])
              end
          end
      end
  | _ => bad s
  end.

Definition h_stop (s : sys T) (e : env T) (args : list (list Z)) : hres :=
  match args with
  | [sid] =>
      match find_servo sid 0 (c_servos cf) with
      | None => bad s
      | Some (i, _) =>
          match nth_error (s_servos s) i with
          | None => (s, RExc)
          | Some sv => (set_last (set_servo s i (cancel_set_mode sv 30)) (e_now e), RGood [])
          end
      end
  | _ => bad s
  end.

(* [float(c) for c in toks]; None = ValueError *)
Fixpoint floats (toks : list (list Z)) : option (list T) :=
  match toks with
  | [] => Some []
  | t :: r => match pyfloat orc t with
              | None => None
              | Some x => option_map (cons x) (floats r)
              end
  end.

Definition h_preset (s : sys T) (e : env T) (args : list (list Z)) : hres :=
  match args with
  | sid :: ((_ :: _) as toks) =>
      match find_servo sid 0 (c_servos cf) with
      | None => bad s
      | Some (i, sc) =>
          if negb (List.length toks =? sc_dof sc)%nat then bad s else
          match floats toks with
          | None => bad s
          | Some xs =>
              match nth_error (s_servos s) i with
              | None => (s, RExc)
              | Some sv =>
                  (* fix 18: set_coords on a copy first; a refusal returns before any side effect *)
                  match set_coords sc sv (map Some xs) 40 true with
                  | (_, None) => (s, RExc)
                  | (_, Some false) => bad s
                  | (sv1, Some true) =>
                      let sv2 := cancel_set_mode sv1 0 in
                      match set_coords sc sv2 (map Some xs) 40 true with
                      | (sv3, Some _) => (set_last (set_servo s i sv3) (e_now e), RGood [])
                      | (_, None) => (s, RExc)
                      end
                  end
              end
          end
      end
  | _ => bad s
  end.

Fixpoint set_offsets (offs : list T) (xs : list T) : option (list T) :=
  match xs, offs with
  | [], _ => Some offs
  | x :: xs', _ :: offs' => option_map (cons x) (set_offsets offs' xs')
  | _ :: _, [] => None                                       (* IndexError *)
  end.

Definition h_offset (s : sys T) (e : env T) (args : list (list Z)) : hres :=
  match args with
  | sid :: ((_ :: _) as toks) =>
      match find_servo sid 0 (c_servos cf) with
      | None => bad s
      | Some (i, sc) =>
          if negb (List.length toks =? sc_dof sc)%nat then bad s else
          match floats toks with
          | None => bad s
          | Some xs =>
              match nth_error (s_servos s) i with
              | None => (s, RExc)
              | Some sv =>
                  match set_offsets (sv_offs sv) xs with
                  | None => (s, RExc)
                  | Some offs' =>
                      let sv' := mk_servo (sv_mode sv) (sv_future sv) (sv_coords sv) (sv_cmd sv) offs'
                                          (sv_last sv) (sv_timer sv) (sv_alias sv) (sv_trk sv) in
                      (set_last (set_servo s i sv') (e_now e), RGood [])
                  end
              end
          end
      end
  | _ => bad s
  end.

(* float(c) + offsets[i] for every coordinate token, each finite (fix 19) *)
Fixpoint pt_coords (toks : list (list Z)) (offs : list T) : option (option (list T)) :=
  match toks with
  | [] => Some (Some [])
  | t :: r =>
      match pyfloat orc t with
      | None => Some None                                    (* ValueError -> BAD *)
      | Some x =>
          match offs with
          | [] => None                                       (* IndexError *)
          | o :: offs' =>
              let v := nadd ops x o in
              if negb (nfinite ops v) then Some None else
              match pt_coords r offs' with
              | Some (Some l) => Some (Some (v :: l))
              | other => other
              end
          end
      end
  end.

(* bisect.bisect_left on a sorted list (the times are sorted: consecutive point ids) *)
Fixpoint bisect_left (l : list T) (x : T) : nat :=
  match l with
  | a :: r => if nlt ops a x then S (bisect_left r x) else 0%nat
  | [] => 0%nat
  end.

(* [t0 - gap*20; ...; t0 - gap*1]: the 20 points put in front of the first one *)
Fixpoint back_points (t0 gap : T) (n : nat) : list T :=
  match n with
  | O => []
  | S k => nsub ops t0 (nmul ops gap (nofZ ops (Z.of_nat n))) :: back_points t0 gap k
  end.

Definition opt_z_eqb (a : Z) (b : option Z) : bool := match b with Some x => a =? x | None => false end.

Inductive ptres :=
| PtBad (tk : trk T)               (* OUTPUT:BAD, leaving this bookkeeping behind *)
| PtGood (tk : trk T)
| PtExc (tk : trk T).

(* the `with servo.trajectory_lock:` block of _programTrack, on the times (the coordinate lists are
   only read by splrep); [st] is the start-time token, [now] is time.time() *)
Definition pt_stage1 (e : env T) (tk : trk T) (tid pid : Z) (st : list Z) : ptres + (option T * trk T) :=
  let now := e_now e in
  if zlist_eqb st [42] then                                         (* '*' *)
    if negb (opt_z_eqb tid (tk_id tk)) then inl (PtBad tk)
    else match tk_pid tk with
         | None => inl (PtExc tk)                                    (* None + 1 *)
         | Some p => if negb (pid =? p + 1) then inl (PtBad tk) else inr (tk_start tk, tk)
         end
  else match pyfloat orc st with
       | None => inl (PtBad tk)
       | Some t0 =>
           if c_start_check cf && negb (nfinite ops t0) then inl (PtBad tk)
           else if nlt ops t0 now then inl (PtBad tk)
           else if negb (pid =? 0) then inl (PtBad tk)
           else inr (Some t0, mk_trk (Some tid) (Some t0) (tk_pid tk) [] (tk_pt tk))
       end.

Definition pt_finish (e : env T) (start : T) (tk1 : trk T) (pid : Z) : ptres :=
  let now := e_now e in
  let ptime := nadd ops start (nmul ops (nofZ ops pid) (c_gap cf)) in
  if nlt ops ptime now then PtBad tk1 else
  let times1 := match tk_times tk1 with
                | [t0] => if pid =? 1 then back_points t0 (c_gap cf) 20 ++ [t0] else [t0]
                | l => l
                end in
  let times2 := times1 ++ [ptime] in
  let times3 := skipn (bisect_left times2 (nsub ops now (nofZ ops 5))) times2 in
  let tk2 := mk_trk (tk_id tk1) (tk_start tk1) (Some pid) times3 (tk_pt tk1) in
  if (3 <? List.length times3)%nat
  then if e_pt_ok e then PtGood (mk_trk (tk_id tk1) (tk_start tk1) (Some pid) times3 true)
       else PtExc tk2                                               (* splrep raised *)
  else PtGood tk2.

(* the `with servo.trajectory_lock:` block of _programTrack, on the times (the coordinate lists are
   only read by splrep); [st] is the start-time token *)
Definition pt_book (e : env T) (tk : trk T) (tid pid : Z) (st : list Z) : ptres :=
  match pt_stage1 e tk tid pid st with
  | inl r => r
  | inr (None, tk1) => PtExc tk1                                     (* None + float *)
  | inr (Some start, tk1) => pt_finish e start tk1 pid
  end.

Definition set_trk (sv : servo T) (m : Z) (tk : trk T) : servo T :=
  mk_servo m (sv_future sv) (sv_coords sv) (sv_cmd sv) (sv_offs sv) (sv_last sv) (sv_timer sv)
           (sv_alias sv) tk.

Definition h_programtrack (s : sys T) (e : env T) (args : list (list Z)) : hres :=
  match args with
  | [] => bad s
  | sid :: rest =>
      match find_servo sid 0 (c_servos cf) with
      | None => bad s
      | Some (i, sc) =>
          if negb (sc_pt sc) then bad s else
          if negb (List.length args =? 4 + sc_dof sc)%nat then bad s else
          match rest with
          | tid :: pid :: st :: toks =>
              match nth_error (s_servos s) i with
              | None => (s, RExc)
              | Some sv =>
                  match pyint orc tid, pyint orc pid with
                  | Some tidz, Some pidz =>
                      match pt_coords toks (sv_offs sv) with
                      | None => (s, RExc)
                      | Some None => bad s
                      | Some (Some _) =>
                          match pt_book e (sv_trk sv) tidz pidz st with
                          | PtBad tk => (set_servo s i (set_trk sv (sv_mode sv) tk), RBad)
                          | PtExc tk => (set_servo s i (set_trk sv (sv_mode sv) tk), RExc)
                          | PtGood tk => (set_last (set_servo s i (set_trk sv 50 tk)) (e_now e), RGood [])
                          end
                      end
                  | _, _ => bad s
                  end
              end
          | _ => bad s
          end
      end
  end.

(* getattr(self, cmd): handler names of System.commands *)
Definition dispatch (h : list Z) : option (sys T -> env T -> list (list Z) -> hres) :=
  if zlist_eqb h (zs "_status") then Some h_status else
  if zlist_eqb h (zs "_setup") then Some h_setup else
  if zlist_eqb h (zs "_stow") then Some h_stow else
  if zlist_eqb h (zs "_stop") then Some h_stop else
  if zlist_eqb h (zs "_preset") then Some h_preset else
  if zlist_eqb h (zs "_programTrack") then Some h_programtrack else
  if zlist_eqb h (zs "_offset") then Some h_offset else None.

Definition crlf : list Z := [13; 10].

(* System._execute *)
Definition execute (s : sys T) (e : env T) (msg : list Z) : sys T * outcome :=
  match tokens msg with
  | [] => (s, OExc)                                         (* unreachable: re.split yields >= 1 piece *)
  | c :: args =>
      match assoc c (c_commands cf) with
      | None => (s, OReply (c_bad cf ++ crlf))
      | Some h =>
          match dispatch h with
          | None => (s, OExc)                               (* AttributeError *)
          | Some f =>
              match f s e args with
              | (s', RBad) => (s', OReply (c_bad cf ++ crlf))
              | (s', RGood body) => (s', OReply (good e ++ body ++ crlf))
              | (s', RExc) => (s', OExc)
              end
          end
      end
  end.

(* System.parse *)
Definition parse (s : sys T) (e : env T) (b : Z) : sys T * outcome :=
  let m := s_msg s ++ [b] in
  if ends_crlf m then execute (set_msg s []) e m else (set_msg s m, OTrue).

(* ---- timers on the tick clock -------------------------------------------------------------------- *)
Definition fire_servo (tick : Z) (sv : servo T) : servo T :=
  match sv_timer sv with
  | Some (t, m) => if t <=? tick
                   then mk_servo m (sv_future sv) (sv_coords sv) (sv_cmd sv) (sv_offs sv) (sv_last sv) None
                                 (sv_alias sv) (sv_trk sv)
                   else sv
  | None => sv
  end.

Definition fire (tick : Z) (s : sys T) : sys T :=
  let svs := map (fire_servo tick) (s_servos s) in
  match s_cover s with
  | Some (t, p) => if t <=? tick then mk_sys (s_msg s) (s_conf s) p None (s_last s) svs
                   else mk_sys (s_msg s) (s_conf s) (s_gcap s) (s_cover s) (s_last s) svs
  | None => mk_sys (s_msg s) (s_conf s) (s_gcap s) None (s_last s) svs
  end.

(* one iteration of System._update: every servo's get_status(now) in order, up to the first one that
   raises (the thread dies there); [spls] = the spline values splev returned for each servo *)
Fixpoint refresh_all (e : env T) (scs : list (sconf T)) (svs : list (servo T)) (spls : list (list T))
  : list (servo T) * bool :=
  match scs, svs with
  | sc :: scs', sv :: svs' =>
      let sv' := get_status sc (mk_env (e_tick e) (e_now e) [] (hd [] spls) false) sv in
      if gs_raises sv then (sv' :: svs', true) else
      let '(r, x) := refresh_all e scs' svs' (tl spls) in (sv' :: r, x)
  | _, _ => (svs, false)
  end.

Definition refresh (e : env T) (spls : list (list T)) (s : sys T) : sys T * bool :=
  let '(svs, x) := refresh_all e (c_servos cf) (s_servos s) spls in
  (mk_sys (s_msg s) (s_conf s) (s_gcap s) (s_cover s) (s_last s) svs, x).

(* ---- histories ---------------------------------------------------------------------------------------- *)
Inductive event :=
| EvEnv (e : env T)       (* the clock moves to e_tick / e_now (timers due fire), oracle inputs are set *)
| EvByte (b : Z)
| EvRefresh (spls : list (list T)).   (* one iteration of the update thread at the current time *)

Definition world := (env T * sys T)%type.

Definition step (w : world) (ev : event) : world * outcome :=
  match ev with
  | EvEnv e => ((e, fire (e_tick e) (snd w)), OTrue)
  | EvByte b => let '(s', o) := parse (snd w) (fst w) b in ((fst w, s'), o)
  (* whether the update thread raised is [snd (refresh ...)]; it is not a reply to any client *)
  | EvRefresh spls => ((fst w, fst (refresh (fst w) spls (snd w))), OTrue)
  end.

Fixpoint run (w : world) (evs : list event) : world * list outcome :=
  match evs with
  | [] => (w, [])
  | ev :: r => let '(w1, o) := step w ev in let '(w2, os) := run w1 r in (w2, o :: os)
  end.

End Model.

Arguments SOk {T}. Arguments SRefused {T}. Arguments SError {T}.
Arguments EvEnv {T}. Arguments EvByte {T}. Arguments EvRefresh {T}.
Arguments scres : clear implicits.
Arguments event : clear implicits.
Arguments world : clear implicits.
Arguments hres : clear implicits.
