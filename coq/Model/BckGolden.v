(* Golden tables of the backend protocol: the values Model/BckModel.v was written for, transcribed from the
   pinned tree (with fixes/16, 17, 33 applied).  They stand in for the protocol document.  Gen/BckTables.v is
   regenerated from the source on every run; Proofs/BckProofs.v proves BckTables.x = BckGolden.x, so any edit
   of a pattern, constant, command table or timer site re-opens that obligation. *)
From DS Require Import Base.Prelude Model.BckModel.
From Coq Require Import String.

Definition type_re : list Z := zs "(?P<type>(\?|\!))".
Definition name_re : list Z := zs "(?P<name>[a-zA-Z][a-zA-Z0-9-]*)".
Definition code_re : list Z := zs ",(?P<code>(ok|fail|invalid))".
Definition arguments_re : list Z := zs "(,(?P<arguments>[^\r\n]+))?".
Definition linefeed_re : list Z := zs "(?P<linefeed>\r\n)?".
Definition request_re : list Z := zs "^(?P<type>\?)(?P<name>[a-zA-Z][a-zA-Z0-9-]*)(,(?P<arguments>[^\r\n]+))?(?P<linefeed>\r\n)?$".
Definition reply_re : list Z := zs "^(?P<type>\!)(?P<name>[a-zA-Z][a-zA-Z0-9-]*),(?P<code>(ok|fail|invalid))(,(?P<arguments>[^\r\n]+))?(?P<linefeed>\r\n)?$".
Definition k_REQUEST : list Z := zs "?".
Definition k_REPLY : list Z := zs "!".
Definition k_TAIL : list Z := [13; 10].
Definition k_SEPARATOR : list Z := zs ",".
Definition k_OK : list Z := zs "ok".
Definition k_FAIL : list Z := zs "fail".
Definition k_INVALID : list Z := zs "invalid".
Definition commands_generic : list (list Z * list Z) := [
  (zs "status", zs "do_status");
  (zs "version", zs "do_version");
  (zs "get-configuration", zs "do_get_configuration");
  (zs "set-configuration", zs "do_set_configuration");
  (zs "set-integration", zs "do_set_integration");
  (zs "get-integration", zs "do_get_integration");
  (zs "set-section", zs "do_set_section");
  (zs "get-tpi", zs "do_getTpi");
  (zs "get-tp0", zs "do_getTp0");
  (zs "cal-on", zs "do_cal_on");
  (zs "set-enable", zs "do_set_enable");
  (zs "time", zs "do_time");
  (zs "start", zs "do_start");
  (zs "stop", zs "do_stop");
  (zs "set-filename", zs "do_set_filename");
  (zs "get-filename", zs "do_get_filename");
  (zs "convert-data", zs "do_convert_data") ].
Definition commands_sardara : list (list Z * list Z) := [
  (zs "status", zs "do_status");
  (zs "version", zs "do_version");
  (zs "get-configuration", zs "do_get_configuration");
  (zs "set-configuration", zs "do_set_configuration");
  (zs "set-integration", zs "do_set_integration");
  (zs "get-integration", zs "do_get_integration");
  (zs "set-section", zs "do_set_section");
  (zs "get-tpi", zs "do_getTpi");
  (zs "get-tp0", zs "do_getTp0");
  (zs "cal-on", zs "do_cal_on");
  (zs "set-enable", zs "do_set_enable");
  (zs "time", zs "do_time");
  (zs "start", zs "do_start");
  (zs "stop", zs "do_stop");
  (zs "set-filename", zs "do_set_filename");
  (zs "get-filename", zs "do_get_filename");
  (zs "convert-data", zs "do_convert_data") ].
Definition commands_mistral : list (list Z * list Z) := [
  (zs "setup", zs "do_setup");
  (zs "target-sweep", zs "do_target_sweep");
  (zs "vna-sweep", zs "do_vna_sweep");
  (zs "reset", zs "do_reset");
  (zs "status", zs "do_status");
  (zs "version", zs "do_version");
  (zs "get-configuration", zs "do_get_configuration");
  (zs "set-configuration", zs "do_set_configuration");
  (zs "set-integration", zs "do_set_integration");
  (zs "get-integration", zs "do_get_integration");
  (zs "set-section", zs "do_set_section");
  (zs "get-tpi", zs "do_getTpi");
  (zs "get-tp0", zs "do_getTp0");
  (zs "cal-on", zs "do_cal_on");
  (zs "set-enable", zs "do_set_enable");
  (zs "time", zs "do_time");
  (zs "start", zs "do_start");
  (zs "stop", zs "do_stop");
  (zs "set-filename", zs "do_set_filename");
  (zs "get-filename", zs "do_get_filename");
  (zs "convert-data", zs "do_convert_data") ].
Definition protocol_version : list Z := zs "1.2".
Definition setup_time : Z := 60.
Definition sweep_time : Z := 300.
Definition acs_to_unix_time : Z := 10000000.
Definition valid_conf_generic : list Z := zs "^[a-z0-9]".
Definition max_sections_generic : Z := 14.
Definition max_bandwidth_generic : Z := 2000.
Definition initial_configuration_generic : list Z := zs "unconfigured".
Definition initial_filename_generic : list Z := zs "".
Definition initial_integration_generic : Z := 0.
Definition status_string_generic : list Z := zs "ok".
Definition valid_conf_sardara : list Z := zs "^[A-Z0-9]".
Definition max_sections_sardara : Z := 14.
Definition max_bandwidth_sardara : Z := 2000.
Definition initial_configuration_sardara : list Z := zs "unconfigured".
Definition initial_filename_sardara : list Z := zs "".
Definition initial_integration_sardara : Z := 0.
Definition status_string_sardara : list Z := zs "ok".
Definition valid_conf_mistral : list Z := zs "^[a-z0-9]".
Definition max_sections_mistral : Z := 14.
Definition max_bandwidth_mistral : Z := 2000.
Definition initial_configuration_mistral : list Z := zs "unconfigured".
Definition initial_filename_mistral : list Z := zs "".
Definition initial_integration_mistral : Z := 0.
Definition status_string_mistral : list Z := zs "ok".
Definition servers : list (Z * list Z) := [(12801, zs "sardara"); (12802, zs "mistral")].
Definition timer_creation_sites : list (list Z * list Z * list Z) := [
  (zs "genericbackend.py", zs "_start_at", zs "self._startID = Timer(start_in, self._start_now)");
  (zs "genericbackend.py", zs "_stop_at", zs "self._stopID = Timer(stop_in, self._stop_now)");
  (zs "mistral.py", zs "do_setup", zs "self._setupID = Timer(self.setup_time, self._setup)");
  (zs "mistral.py", zs "do_target_sweep", zs "self._target_sweepID = Timer(self.sweep_time, self._target_sweep)");
  (zs "mistral.py", zs "do_vna_sweep", zs "self._vna_sweepID = Timer(self.sweep_time, self._vna_sweep)") ].
Definition timer_cancel_sites : list (list Z * list Z * list Z) := [
  (zs "genericbackend.py", zs "_cancel_timers", zs "self._startID");
  (zs "genericbackend.py", zs "_cancel_timers", zs "self._stopID");
  (zs "genericbackend.py", zs "_start_at", zs "self._startID");
  (zs "genericbackend.py", zs "_stop_at", zs "self._stopID");
  (zs "mistral.py", zs "stop_tasks", zs "self._setupID");
  (zs "mistral.py", zs "stop_tasks", zs "self._target_sweepID");
  (zs "mistral.py", zs "stop_tasks", zs "self._vna_sweepID") ].
Definition timer_join_sites : list (list Z * list Z * list Z) := [
  (zs "genericbackend.py", zs "_cancel_timers", zs "self._startID");
  (zs "genericbackend.py", zs "_cancel_timers", zs "self._stopID");
  (zs "mistral.py", zs "stop_tasks", zs "self._setupID");
  (zs "mistral.py", zs "stop_tasks", zs "self._target_sweepID");
  (zs "mistral.py", zs "stop_tasks", zs "self._vna_sweepID") ].
