(* C11 — Active-surface addressing: unicast isolates, broadcast fans out, absent silent.
   Statements only; every proof is `exact` of a lemma in Proofs/AslLineProofs.v.

   Model: Model/AslLine.v = simulators/active_surface/__init__.py with fixes/04 and fixes/05.
   All theorems hold for EVERY USD semantics (U, sem, delay): a USD method call is an opaque
   event [sem u call = (u', returned value)]; hence "the new list of units is
   upd drv i (fst (sem u c))" says that exactly one method was invoked, on unit i, with call c,
   and "map (fun u => fst (sem u c)) drv" that every unit was invoked once with the same call.
   They hold for every min_usd_index and every list of units (in particular for all
   0 <= min <= max <= 31), every command code (the 24 known ones and all others), every
   parameter string, both start bytes (indeed any), and - [C11_on_the_wire] - for the bytes on
   the wire fed to an idle parser in any reachable line state.

     on_line min drv idx      := 0 <= idx - min < length drv          (idx in [min..max])
     unit_exec s idx c ps u   := what unit u alone does with the command and what it answers
     bcast_effect c ps u      := state of unit u after the broadcast of the command
     silent o                 := o = OTrue \/ o = OValueError       (nothing is sent back)  *)
From DS Require Import Base.Prelude Base.Bits Model.Utils Model.AslLine Proofs.AslFrameProofs.
From DS Require Import Proofs.AslLineProofs Gen.AslTables Proofs.AslTablesTie.

(* A command addressed to a unit on the line: only that unit's method is invoked, only its state
   is replaced, and the outcome is the answer of that unit. *)
Theorem C11_unicast : forall U (sem : U -> ucall -> U * uret) (delay : U -> Z)
    min drv start idx code ps,
  on_line min drv idx ->
  exists u, nth_error drv (Z.to_nat (idx - min)) = Some u /\
    exec sem delay true true min drv (QUni start idx code ps) =
      (upd drv (Z.to_nat (idx - min)) (fst (unit_exec sem delay start idx code ps u)),
       snd (unit_exec sem delay start idx code ps u)).
Proof. exact @unicast_only_addressed. Qed.
Print Assumptions C11_unicast.

(* ... every other unit is untouched ... *)
Theorem C11_unicast_isolates : forall U (sem : U -> ucall -> U * uret) (delay : U -> Z)
    min drv start idx code ps,
  on_line min drv idx ->
  let drv' := fst (exec sem delay true true min drv (QUni start idx code ps)) in
  length drv' = length drv /\
  forall j, j <> Z.to_nat (idx - min) -> nth_error drv' j = nth_error drv j.
Proof. exact @unicast_isolates. Qed.
Print Assumptions C11_unicast_isolates.

(* ... and no other unit contributes to the answer. *)
Theorem C11_unicast_answered_only_by_it : forall U (sem : U -> ucall -> U * uret) (delay : U -> Z)
    min drv drv2 start idx code ps,
  on_line min drv idx -> length drv2 = length drv ->
  nth_error drv2 (Z.to_nat (idx - min)) = nth_error drv (Z.to_nat (idx - min)) ->
  snd (exec sem delay true true min drv2 (QUni start idx code ps)) =
  snd (exec sem delay true true min drv (QUni start idx code ps)).
Proof. exact @unicast_answer_local. Qed.
Print Assumptions C11_unicast_answered_only_by_it.

(* A broadcast is never answered and acts on every unit of the line alike. *)
Theorem C11_broadcast : forall U (sem : U -> ucall -> U * uret) (delay : U -> Z)
    min drv start code ps,
  fst (exec sem delay true true min drv (QBcast start code ps)) =
    map (bcast_effect sem code ps) drv /\
  silent (snd (exec sem delay true true min drv (QBcast start code ps))).
Proof. exact @broadcast_fans_out. Qed.
Print Assumptions C11_broadcast.

(* It leaves every unit exactly as the same command addressed to that unit would (the four
   get_* methods being read-only, a fact about usd.py stated as a hypothesis). *)
Theorem C11_broadcast_as_unicast : forall U (sem : U -> ucall -> U * uret) (delay : U -> Z)
    min drv start start' code ps idx,
  getters_pure sem drv -> on_line min drv idx ->
  nth_error (fst (exec sem delay true true min drv (QBcast start code ps))) (Z.to_nat (idx - min)) =
  nth_error (fst (exec sem delay true true min drv (QUni start' idx code ps))) (Z.to_nat (idx - min)).
Proof. exact @broadcast_as_unicast. Qed.
Print Assumptions C11_broadcast_as_unicast.

(* the effect of a broadcast on one unit, spelled out: the decoded call, once, unless the
   command is unknown, refused for its parameter count / value, or a getter *)
Theorem C11_broadcast_effect : forall U (sem : U -> ucall -> U * uret) code ps (u : U),
  bcast_effect sem code ps u =
    if negb (known code) then u
    else match decode code ps with
         | DCall c k => if is_getter k then u else fst (sem u c)
         | _ => u
         end.
Proof. exact @bcast_effect_unfold. Qed.
Print Assumptions C11_broadcast_effect.

(* An address with no unit on the line: nothing invoked, nothing changed, nothing sent. *)
Theorem C11_absent : forall U (sem : U -> ucall -> U * uret) (delay : U -> Z)
    min drv start idx code ps,
  ~ on_line min drv idx ->
  fst (exec sem delay true true min drv (QUni start idx code ps)) = drv /\
  silent (snd (exec sem delay true true min drv (QUni start idx code ps))).
Proof. exact @absent_silent_unchanged. Qed.
Print Assumptions C11_absent.

(* The same on the wire: the frame of any well-formed request, fed byte by byte to the idle
   parser of any line, is consumed with True for every byte but the last, the last byte has the
   outcome and the effect of [exec], and the parser is idle again. *)
Theorem C11_on_the_wire : forall U (sem : U -> ucall -> U * uret) (delay : U -> Z) min drv q,
  wf_req q -> bytes_req q ->
  lrun sem delay (mkL min drv finit) (frame_of q) =
    (mkL min (fst (exec sem delay true true min drv q)) finit,
     repeat OTrue (length (frame_of q) - 1) ++ [snd (exec sem delay true true min drv q)]).
Proof. exact @lrun_frame. Qed.
Print Assumptions C11_on_the_wire.

(* every reachable idle framing state is the initial one: the line state is (any drivers, finit) *)
Theorem C11_idle_states : forall U (sem : U -> ucall -> U * uret) (delay : U -> Z) min drv f bs,
  freach f -> fidle f ->
  lrun sem delay (mkL min drv f) bs = lrun sem delay (mkL min drv finit) bs.
Proof. exact @idle_states. Qed.
Print Assumptions C11_idle_states.

(* The pinned code (without the two fixes) violates the property; the model keeps it expressible
   through the flags of [exec]: witnesses on a line (1..3) of call counters. *)
Theorem C11_pinned_below_min_refuted :
  dispatch csem cdelay false true 1 [0; 0; 0] [252; 32; 18; 209] =
    ([0; 0; 1], OReply [6; 252; 128; 0; 0; 0; 0; 125]).
Proof. exact pinned_below_min_refuted. Qed.
Print Assumptions C11_pinned_below_min_refuted.

Theorem C11_pinned_broadcast_slope_refuted :
  dispatch csem cdelay true false 1 [0; 0; 0] [252; 0; 2; 34; 7; 216] = ([1; 0; 0], OTrue).
Proof. exact pinned_broadcast_slope_refuted. Qed.
Print Assumptions C11_pinned_broadcast_slope_refuted.

(* Tie to the source (regenerated on every run): the command table System.functions - codes in
   source order with their handler names - and the protocol constants are the ones the model
   was written for. *)
Theorem C11_functions_tie : gen_functions = golden_functions /\ map fst gen_functions = codes.
Proof. exact functions_tie. Qed.
Print Assumptions C11_functions_tie.

Theorem C11_constants_tie :
  gen_ack = 6 /\ gen_nak = 21 /\ gen_switchall = 0 /\ gen_max_usd_per_line = 32 /\
  is_header gen_start_fa = true /\ is_header gen_start_fc = true /\
  gen_start_fa = AslEncoder.start_of false /\ gen_start_fc = AslEncoder.start_of true.
Proof. exact constants_tie. Qed.
Print Assumptions C11_constants_tie.

(* non-vacuity: a line (1..3), a present and an absent address, a broadcast *)
Example C11_ex_present : on_line 1 [0; 0; 0] 3 /\ ~ on_line 1 [0; 0; 0] 0 /\ ~ on_line 1 [0; 0; 0] 4.
Proof. unfold on_line. cbn. lia. Qed.
Example C11_ex_unicast :
  lrun csem cdelay (mkL 1 [0; 0; 0] finit) (frame_of (QUni 252 3 18 [])) =
    (mkL 1 [0; 0; 1] finit, [OTrue; OTrue; OTrue; OReply [6; 252; 131; 0; 0; 0; 0; 122]]).
Proof. vm_compute. reflexivity. Qed.
Example C11_ex_broadcast :
  lrun csem cdelay (mkL 1 [0; 0; 0] finit) (frame_of (QBcast 252 34 [7])) =
    (mkL 1 [1; 1; 1] finit, [OTrue; OTrue; OTrue; OTrue; OTrue; OTrue]).
Proof. vm_compute. reflexivity. Qed.
Example C11_ex_absent :
  lrun csem cdelay (mkL 1 [0; 0; 0] finit) (frame_of (QUni 252 0 18 [])) =
    (mkL 1 [0; 0; 0] finit, [OTrue; OTrue; OTrue; OTrue]).
Proof. vm_compute. reflexivity. Qed.
