(* C13 — Each actuator command has exactly the effect and reply the USD protocol defines.
   Statements only; proofs are `exact` of lemmas in Proofs/UsdRefine.v and Proofs/UsdHistory.v.
   [handle]/[tick]/[run] are the code-faithful model (Model/UsdModel.v: the string manipulations of
   usd.py and of the unicast handlers of active_surface/__init__.py, with fixes/07, 31, 32 applied);
   [spec_handle]/[spec_tick]/[spec_run] are the independent arithmetic protocol specification
   (Spec/UsdSpec.v). *)
From DS Require Import Base.Prelude Base.Bits Model.Utils Model.UsdModel Spec.UsdSpec.
From DS Require Import Proofs.UsdMotion Proofs.UsdInv Proofs.UsdRefine Proofs.UsdHistory.

(* Refinement over whole histories: for every unit index, every history of commands (every code,
   known or not, every string of parameter bytes of any length, every start byte) interleaved
   with time steps, the replies and the complete final state of the code-faithful model equal
   those of the protocol specification. *)
Theorem C13_refines : forall idx clk h, 0 <= idx < 32 -> Forall wf_event h ->
  run (usd_init idx, clk) h = spec_run (usd_init idx, clk) h.
Proof.
  intros idx clk h Hi Hw.
  exact (proj1 (run_refines h (usd_init idx, clk) Hw (inv_init idx Hi))).
Qed.
Print Assumptions C13_refines.

(* the same, per command and per time step, in any state satisfying the invariant *)
Theorem C13_command_refines : forall code b p u, 0 <= b -> bytes p -> Inv u ->
  handle code b p u = spec_handle code b p u.
Proof. exact handle_refines. Qed.
Print Assumptions C13_command_refines.

Theorem C13_tick_refines : forall k now u, Inv u -> 0 <= k -> tick k now u = spec_tick k now u.
Proof. exact tick_refines. Qed.
Print Assumptions C13_tick_refines.

Theorem C13_reachable_invariant : forall idx u, 0 <= idx < 32 -> reachable idx u -> Inv u.
Proof. exact reachable_inv. Qed.
Print Assumptions C13_reachable_invariant.

(* The status bytes report running, delayed-execution, ready, full-current, auto-resolution,
   resolution and the I/O lines faithfully. *)
Theorem C13_status_reply : forall b u, 0 <= b -> Inv u ->
  handle 19 b [] u = (u, OReply (spec_frame b (usd_index u) (status_bytes u))).
Proof. exact status_reply. Qed.
Print Assumptions C13_status_reply.

Theorem C13_status_faithful : forall u, Inv u ->
  exists s1 s2, status_bytes u = [0; s1; s2] /\
  bitb s2 7 = running u /\ bitb s2 6 = delayed_execution u /\ bitb s2 5 = ready u /\
  bitb s2 4 = full_current u /\ bitb s2 3 = auto_resolution u /\ 2 ^ (s2 mod 8) = resolution u /\
  io_dir u = (bitz s1 4, bitz s1 5, bitz s1 6) /\ io_val u = (bitz s1 0, bitz s1 1, bitz s1 2).
Proof. exact status_faithful. Qed.
Print Assumptions C13_status_faithful.

(* No command blocks or fails internally, in any reachable state. *)
Theorem C13_never_blocks : forall c b p u, 0 <= b -> bytes p -> Inv u ->
  snd (handle c b p u) <> OBlock /\ snd (handle c b p u) <> OException.
Proof. exact never_blocks. Qed.
Print Assumptions C13_never_blocks.

(* Delayed execution is switched on and off by its enable bit (fixes/07), flushing the queue and
   the ready flag (fixes/31). *)
Theorem C13_delayed_enable_bit : forall b x u, 0 <= b -> byte x -> Inv u ->
  let r := handle 41 b [x] u in
  snd r = OReply ack /\ delayed_execution (fst r) = bitb x 7 /\
  position_queue (fst r) = [] /\ ready (fst r) = false.
Proof. exact delayed_enable_bit. Qed.
Print Assumptions C13_delayed_enable_bit.

(* Queued positions are released one per TRIGGER, oldest first; a relative one is an offset from
   the position at TRIGGER time (fixes/32). *)
Theorem C13_trigger_releases_one : forall b u p a rest, 0 <= b -> Inv u ->
  position_queue u = (p, a) :: rest ->
  let r := handle 2 b [] u in
  snd r = OReply ack /\ position_queue (fst r) = rest /\
  ready (fst r) = negb (match rest with [] => true | _ => false end) /\
  (vel_idle u -> cmd_position (fst r) = Some (if a then p else current_position u + p)).
Proof. exact trigger_releases_one. Qed.
Print Assumptions C13_trigger_releases_one.

Theorem C13_trigger_empty_queue : forall b u, 0 <= b -> Inv u -> position_queue u = [] ->
  handle 2 b [] u = (u, OReply ack).
Proof. exact trigger_empty_queue. Qed.
Print Assumptions C13_trigger_empty_queue.

Theorem C13_reset_defaults : forall b u, 0 <= b -> Inv u ->
  handle 1 b [] u = (usd_default (usd_index u) (last_movement u), OReply ack).
Proof. exact reset_defaults. Qed.
Print Assumptions C13_reset_defaults.

(* parameter-count checks and unknown codes *)
Theorem C13_bad_params_nak : forall c b p u, 0 <= b -> bytes p -> Inv u ->
  decode c p = DBadParams -> handle c b p u = (u, OReply nak).
Proof. exact bad_params_nak. Qed.
Print Assumptions C13_bad_params_nak.

Theorem C13_unknown_code_rejected : forall c b p u, 0 <= b -> bytes p -> Inv u ->
  decode c p = DUnknown -> handle c b p u = (u, OValueError).
Proof. exact unknown_code_rejected. Qed.
Print Assumptions C13_unknown_code_rejected.

(* The unicast tail of System._parse: a unit whose response-delay multiplier is 255 after the command
   ran executes the command but does not answer. *)
Theorem C13_response_delay_silent : forall c b p u r, snd (handle c b p u) = OReply r ->
  snd (parse1 c b p u) = (if delay_multiplier (fst (handle c b p u)) =? 255 then OSilent else OReply r).
Proof. exact silent_iff_delay_255. Qed.
Print Assumptions C13_response_delay_silent.

(* Lines of several units with unicast and broadcast commands: same refinement; a broadcast has on
   every unit the effect of the unicast command and is answered by none. *)
Theorem C13_line_refines : forall idxs clk h, Forall (fun i => 0 <= i < 32) idxs ->
  Forall wf_levent h ->
  lrun (map usd_init idxs, clk) h = spec_lrun (map usd_init idxs, clk) h.
Proof.
  intros idxs clk h Hi Hw.
  exact (proj1 (lrun_refines h (map usd_init idxs, clk) Hw (init_line_inv idxs Hi))).
Qed.
Print Assumptions C13_line_refines.

Theorem C13_broadcast_is_unicast_everywhere : forall c b p us,
  bcast c b p us = map (fun u => fst (parse1 c b p u)) us.
Proof. exact broadcast_is_unicast_everywhere. Qed.
Print Assumptions C13_broadcast_is_unicast_everywhere.

(* non-vacuity *)
Example C13_ex_inv : Inv (usd_init 17).
Proof. apply inv_init. lia. Qed.

Example C13_ex_history :
  let h := [ECmd 41 252 [128]; ECmd 48 250 [0; 0; 7; 208]; ECmd 49 250 [0; 0; 15; 160];
            ECmd 2 252 []; ETick 10; ETick 10; ECmd 19 252 []; ECmd 2 252 []; ETick 20;
            ECmd 41 252 [0]; ECmd 18 250 []; ECmd 99 250 [1; 2]; ECmd 48 250 [1]] in
  Forall wf_event h /\
  current_position (fst (fst (run (usd_init 3, 1024) h))) = 6000 /\
  delayed_execution (fst (fst (run (usd_init 3, 1024) h))) = false /\
  snd (run (usd_init 3, 1024) h)
  = [Some (OReply [6]); Some (OReply [6]); Some (OReply [6]); Some (OReply [6]); None; None;
     Some (OReply [6; 252; 99; 0; 32; 113; 9]); Some (OReply [6]); None; Some (OReply [6]);
     Some (OReply [6; 250; 0; 0; 23; 112; 120]); Some OValueError; Some (OReply [21])].
Proof.
  cbv zeta. split; [repeat constructor; cbn; unfold byte; lia|]. vm_compute. auto.
Qed.
