(* C01 — Listening servers relay bytes and replies exactly, however the stream is split.
   Statements only; every proof is `exact` of a lemma in Proofs/Srv*.v.

   Reading guide.  The device is ANY state machine: a state type [E], [sparse e b] = outcome of
   system.parse(chr b) in state e (a returned value of any kind, ValueError, another exception)
   and the next state; [scall e name params] = outcome of getattr(system, name)(..params).
   [sendok k] says whether the k-th sendto of the connection succeeds.  [handle_tcp] is the model
   of ListenHandler.handle/_handle (fixed code: fixes/01, fixes/02), run on one `recv` result
   per list element; [relay_spec] (Spec/SrvRelaySpec.v) is written on the unsegmented stream. *)
From DS Require Import Base.Prelude Model.SrvHandler Spec.SrvRelaySpec Proofs.SrvLists Proofs.SrvProofs Proofs.SrvTheorems Proofs.SrvExamples.

(* Relay = specification: for every device, every stream, every partition of it into non-empty
   segments.  Hence: Parse b_i for every i in order; Send s right after Parse b_i iff that very
   parse returned the non-empty latin-1 str s (so a reply is never re-sent when later parses
   raise, whatever the segmentation); the command block right after position i iff a command
   ends at i; the handler returns normally. *)
Theorem C01_relay :
  forall E sparse scall sendok, (forall k, sendok k = true) ->
  forall (e : E) segs bs, Forall nonempty segs -> concat segs = bs ->
  let r := handle_tcp fixed E sparse scall sendok (init E e) (map Some segs) in
  actions_of r = fst (relay_spec E sparse scall bs e) /\
  env (state_of r) = snd (relay_spec E sparse scall bs e) /\
  flow_of r = Continue.
Proof. exact tcp_relay. Qed.
Print Assumptions C01_relay.

(* Segmentation independence: any partition behaves as the whole stream in one segment
   (same actions, same final device state, same pending custom-command buffer). *)
Theorem C01_segmentation :
  forall E sparse scall sendok, (forall k, sendok k = true) ->
  forall (e : E) segs, Forall nonempty segs ->
  let r1 := handle_tcp fixed E sparse scall sendok (init E e) (map Some segs) in
  let r2 := handle_tcp fixed E sparse scall sendok (init E e) [Some (concat segs)] in
  actions_of r1 = actions_of r2 /\ env (state_of r1) = env (state_of r2) /\
  cmsg (state_of r1) = cmsg (state_of r2).
Proof. exact tcp_segmentation. Qed.
Print Assumptions C01_segmentation.

(* the whole connection: setup (greeting = what system_greet() returned, None or a latin-1 str),
   then handle *)
Theorem C01_connection :
  forall E sparse scall sendok, (forall k, sendok k = true) ->
  forall greet (e : E) segs bs, greeting_ok greet -> Forall nonempty segs -> concat segs = bs ->
  actions_of (listen_tcp fixed E sparse scall sendok greet e (map Some segs))
    = greeting_actions greet ++ fst (relay_spec E sparse scall bs e).
Proof. exact listen_tcp_relay. Qed.
Print Assumptions C01_connection.

(* every byte reaches the parser exactly once and in order *)
Theorem C01_parse_once_in_order :
  forall E sparse scall sendok (e : E) segs, (forall k, sendok k = true) -> Forall nonempty segs ->
  parses (actions_of (handle_tcp fixed E sparse scall sendok (init E e) (map Some segs)))
    = concat segs.
Proof. exact tcp_parses. Qed.
Print Assumptions C01_parse_once_in_order.

(* every reply is transmitted exactly once and in order (stream without custom commands, whose
   own replies are interleaved as C01_relay says): the payloads sent are those of the successive
   parse outcomes [outs_from] *)
Theorem C01_replies_once_in_order :
  forall E sparse scall sendok (e : E) segs, (forall k, sendok k = true) -> Forall nonempty segs ->
  scan (concat segs) = [] ->
  sends (actions_of (handle_tcp fixed E sparse scall sendok (init E e) (map Some segs)))
    = flat_map (fun o => sends (reply_of o)) (outs_from E sparse e (concat segs)).
Proof. exact tcp_sends. Qed.
Print Assumptions C01_replies_once_in_order.

(* a byte the parser rejects (False, ValueError, any exception) or answers with a malformed value
   (None, '', bytes, ...) produces no output; a reply is transmitted byte for byte *)
Theorem C01_rejected_byte_silent :
  forall o, (forall c s, o <> ORet (VStr (c :: s))) -> reply_of o = [].
Proof. exact reply_silent. Qed.
Print Assumptions C01_rejected_byte_silent.

Theorem C01_reply_exact :
  forall c s, Forall (fun x => x < 256) (c :: s) ->
  reply_of (ORet (VStr (c :: s))) = [Send (c :: s)].
Proof. exact reply_exact. Qed.
Print Assumptions C01_reply_exact.

(* no exception ever leaves the handler: any device, any socket behaviour (failing sends), any
   recv events (segments, empty reads, IOError) *)
Theorem C01_no_death :
  forall E sparse scall sendok (e : E) evs,
  no_dies (actions_of (handle_tcp fixed E sparse scall sendok (init E e) evs)) /\
  flow_of (handle_tcp fixed E sparse scall sendok (init E e) evs) = Continue.
Proof. exact tcp_alive. Qed.
Print Assumptions C01_no_death.

Theorem C01_no_death_udp :
  forall E sparse scall sendok (e : E) msg,
  no_dies (actions_of (listen_udp fixed E sparse scall sendok e msg)) /\
  flow_of (listen_udp fixed E sparse scall sendok e msg) = Continue.
Proof. exact udp_alive. Qed.
Print Assumptions C01_no_death_udp.

(* custom commands: the operations invoked are exactly the well-formed bodies found by [scan],
   once each, in order, with their parameters - for any segmentation ... *)
Theorem C01_custom_once :
  forall E sparse scall sendok (e : E) segs, (forall k, sendok k = true) -> Forall nonempty segs ->
  calls (actions_of (handle_tcp fixed E sparse scall sendok (init E e) (map Some segs)))
    = flat_map call_of_body (scan (concat segs)).
Proof. exact tcp_calls. Qed.
Print Assumptions C01_custom_once.

(* ... and [scan] finds exactly the occurrences `$body%%%%%` (body without '$', the tail not
   occurring earlier), wherever they end in the stream *)
Theorem C01_scan_occurrences :
  forall bs body,
  In body (scan bs) <->
  exists k, (0 < k <= length bs)%nat /\ command_ends (firstn k bs) body.
Proof. exact scan_complete. Qed.
Print Assumptions C01_scan_occurrences.

Theorem C01_completes_iff :
  forall pre body, completes pre = Some body <-> command_ends pre body.
Proof. exact completes_iff. Qed.
Print Assumptions C01_completes_iff.

(* body grammar  name[:p1,...,pn] *)
Theorem C01_body_grammar :
  forall body name params, parse_body body = Some (name, params) ->
  ~ In COLON name /\
  ((body = name /\ params = []) \/
   (exists ps, body = name ++ COLON :: ps /\ ~ In COLON ps /\
               (ps = [] -> params = []) /\
               (ps <> [] -> join COMMA params = ps /\ forall p, In p params -> ~ In COMMA p))).
Proof. exact parse_body_sound. Qed.
Print Assumptions C01_body_grammar.

(* malformed (two or more ':') : nothing is invoked, nothing is sent, the device is untouched *)
Theorem C01_malformed_is_two_colons :
  forall body, parse_body body = None <-> (2 <= count_occ Z.eq_dec body COLON)%nat.
Proof. exact parse_body_malformed. Qed.
Print Assumptions C01_malformed_is_two_colons.

Theorem C01_custom_malformed_ignored :
  forall E scall (e : E) body, parse_body body = None -> command_block E scall e body = ([], e).
Proof. exact block_malformed. Qed.
Print Assumptions C01_custom_malformed_ignored.

(* unknown operation (AttributeError), failing operation, non-str result: invoked, nothing else *)
Theorem C01_custom_unknown_ignored :
  forall E scall (e : E) body name params,
  parse_body body = Some (name, params) ->
  (fst (scall e name params) = RAttrErr \/ fst (scall e name params) = RExc \/
   fst (scall e name params) = RNonStr) ->
  fst (command_block E scall e body) = [Call name params].
Proof. exact block_unknown. Qed.
Print Assumptions C01_custom_unknown_ignored.

(* UDP: a datagram is handled as the stream  datagram ++ "\n"  in one piece *)
Theorem C01_udp :
  forall E sparse scall sendok, (forall k, sendok k = true) ->
  forall (e : E) msg,
  let r := listen_udp fixed E sparse scall sendok e msg in
  actions_of r = fst (relay_spec E sparse scall (msg ++ [NEWLINE]) e) /\
  env (state_of r) = snd (relay_spec E sparse scall (msg ++ [NEWLINE]) e) /\
  flow_of r = Continue.
Proof. exact udp_relay. Qed.
Print Assumptions C01_udp.

(* non-vacuity: a concrete device, a stream cut inside a command and inside its tail *)
Example C01_ex_hypotheses : concat ex_segs = ex_stream /\ Forall nonempty ex_segs.
Proof. exact ex_segs_stream. Qed.
Example C01_ex_trace :
  actions_of (ex_tcp fixed ex_segs) =
    map Parse [122; 97] ++ [Send [111; 107]] ++ map Parse stop_command
      ++ [Call stop_name []; Send shutdown_ack; Stop] ++ map Parse [118; 107].
Proof. exact ex_trace. Qed.
Example C01_ex_no_resend :
  actions_of (ex_tcp fixed [[97; 118; 107]]) = [Parse 97; Send [111; 107]; Parse 118; Parse 107].
Proof. exact ex_no_resend. Qed.

(* the code before the proposed repairs violates the property (the reverse patches are the
   seeded mutants of this check) *)
Theorem C01_pristine_two_colons_refuted :
  flow_of (ex_tcp pristine [two_colons ++ [122]]) = Died /\
  flow_of (ex_tcp fixed [two_colons ++ [122]]) = Continue /\
  parses (actions_of (ex_tcp fixed [two_colons ++ [122]])) = two_colons ++ [122].
Proof. exact pristine_two_colons_dies. Qed.
Print Assumptions C01_pristine_two_colons_refuted.
Theorem C01_pristine_wide_reply_refuted :
  flow_of (ex_tcp pristine [[119; 122]]) = Died /\
  actions_of (ex_tcp fixed [[119; 122]]) = [Parse 119; Parse 122].
Proof. exact pristine_wide_reply_dies. Qed.
Print Assumptions C01_pristine_wide_reply_refuted.
