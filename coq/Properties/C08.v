(* C08 -- the ACU status publisher survives any connect/disconnect interleaving and serves all.
   Statements only; every proof is `exact` of a lemma in Proofs/PubProofs.v.

   The system (Model/PubModel.v): any number of clients, each following the program order of
   SendHandler.handle (subscribe, then any number of reads of its own queue, then at most one
   unsubscribe), interleaved in any way -- at the granularity of single queue operations -- with
   the steps of the update loop (with fixes/08-acu-publisher-unsubscribe-race.diff applied).
   [reachable cf s]: s is reached from the initial state by some such interleaving; cf holds the
   publication period (20) and the capacity of the client queues (1), for which the theorems do
   not care (period <> 0: `counter % 0` would raise). *)
From Coq Require Import Sorting.Sorted.
From DS Require Import Base.Prelude Model.PubModel Proofs.PubInv Proofs.PubProofs.
From DS Require Import Proofs.PubFrames Proofs.PubBound Proofs.PubUnsub.

(* 1. The publisher keeps running: in every reachable state the update thread is neither dead
      (exception) nor blocked on a client queue ... *)
Theorem C08_alive : forall cf s, period cf <> 0 -> reachable cf s -> stat s = Running.
Proof. exact alive_reachable. Qed.
Print Assumptions C08_alive.

(* ... and its next step neither raises nor finds the client's queue full *)
Theorem C08_publisher_step_safe : forall cf s, period cf <> 0 -> reachable cf s ->
  stat (fst (pub_step cf s)) = Running /\
  (forall c, snd (pub_step cf s) <> EFull c) /\ snd (pub_step cf s) <> EIdle.
Proof. exact pub_step_safe. Qed.
Print Assumptions C08_publisher_step_safe.

(* 2. Take-up within two ticks (a tick = one passage of the loop head; subtick s c = number of
      passages when c subscribed): a subscription still waiting has seen at most one passage, so
      from the second passage on a connected client is in the subscriber list. *)
Theorem C08_taken_up : forall cf s c, reachable cf s -> In c (subq s) -> iter s <= subtick s c + 1.
Proof. exact taken_up_two_ticks. Qed.
Print Assumptions C08_taken_up.

Theorem C08_taken_up_subscribed : forall cf s c, period cf <> 0 -> reachable cf s ->
  phase_of s c = CRun -> subtick s c + 2 <= iter s -> In c (subs s).
Proof. exact taken_up_subscribed. Qed.
Print Assumptions C08_taken_up_subscribed.

(* ... and every tick ends: in any execution in which the publisher takes more than
   work s + 4 * (number of client steps) steps it passes the loop head, where work s is at most
   |unsubscribe_q| + 4 |subscribe_q| + 3 |subscribers| + 2.  (A client step can delay the
   publisher by at most four steps; it can never stop it.) *)
Theorem C08_tick_bound : forall cf, period cf <> 0 -> forall ls s s', reachable cf s ->
  run cf s ls = Some s' -> work s + 4 * nclient ls + 1 <= npub ls -> iter s < iter s'.
Proof. exact iteration_bound_reachable. Qed.
Print Assumptions C08_tick_bound.

Theorem C08_tick_bound_size : forall cf s, period cf <> 0 -> reachable cf s ->
  work s <= len (unsubq s) + 4 * len (subq s) + 3 * len (subs s) + 2.
Proof. exact work_size_reachable. Qed.
Print Assumptions C08_tick_bound_size.

(* 3. At every publication each subscriber gets exactly one pending frame, the newest:
      - the put leaves exactly [newest] in the queue, whatever the client had not read before
        (the stale frame is removed first, not queued behind), and never blocks;
      - when the publication is complete every subscriber holds exactly the newest frame or has
        already read that very frame;
      - at any time a queue holds at most one frame, none newer than the last update_status;
      - a client reads frames in strictly increasing order. *)
Theorem C08_one_newest_put : forall cf s c r, period cf <> 0 -> reachable cf s ->
  pc s = PPut -> todo s = c :: r ->
  snd (pub_step cf s) = EPut c (cur s) /\ mbox (fst (pub_step cf s)) c = [cur s] /\
  stat (fst (pub_step cf s)) = Running.
Proof. exact put_newest. Qed.
Print Assumptions C08_one_newest_put.

Theorem C08_one_newest_publication : forall cf s c, period cf <> 0 -> reachable cf s ->
  pc s = PPut -> todo s = [c] ->
  let s' := fst (pub_step cf s) in
  pc s' = PTop /\ subs s' = subs s /\ cur s' = cur s /\
  forall x, In x (subs s') ->
    mbox s' x = [cur s'] \/ (mbox s' x = [] /\ hd_error (got s' x) = Some (cur s')).
Proof. exact publication_complete. Qed.
Print Assumptions C08_one_newest_publication.

Theorem C08_publication_serves_all : forall cf s, period cf <> 0 -> reachable cf s ->
  pubphase (pc s) = true -> forall c, In c (subs s) ->
    In c (todo s) \/ mbox s c = [cur s] \/ (mbox s c = [] /\ hd_error (got s c) = Some (cur s)).
Proof. exact publication_serves_all. Qed.
Print Assumptions C08_publication_serves_all.

Theorem C08_at_most_one_pending : forall cf s c, period cf <> 0 -> reachable cf s ->
  (length (mbox s c) <= 1)%nat /\ forall f, In f (mbox s c) -> f <= cur s.
Proof. exact at_most_one_pending. Qed.
Print Assumptions C08_at_most_one_pending.

Theorem C08_delivery_increasing : forall cf s c, period cf <> 0 -> reachable cf s ->
  StronglySorted Z.gt (got s c).
Proof. exact delivery_increasing. Qed.
Print Assumptions C08_delivery_increasing.

Theorem C08_no_frame_before_subscribe : forall cf s c, period cf <> 0 -> reachable cf s ->
  phase_of s c = CInit -> mbox s c = [].
Proof. exact no_frame_before_subscribe. Qed.
Print Assumptions C08_no_frame_before_subscribe.

(* 4. A client whose unsubscription has been processed never receives another frame: along every
      continuation its queue keeps its content (and stays processed). *)
Theorem C08_no_frame_after_unsub : forall cf, period cf <> 0 -> forall ls s s' c,
  reachable cf s -> processed s c -> run cf s ls = Some s' ->
  processed s' c /\ mbox s' c = mbox s c /\ got s' c = got s c.
Proof. exact no_frame_after_unsubscribe. Qed.
Print Assumptions C08_no_frame_after_unsub.

Theorem C08_unsubscribe_applied : forall cf s c, period cf <> 0 -> reachable cf s -> pc s = PTop ->
  phase_of s c = CDone -> ~ In c (unsubq s) -> processed s c.
Proof. exact unsubscribe_applied. Qed.
Print Assumptions C08_unsubscribe_applied.

(* ... and that happens soon: a client that has called unsubscribe is processed in every later
   state in which the publisher has passed the loop head twice. *)
Theorem C08_unsubscribe_processed : forall cf, period cf <> 0 -> forall ls s s' c,
  reachable cf s -> phase_of s c = CDone -> run cf s ls = Some s' -> iter s + 2 <= iter s' ->
  processed s' c.
Proof. exact unsubscribe_processed_two_ticks. Qed.
Print Assumptions C08_unsubscribe_processed.

(* The defect of the pinned loop (F08), the repaired loop on the same schedule, and the necessity
   of the clients' program order *)
Theorem C08_pinned_alive_refuted :
  option_map stat (run_pinned acu_cfg init f08_schedule) = Some Dead.
Proof. exact pinned_loop_dies. Qed.
Print Assumptions C08_pinned_alive_refuted.

Theorem C08_order_hypothesis_needed :
  option_map stat (run_unordered acu_cfg init [LUnsub 1; LPub; LPub; LPub; LPub]) = Some Dead.
Proof. exact order_hypothesis_needed. Qed.
Print Assumptions C08_order_hypothesis_needed.

(* non-vacuity *)
Example C08_ex_reachable : exists s, run acu_cfg init ex_schedule = Some s /\ reachable acu_cfg s /\
  subs s = [1] /\ subq s = [2; 3] /\ unsubq s = [3] /\ got s 1 = [1] /\ phase_of s 3 = CDone.
Proof. exact ex_reachable. Qed.
