(* C05, gaia part — every set command with a read-back path: drain voltage (SETD x y / GETVD x), gate
   voltage (SETG x y / GETVG x), configuration (LOADCONF x / CONF?).  Requests are given by their
   tokens: ANY id token, ANY argument tokens that Python's int() maps to the in-domain values (not only
   canonical decimals).  "Acknowledged" = the non-error reply '#x id\n'; "quiet" = no accepted set of
   the same register (per channel x) in between.  A refused request (reply ERROR(1002..1015): argument
   missing / not an integer / out of range / too many arguments; also 1000/1001) changes no register.
   temp = value of the GETEMP oracle (arbitrary). *)
From DS Require Import Base.Prelude Model.SmaCommon Model.SmaGaia Proofs.SmaFramer.
From DS Require Import Proofs.SmaGaiaProofs.

Theorem C05_gaia_setd_readback : forall temp (s : gaia_state) tx ty cid x y,
  gaia_reachable temp s -> gaia_idle s = true ->
  tok_ok tx -> tok_ok ty -> tok_ok cid -> parse_int tx = Some x -> parse_int ty = Some y ->
  1 <= x <= 10 -> 0 <= y < 1024 ->
  let req := gline [tSETD; tx; ty; cid] in
  let s1 := fst (gaia_run temp s (req ++ [10])) in
  snd (gaia_run temp s (req ++ [10])) =
    repeat OTrue (length req) ++ [OReply (gaia_frame (render_int x) cid)] /\
  forall h tx' cid', gaia_quiet temp (gaia_sets KSetd x) s1 h -> gaia_idle (fst (gaia_run temp s1 h)) = true ->
    tok_ok tx' -> tok_ok cid' -> parse_int tx' = Some x ->
    snd (gaia_run temp (fst (gaia_run temp s1 h)) (gline [tGETVD; tx'; cid'] ++ [10])) =
    repeat OTrue (length (gline [tGETVD; tx'; cid'])) ++ [OReply (gaia_frame (render_int y) cid')].
Proof. exact gaia_setd_readback. Qed.
Print Assumptions C05_gaia_setd_readback.

Theorem C05_gaia_setg_readback : forall temp (s : gaia_state) tx ty cid x y,
  gaia_reachable temp s -> gaia_idle s = true ->
  tok_ok tx -> tok_ok ty -> tok_ok cid -> parse_int tx = Some x -> parse_int ty = Some y ->
  1 <= x <= 10 -> 0 <= y < 1024 ->
  let req := gline [tSETG; tx; ty; cid] in
  let s1 := fst (gaia_run temp s (req ++ [10])) in
  snd (gaia_run temp s (req ++ [10])) =
    repeat OTrue (length req) ++ [OReply (gaia_frame (render_int x) cid)] /\
  forall h tx' cid', gaia_quiet temp (gaia_sets KSetg x) s1 h -> gaia_idle (fst (gaia_run temp s1 h)) = true ->
    tok_ok tx' -> tok_ok cid' -> parse_int tx' = Some x ->
    snd (gaia_run temp (fst (gaia_run temp s1 h)) (gline [tGETVG; tx'; cid'] ++ [10])) =
    repeat OTrue (length (gline [tGETVG; tx'; cid'])) ++ [OReply (gaia_frame (render_int y) cid')].
Proof. exact gaia_setg_readback. Qed.
Print Assumptions C05_gaia_setg_readback.

Theorem C05_gaia_conf_readback : forall temp (s : gaia_state) tx cid x,
  gaia_reachable temp s -> gaia_idle s = true ->
  tok_ok tx -> tok_ok cid -> parse_int tx = Some x -> 1 <= x <= 10 ->
  let req := gline [tLOADCONF; tx; cid] in
  let s1 := fst (gaia_run temp s (req ++ [10])) in
  snd (gaia_run temp s (req ++ [10])) =
    repeat OTrue (length req) ++ [OReply (gaia_frame (render_int x) cid)] /\
  forall h cid', gaia_quiet temp (gaia_sets KLoadconf x) s1 h -> gaia_idle (fst (gaia_run temp s1 h)) = true ->
    tok_ok cid' ->
    snd (gaia_run temp (fst (gaia_run temp s1 h)) (gline [tCONFQ; cid'] ++ [10])) =
    repeat OTrue (length (gline [tCONFQ; cid'])) ++ [OReply (gaia_frame (render_int x) cid')].
Proof. exact gaia_conf_readback. Qed.
Print Assumptions C05_gaia_conf_readback.

(* any step (any byte, any reachable state) that does not execute an ACCEPTED request leaves VD, VG
   and conf unchanged *)
Theorem C05_gaia_refused_unchanged : forall temp (s : gaia_state) (b : Z),
  gaia_reachable temp s ->
  (forall m k args cid, gaia_executed s b = Some m -> gaia_decode (gaia_tokens m) <> DOk k args cid) ->
  gregs (dev (fst (gaia_step temp s b))) = gregs (dev s).
Proof. exact gaia_refused_unchanged. Qed.
Print Assumptions C05_gaia_refused_unchanged.

(* ... and these are the refusals: for every recognised command word (arity l from the params table),
   too many arguments -> 1015, none -> 1004, first not an integer -> 1002 / out of range -> 1003,
   second missing -> 1008 / not an integer -> 1009 / out of range(1024) -> 1010; all are DErr, never DOk *)
Theorem C05_gaia_refusal_classes : forall c k l margs cid,
  gaia_lookup gaia_table c = Some (k, l) ->
  (l < Z.of_nat (length margs) -> gaia_decode (c :: margs ++ [cid]) = DErr 1015 cid) /\
  (0 < l -> margs = [] -> gaia_decode (c :: margs ++ [cid]) = DErr 1004 cid) /\
  (forall t0 rest, 0 < l -> margs = t0 :: rest -> Z.of_nat (length margs) <= l ->
     (parse_int t0 = None -> gaia_decode (c :: margs ++ [cid]) = DErr 1002 cid) /\
     (forall x, parse_int t0 = Some x -> gaia_in_first k x = false ->
                gaia_decode (c :: margs ++ [cid]) = DErr 1003 cid) /\
     (forall x, parse_int t0 = Some x -> gaia_in_first k x = true -> l = 2 ->
        (rest = [] -> gaia_decode (c :: margs ++ [cid]) = DErr 1008 cid) /\
        (forall t1, rest = [t1] ->
           (parse_int t1 = None -> gaia_decode (c :: margs ++ [cid]) = DErr 1009 cid) /\
           (forall y, parse_int t1 = Some y -> ~ 0 <= y < 1024 ->
                      gaia_decode (c :: margs ++ [cid]) = DErr 1010 cid)))).
Proof. exact gaia_refusal_classes. Qed.
Print Assumptions C05_gaia_refusal_classes.
