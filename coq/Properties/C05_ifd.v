(* C05, IFD part — acknowledged writes read back; refused writes change nothing.
   Register catalogue (set command / get = status `? i` / encoding):
     attenuation  A i ch v   i in 5..20, ch 0..3     entry 5+ch = 2*v (half-dB steps)
     bandwidth    B i v      i in 1..2, v 0..3        bits 4..3 of entry 9
     input        I 2 v      v 0..1                   bits 2..1 of entry 9 = v+1
     LO           S 0 10 f e f 0..9999, e 0..1        entries 3,4 = 10,f; bit 3 of entry 9 = e; 10,11 = e^1,e
   Known findings (reproduced on the code, see known/C05_sma.txt):
     * attenuation values off the 0.5 dB grid are acknowledged and truncated (F28) — the read-back
       theorem below is for integer dB values; C05_ifd_att_offgrid_refuted is the witness;
     * `S 0 10 f 1.` (enable written as a float) raises ValueError after storing entries 3 and 4 —
       C05_ifd_refused_unchanged_except excludes exactly that class, ..._refuted is the witness.
   Full statements, for reference:
     forall acknowledged A i ch x, read-back decodes to x            (fails for x off the grid)
     forall steps with outcome <> ack, dev s' = dev s               (fails for the float-enable S) *)
From DS Require Import Base.Prelude Model.SmaCommon Model.SmaIfd Proofs.SmaFramer.
From DS Require Import Proofs.SmaIfdProofs.

Theorem C05_ifd_att_readback : forall e (s : ifd_state) (i ch v t : Z),
  ifd_reachable e s -> ifd_idle s = true -> 5 <= i < 21 -> 0 <= ch < 4 -> 0 <= v < 32 ->
  ifd_is_tail t = true ->
  let s1 := fst (ifd_run e s (ifd_line_att i ch v ++ [t])) in
  snd (ifd_run e s (ifd_line_att i ch v ++ [t])) =
    repeat OTrue (length (ifd_line_att i ch v)) ++ [OReply ifd_ack] /\
  forall h t', ifd_quiet e (writes_any e [IfA] i) s1 h -> ifd_idle (fst (ifd_run e s1 h)) = true ->
    ifd_is_tail t' = true ->
    exists brd, nth_error (b_att brd) (Z.to_nat ch) = Some (2 * v) /\ board_ok i brd /\
      snd (ifd_run e (fst (ifd_run e s1 h)) (ifd_line_status i ++ [t'])) =
      repeat OTrue (length (ifd_line_status i)) ++ [OReply (ifd_status_reply brd)].
Proof. exact ifd_att_readback. Qed.
Print Assumptions C05_ifd_att_readback.

(* per channel: the read-back of channel ch holds until the next acknowledged `A i ch _`; writes to the
   other channels of board i in between do not matter *)
Theorem C05_ifd_att_readback_chan : forall e (s : ifd_state) (i ch v t : Z),
  ifd_reachable e s -> ifd_idle s = true -> 5 <= i < 21 -> 0 <= ch < 4 -> 0 <= v < 32 ->
  ifd_is_tail t = true ->
  let s1 := fst (ifd_run e s (ifd_line_att i ch v ++ [t])) in
  snd (ifd_run e s (ifd_line_att i ch v ++ [t])) =
    repeat OTrue (length (ifd_line_att i ch v)) ++ [OReply ifd_ack] /\
  forall h t', ifd_quiet e (ifd_writes_att e i ch) s1 h -> ifd_idle (fst (ifd_run e s1 h)) = true ->
    ifd_is_tail t' = true ->
    exists brd, nth_error (b_att brd) (Z.to_nat ch) = Some (2 * v) /\ board_ok i brd /\
      snd (ifd_run e (fst (ifd_run e s1 h)) (ifd_line_status i ++ [t'])) =
      repeat OTrue (length (ifd_line_status i)) ++ [OReply (ifd_status_reply brd)].
Proof. exact ifd_att_readback_chan. Qed.
Print Assumptions C05_ifd_att_readback_chan.

Theorem C05_ifd_bw_readback : forall e (s : ifd_state) (i v t : Z),
  ifd_reachable e s -> ifd_idle s = true -> 1 <= i <= 2 -> 0 <= v < 4 -> ifd_is_tail t = true ->
  let s1 := fst (ifd_run e s (ifd_line_bw i v ++ [t])) in
  snd (ifd_run e s (ifd_line_bw i v ++ [t])) =
    repeat OTrue (length (ifd_line_bw i v)) ++ [OReply ifd_ack] /\
  forall h t', ifd_quiet e (writes_any e [IfB; IfS] i) s1 h -> ifd_idle (fst (ifd_run e s1 h)) = true ->
    ifd_is_tail t' = true ->
    exists brd, sr_bw (b_sr brd) = v /\ board_ok i brd /\
      snd (ifd_run e (fst (ifd_run e s1 h)) (ifd_line_status i ++ [t'])) =
      repeat OTrue (length (ifd_line_status i)) ++ [OReply (ifd_status_reply brd)].
Proof. exact ifd_bw_readback. Qed.
Print Assumptions C05_ifd_bw_readback.

Theorem C05_ifd_in_readback : forall e (s : ifd_state) (v t : Z),
  ifd_reachable e s -> ifd_idle s = true -> 0 <= v < 2 -> ifd_is_tail t = true ->
  let s1 := fst (ifd_run e s (ifd_line_in 2 v ++ [t])) in
  snd (ifd_run e s (ifd_line_in 2 v ++ [t])) =
    repeat OTrue (length (ifd_line_in 2 v)) ++ [OReply ifd_ack] /\
  forall h t', ifd_quiet e (writes_any e [IfI; IfS] 2) s1 h -> ifd_idle (fst (ifd_run e s1 h)) = true ->
    ifd_is_tail t' = true ->
    exists brd, sr_in (b_sr brd) = v + 1 /\ board_ok 2 brd /\
      snd (ifd_run e (fst (ifd_run e s1 h)) (ifd_line_status 2 ++ [t'])) =
      repeat OTrue (length (ifd_line_status 2)) ++ [OReply (ifd_status_reply brd)].
Proof. exact ifd_in_readback. Qed.
Print Assumptions C05_ifd_in_readback.

Theorem C05_ifd_lo_readback : forall e (s : ifd_state) (f en t : Z),
  ifd_reachable e s -> ifd_idle s = true -> 0 <= f < 10000 -> 0 <= en < 2 -> ifd_is_tail t = true ->
  let s1 := fst (ifd_run e s (ifd_line_lo 0 f en ++ [t])) in
  snd (ifd_run e s (ifd_line_lo 0 f en ++ [t])) =
    repeat OTrue (length (ifd_line_lo 0 f en)) ++ [OReply ifd_ack] /\
  forall h t', ifd_quiet e (writes_any e [IfS; IfB; IfI] 0) s1 h ->
    ifd_idle (fst (ifd_run e s1 h)) = true -> ifd_is_tail t' = true ->
    exists brd, reg_lo brd = (NInt 10, NInt f, en, Z.lxor en 1, en) /\ board_ok 0 brd /\
      snd (ifd_run e (fst (ifd_run e s1 h)) (ifd_line_status 0 ++ [t'])) =
      repeat OTrue (length (ifd_line_status 0)) ++ [OReply (ifd_status_reply brd)].
Proof. exact ifd_lo_readback. Qed.
Print Assumptions C05_ifd_lo_readback.

(* any parse step (any byte, any state) whose outcome is not `ack` leaves every board unchanged,
   outside the float-enable class of S lines *)
Theorem C05_ifd_refused_unchanged_except : forall e (s : ifd_state) (b : Z),
  snd (ifd_step e s b) <> OReply ifd_ack ->
  (forall m, ifd_executed s b = Some m -> ~ ifd_float_enable_line e m) ->
  dev (fst (ifd_step e s b)) = dev s.
Proof. exact ifd_refused_unchanged_except. Qed.
Print Assumptions C05_ifd_refused_unchanged_except.

Theorem C05_ifd_refused_unchanged_refuted :
  exists e s b, ifd_reachable e s /\ snd (ifd_step e s b) = OValueError /\
                dev (fst (ifd_step e s b)) <> dev s.
Proof. exact ifd_refused_unchanged_refuted. Qed.
Print Assumptions C05_ifd_refused_unchanged_refuted.

Theorem C05_ifd_att_offgrid_refuted :
  let (s1, outs) := ifd_run env_w ifd_init line_A503 in
  last outs OFalse = OReply ifd_ack /\
  option_map (fun b => nth_error (b_att b) 0) (get_board (dev s1) 5) = Some (Some 0).
Proof. exact ifd_att_offgrid_refuted. Qed.
Print Assumptions C05_ifd_att_offgrid_refuted.
