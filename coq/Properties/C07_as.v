(* C07, active-surface part (tag Usd) — no command handler of the USD line blocks, so a
   connection-handler thread is never left alive inside System.parse and cannot outlive
   system_stop.  Statements only; proofs in Proofs/UsdNoBlock.v.  Model: Model/UsdModel.v
   (lstep/lrun; a call that would never return - Queue.get() on an empty position queue, the only
   blocking primitive of the active-surface code - is the explicit outcome OBlock). *)
From DS Require Import Base.Prelude Base.Bits Model.Utils Model.UsdModel Spec.UsdSpec.
From DS Require Import Proofs.UsdMotion Proofs.UsdInv Proofs.UsdRefine Proofs.UsdHistory Proofs.UsdNoBlock.

(* In the state reached by ANY history of unicast / broadcast commands (any code, any parameter
   bytes) and time steps on any line, whatever command arrives next - unicast to any unit or
   broadcast, reaching soft_trigger on one unit or on all of them - returns. *)
Theorem C07_as_never_blocks : forall idxs clk h e, Forall (fun i => 0 <= i < 32) idxs ->
  Forall wf_levent h -> wf_levent e ->
  ~ would_block (fst (fst (lrun (map usd_init idxs, clk) h))) e.
Proof. exact never_blocks_line. Qed.
Print Assumptions C07_as_never_blocks.

(* every outcome along every history is a return of parse *)
Theorem C07_as_outcomes_are_returns : forall idxs clk h, Forall (fun i => 0 <= i < 32) idxs ->
  Forall wf_levent h ->
  Forall (fun o => o <> Some OBlock) (snd (lrun (map usd_init idxs, clk) h)).
Proof. exact outcomes_are_returns. Qed.
Print Assumptions C07_as_outcomes_are_returns.

(* the reason: Queue.get() is reached only with [ready] set, and [ready] implies a queued position *)
Theorem C07_as_trigger_returns : forall u, Inv u -> soft_trigger u <> MBlock.
Proof. exact trigger_returns. Qed.
Print Assumptions C07_as_trigger_returns.

Theorem C07_as_ready_means_queued : forall idx u, 0 <= idx < 32 -> reachable idx u ->
  (ready u = true <-> position_queue u <> []).
Proof. intros idx u Hi Hr. exact (inv_ready u (reachable_inv idx u Hi Hr)). Qed.
Print Assumptions C07_as_ready_means_queued.

(* non-vacuity: the seeded scenario - velocity mode, two queued positions, repeated triggers *)
Example C07_as_ex :
  let h := [LUni 0 53 252 [0; 3; 232]; LUni 0 41 252 [128]; LUni 0 48 252 [0; 0; 0; 9];
            LUni 0 48 252 [0; 0; 0; 7]; LUni 0 2 252 []; LUni 0 2 252 []; LUni 0 2 252 [];
            LBcast 2 250 []] in
  Forall wf_levent h /\
  snd (lrun (map usd_init [1; 2], 1024) h)
  = [Some (OReply ack); Some (OReply ack); Some (OReply ack); Some (OReply ack); Some (OReply ack);
     Some (OReply ack); Some (OReply ack); Some OSilent].
Proof. cbv zeta. split; [repeat constructor; cbn; unfold byte; lia|]. vm_compute. reflexivity. Qed.
