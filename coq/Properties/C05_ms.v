(* C05 (minor servos) — acknowledged writes read back; refused writes change nothing.
   Statements only. *)
From DS Require Import Base.Prelude Model.MsvTypes Model.MsvModel Model.MsvFloat Gen.MsvTables.
From DS Require Import Proofs.MsvProofs Proofs.MsvParts Proofs.MsvGen.

(* A refused write (any command line answered OUTPUT:BAD) leaves the simulator in exactly the
   state it had with an empty buffer: every later reply, to every query, is the same. *)
Theorem C05_ms_refused_changes_nothing : forall T (ops : numops T) orc cf s e b s',
  pt_law ops cf -> replies_distinct cf = true ->
  parse ops orc cf s e b = (s', OReply (c_bad cf ++ crlf)) -> s' = set_msg s [].
Proof. exact @refused_same_future. Qed.
Print Assumptions C05_ms_refused_changes_nothing.

(* for the binary64 model of the shipped simulator both hypotheses are discharged (Proofs/MsvGen.v);
   [pt_law] is the arithmetic fact start + 0 * gap >= now when start >= now, see Properties/C20.v *)
Theorem C05_ms_refused_changes_nothing_binary64 : forall orc tk s e b s',
  parse fops orc (fcfg tk) s e b = (s', OReply (c_bad (fcfg tk) ++ crlf)) -> s' = set_msg s [].
Proof.
  intros orc tk s e b s'.
  exact (refused_same_future fops orc (fcfg tk) s e b s' (f_pt_law tk) (gen_replies_distinct F f_of_bits tk)).
Qed.
Print Assumptions C05_ms_refused_changes_nothing_binary64.

(* OFFSET acknowledged: the stored offsets are exactly float(token) for each axis ... *)
Theorem C05_ms_offset_stored : forall T (orc : oracles T) cf s e args s' body,
  h_offset orc cf s e args = (s', RGood body) ->
  exists sid toks i sc xs sv offs',
    args = sid :: toks /\ find_servo sid 0 (c_servos cf) = Some (i, sc) /\ length toks = sc_dof sc /\
    floats orc toks = Some xs /\ nth_error (s_servos s) i = Some sv /\
    set_offsets (sv_offs sv) xs = Some offs' /\
    s' = set_last (set_servo s i (mk_servo (sv_mode sv) (sv_future sv) (sv_coords sv) (sv_cmd sv) offs'
                                           (sv_last sv) (sv_timer sv) (sv_alias sv) (sv_trk sv))) (e_now e).
Proof. exact @h_offset_good. Qed.
Print Assumptions C05_ms_offset_stored.

Theorem C05_ms_offset_exact : forall T (xs offs offs' : list T),
  set_offsets offs xs = Some offs' -> length xs = length offs -> offs' = xs.
Proof. exact @set_offsets_exact. Qed.
Print Assumptions C05_ms_offset_exact.

(* ... and nothing but another OFFSET changes them (timer ticks, refreshes, motion) *)
Theorem C05_ms_offset_persists : forall T (ops : numops T) sv qs, sv_offs (qrun ops sv qs) = sv_offs sv.
Proof. exact @offsets_persist. Qed.
Print Assumptions C05_ms_offset_persists.

(* SETUP acknowledged: CURRENT_CONFIG reads the ID of the configuration *)
Theorem C05_ms_setup_config : forall T (ops : numops T) cf s e args s' body,
  h_setup ops cf s e args = (s', RGood body) ->
  exists name r svs', args = [name] /\ find_row name (c_table cf) = Some r /\
    setup_loop ops (c_servos cf) (tr_rows r) (s_servos s) = Some svs' /\
    s_servos s' = svs' /\ s_conf s' = tr_id r /\ s_last s' = Some (e_now e).
Proof. exact @h_setup_good. Qed.
Print Assumptions C05_ms_setup_config.

(* PRESET acknowledged: the commanded coordinates are float(token) + offset (C20_preset_decision);
   the position read back converges to them (C20_arrival_real). *)
Theorem C05_ms_preset_commanded : forall T (ops : numops T) orc cf s e args s' body,
  h_preset ops orc cf s e args = (s', RGood body) ->
  exists sid toks i sc xs sv l,
    args = sid :: toks /\ find_servo sid 0 (c_servos cf) = Some (i, sc) /\ length toks = sc_dof sc /\
    floats orc toks = Some xs /\ nth_error (s_servos s) i = Some sv /\
    s' = set_last (set_servo s i (preset_servo sv l)) (e_now e) /\ length l = length xs /\
    forall k x, nth_error xs k = Some x ->
      exists v, cell_value ops true (sv_offs sv) k x = Some v /\ nth_error l k = Some v /\
                accepted_on ops sc k v.
Proof. exact @h_preset_good. Qed.
Print Assumptions C05_ms_preset_commanded.
