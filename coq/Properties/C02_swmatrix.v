(* C02, switch matrix part (code with fixes/23 applied) — `get IF_switch_config` is answered with
   exactly one well-formed reply in every reachable idle state.  Statements only. *)
From DS Require Import Base.Prelude Model.SmbCommon Model.SmbSwMatrix Proofs.SmbCommon Proofs.SmbSwMatrix.

Theorem C02_swmatrix_answered : forall s q, lreach sw_exec sw_start s -> sw_idle s = true ->
  In q sw_queries ->
  sw_run s (q ++ [LF]) = (s, line_outs q (OReply (sw_enc (idx (ldev s))))) /\
  sw_reply_wfb (sw_enc (idx (ldev s))) = true.
Proof. exact sw_answered. Qed.
Print Assumptions C02_swmatrix_answered.

(* after ANY byte history closed by the terminator *)
Theorem C02_swmatrix_after_any_history : forall bs q, In q sw_queries ->
  let s := fst (sw_run sw_start (bs ++ [LF])) in
  snd (sw_run s (q ++ [LF])) = line_outs q (OReply (sw_enc (idx (ldev s)))) /\
  In (idx (ldev s)) sw_configs.
Proof. exact sw_answered_after_history. Qed.
Print Assumptions C02_swmatrix_after_any_history.

(* the invariant that makes the query total: the stored configuration is always a table key *)
Theorem C02_swmatrix_invariant : forall s, lreach sw_exec sw_start s -> In (idx (ldev s)) sw_configs.
Proof. exact sw_reach_inv. Qed.
Print Assumptions C02_swmatrix_invariant.

Example C02_swmatrix_ex : In (SW_GET ++ [CR]) sw_queries /\ sw_idle sw_start = true.
Proof. split; [left; reflexivity | reflexivity]. Qed.
