(* C04, calmux part — every reply produced in any reachable state is `ack\n`, `nak\n`, the literal
   `0 0 0` of the frequency query (no terminator: the simulator's own convention) or a status line
   "<channel> <polarity> <calon>\n" with channel in 0..16 and 0/1 flags; ASCII only, one \n at the end. *)
From DS Require Import Base.Prelude Model.SmaCommon Model.SmaCalmux Proofs.SmaFramer.
From DS Require Import Proofs.SmaCalmuxProofs.

Theorem C04_calmux_replies_wf : forall (s : cm_state) (b : Z) (s' : cm_state) (r : list Z),
  cm_reachable s -> cm_step s b = (s', OReply r) -> cm_wf_reply r.
Proof. exact cm_replies_wf. Qed.
Print Assumptions C04_calmux_replies_wf.

Theorem C04_calmux_reply_shape : forall r, cm_wf_reply r -> cm_shape_okb r = true.
Proof. exact cm_wf_reply_shape. Qed.
Print Assumptions C04_calmux_reply_shape.
