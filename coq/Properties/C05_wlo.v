(* C05, W-band LO part (code with fixes/26 applied) — register catalogue: the six registers
   freq PolH/PolV, att PolH/PolV, Ref H/V; write `<set name>=<tok>`, always acknowledged with
   ACK CR LF; the stored value is float(tok) when it parses, else the text without its last
   character.  PARTIAL: the write semantics and the independence of the registers are proved; the
   theorem over arbitrary interleaved histories (as for the solar attenuator / generic LO) is not —
   covered by the correspondence and the implementation-level oracle only.  Statements only. *)
From DS Require Import Base.Prelude Model.SmbCommon Model.SmbWLO Proofs.SmbCommon Proofs.SmbWLO.

Theorem C05_wlo_write_partial : forall fl cap d r tok, plain_token tok ->
  w_exec fl cap d (w_write r tok) =
    match fl tok with
    | WFloat rp => (wset d r (WF rp), OReply (ACK ++ CRLF))
    | WNotFloat => (wset d r (WS (removelast tok)), OReply (ACK ++ CRLF))
    | WMissing => (d, ONoOracle)
    end.
Proof. exact w_write_exec. Qed.
Print Assumptions C05_wlo_write_partial.

Theorem C05_wlo_written_value : forall d r v, wget (wset d r v) r = v.
Proof. exact wget_wset_same. Qed.
Print Assumptions C05_wlo_written_value.

Theorem C05_wlo_other_registers_untouched : forall d r r' v, r <> r' -> wget (wset d r v) r' = wget d r'.
Proof. exact wget_wset_other. Qed.
Print Assumptions C05_wlo_other_registers_untouched.

(* immediate read-back of a numeric write: repr(float(tok)) and the unit *)
Example C05_wlo_ex :
  let fl := wfl_of_table [([49; 50; 46; 50; 51; 13], WFloat [49; 50; 46; 50; 51])] in
  snd (w_run fl (fun s => Some s) w_start (lines_bytes [w_write RFH [49; 50; 46; 50; 51; 13]; w_read RFH])) =
  repeat OTrue 25 ++ [OReply (ACK ++ CRLF)] ++ repeat OTrue 14 ++ [OReply ([49; 50; 46; 50; 51] ++ W_MHZ ++ CRLF)].
Proof. reflexivity. Qed.
