(* C05, W-band LO part (code with fixes/26 applied) — register catalogue: the six registers
   freq PolH/PolV, att PolH/PolV, Ref H/V; write `<set name>=<tok>`, always acknowledged with
   ACK CR LF; the stored value is float(tok) when it parses, else the text without its last
   character; read `<get name>` CR; encoding `<value>MHz` / `<value>dB` / `<Capitalized>.` CR LF.
   [fl], [cap] are the oracles for float()/repr and str.capitalize().  Statements only. *)
From DS Require Import Base.Prelude Model.SmbCommon Model.SmbWLO Proofs.SmbCommon Proofs.SmbWLO
  Proofs.SmbWLOHist.

(* for EVERY parameter text without ';' and '=' *)
Theorem C05_wlo_write : forall fl cap d r tok, plain_token tok ->
  w_exec fl cap d (w_write r tok) =
    match fl tok with
    | WFloat rp => (wset d r (WF rp), OReply (ACK ++ CRLF))
    | WNotFloat => (wset d r (WS (removelast tok)), OReply (ACK ++ CRLF))
    | WMissing => (d, ONoOracle)
    end.
Proof. exact w_write_exec. Qed.
Print Assumptions C05_wlo_write.

(* acknowledged write to register r, ANY history of lines in which no command is `<set name of r>=...`
   (writes to the other five registers, all getters, enable/disable, unknown commands, garbage,
   lines that raise), then the read-back of r: the written value in the protocol's encoding *)
Theorem C05_wlo_readback : forall fl cap d r tok v ls a, plain_token tok -> w_value fl tok = Some v ->
  Forall (fun l => w_line_writes r l = false) ls -> w_render cap r v = Some a ->
  let d2 := fst (exec_lines (w_exec fl cap) (fst (w_exec fl cap d (w_write r tok))) ls) in
  w_exec fl cap d2 (w_read r) = (d2, OReply a).
Proof. exact w_readback. Qed.
Print Assumptions C05_wlo_readback.

(* the same on the byte stream from any idle parser state *)
Theorem C05_wlo_readback_bytes : forall fl cap s r tok v ls a, w_idle s = true -> plain_token tok ->
  ~ In LF tok -> w_value fl tok = Some v -> Forall no_lf ls ->
  Forall (fun l => w_line_writes r l = false) ls -> w_render cap r v = Some a ->
  exists s' mid,
    w_run fl cap s (lines_bytes (w_write r tok :: ls) ++ w_read r ++ [LF]) =
      (s', line_outs (w_write r tok) (OReply (ACK ++ CRLF)) ++ mid ++ line_outs (w_read r) (OReply a)).
Proof. exact w_readback_bytes. Qed.
Print Assumptions C05_wlo_readback_bytes.

(* frame: a line without a set command of r leaves r alone, whatever else it does *)
Theorem C05_wlo_frame : forall fl cap r cmds d items, existsb (w_cmd_writes r) cmds = false ->
  wget (fst (w_cmds fl cap d items cmds)) r = wget d r.
Proof. exact w_cmds_frame. Qed.
Print Assumptions C05_wlo_frame.

(* refused: a line answered `True` (nothing recognised) leaves the whole device unchanged.  (The
   protocol has no NACK: every recognised set is acknowledged.  A line that raises after earlier
   commands were executed is the known finding wlo_partial_line_exception.) *)
Theorem C05_wlo_silent_unchanged : forall fl cap d l d', w_exec fl cap d l = (d', OTrue) -> d' = d.
Proof. exact w_silent_unchanged. Qed.
Print Assumptions C05_wlo_silent_unchanged.

Theorem C05_wlo_other_registers_untouched : forall d r r' v, r <> r' -> wget (wset d r v) r' = wget d r'.
Proof. exact wget_wset_other. Qed.
Print Assumptions C05_wlo_other_registers_untouched.

Example C05_wlo_ex_hyp : plain_token [49; 50; 46; 50; 51; 13] /\ w_line_writes RFH (w_write RFV [53; 13]) = false
  /\ w_line_writes RFH (w_write RFH [53; 13]) = true /\ w_line_writes RFH (w_read RFH) = false.
Proof.
  split; [|repeat split; reflexivity].
  intros x [<-|[<-|[<-|[<-|[<-|[<-|[]]]]]]]; split; discriminate.
Qed.
Example C05_wlo_ex :
  let fl := wfl_of_table [([49; 50; 46; 50; 51; 13], WFloat [49; 50; 46; 50; 51])] in
  snd (w_run fl (fun s => Some s) w_start (lines_bytes [w_write RFH [49; 50; 46; 50; 51; 13]; w_read RFH])) =
  repeat OTrue 25 ++ [OReply (ACK ++ CRLF)] ++ repeat OTrue 14 ++ [OReply ([49; 50; 46; 50; 51] ++ W_MHZ ++ CRLF)].
Proof. reflexivity. Qed.
