(* C04, receiver part -- every reply of simulators/receiver decodes under the independent decoder
   Spec/RcvSpec.v (STX master slave command id code [len data] [xor EOT]) and names its request.
   Statements only; proofs in Proofs/RcvDecode.v, Proofs/RcvBytes.v, Proofs/RcvBytes2.v. *)
From DS Require Import Base.Prelude Gen.RcvTables Model.RcvModel Spec.RcvSpec Proofs.RcvAssoc Proofs.RcvProofs Proofs.RcvBoards Proofs.RcvFraming Proofs.RcvDecode Proofs.RcvBytes Proofs.RcvBytes2.

(* For every address map (any board types, any state), every complete message m that _parse can read
   (accepted, refused, unknown command, wrong checksum alike): if a reply r is produced then r is the
   concatenation of the frames of a non-empty list l of (address, tail, trailer?) and the independent
   decoder maps r to exactly those frames: the decoder checks that the length byte equals the length
   of the data and that the xor checksum and EOT of an extended answer verify; each address is one of
   the addressed boards. *)
Theorem C04_receiver_reply_decodes : forall clk mkdate render sl t m sa q sl' t' r,
  decode m = Some (sa, q) -> handle clk mkdate render sl t m = (sl', t', OReply r) ->
  exists l : list ans,
    r = render_ans q l /\ rx_decode r = Some (map (frame_of q) l) /\ l <> [] /\
    Forall (fun x : ans => let '(a, tail, tr) := x in In a (targets_of sa sl) /\ tail_wf (q_cmd q) tail tr) l.
Proof. exact reply_decodes. Qed.
Print Assumptions C04_receiver_reply_decodes.

(* identity echo: each decoded frame carries master, command and id of the request and the address of
   the board that answered *)
Theorem C04_receiver_identity_echo : forall q x, let f := frame_of q x in
  f_master f = q_master q /\ f_cmd f = q_cmd q /\ f_id f = q_cid q /\ f_slave f = fst (fst x).
Proof. exact frame_of_echo. Qed.
Print Assumptions C04_receiver_identity_echo.

(* the request identity is what the message carries in its bytes 1..4 *)
Theorem C04_receiver_request_identity : forall m sa q, decode m = Some (sa, q) ->
  exists x0 rest, m = x0 :: sa :: q_master q :: q_cmd q :: q_cid q :: rest.
Proof. exact decode_fields. Qed.
Print Assumptions C04_receiver_request_identity.

(* transmittable as single bytes: in every state reachable from a System built at byte addresses by
   any byte history, every reply consists of code points 0..255 (so the length field, which equals the
   data length by the theorem above, fits one byte).  render_ok: Slave._datetime_to_time returns at
   most 252 code points < 256 when it returns (it returns eight). *)
Theorem C04_receiver_replies_are_bytes : forall clk mkdate render, render_ok render ->
  forall tag feeds addrs bs s os,
  bytes addrs -> bytes bs -> run clk mkdate render (init_sys tag feeds addrs) bs = (s, os) ->
  Forall out_bytes os.
Proof. exact replies_are_bytes. Qed.
Print Assumptions C04_receiver_replies_are_bytes.

(* the framing never hands more than 255 parameter bytes to _parse (needed for the length byte) *)
Theorem C04_receiver_params_bound : forall msg b, buf_inv2 msg -> byte b ->
  match frame_step msg b with
  | FReject => True
  | FMore m => buf_inv2 m
  | FDone m => m = msg ++ [b] /\ forall sa q, decode m = Some (sa, q) -> zlen (q_params q) <= 255
  end.
Proof. exact frame_step_inv2. Qed.
Print Assumptions C04_receiver_params_bound.
