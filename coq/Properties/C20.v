(* C20 — Minor-servo PLC keeps axes inside limits, honours SETUP/PRESET/OFFSET semantics.
   Statements only; every proof is `exact` of a lemma in Proofs/Msv*.v.

   The model (Model/MsvModel.v) is generic in the number type.  Theorems quantified over
   `T ops` hold for every instance, in particular for the bit-exact binary64 instance `fops` the
   correspondence compares with the implementation.  Theorems over `rops` are about the ideal
   real arithmetic of the same code (the binary64 rounding link is an assumption, see
   C20_speed_partial). *)
From DS Require Import Base.Prelude Model.MsvTypes Model.MsvModel Model.MsvFloat Gen.MsvTables.
From DS Require Import Proofs.MsvProofs Proofs.MsvKin Proofs.MsvGen.
From Coq Require Import Reals Lra.

(* ---- refused commands change nothing ---------------------------------------------------------------- *)

(* A command line answered OUTPUT:BAD leaves the whole device state (every servo, configuration,
   cover, timers, last command) as it was; only the receive buffer is emptied.  All seven commands,
   any arguments, any state. *)
Theorem C20_bad_changes_nothing : forall T (ops : numops T) orc cf s e b s',
  pt_law ops cf -> replies_distinct cf = true ->
  parse ops orc cf s e b = (s', OReply (c_bad cf ++ crlf)) -> dev s' = dev s /\ s_msg s' = [].
Proof. exact @parse_bad. Qed.
Print Assumptions C20_bad_changes_nothing.

(* [pt_law]: `start + 0 * program_track_timegap` is not before `now` when `start` is not — the only
   arithmetic fact the theorem needs (a PROGRAMTRACK that starts a new trajectory re-initialises the
   bookkeeping BEFORE its second past-check; by this law that check cannot fail for point 0).  It holds
   for the bit-exact binary64 instance and for the reals, on the generated time gap: *)
Theorem C20_pt_law_binary64 : forall tk, pt_law fops (fcfg tk).
Proof. exact f_pt_law. Qed.
Print Assumptions C20_pt_law_binary64.
Theorem C20_pt_law_real : forall tk, pt_law rops (rcfg tk).
Proof. exact r_pt_law. Qed.
Print Assumptions C20_pt_law_real.

(* hence, for the binary64 model of the shipped simulator, without hypotheses *)
Theorem C20_bad_changes_nothing_binary64 : forall orc tk s e b s',
  parse fops orc (fcfg tk) s e b = (s', OReply (c_bad (fcfg tk) ++ crlf)) -> dev s' = dev s /\ s_msg s' = [].
Proof. intros orc tk s e b s'. exact (parse_bad fops orc (fcfg tk) s e b s' (f_pt_law tk) (gen_replies_distinct F f_of_bits tk)). Qed.
Print Assumptions C20_bad_changes_nothing_binary64.

Theorem C20_preset_bad_changes_nothing : forall T (ops : numops T) orc cf s e args s',
  h_preset ops orc cf s e args = (s', RBad) -> s' = s.
Proof. exact @h_preset_bad. Qed.
Print Assumptions C20_preset_bad_changes_nothing.

(* GOOD and BAD reply lines of the shipped simulator cannot be confused (generated strings) *)
Theorem C20_replies_distinct_shipped : forall T (f : Z -> T) tk, replies_distinct (gen_cfg f tk) = true.
Proof. exact gen_replies_distinct. Qed.
Print Assumptions C20_replies_distinct_shipped.

(* ---- PRESET: decision and effect ---------------------------------------------------------------------- *)

(* On well-formed arguments (known servo, DOF numeric tokens): if some coordinate plus its offset
   is not finite or outside the limits of its axis the answer is BAD and nothing changes; if all
   are acceptable the answer is GOOD and exactly float(token) + offset is commanded. *)
Theorem C20_preset_decision : forall T (ops : numops T) orc cf s e sid toks i sc xs sv,
  toks <> [] -> find_servo sid 0 (c_servos cf) = Some (i, sc) -> length toks = sc_dof sc ->
  floats orc toks = Some xs -> nth_error (s_servos s) i = Some sv ->
  (sc_dof sc <= length (sv_offs sv))%nat -> (sc_dof sc <= length (sc_min sc))%nat ->
  (sc_dof sc <= length (sc_max sc))%nat ->
  ((exists k x v, nth_error xs k = Some x /\ cell_value ops true (sv_offs sv) k x = Some v /\
                  ~ accepted_on ops sc k v)
   -> h_preset ops orc cf s e (sid :: toks) = (s, RBad)) /\
  ((forall k x v, nth_error xs k = Some x -> cell_value ops true (sv_offs sv) k x = Some v ->
                  accepted_on ops sc k v)
   -> exists l, h_preset ops orc cf s e (sid :: toks)
                = (set_last (set_servo s i (preset_servo sv l)) (e_now e), RGood []) /\
                length l = length xs /\
                forall k x, nth_error xs k = Some x -> nth_error l k = cell_value ops true (sv_offs sv) k x).
Proof. exact @preset_decision. Qed.
Print Assumptions C20_preset_decision.

(* Whatever the arguments: an accepted PRESET commands only finite values inside the limits, the
   operative mode reads 0, the future mode is PRESET (40), the mode timer is cancelled. *)
Theorem C20_accepted_in_limits_finite : forall T (ops : numops T) orc cf s e args s' body,
  h_preset ops orc cf s e args = (s', RGood body) ->
  exists sid toks i sc xs sv l,
    args = sid :: toks /\ find_servo sid 0 (c_servos cf) = Some (i, sc) /\ length toks = sc_dof sc /\
    floats orc toks = Some xs /\ nth_error (s_servos s) i = Some sv /\
    s' = set_last (set_servo s i (preset_servo sv l)) (e_now e) /\ length l = length xs /\
    forall k x, nth_error xs k = Some x ->
      exists v, cell_value ops true (sv_offs sv) k x = Some v /\ nth_error l k = Some v /\
                accepted_on ops sc k v.
Proof. exact @h_preset_good. Qed.
Print Assumptions C20_accepted_in_limits_finite.

(* ---- SETUP ------------------------------------------------------------------------------------------------ *)

(* From ANY state s (so on the n-th SETUP for every n: the table is not part of the mutable state):
   an accepted SETUP puts every servo in mode 0 with its timer cancelled, keeps the commanded value
   of every '*' cell, and — when the row's cells are acceptable values — commands every tabulated
   cell and sets the future mode SETUP (10). *)
Theorem C20_setup_star_stays : forall T (ops : numops T) cf s e args s' body j sc sv,
  h_setup ops cf s e args = (s', RGood body) ->
  nth_error (c_servos cf) j = Some sc -> nth_error (s_servos s) j = Some sv ->
  exists name r row sv',
    args = [name] /\ find_row name (c_table cf) = Some r /\ nth_error (tr_rows r) j = Some row /\
    nth_error (s_servos s') j = Some sv' /\
    sv_mode sv' = 0 /\ sv_timer sv' = None /\ sv_coords sv' = sv_coords sv /\ sv_offs sv' = sv_offs sv /\
    (forall k, nth_error row k = Some None -> nth_error (sv_cmd sv') k = nth_error (sv_cmd sv) k) /\
    (row_ok ops sc row -> (length row <= length (sv_cmd sv))%nat ->
       sv_future sv' = 10 /\ length (sv_cmd sv') = length row /\
       forall k x, nth_error row k = Some (Some x) -> nth_error (sv_cmd sv') k = Some x).
Proof. exact @setup_cells. Qed.
Print Assumptions C20_setup_star_stays.

(* every cell of the shipped setup.csv is finite, inside the limits of its axis (binary64), and
   every row has DOF cells — so the second clause above applies to all thirteen configurations *)
Theorem C20_setup_table_shipped : forall tk name r j sc row,
  find_row name (c_table (fcfg tk)) = Some r ->
  nth_error (c_servos (fcfg tk)) j = Some sc -> nth_error (tr_rows r) j = Some row ->
  row_ok fops sc row /\ length row = sc_dof sc.
Proof. intros tk. exact (table_ok_b_spec fops (fcfg tk) (gen_table_ok tk)). Qed.
Print Assumptions C20_setup_table_shipped.

(* ---- operative-mode sequence ------------------------------------------------------------------------------ *)

(* after an accepted PRESET the servo is `moving 40`; after SETUP (C20_setup_star_stays) `moving 10` *)
Theorem C20_mode_after_preset : forall T (sv : servo T) l, moving 40 (preset_servo sv l).
Proof. intros. repeat split. Qed.
Print Assumptions C20_mode_after_preset.

(* 0 while moving, then SETUP (10) / PRESET (40) from the refresh on which the coordinates equal the
   commanded ones — under any sequence of timer ticks and status refreshes *)
Theorem C20_mode_sequence : forall T (ops : numops T) f sv qs, f = 10 \/ f = 40 ->
  moving f sv \/ arrived ops f sv -> moving f (qrun ops sv qs) \/ arrived ops f (qrun ops sv qs).
Proof. exact @moving_or_arrived. Qed.
Print Assumptions C20_mode_sequence.

(* STOP: accepted => the addressed servo reads 30 at once, timer cancelled ... *)
Theorem C20_stop_at_once : forall T (cf : cfg T) s e args s' body,
  h_stop cf s e args = (s', RGood body) ->
  exists sid i sc sv, args = [sid] /\ find_servo sid 0 (c_servos cf) = Some (i, sc) /\
    nth_error (s_servos s) i = Some sv /\
    s' = set_last (set_servo s i (cancel_set_mode sv 30)) (e_now e).
Proof. exact @h_stop_good. Qed.
Print Assumptions C20_stop_at_once.

(* ... and keeps reading 30 whatever ticks and refreshes follow *)
Theorem C20_stop_persists : forall T (ops : numops T) sv qs, sv_mode sv = 30 -> sv_timer sv = None ->
  sv_mode (qrun ops sv qs) = 30 /\ sv_timer (qrun ops sv qs) = None.
Proof. exact @stop_persists. Qed.
Print Assumptions C20_stop_persists.

(* STOW of a servo: mode 0 and a timer for (now + timer_value, 20) ... *)
Theorem C20_stow_starts_timer : forall T (orc : oracles T) cf s e sid pos i sc s' body,
  find_servo sid 0 (c_servos cf) = Some (i, sc) ->
  h_stow orc cf s e [sid; pos] = (s', RGood body) ->
  exists sv, nth_error (s_servos s) i = Some sv /\
             s' = set_last (set_servo s i (stow_servo cf e sv)) (e_now e).
Proof. exact @h_stow_good_servo. Qed.
Print Assumptions C20_stow_starts_timer.

(* ... which fires at its tick whatever refreshes happen: mode 20 from then on, pending before *)
Theorem C20_stow_after_delay : forall T (ops : numops T) sv t qs, sv_timer sv = Some (t, 20) ->
  if existsb (fires t) qs
  then sv_mode (qrun ops sv qs) = 20 /\ sv_timer (qrun ops sv qs) = None
  else sv_timer (qrun ops sv qs) = Some (t, 20).
Proof. exact @stow_sequence. Qed.
Print Assumptions C20_stow_after_delay.

(* ---- kinematics over the reals ------------------------------------------------------------------------------ *)

(* From the initial state of the shipped configuration, for every history (bytes, refreshes, clock
   steps with a non-decreasing clock, any oracle values), every servo's actual AND commanded
   coordinates are inside the limits of the axis. *)
Theorem C20_limits_real : forall orc tk e0 evs, e_now e0 = 0%R -> mono 0 evs ->
  let w := fst (run rops orc (rcfg tk) (e0, init_sys rops (rcfg tk)) evs) in
  forall j sc sv, nth_error (c_servos (rcfg tk)) j = Some sc -> nth_error (s_servos (snd w)) j = Some sv ->
    within (sc_min sc) (sc_max sc) (sv_coords sv) /\ within (sc_min sc) (sc_max sc) (sv_cmd sv).
Proof. intros orc tk. exact (limits_always orc (rcfg tk) (gen_wf tk) (gen_rows_dof tk)). Qed.
Print Assumptions C20_limits_real.

(* One status refresh moves an axis by at most max_delta x dt.
   PARTIAL: this is the bound for ideal real arithmetic.  The full statement for the binary64 model,
     |B2R c' - B2R c| <= B2R m * B2R dt * (1 + 2^-52) + ulp,
   is not proved: it needs the Flocq rounding lemmas for  c (+) dir (x) min(m (x) dt, |t (-) c|)
   (relative error of Bmult/Bplus in the absence of overflow).  The implementation does overshoot
   its target by a few ulps (observed), which the .6f reports never show. *)
Theorem C20_speed_partial : forall sc e sv, wf_sconf sc -> (sv_last sv <= e_now e)%R ->
  forall k m c c', nth_error (sc_delta sc) k = Some m -> nth_error (sv_coords sv) k = Some c ->
    nth_error (sv_coords (get_status rops sc e sv)) k = Some c' ->
    (Rabs (c' - c) <= m * (e_now e - sv_last sv))%R.
Proof. exact get_status_speed. Qed.
Print Assumptions C20_speed_partial.

(* SETUP/PRESET drive the axes to the commanded coordinates: as soon as max_delta x dt covers the
   remaining distance of every axis, the refresh lands exactly on the target and the operative mode
   becomes the future mode (ideal arithmetic). *)
Theorem C20_arrival_real : forall sc e sv, wf_sconf sc -> (sv_last sv <= e_now e)%R ->
  sv_mode sv <> 50 -> sv_mode sv <> 20 -> sv_mode sv <> 30 -> sv_future sv <> 0 ->
  length (sv_coords sv) = sc_dof sc -> length (sv_cmd sv) = sc_dof sc ->
  (forall k m c t, nth_error (sc_delta sc) k = Some m -> nth_error (sv_coords sv) k = Some c ->
     nth_error (sv_cmd sv) k = Some t -> (Rabs (t - c) <= m * (e_now e - sv_last sv))%R) ->
  let sv' := get_status rops sc e sv in
  sv_coords sv' = sv_cmd sv /\ sv_mode sv' = sv_future sv /\ sv_future sv' = 0.
Proof. exact get_status_arrival. Qed.
Print Assumptions C20_arrival_real.

(* the shipped servo table is well formed (lengths, max_delta >= 0, min <= 0 <= max) *)
Theorem C20_servo_table_shipped : forall tk, Forall wf_sconf (c_servos (rcfg tk)).
Proof. exact gen_wf. Qed.
Print Assumptions C20_servo_table_shipped.

(* structure of the binary64 step: exactly the operations of the code, in its order *)
Theorem C20_step_structure : forall m dt c t,
  move1 fops m dt c t =
  f_add c (f_mul (f_sign (f_sub t c))
                 (if f_lt (nabs fops (f_sub t c)) (f_mul m dt) then nabs fops (f_sub t c) else f_mul m dt)).
Proof. reflexivity. Qed.
Print Assumptions C20_step_structure.

(* ---- non-vacuity ----------------------------------------------------------------------------------------------- *)
Definition ex_orc : oracles F :=
  Build_oracles F (fun tok => if zlist_eqb tok [53; 48] then Some (f_of_bits 4632233691727265792)
                              else if zlist_eqb tok [110; 97; 110] then Some (f_of_bits 9221120237041090560)
                              else if zlist_eqb tok [57; 57; 57; 57] then Some (f_of_bits 4666722622711529472)
                              else None)
                  (fun _ => None) (fun _ => [63]).
Definition ex_env : env F := mk_env 0 (f_of_bits 4652007308841189376) [] [] true.

(* PRESET=M3R,50 is accepted on the initial state, PRESET=M3R,nan and PRESET=M3R,9999 are refused *)
Example C20_ex_preset :
  snd (h_preset fops ex_orc (fcfg 5120) (init_sys fops (fcfg 5120)) ex_env [[77; 51; 82]; [53; 48]]) = RGood [] /\
  snd (h_preset fops ex_orc (fcfg 5120) (init_sys fops (fcfg 5120)) ex_env [[77; 51; 82]; [110; 97; 110]]) = RBad /\
  snd (h_preset fops ex_orc (fcfg 5120) (init_sys fops (fcfg 5120)) ex_env [[77; 51; 82]; [57; 57; 57; 57]]) = RBad.
Proof. vm_compute. repeat split. Qed.

(* SETUP=Gregoriano1 is accepted on the initial state *)
Example C20_ex_setup :
  snd (h_setup fops (fcfg 5120) (init_sys fops (fcfg 5120)) ex_env [[71; 114; 101; 103; 111; 114; 105; 97; 110; 111; 49]]) = RGood [].
Proof. vm_compute. reflexivity. Qed.

(* a monotone history *)
Example C20_ex_mono : mono 0 [EvEnv (mk_env 0 1%R [] [] false); EvByte 83; EvRefresh []; EvEnv (mk_env 5 2%R [] [] false)].
Proof. cbn. repeat split; lra. Qed.
