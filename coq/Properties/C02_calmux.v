(* C02, calmux part — from every reachable idle state each catalogue query (status `?`,
   frequency `F p` with 0 <= p <= 5000, either terminator) yields exactly one reply: True for every
   byte but the last, a reply of the protocol's shape on the last; registers unchanged, framer idle. *)
From DS Require Import Base.Prelude Model.SmaCommon Model.SmaCalmux Proofs.SmaFramer.
From DS Require Import Proofs.SmaCalmuxProofs.

Theorem C02_calmux_queries_answered : forall (s : cm_state) (q : list Z) (t : Z),
  cm_reachable s -> cm_idle s = true -> cm_query q -> cm_is_tail t = true ->
  exists r, snd (cm_run s (q ++ [t])) = repeat OTrue (length q) ++ [OReply r] /\ cm_wf_reply r /\
            dev (fst (cm_run s (q ++ [t]))) = dev s /\ cm_idle (fst (cm_run s (q ++ [t]))) = true.
Proof. exact cm_queries_answered. Qed.
Print Assumptions C02_calmux_queries_answered.

Example C02_calmux_reachable_nontrivial :
  let s := fst (cm_run cm_init [73; 32; 51; 32; 49; 10; 67; 32; 49; 13]) in
  cm_reachable s /\ cm_idle s = true /\ cur (dev s) = 3.
Proof. exact cm_reachable_example. Qed.
