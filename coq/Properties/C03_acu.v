(* C03, part acu — the ACU command framer returns to idle and never waits for ever (agent Acmd).
   Statements only.  Model: Model/AcmdFrame.v (System.parse with fixes/03 applied). *)
From DS Require Import Base.Prelude Base.Bits Gen.AcmdTables Model.AcmdFrame.
From DS Require Import Proofs.AcmdFrameProofs.

(* every state reachable from a fresh parser by any byte history satisfies the framing
   invariant [finv] (start-flag prefix; from byte 8 on the stored length is the declared one, is
   at least the minimum and has not been reached yet; from byte 12 on the counter is stored) *)
Theorem C03_acu_invariant : forall bs, finv (fstate_of f_init bs).
Proof. exact finv_reachable. Qed.
Print Assumptions C03_acu_invariant.

(* Resynchronisation condition of the ACU: the declared number of bytes.  From any state
   satisfying the invariant (so: after any history), as soon as the bytes buffered plus the bytes
   fed contain a length field and at least as many bytes as it declares, the parser has been idle
   at or before the end of those bytes: after byte 8 exactly the declared remaining bytes are
   awaited, never more. *)
Theorem C03_acu_resync : forall st bs, finv st ->
  let m := f_msg st ++ bs in
  8 <= Z.of_nat (length m) -> decl m <= Z.of_nat (length m) ->
  exists k, (k <= length bs)%nat /\ fidle (fstate_of st (firstn k bs)).
Proof. exact resync. Qed.
Print Assumptions C03_acu_resync.

(* a complete, well-formed message is awaited to its last byte, not dropped earlier *)
Theorem C03_acu_awaits_declared : forall st m cmds ds,
  fidle st -> wf_msg (f_cnt st) m cmds -> resolve cmds = Some ds ->
  frun st m = (mkF [] 0 (Some (mcnt m)) 0,
               repeat (OTrue, None) (length m - 1) ++ [(OTrue, Some ds)]).
Proof. exact wf_executed. Qed.
Print Assumptions C03_acu_awaits_declared.

(* a header declaring a length no frame can have (below header + end flag) is rejected at once,
   at byte 8, with the parser idle *)
Theorem C03_acu_bad_length_rejected : forall st b,
  Z.of_nat (length (f_msg st)) = 7 -> finv st ->
  decl (f_msg st ++ [b]) < min_msg_length ->
  parse st b = (set_default st, OValueError, None) /\ fidle (set_default st).
Proof. exact bad_length_rejected. Qed.
Print Assumptions C03_acu_bad_length_rejected.

Theorem C03_acu_min_length : min_msg_length = 20.
Proof. reflexivity. Qed.
Print Assumptions C03_acu_min_length.

(* idle: bytes that cannot start a message are discarded without effect *)
Theorem C03_acu_idle_discards : forall st b, fidle st -> b <> nth 0 start_flag 0 ->
  parse st b = (st, OFalse, None).
Proof. exact idle_discards. Qed.
Print Assumptions C03_acu_idle_discards.

(* after idle the parser frames and answers as a fresh one (apart from remembering the counter of
   the last message, which is the duplicate-counter check of the protocol) *)
Theorem C03_acu_fresh_after_idle : forall st bs, fidle st ->
  snd (frun st bs) = snd (frun (f_idle (f_cnt st)) bs) /\
  fsim (fst (frun st bs)) (fst (frun (f_idle (f_cnt st)) bs)).
Proof. exact fresh_after_idle. Qed.
Print Assumptions C03_acu_fresh_after_idle.

(* non-vacuity: the F03 input (length field 10) is rejected at byte 8; garbage, then a message *)
Example C03_acu_ex_f03 :
  snd (frun f_init [26; 207; 252; 29; 10; 0; 0; 0]) =
  repeat (OTrue, None) 7 ++ [(OValueError, None)] /\
  fidle (fstate_of f_init [26; 207; 252; 29; 10; 0; 0; 0]).
Proof. vm_compute. split; reflexivity. Qed.
