(* C03, solar attenuator part — the '\n' framer of solar_attenuator.System returns to idle.
   Statements only. *)
From DS Require Import Base.Prelude Model.SmbCommon Model.SmbSolar Proofs.SmbCommon Proofs.SmbSolar.

(* After ANY byte history from ANY state, the terminator leaves the framer idle (empty buffer). *)
Theorem C03_solar_resync : forall s bs, solar_idle (fst (solar_run s (bs ++ [LF]))) = true.
Proof. exact (lresync solar_exec). Qed.
Print Assumptions C03_solar_resync.

(* The protocol has no header: every byte other than the terminator is buffered, is answered
   `True`, and does not touch the device state. *)
Theorem C03_solar_buffering : forall s b, b <> LF ->
  solar_step s b = (mkL (lmsg s ++ [b]) (ldev s), OTrue).
Proof. exact (lstep_buffer solar_exec). Qed.
Print Assumptions C03_solar_buffering.

(* Idle discards what cannot be a command: a line none of whose ';'-pieces has two
   whitespace-separated tokens (empty line, bare CR, `dummy;;`) is dropped without any effect and
   leaves the parser in the very same state. *)
Theorem C03_solar_noise_discarded : forall s l, solar_idle s = true -> no_lf l ->
  Forall (fun c => cmd_name2 (split_ws c) = None) (split_on SEMI l) ->
  solar_run s (l ++ [LF]) = (s, line_outs l OTrue).
Proof. exact solar_noise_discarded. Qed.
Print Assumptions C03_solar_noise_discarded.

(* After any history closed by the terminator the next line is framed and executed exactly as by
   a parser with an empty buffer: its outcome depends on the device state and the line only. *)
Theorem C03_solar_fresh_after_resync : forall s0 h l, no_lf l ->
  let s := fst (solar_run s0 (h ++ [LF])) in
  solar_run s (l ++ [LF]) =
    (mkL [] (fst (solar_exec (ldev s) l)), line_outs l (snd (solar_exec (ldev s) l))).
Proof. exact (lfresh solar_exec). Qed.
Print Assumptions C03_solar_fresh_after_resync.

(* Every byte history is its complete lines executed in order; the unterminated rest is the
   buffer and produced only `True`. *)
Theorem C03_solar_history : forall bs d, exists ls rest,
  bs = lines_bytes ls ++ rest /\ Forall no_lf ls /\ no_lf rest /\
  solar_run (mkL [] d) bs =
    (mkL rest (fst (exec_lines solar_exec d ls)),
     lines_outs ls (snd (exec_lines solar_exec d ls)) ++ repeat OTrue (length rest)).
Proof. exact (lrun_history solar_exec). Qed.
Print Assumptions C03_solar_history.

Example C03_solar_ex_noise :
  solar_run solar_start [100; 117; 109; 109; 121; 59; 59; 13; 10] = (solar_start, repeat OTrue 9).
Proof. reflexivity. Qed.
Example C03_solar_ex_truncated_then_command :
  snd (solar_run solar_start ([115; 101; 116; 32; 87; 95; 99; 10] ++ GET_MODE ++ [13; 10])) =
  repeat OTrue 7 ++ [OException TypeError] ++ repeat OTrue 11 ++ [OReply CRLF].
Proof. reflexivity. Qed.
