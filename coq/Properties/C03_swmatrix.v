(* C03, switch matrix part — the '\n' framer of switch_matrix.System returns to idle.
   Statements only. *)
From DS Require Import Base.Prelude Model.SmbCommon Model.SmbSwMatrix Proofs.SmbCommon Proofs.SmbSwMatrix.

Theorem C03_swmatrix_resync : forall s bs, sw_idle (fst (sw_run s (bs ++ [LF]))) = true.
Proof. exact (lresync sw_exec). Qed.
Print Assumptions C03_swmatrix_resync.

Theorem C03_swmatrix_buffering : forall s b, b <> LF ->
  sw_step s b = (mkL (lmsg s ++ [b]) (ldev s), OTrue).
Proof. exact (lstep_buffer sw_exec). Qed.
Print Assumptions C03_swmatrix_buffering.

(* a line none of whose ';'-pieces (CR removed) splits into two `\W+`-separated parts is dropped
   without any effect *)
Theorem C03_swmatrix_noise_discarded : forall s l, sw_idle s = true -> no_lf l ->
  Forall (fun c => (length (re_split_nonword c) < 2)%nat)
         (split_on SEMI (filter (fun c => negb (c =? CR)) l)) ->
  sw_run s (l ++ [LF]) = (s, line_outs l OTrue).
Proof. exact sw_noise_discarded. Qed.
Print Assumptions C03_swmatrix_noise_discarded.

Theorem C03_swmatrix_fresh_after_resync : forall s0 h l, no_lf l ->
  let s := fst (sw_run s0 (h ++ [LF])) in
  sw_run s (l ++ [LF]) = (mkL [] (fst (sw_exec (ldev s) l)), line_outs l (snd (sw_exec (ldev s) l))).
Proof. exact (lfresh sw_exec). Qed.
Print Assumptions C03_swmatrix_fresh_after_resync.

Theorem C03_swmatrix_history : forall bs d, exists ls rest,
  bs = lines_bytes ls ++ rest /\ Forall no_lf ls /\ no_lf rest /\
  sw_run (mkL [] d) bs =
    (mkL rest (fst (exec_lines sw_exec d ls)),
     lines_outs ls (snd (exec_lines sw_exec d ls)) ++ repeat OTrue (length rest)).
Proof. exact (lrun_history sw_exec). Qed.
Print Assumptions C03_swmatrix_history.

Example C03_swmatrix_ex_noise :
  sw_run sw_start [100; 117; 109; 109; 121; 59; 59; 13; 10] = (sw_start, repeat OTrue 9).
Proof. reflexivity. Qed.
Example C03_swmatrix_ex_truncated_then_query :
  snd (sw_run sw_start ([115; 101; 116; 32; 73; 70; 10] ++ SW_GET ++ [13; 10])) =
  repeat OTrue 6 ++ [OException TypeError] ++ repeat OTrue 21 ++ [OReply (sw_enc 1)].
Proof. reflexivity. Qed.
