(* C05, weather station part — PARTIAL: register catalogue = the sensor table (write
   `w <id> <value> <date>`, read `r <id>`).  Proved at the level of the sensor table: a write to a
   known sensor is read back (value text as rendered by the oracle, date) and leaves the other
   sensors alone; a write to an unknown sensor changes nothing.  The byte-level statement over
   interleaved histories is covered by the correspondence and the implementation-level oracle only.
   Statements only. *)
From DS Require Import Base.Prelude Model.SmbCommon Model.SmbWeather Proofs.SmbCommon Proofs.SmbWeather.

Theorem C05_weather_written_partial : forall id v dt l s, sen_find id l = Some s ->
  sen_find id (sen_update id v dt l) = Some (mkSen (sid s) v dt (sinfo s)).
Proof. exact sen_update_found. Qed.
Print Assumptions C05_weather_written_partial.

Theorem C05_weather_other_sensors_untouched : forall id id' v dt l, id <> id' ->
  sen_find id' (sen_update id v dt l) = sen_find id' l.
Proof. exact sen_update_other. Qed.
Print Assumptions C05_weather_other_sensors_untouched.

Theorem C05_weather_unknown_sensor_refused : forall id v dt l, sen_find id l = None ->
  sen_update id v dt l = l.
Proof. exact sen_update_unknown. Qed.
Print Assumptions C05_weather_unknown_sensor_refused.

Example C05_weather_ex :
  let cfg := [mkSen [116; 104] [49] [35] [105]] in
  let fmt := fmt_of_table [([53], [53; 46; 48])] in
  snd (ws_run fmt (ws_init cfg) (on_thread 1 [119; 32; 116; 104; 32; 53; 32; 100; 10] ++ on_thread 2 (ws_query [116; 104]))) =
  repeat OTrue 8 ++ [OReply (WS_OPEN ++ [116; 104] ++ WS_VAL ++ [53; 46; 48] ++ WS_DATE ++ [100] ++ WS_INFO ++ [105] ++ WS_CLOSE)]
  ++ repeat OTrue 4 ++ [OReply (WS_OPEN ++ [116; 104] ++ WS_VAL ++ [53; 46; 48] ++ WS_DATE ++ [100] ++ WS_INFO ++ [105] ++ WS_CLOSE)].
Proof. reflexivity. Qed.
