(* C05, weather station part — register catalogue = the sensor table: write
   `w <id> <value> <date>` LF (acknowledged by the reply carrying the new row), read `r <id>` LF;
   encoding <Sensor><Id>id</Id><Val>f'{float(value):0.6f}'</Val><Date>date</Date><Info>..</Info></Sensor>
   ([fmt] is the oracle for the value rendering).  Byte level, any threads.  Statements only. *)
From DS Require Import Base.Prelude Model.SmbCommon Model.SmbWeather Proofs.SmbCommon Proofs.SmbWeather
  Proofs.SmbWeatherInv.

(* acknowledged write to an existing sensor from an idle thread; then ANY operations of ANY
   threads none of which completes a write to that sensor (reads, writes to other sensors, refused
   commands, garbage, half-typed commands); then the read-back from any idle thread returns the
   written value and date *)
Theorem C05_weather_readback : forall fmt d t id tok date v s, ws_idle d t = true ->
  ws_token id -> ws_token tok -> ws_token date -> fmt tok = Some v -> sen_find id (sensors d) = Some s ->
  exists d1,
    ws_run fmt d (on_thread t ((W_CHAR :: SP :: join_sp [id; tok; date]) ++ [LF])) =
      (d1, repeat OTrue (2 + length (join_sp [id; tok; date])) ++ [OReply (ws_enc id v date s)]) /\
    forall ops t2, ws_no_write fmt id d1 ops ->
      let d2 := fst (ws_run fmt d1 ops) in
      ws_idle d2 t2 = true ->
      snd (ws_run fmt d2 (on_thread t2 (ws_query id))) =
        repeat OTrue (2 + length id) ++ [OReply (ws_enc id v date s)].
Proof. exact ws_readback. Qed.
Print Assumptions C05_weather_readback.

(* refused: a step that does not complete a write command (wrong argument count, a read with
   write arguments, a rejected header, any ordinary byte) leaves the whole sensor table unchanged *)
Theorem C05_weather_not_a_write_unchanged : forall fmt d t b, ws_written d t b = None ->
  sensors (fst (ws_step fmt d t b)) = sensors d.
Proof. exact ws_step_not_write. Qed.
Print Assumptions C05_weather_not_a_write_unchanged.

(* refused: a write to a sensor that does not exist (answered with the error string) *)
Theorem C05_weather_unknown_sensor_unchanged : forall fmt d t b id, ws_written d t b = Some id ->
  sen_find id (sensors d) = None -> sensors (fst (ws_step fmt d t b)) = sensors d.
Proof. exact ws_step_unknown. Qed.
Print Assumptions C05_weather_unknown_sensor_unchanged.

(* a write to another sensor leaves this one alone *)
Theorem C05_weather_frame : forall fmt d t b id, ws_written d t b <> Some id ->
  sen_find id (sensors (fst (ws_step fmt d t b))) = sen_find id (sensors d).
Proof. exact ws_step_frame. Qed.
Print Assumptions C05_weather_frame.

Example C05_weather_ex :
  let cfg := [mkSen [116; 104] [49] [35] [105]] in
  let fmt := fmt_of_table [([53], [53; 46; 48])] in
  snd (ws_run fmt (ws_init cfg) (on_thread 1 [119; 32; 116; 104; 32; 53; 32; 100; 10] ++ on_thread 2 (ws_query [116; 104]))) =
  repeat OTrue 8 ++ [OReply (ws_enc [116; 104] [53; 46; 48] [100] (mkSen [116; 104] [49] [35] [105]))]
  ++ repeat OTrue 4 ++ [OReply (ws_enc [116; 104] [53; 46; 48] [100] (mkSen [116; 104] [49] [35] [105]))].
Proof. reflexivity. Qed.
