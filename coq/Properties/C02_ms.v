(* C02 (minor servos) — STATUS queries are answered in every reachable state.  Statements only. *)
From DS Require Import Base.Prelude Model.MsvTypes Model.MsvModel Model.MsvFloat Gen.MsvTables.
From DS Require Import Proofs.MsvProofs Proofs.MsvParts Proofs.MsvShape Proofs.MsvPartsGen.

(* every state reachable from the initial one by ANY history (bytes — accepted, refused, garbage —,
   clock steps, refreshes) satisfies the shape invariant ... *)
Theorem C02_ms_reachable_shape : forall T (ops : numops T) orc (f : Z -> T) tk e0 evs,
  shape_inv (gen_cfg f tk) (snd (fst (run ops orc (gen_cfg f tk) (e0, init_sys ops (gen_cfg f tk)) evs))).
Proof. exact @reachable_shape. Qed.
Print Assumptions C02_ms_reachable_shape.

(* ... and in every such state with an idle parser (C03_ms_resync) each of the eight queries
   STATUS=<servo> gets True for every byte but the last and exactly one GOOD reply on the last,
   leaving the parser idle and the invariant intact (random.uniform delivering its draws) *)
Theorem C02_ms_status_servo : forall T (ops : numops T) orc (f : Z -> T) tk s e r,
  shape_inv (gen_cfg f tk) s -> s_msg s = [] -> In r g_servos -> (6 <= length (e_draws e))%nat ->
  exists s' body,
    feed ops orc (gen_cfg f tk) s e (status_query (sr_name r) ++ [13; 10]) =
      (s', repeat OTrue (length (status_query (sr_name r)) + 1)
           ++ [OReply (good orc (gen_cfg f tk) e ++ body ++ crlf)])
    /\ shape_inv (gen_cfg f tk) s' /\ s_msg s' = [].
Proof. exact @status_query_answered. Qed.
Print Assumptions C02_ms_status_servo.

(* the general STATUS query is answered in every state with an idle parser *)
Theorem C02_ms_status_general : forall T (ops : numops T) orc (f : Z -> T) tk s e, s_msg s = [] ->
  exists body,
    feed ops orc (gen_cfg f tk) s e (status_general ++ [13; 10]) =
      (s, repeat OTrue (length status_general + 1) ++ [OReply (good orc (gen_cfg f tk) e ++ body ++ crlf)]).
Proof. exact @status_general_query_answered. Qed.
Print Assumptions C02_ms_status_general.

Example C02_ms_ex : existsb (fun r => zlist_eqb (sr_name r) [71; 70; 82]) g_servos = true.
Proof. reflexivity. Qed.
