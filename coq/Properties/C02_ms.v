(* C02 (minor servos) — STATUS queries are answered in every reachable state.  Statements only. *)
From DS Require Import Base.Prelude Model.MsvTypes Model.MsvModel Model.MsvFloat Gen.MsvTables.
From DS Require Import Proofs.MsvProofs Proofs.MsvKin Proofs.MsvGen Proofs.MsvParts Proofs.MsvShape Proofs.MsvPartsGen.
From Coq Require Import Reals.

(* The shape invariant: every per-axis list of every servo has DOF entries AND a loaded spline table
   (pt_table non-empty) comes with a non-empty list of trajectory times — what get_status indexes in
   operative mode 50 (`self.trajectory[0][0]`).  The trajectory bookkeeping of _programTrack is part of
   the model (Model/MsvModel.v: pt_stage1 / pt_finish).

   Hypotheses law0 / law5 are the two arithmetic facts the time checks of _programTrack rely on:
     law0 (pt_law):  start >= now  ->  start + 0 * gap >= now
     law5:           p >= now      ->  p >= now - 5
   both proved for binary64 (Flocq: rounding is monotone) and for the reals, see the last theorems. *)

(* every state reachable from the initial one by ANY history (bytes — accepted, refused, garbage —,
   clock steps, refreshes, any oracle values) satisfies the invariant ... *)
Theorem C02_ms_reachable_shape : forall T (ops : numops T) orc (f : Z -> T) tk,
  pt_law ops (gen_cfg f tk) ->
  (forall p now, nlt ops p now = false -> nlt ops p (nsub ops now (nofZ ops 5)) = false) ->
  forall e0 evs,
  shape_inv (gen_cfg f tk) (snd (fst (run ops orc (gen_cfg f tk) (e0, init_sys ops (gen_cfg f tk)) evs))).
Proof. exact @reachable_shape. Qed.
Print Assumptions C02_ms_reachable_shape.

(* ... and in every such state with an idle parser (C03_ms_resync) each of the eight queries
   STATUS=<servo> gets True for every byte but the last and exactly one GOOD reply on the last — in
   every operative mode, 50 included: get_status cannot raise — leaving the parser idle and the
   invariant intact (random.uniform delivering its draws) *)
Theorem C02_ms_status_servo : forall T (ops : numops T) orc (f : Z -> T) tk,
  (forall p now, nlt ops p now = false -> nlt ops p (nsub ops now (nofZ ops 5)) = false) ->
  forall s e r,
  shape_inv (gen_cfg f tk) s -> s_msg s = [] -> In r g_servos -> (6 <= length (e_draws e))%nat ->
  exists s' body,
    feed ops orc (gen_cfg f tk) s e (status_query (sr_name r) ++ [13; 10]) =
      (s', repeat OTrue (length (status_query (sr_name r)) + 1)
           ++ [OReply (good orc (gen_cfg f tk) e ++ body ++ crlf)])
    /\ shape_inv (gen_cfg f tk) s' /\ s_msg s' = [].
Proof. exact @status_query_answered. Qed.
Print Assumptions C02_ms_status_servo.

(* the general STATUS query is answered in every state with an idle parser *)
Theorem C02_ms_status_general : forall T (ops : numops T) orc (f : Z -> T) tk s e, s_msg s = [] ->
  exists body,
    feed ops orc (gen_cfg f tk) s e (status_general ++ [13; 10]) =
      (s, repeat OTrue (length status_general + 1) ++ [OReply (good orc (gen_cfg f tk) e ++ body ++ crlf)]).
Proof. exact @status_general_query_answered. Qed.
Print Assumptions C02_ms_status_general.

(* the iteration of the update thread (System._update) never raises in a state with the invariant *)
Theorem C02_ms_update_never_raises : forall T (ops : numops T) (f : Z -> T) tk,
  (forall p now, nlt ops p now = false -> nlt ops p (nsub ops now (nofZ ops 5)) = false) ->
  forall s e spls, shape_inv (gen_cfg f tk) s -> snd (refresh ops (gen_cfg f tk) e spls s) = false.
Proof. exact @update_never_raises. Qed.
Print Assumptions C02_ms_update_never_raises.

(* the arithmetic laws hold for the bit-exact binary64 instance and for the reals *)
Theorem C02_ms_law0_binary64 : forall tk, pt_law fops (fcfg tk).
Proof. exact f_pt_law. Qed.
Print Assumptions C02_ms_law0_binary64.
Theorem C02_ms_law5_binary64 : forall p now : F,
  nlt fops p now = false -> nlt fops p (nsub fops now (nofZ fops 5)) = false.
Proof. exact f_law5. Qed.
Print Assumptions C02_ms_law5_binary64.
Theorem C02_ms_law5_real : forall p now : R,
  nlt rops p now = false -> nlt rops p (nsub rops now (nofZ rops 5)) = false.
Proof. exact r_law5. Qed.
Print Assumptions C02_ms_law5_real.

(* hence, for the binary64 model of the shipped simulator, without hypotheses *)
Theorem C02_ms_reachable_shape_binary64 : forall orc tk e0 evs,
  shape_inv (fcfg tk) (snd (fst (run fops orc (fcfg tk) (e0, init_sys fops (fcfg tk)) evs))).
Proof. intros orc tk. exact (reachable_shape fops orc f_of_bits tk (f_pt_law tk) f_law5). Qed.
Print Assumptions C02_ms_reachable_shape_binary64.

Example C02_ms_ex : existsb (fun r => zlist_eqb (sr_name r) [71; 70; 82]) g_servos = true.
Proof. reflexivity. Qed.
