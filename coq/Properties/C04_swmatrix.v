(* C04, switch matrix part (code with fixes/23 applied) — every reply decodes under
   [sw_reply_wfb]: ACK / NACK CR LF, or ';'-separated `<k>:<name>` CR LF rows of the documented
   table; the get reply names the configuration it reports.  Statements only. *)
From DS Require Import Base.Prelude Model.SmbCommon Model.SmbSwMatrix Proofs.SmbCommon Proofs.SmbSwMatrix.

Theorem C04_swmatrix_reply_wf : forall s b s' r, lreach sw_exec sw_start s ->
  sw_step s b = (s', OReply r) -> sw_reply_wfb r = true /\ b = LF.
Proof. exact sw_step_reply_wf. Qed.
Print Assumptions C04_swmatrix_reply_wf.

Theorem C04_swmatrix_wf_shape : forall r, sw_reply_wfb r = true ->
  bytes r /\ exists body, r = body ++ CRLF.
Proof. exact sw_reply_wf_shape. Qed.
Print Assumptions C04_swmatrix_wf_shape.

Theorem C04_swmatrix_echo : forall v, In v sw_configs ->
  exists nm, sw_table v = Some nm /\ sw_enc v = dec v ++ [58] ++ nm ++ CRLF.
Proof. exact sw_enc_echo. Qed.
Print Assumptions C04_swmatrix_echo.

Example C04_swmatrix_ex : sw_reply_wfb (sw_enc 2 ++ [SEMI] ++ sw_enc 2) = true
  /\ sw_reply_wfb ([57; 58] ++ HBS ++ CRLF) = false.
Proof. split; reflexivity. Qed.
