(* C03, gaia part — the framer of simulators/gaia ('#' header, '\n' terminator, NO length bound:
   resynchronisation is by terminator only) returns to idle after any input.  Quirk kept by the
   model: while discarding a byte that cannot start a command parse answers True, not False.
   Statements only; proofs in Proofs/SmaGaiaProofs.v.  temp = the value of the GETEMP oracle. *)
From DS Require Import Base.Prelude Model.SmaCommon Model.SmaGaia Proofs.SmaFramer.
From DS Require Import Proofs.SmaGaiaProofs.

Theorem C03_gaia_resync_on_terminator : forall temp (s : gaia_state) (bs : list Z),
  gaia_idle (fst (gaia_run temp s (bs ++ [10]))) = true.
Proof. exact gaia_resync_on_terminator. Qed.
Print Assumptions C03_gaia_resync_on_terminator.

Theorem C03_gaia_idle_discards : forall temp (s : gaia_state) (b : Z),
  gaia_idle s = true -> b <> 35 -> gaia_step temp s b = (s, OTrue).
Proof. exact gaia_idle_discards. Qed.
Print Assumptions C03_gaia_idle_discards.

Theorem C03_gaia_fresh_after_idle : forall (s : gaia_state) (bs : list Z),
  gaia_idle s = true -> snd (frun gaia_fstep (buf s) bs) = snd (frun gaia_fstep (buf gaia_init) bs).
Proof. exact gaia_fresh_after_idle. Qed.
Print Assumptions C03_gaia_fresh_after_idle.

Theorem C03_gaia_idle_is_initial_framing : forall (s : gaia_state),
  gaia_idle s = true -> s = Build_sstate [] (dev s).
Proof. exact gaia_idle_is_initial_framing. Qed.
Print Assumptions C03_gaia_idle_is_initial_framing.
