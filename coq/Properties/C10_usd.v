(* C10, part c10_usd (tag Usd) — the numeric values the simulator decodes INSIDE the USD equal the
   arguments given to the encoders of command_library.py, bit for bit: after the encoder's message
   the addressed unit is in the state the protocol specification (Spec/UsdSpec.v) gives to the typed
   command those arguments denote.  Statements only; proofs in Proofs/UsdEncoder.v.
   Composition of C10_as (tag Asl: Model/AslEncoder.v, Model/AslLine.v - the message is framed and
   dispatched once, to the intended target, its parameter bytes decoding to the call [expected e]
   written in the encoder's arguments) with the USD model ([usd_sem], Proofs/UsdLineLink.v) and its
   refinement to the specification (Proofs/UsdRefine.v).
     enc e idx aor   := bytes returned by encoder e(args, usd_index=idx, address_on_response=aor)
     arg_command e   := the protocol command the ARGUMENTS denote (Proofs/UsdEncoder.v)
     meaning e b u   := fst (UsdSpec.exec (arg_command e) b u)
     alrun           := AslLine.lrun usd_sem usd_delay  (System.parse byte by byte, real USD model) *)
From DS Require Import Base.Prelude Base.Bits Model.Utils Model.UsdModel Spec.UsdSpec.
From DS Require Import Proofs.UsdMotion Proofs.UsdInv Proofs.UsdRefine Proofs.UsdHistory.
From DS Require Import Model.AslLine Model.AslEncoder.
From DS Require Import Proofs.AslFrameProofs Proofs.AslLineProofs Proofs.AslEncoderProofs.
From DS Require Import Proofs.UsdLineLink Proofs.UsdEncoder.

(* All 24 encoders, all in-domain arguments, every unit index on the line, both start bytes, every
   line whose units satisfy the invariant (in particular every reachable one): the message leaves
   the addressed unit in the state its arguments mean and every other unit alone; the parser is
   idle afterwards. *)
Theorem C10_usd_args_reach_state : forall e i aor bs min drv, in_domain e -> chr_ok e ->
  enc e (Some i) aor = Some bs -> on_line min drv i -> Forall Inv drv ->
  exists u os, nth_error drv (Z.to_nat (i - min)) = Some u /\
    alrun (mkL min drv finit) bs =
      (mkL min (upd drv (Z.to_nat (i - min)) (meaning e (start_of aor) u)) finit, os).
Proof. exact args_reach_state. Qed.
Print Assumptions C10_usd_args_reach_state.

(* broadcast: every unit of the line, True for every byte *)
Theorem C10_usd_args_reach_state_broadcast : forall e aor bs min drv, in_domain e -> chr_ok e ->
  enc e None aor = Some bs -> Forall Inv drv ->
  alrun (mkL min drv finit) bs =
    (mkL min (map (meaning e (start_of aor)) drv) finit, repeat OTrue (length bs)).
Proof. exact args_reach_state_broadcast. Qed.
Print Assumptions C10_usd_args_reach_state_broadcast.

(* the method call made by the handler, in terms of the arguments, is the specification's command *)
Theorem C10_usd_call_is_spec : forall e u start c k, 0 <= start -> Inv u -> in_domain e -> chr_ok e ->
  expected e = DCall c k -> fst (usd_sem u c) = meaning e start u.
Proof. exact sem_is_spec. Qed.
Print Assumptions C10_usd_call_is_spec.

(* set_io_pins(b): the three direction bits and the three level bits are the bits of b the
   protocol table names *)
Theorem C10_usd_io_pins_bits : forall b start u,
  io_dir (meaning (ESetIoPins b) start u) = (bitz (bval b) 4, bitz (bval b) 5, bitz (bval b) 6) /\
  io_val (meaning (ESetIoPins b) start u)
  = (bitz (bval b) 4 * bitz (bval b) 0, bitz (bval b) 5 * bitz (bval b) 1, bitz (bval b) 6 * bitz (bval b) 2).
Proof. exact io_pins_meaning. Qed.
Print Assumptions C10_usd_io_pins_bits.

(* rotate(d): the direction is the sign of the argument *)
Theorem C10_usd_rotate_direction : forall d, -128 <= d < 128 ->
  sign d = (if d mod 256 =? 0 then 0 else if d mod 256 <? 128 then 1 else -1).
Proof. exact sign_mod. Qed.
Print Assumptions C10_usd_rotate_direction.

(* non-vacuity: set_io_pins(0x44) to unit 2 of a line 1..3 - line 2 is an output with value 1 *)
Example C10_usd_ex :
  enc (ESetIoPins (BInt 68)) (Some 2) true = Some [252; 66; 37; 68; 88] /\
  map io_val (l_drv (fst (alrun (mkL 1 (map usd_init [1; 2; 3]) finit) [252; 66; 37; 68; 88])))
  = [(0, 0, 0); (0, 0, 1); (0, 0, 0)] /\
  map io_dir (l_drv (fst (alrun (mkL 1 (map usd_init [1; 2; 3]) finit) [252; 66; 37; 68; 88])))
  = [(0, 1, 0); (0, 0, 1); (0, 1, 0)].
Proof. vm_compute. auto. Qed.
