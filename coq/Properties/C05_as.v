(* C05, active-surface part — the register catalogue of a USD as seen through the line protocol:
   acknowledged writes are stored exactly and kept until the next acknowledged write to the same
   register or a reset; refused writes (NAK: wrong parameter count, out-of-range frequency /
   velocity, busy refusal while moving) and rejected codes change NOTHING - no register, no
   read-back, not the motion target.  Statements only; proofs in Proofs/UsdCatalogue.v. *)
From DS Require Import Base.Prelude Base.Bits Model.Utils Model.UsdModel Spec.UsdSpec.
From DS Require Import Proofs.UsdMotion Proofs.UsdInv Proofs.UsdRefine Proofs.UsdHistory Proofs.UsdCatalogue.

(* Refused = unchanged, for all 24 codes (and unknown ones), every parameter string, every state
   satisfying the invariant: the complete state is the same, so in particular cmd_position,
   velocity, the queue and every register. *)
Theorem C05_as_refused_unchanged : forall c b p u, 0 <= b -> bytes p -> Inv u ->
  (snd (handle c b p u) = OReply nak \/ snd (handle c b p u) = OValueError) ->
  fst (handle c b p u) = u.
Proof. exact refused_unchanged. Qed.
Print Assumptions C05_as_refused_unchanged.

(* on a line: the whole line (every unit) and the clock are unchanged *)
Theorem C05_as_refused_line_unchanged : forall us now j c b p s' o, 0 <= b -> bytes p ->
  Forall Inv us -> lstep (us, now) (LUni j c b p) = (s', Some o) ->
  (o = OReply nak \/ o = OValueError) -> s' = (us, now).
Proof. exact refused_line_unchanged. Qed.
Print Assumptions C05_as_refused_line_unchanged.

(* what each acknowledged write stores (decoded parameter) *)
Theorem C05_as_written_value : forall b u, 0 <= b -> Inv u ->
  (forall x y, byte x -> byte y -> snd (handle 32 b [x; y] u) = OReply ack ->
     value RMinFrequency (fst (handle 32 b [x; y] u)) = [s16 x y]) /\
  (forall x y, byte x -> byte y -> snd (handle 33 b [x; y] u) = OReply ack ->
     value RMaxFrequency (fst (handle 33 b [x; y] u)) = [s16 x y]) /\
  (forall x, byte x -> value RSlopeDelayer (fst (handle 34 b [x] u)) = [x + 1]) /\
  (forall x y z w, byte x -> byte y -> byte z -> byte w ->
     value RReferencePosition (fst (handle 35 b [x; y; z; w] u)) = [s32 x y z w]) /\
  (forall x, byte x -> value RIoPins (fst (handle 37 b [x] u)) = tril (io_directions x) ++ tril (io_values x)) /\
  (forall x, byte x -> value RResolution (fst (handle 38 b [x] u))
                       = if 8 <=? x then [1; 1] else [0; 2 ^ x]) /\
  (forall x, byte x -> value RCurrentReduction (fst (handle 39 b [x] u))
                       = [(if x / 64 <=? 1 then 0 else x / 64 - 1); x mod 64]) /\
  (forall x, byte x -> value RResponseDelay (fst (handle 40 b [x] u)) = [x]) /\
  (forall x, byte x -> value RDelayedExecution (fst (handle 41 b [x] u))
                       = flag (bitb x 7) :: tril (io_enables x) ++ tril (io_levels x)) /\
  (forall x, byte x -> value RStopIo (fst (handle 42 b [x] u)) = tril (io_enables x) ++ tril (io_levels x)) /\
  (forall x, byte x -> value RPositioningIo (fst (handle 43 b [x] u)) = tril (io_enables x) ++ tril (io_levels x)) /\
  (forall x, byte x -> value RHomeIo (fst (handle 44 b [x] u)) = tril (io_enables x) ++ tril (io_levels x)) /\
  (forall x y, byte x -> byte y -> value RWorkingMode (fst (handle 45 b [x; y] u))
                                  = [if bitb x 0 then 19200 else 9600]).
Proof. exact written_value. Qed.
Print Assumptions C05_as_written_value.

(* a register is changed only by its own write command or a reset: every other command (any
   parameters, acknowledged or not), every time step ... *)
Theorem C05_as_register_kept_command : forall r c b p u, 0 <= b -> bytes p -> Inv u ->
  c <> writer r -> c <> 1 -> value r (fst (handle c b p u)) = value r u.
Proof. exact register_kept_command. Qed.
Print Assumptions C05_as_register_kept_command.

Theorem C05_as_register_kept_tick : forall r d now u, value r (calc_position d now u) = value r u.
Proof. exact register_kept_tick. Qed.
Print Assumptions C05_as_register_kept_tick.

(* ... hence every history without such a command keeps the stored value *)
Theorem C05_as_register_kept_history : forall r h s, Forall wf_event h ->
  Forall (leaves_alone r) h -> Inv (fst s) -> value r (fst (fst (run s h))) = value r (fst s).
Proof. exact register_kept_history. Qed.
Print Assumptions C05_as_register_kept_history.

(* and a refused write to the register itself keeps it too *)
Theorem C05_as_register_kept_refused : forall r c b p u, 0 <= b -> bytes p -> Inv u ->
  snd (handle c b p u) = OReply nak -> value r (fst (handle c b p u)) = value r u.
Proof. exact register_kept_refused. Qed.
Print Assumptions C05_as_register_kept_refused.

(* read-back paths of the protocol: get_status exposes resolution, I/O pins and the
   delayed-execution flag as stored (get_position: C02_as_position_readable); the other registers
   have no query in the USD protocol and are covered at the level of the stored attribute *)
Theorem C05_as_status_reads_registers : forall u, Inv u ->
  exists s1 s2, payload_of 19 u = [0; s1; s2] /\
    value RResolution u = [flag (bitb s2 3); 2 ^ (s2 mod 8)] /\
    value RIoPins u = [bitz s1 4; bitz s1 5; bitz s1 6; bitz s1 0; bitz s1 1; bitz s1 2] /\
    flag (delayed_execution u) = flag (bitb s2 6).
Proof. exact status_reads_registers. Qed.
Print Assumptions C05_as_status_reads_registers.

(* non-vacuity: a positioning refused mid-flight leaves the earlier target in place *)
Example C05_as_ex :
  let h := [ECmd 48 252 [0; 30; 132; 128]; ETick 100; ECmd 38 250 [3]; ECmd 48 252 [0; 0; 0; 5];
            ECmd 32 250 [0; 5]; ECmd 33 252 [1]] in
  let r := run (usd_init 2, 1024) h in
  Forall wf_event h /\ cmd_position (fst (fst r)) = Some 2000000 /\
  value RResolution (fst (fst r)) = [0; 8] /\ value RMinFrequency (fst (fst r)) = [20] /\
  snd r = [Some (OReply ack); None; Some (OReply ack); Some (OReply nak); Some (OReply nak);
           Some (OReply nak)].
Proof.
  cbv zeta. split; [repeat constructor; cbn; unfold byte; lia|]. vm_compute. auto.
Qed.
