(* C04 (backend part) — every reply of a backend decodes under the reply grammar and names its request.
   Statements only (= the C19 grammar theorems, instantiated); proofs in Proofs/BckProofs.v. *)
From DS Require Import Base.Prelude Model.BckModel Spec.BckGrammarSpec Proofs.BckGrammar Proofs.BckProofs.

(* every reply emitted for any byte in any reachable state is a reply line of the independent grammar
   (Spec/BckGrammarSpec.v): '!' name ',' ok|fail|invalid [',' arguments] CR LF *)
Theorem C04_backend_every_reply : forall o v t0 s b s' r,
  oracle_clean o -> reachable o v t0 s -> feed o v s b = (s', OReply r) ->
  exists n c oa, reply_line r n c oa /\ code_of c.
Proof.
  exact (fun o v t0 s b s' r Ho Hr => every_reply_wf o v s b s' r Ho (reachable_inv o v t0 s Ho Hr)).
Qed.
Print Assumptions C04_backend_every_reply.

(* the reply names the request (or 'undefined' with code invalid for a line outside the grammar) *)
Theorem C04_backend_names_request : forall o v t0 s line s' x,
  oracle_clean o -> reachable o v t0 s -> head_ok line -> parse_line o v s line = (s', x) ->
  match parse_message line with
  | PMRep _ _ _ => x = OTrue /\ s' = s
  | PMReq name _ =>
      exists r code oa, x = OReply r /\ reply_line r name code oa /\ (code = code_ok \/ code = code_fail)
  | _ => exists r oa, x = OReply r /\ reply_line r undefined_name code_invalid oa /\ s' = s
  end.
Proof.
  exact (fun o v t0 s line s' x Ho Hr Hh H =>
           proj2 (parse_line_reply o v s line s' x Ho (proj1 (reachable_inv o v t0 s Ho Hr)) Hh H)).
Qed.
Print Assumptions C04_backend_names_request.

(* the repo's own reply pattern (as recognised by the model's recogniser, which is compared with Python's re
   on every run) accepts every such line, with the same name and code *)
Theorem C04_backend_repo_pattern_accepts : forall r n c oa,
  reply_line r n c oa -> parse_message r = PMRep n c (args_of oa).
Proof. exact recogniser_accepts_reply. Qed.
Print Assumptions C04_backend_repo_pattern_accepts.

(* Message.__str__ of any reply with a well-formed name, a code of the protocol and arguments without
   CR / LF is a reply line - also when the argument string is empty (fixes/16) *)
Theorem C04_backend_str_wf : forall n c args,
  name_wf n -> code_wf c -> Forall clean args -> reply_line (reply_str n c args) n c (optargs_of args).
Proof. exact reply_str_wf. Qed.
Print Assumptions C04_backend_str_wf.
