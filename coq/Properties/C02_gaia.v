(* C02, gaia part — (1) ANY line '#...\n' from any reachable idle state gets exactly one reply (gaia
   never raises and never stays silent), framed with header, id and terminator; (2) every catalogue
   query (any recognised command that writes no register: *IDN? NAME? CONF? GETVD GETVG GETID GETREF
   GETEMP and the 13 echo commands), any id token, arguments in domain, gets exactly one NON-error
   reply carrying its id, registers unchanged, framer idle. *)
From DS Require Import Base.Prelude Model.SmaCommon Model.SmaGaia Proofs.SmaFramer.
From DS Require Import Proofs.SmaGaiaProofs.

Theorem C02_gaia_every_line_answered : forall temp (s : gaia_state) body,
  gaia_reachable temp s -> gaia_idle s = true -> Forall (fun c => c <> 10) body ->
  exists r bdy cid, snd (gaia_run temp s (35 :: body ++ [10])) = repeat OTrue (S (length body)) ++ [OReply r] /\
                    r = gaia_frame bdy cid /\ gaia_idle (fst (gaia_run temp s (35 :: body ++ [10]))) = true.
Proof. exact gaia_every_line_answered. Qed.
Print Assumptions C02_gaia_every_line_answered.

Theorem C02_gaia_queries_answered : forall temp (s : gaia_state) c k margs cid args,
  gaia_reachable temp s -> gaia_idle s = true ->
  Forall tok_ok (c :: margs ++ [cid]) -> hd 0 c <> 35 ->
  gaia_decode (c :: margs ++ [cid]) = DOk k args cid -> set_kind k = false ->
  exists raw, snd (gaia_run temp s (gline (c :: margs ++ [cid]) ++ [10])) =
                repeat OTrue (length (gline (c :: margs ++ [cid]))) ++ [OReply (gaia_frame raw cid)] /\
              gregs (dev (fst (gaia_run temp s (gline (c :: margs ++ [cid]) ++ [10])))) = gregs (dev s) /\
              gaia_idle (fst (gaia_run temp s (gline (c :: margs ++ [cid]) ++ [10]))) = true.
Proof. exact gaia_queries_answered. Qed.
Print Assumptions C02_gaia_queries_answered.

(* the decoding hypotheses are satisfiable, and a non-trivial reachable idle state exists *)
Example C02_gaia_tokens_example :
  tok_ok [49; 48] /\ parse_int [49; 48] = Some 10 /\ tok_ok [105; 100; 55] /\
  gaia_decode [tGETVD; [49; 48]; [105; 100; 55]] = DOk KGetvd [10] [105; 100; 55].
Proof. exact gaia_tokens_example. Qed.

Example C02_gaia_reachable_nontrivial :
  let s := fst (gaia_run 33 gaia_init (gline [tSETD; [51]; [55; 55]; [97]] ++ [10])) in
  gaia_reachable 33 s /\ gaia_idle s = true /\ nth_error (vd (dev s)) 2 = Some 77 /\ cmd_id (dev s) = [97].
Proof. exact gaia_reachable_example. Qed.
