(* C05, totalpower part - board registers (input, attenuation, filter) written by 'A', read back by
   '?'; scalar registers written by N and S.  Statements only. *)
From DS Require Import Base.Prelude Model.SmcBase Model.SmcTotalpower Proofs.SmcTotalpowerProofs.

(* a history of complete lines is the sequence of handlers of the decoded lines (ties the command
   level statements below to byte histories) *)
Theorem C05_totalpower_lines : forall e ls s, idle s = true -> Forall line_ok ls ->
  fst (run (step e) s (lines_bytes ls)) =
  {| msg := []; dv := exec_all e (dv s) (map (fun lt => decode e (fst lt)) ls) |}.
Proof. exact tp_run_lines. Qed.
Print Assumptions C05_totalpower_lines.

(* acknowledged 'A b s a f', then any commands that do not write board b (other boards' A, queries,
   N M S T E X pause stop resume, refused and unknown lines): the status query still prints source
   s, attenuation a and the bandwidth of filter f for board b *)
Theorem C05_totalpower_readback : forall e d b s a f cs,
  acked (snd (exec e d (KA b s a f))) = true ->
  Forall (fun c => writes_board (Z.to_nat (b - 1)) c = false) cs ->
  exists s', src_of_letter s = Some s' /\
    readback (exec_all e (fst (exec e d (KA b s a f))) cs) (Z.to_nat (b - 1)) =
      Some ([SP] ++ src_name s' ++ [SP] ++ zstr a ++ [SP] ++ zstr (bandwidth f)).
Proof. exact tp_A_readback_until. Qed.
Print Assumptions C05_totalpower_readback.

(* and the status reply consists of a head and then exactly these read-backs, board by board *)
Theorem C05_totalpower_status_shows : forall e d,
  exists head, snd (exec e d KStatus) = OReply (head ++ concat (map board_status (boards d)) ++ crlf).
Proof. exact tp_status_shows_boards. Qed.
Print Assumptions C05_totalpower_status_shows.

(* a write that is not acknowledged (nak, 'nak n', unknown command) leaves the whole device state -
   hence every read-back - unchanged *)
Theorem C05_totalpower_refused : forall e d c,
  is_write c = true -> acked (snd (exec e d c)) = false -> fst (exec e d c) = d.
Proof. exact tp_refused_unchanged. Qed.
Print Assumptions C05_totalpower_refused.

Theorem C05_totalpower_T_refused : forall e d p0 p1, p1 < 0 -> exec e d (KT [p0; p1]) = (d, OValueError).
Proof. exact tp_T_negative. Qed.
Print Assumptions C05_totalpower_T_refused.

Theorem C05_totalpower_N : forall e d v, acked (snd (exec e d (KN [v]))) = true ->
  calOn (fst (exec e d (KN [v]))) = v /\ (v = 0 \/ v = 1).
Proof. exact tp_N_readback. Qed.
Print Assumptions C05_totalpower_N.

Example C05_totalpower_nontrivial :
  let e := {| py_int := fun t => if zlist_eqb t $"2" then CvOk 2 else if zlist_eqb t $"9" then CvOk 9
                                  else if zlist_eqb t $"3" then CvOk 3 else CvErr;
              tm := fun _ => (1, 2, 3); rnd := fun _ => 0 |} in
  decode e $"A 2 G 9 3" = KA 2 $"G" 9 3 /\
  acked (snd (exec e (dev0 4) (KA 2 $"G" 9 3))) = true /\
  readback (fst (exec e (dev0 4) (KA 2 $"G" 9 3))) 1 = Some $" GREG 9 730".
Proof. vm_compute. repeat split; reflexivity. Qed.

(* 'I s a f' acknowledged: every board reads back s, a, f *)
Theorem C05_totalpower_I : forall e d s a f,
  acked (snd (exec e d (KI s a f))) = true ->
  exists s', src_of_letter s = Some s' /\ 0 <= a < 16 /\ 1 <= f < 5 /\
    forall i, (i < length (boards d))%nat ->
      readback (fst (exec e d (KI s a f))) i =
      Some ([SP] ++ src_name s' ++ [SP] ++ zstr a ++ [SP] ++ zstr (bandwidth f)).
Proof. exact tp_I_readback. Qed.
Print Assumptions C05_totalpower_I.

(* scalar registers printed by '?': sample period, calibration mark, the two periods - unchanged by
   every command other than S / N / X; S and N read back until the next of those *)
Theorem C05_totalpower_scalars_frame : forall e d c,
  writes_scalars c = false -> scalars (fst (exec e d c)) = scalars d.
Proof. exact tp_frame_scalars. Qed.
Print Assumptions C05_totalpower_scalars_frame.

Theorem C05_totalpower_S_until : forall e d v cs, Forall (fun c => writes_scalars c = false) cs ->
  sample_period (exec_all e (fst (exec e d (KS [v]))) cs) = v.
Proof. exact tp_S_until. Qed.
Print Assumptions C05_totalpower_S_until.

Theorem C05_totalpower_N_until : forall e d v cs, acked (snd (exec e d (KN [v]))) = true ->
  Forall (fun c => writes_scalars c = false) cs ->
  calOn (exec_all e (fst (exec e d (KN [v]))) cs) = v.
Proof. exact tp_N_until. Qed.
Print Assumptions C05_totalpower_N_until.
