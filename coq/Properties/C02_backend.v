(* C02 (backend part) — status, version, time, get-configuration, get-integration, get-filename, get-tpi,
   get-tp0 are answered exactly once, with a well-formed reply, in every reachable state, and change nothing.
   Statements only; proofs in Proofs/BckProofs.v. *)
From DS Require Import Base.Prelude Model.BckModel Spec.BckGrammarSpec Proofs.BckGrammar Proofs.BckProofs.
From Coq Require Import String.

Theorem C02_backend_query_answered : forall o v s q c,
  In (q, c) queries ->
  parse_line o v s (req0 q) =
  (s, OReply (reply_str (zs q) (if failure s then c_fail else c_ok) (query_args o v s c))).
Proof. exact query_answered. Qed.
Print Assumptions C02_backend_query_answered.

(* at byte level, on an idle buffer, in any reachable state: True for every byte of '?name' CR, then one
   reply line that names the query; the state (device and buffer) is the same afterwards *)
Theorem C02_backend_query_bytes : forall o v t0 s q c,
  oracle_clean o -> reachable o v t0 s -> rbuf s = [] -> In (q, c) queries ->
  exists r code oa,
    run o v s (map EByte (req0 q ++ [13; 10])) = (s, repeat OTrue (List.length (req0 q) + 1) ++ [OReply r]) /\
    reply_line r (zs q) code oa /\ (code = code_ok \/ code = code_fail).
Proof.
  exact (fun o v t0 s q c Ho Hr => query_answered_bytes o v s q c Ho (reachable_inv o v t0 s Ho Hr)).
Qed.
Print Assumptions C02_backend_query_bytes.

(* the idle buffer the statement needs is what C03 guarantees after any CR LF *)
Theorem C02_backend_idle_reachable : forall o v s bs,
  rbuf (fst (run o v s (map EByte (bs ++ [13; 10])))) = [].
Proof. exact crlf_returns_to_idle. Qed.
Print Assumptions C02_backend_idle_reachable.
