(* C07 — Stop always stops: clean shutdown from any reachable state.
   Statements only; every proof is `exact` of a lemma in Proofs/LdgLedger.v / Proofs/LdgInst.v.
   The tables (Gen/LdgLedger.v) are regenerated from the simulators source on every run; the parts
   c07_server (custom-command path) and c07_backend (backend timers) have their own files.

   Partial by nature: the ledger is bookkeeping.  That `join` returns, that `shutdown()` unblocks
   `serve_forever`, that a cancelled Timer thread exits, and the process exit itself are runtime
   behaviour; a callback is one atomic step. *)
From Coq Require Import String.
From DS Require Import Base.Prelude Model.LdgLedger Model.LdgInst Proofs.LdgLedger Proofs.LdgQuiesce Proofs.LdgInst Gen.LdgLedger.

(* Generic: for any table passing the boolean side conditions — every activity that blocks
   process exit is stored in an attribute that system_stop cancels/joins adequately, and every
   store/clear of such an attribute deals with its previous occupant — and any history the table
   permits (any commands, any timer firings, stops in between, stopped at any point), nothing
   that would keep the process alive survives system_stop. *)
Theorem C07_clean : forall T l, ledger_ok T = true -> reachable T l -> blocking_alive (stop T l) = [].
Proof. exact clean_after_stop. Qed.
Print Assumptions C07_clean.

(* whatever the table: an activity still referenced by an attribute that system_stop handles
   adequately does not survive it, daemon or not *)
Theorem C07_stop_kills_referenced : forall T l x,
  In x (l_live (stop T l)) -> stopped_by T (l_slots l) x = false.
Proof. exact stop_kills_referenced. Qed.
Print Assumptions C07_stop_kills_referenced.

(* Every System class of the current tree (backend ones included): system_stop returns the
   literal "$server_shutdown%%%%%" through its super() chain. *)
Theorem C07_ack : forall name T, In (name, T) tables -> stop_reply T = Some ack.
Proof. exact table_reply. Qed.
Print Assumptions C07_ack.

(* Every System class of the current tree outside backend/ (part c07_backend): clean after stop
   from every reachable ledger state, and the acknowledgement. *)
Theorem C07_units : forall name T l, In (name, T) tables -> mine name = true -> reachable T l ->
  blocking_alive (stop T l) = [] /\ stop_reply T = Some ack.
Proof. exact clean_any_unit. Qed.
Print Assumptions C07_units.

(* The sweep: apart from totalpower, mscu, minor_servos, acu, active_surface (and backend/), no
   System class has any creation site, so it never has a live activity at all. *)
Theorem C07_others_start_nothing : forall name T l, In (name, T) tables -> mine name = true ->
  smem name active_units = false -> reachable T l -> l_live l = [].
Proof. exact others_start_nothing. Qed.
Print Assumptions C07_others_start_nothing.

(* The instances validated against the real classes (Corr/LdgCorr.v), all event histories. *)
Theorem C07_totalpower : forall evs st,
  iruns tp_op tbl_totalpower (tp_init_ctrl, empty_ledger) evs = Some st ->
  blocking_alive (stop tbl_totalpower (snd st)) = [].
Proof. exact clean_totalpower. Qed.
Print Assumptions C07_totalpower.

Theorem C07_mscu : forall evs st,
  iruns ms_op tbl_mscu (tt, empty_ledger) evs = Some st ->
  blocking_alive (stop tbl_mscu (snd st)) = [].
Proof. exact clean_mscu. Qed.
Print Assumptions C07_mscu.

Theorem C07_minor_servos : forall rest init l0 evs st,
  mv_boot tbl_minor_servos rest = Some init -> boot tbl_minor_servos init = Some l0 ->
  iruns mv_op tbl_minor_servos (mkMv 1 [], l0) evs = Some st ->
  blocking_alive (stop tbl_minor_servos (snd st)) = [].
Proof. exact clean_minor_servos. Qed.
Print Assumptions C07_minor_servos.

Theorem C07_acu : forall init l0 evs st,
  acu_boot tbl_acu = Some init -> boot tbl_acu init = Some l0 ->
  iruns acu_op tbl_acu (tt, l0) evs = Some st ->
  blocking_alive (stop tbl_acu (snd st)) = [].
Proof. exact clean_acu. Qed.
Print Assumptions C07_acu.

(* totalpower timer chains end: once the stop flag is set or the data socket is closed
   ([tp_quiet]), each firing strictly lowers the weight (2 per live chain timer / socket, 1 per
   live waiter) — no firing re-arms — so at most [wt] further firings can happen at all, in any
   order; and system_stop of the current tree leaves the instance quiet. *)
Theorem C07_totalpower_stopped_chains_end : forall T evs c l st,
  tp_quiet c = true -> forallb tp_is_fire evs = true -> iruns tp_op T (c, l) evs = Some st ->
  tp_quiet (fst st) = true /\ (List.length evs + wt (l_live (snd st)) <= wt (l_live l))%nat.
Proof. exact tp_stopped_chains_end. Qed.
Print Assumptions C07_totalpower_stopped_chains_end.

Theorem C07_totalpower_chains_end_after_stop : forall c l st1 evs st,
  istep tp_op tbl_totalpower (c, l) TpSysStop = Some st1 ->
  forallb tp_is_fire evs = true -> iruns tp_op tbl_totalpower st1 evs = Some st ->
  (List.length evs + wt (l_live (snd st)) <= wt (l_live (snd st1)))%nat.
Proof. exact totalpower_chains_end_after_stop. Qed.
Print Assumptions C07_totalpower_chains_end_after_stop.
