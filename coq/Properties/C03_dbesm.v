(* C03, dbesm part - the '\n' line framer of simulators/dbesm returns to idle.  Statements only;
   proofs in Proofs/SmcDbesmProofs.v.  Every theorem holds from EVERY state (hence after any byte
   history), for every oracle [e] and for the code with or without fixes/24 ([fx]). *)
From DS Require Import Base.Prelude Model.SmcBase Model.SmcDbesm Proofs.SmcDbesmProofs.

Theorem C03_dbesm_resync : forall fx e s bs, idle (fst (run (step fx e) s (bs ++ [LF]))) = true.
Proof. exact db_resync. Qed.
Print Assumptions C03_dbesm_resync.

(* idle: the terminator alone is an empty (unknown) command; it is answered 'NAK unknown command'
   and has no effect on the framer or the device - dbesm never returns False *)
Theorem C03_dbesm_idle_tail : forall fx e s, idle s = true -> step fx e s LF = (s, OReply nak_reply).
Proof. exact db_idle_tail. Qed.
Print Assumptions C03_dbesm_idle_tail.

Theorem C03_dbesm_fresh : forall s, idle s = true -> s = {| msg := msg (init [] []); dv := dv s |}.
Proof. exact db_fresh. Qed.
Print Assumptions C03_dbesm_fresh.

(* the next complete line from idle runs exactly the handler of the line minus its last character
   (the quirk: the character before '\n' is dropped whether or not it is '\r') *)
Theorem C03_dbesm_next_line : forall fx e s line,
  idle s = true -> Forall (fun b => b <> LF) line ->
  run (step fx e) s (line ++ [LF]) =
  ({| msg := []; dv := fst (exec fx e (dv s) (decode (drop_last line))) |},
   repeat OTrue (length line) ++ [snd (exec fx e (dv s) (decode (drop_last line)))]).
Proof. exact db_run_line. Qed.
Print Assumptions C03_dbesm_next_line.

Example C03_dbesm_quirk :
  decode (drop_last ($"DBE GETCFG" ++ [CR])) = KGetCfg [] /\ decode (drop_last $"DBE GETCFG") = KNak.
Proof. vm_compute. split; reflexivity. Qed.
