(* C02, generic LO part (code with fixes/27 applied) — `POWER?`, `FREQ?`, `SYST:ERR?` are answered
   with exactly one well-formed reply in EVERY idle state, for every oracle.  Statements only. *)
From DS Require Import Base.Prelude Model.SmbCommon Model.SmbGenLO Proofs.SmbCommon Proofs.SmbGenLO.

Theorem C02_genlo_answered : forall fl s q, g_idle s = true -> In q g_queries ->
  g_run fl s (q ++ [LF]) = (s, line_outs q (OReply (g_answer (ldev s) q ++ [LF]))) /\
  g_reply_wfb (g_answer (ldev s) q ++ [LF]) = true.
Proof. exact g_answered. Qed.
Print Assumptions C02_genlo_answered.

Theorem C02_genlo_after_any_history : forall fl s0 bs q, In q g_queries ->
  let s := fst (g_run fl s0 (bs ++ [LF])) in
  snd (g_run fl s (q ++ [LF])) = line_outs q (OReply (g_answer (ldev s) q ++ [LF])).
Proof. exact g_answered_after_history. Qed.
Print Assumptions C02_genlo_after_any_history.

Example C02_genlo_ex : In G_FREQQ g_queries /\ g_answer g_init G_FREQQ = [48].
Proof. split; [right; left; reflexivity | reflexivity]. Qed.
