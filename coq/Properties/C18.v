(* C18 -- Receiver boards answer exactly as addressed; short and long forms agree.
   Statements only; every proof is `exact` of a lemma in Proofs/Rcv*.v.

   Model: Model/RcvModel.v (System.parse / _parse and the Slave, Dewar, Switch, LNA boards), written
   against the tables generated from DEFINITIONS.py (Gen/RcvTables.v).  All theorems hold for every
   clock, datetime-constructor and time-rendering oracle (clk, mkdate, render), every address map
   `sl` (any board types, any addresses), every tick counter `t`, and every message `m` / every
   command kind, master, id and parameter string.
   Vocabulary:
     decode m = Some (sa, q)   what _parse reads off a complete message: addressed slave byte and
                               the request (master, command, id, extended?, checksum error?, params)
     exec_req q keys b t       one board executing the request (answer bytes after the 5-byte header,
                               the board afterwards, re-keying decision)
     frame q a tail trailer    STX master a command id ++ tail [++ xor EOT]
     handle sl t m             System._parse: new map, new tick, outcome (OTrue / OReply r / OExc) *)
From DS Require Import Base.Prelude Gen.RcvTables Model.RcvModel Proofs.RcvAssoc Proofs.RcvProofs Proofs.RcvBoards Proofs.RcvFraming Proofs.RcvForms Proofs.RcvExamples.

(* ---- what the two request forms are, byte for byte, and what _parse reads off them ---- *)
Theorem C18_decode_abbr : forall k sa ma cid p fill,
  decode (abbr_frame k sa ma cid p fill) =
  Some (sa, mkReq ma (abbr_code k) cid false false (abbr_params k p fill)).
Proof. exact decode_abbr. Qed.
Print Assumptions C18_decode_abbr.

Theorem C18_decode_ext : forall k sa ma cid p ck eot,
  decode (ext_frame k sa ma cid p ck eot) =
  Some (sa, mkReq ma (ext_code k) cid true (negb (ck =? xor_sum (ext_body k sa ma cid p)))
                  (if has_params k then p else [])).
Proof. exact decode_ext. Qed.
Print Assumptions C18_decode_ext.

(* a well-formed request fed byte by byte to an idle parser: every byte but the last returns True,
   the last one returns what _parse returns on the whole message (both forms, every kind, every
   parameter string of at most 255 bytes) *)
Theorem C18_frame_delivery_abbr : forall clk mkdate render s k sa ma cid p fill,
  s_msg s = [] -> bytes (abbr_frame k sa ma cid p fill) -> zlen p <= 255 -> length fill = 2%nat ->
  let m := abbr_frame k sa ma cid p fill in
  run clk mkdate render s m = frame_result clk mkdate render s m (length m - 1).
Proof. exact run_abbr_frame. Qed.
Print Assumptions C18_frame_delivery_abbr.

Theorem C18_frame_delivery_ext : forall clk mkdate render s k sa ma cid p ck eot,
  s_msg s = [] -> bytes (ext_frame k sa ma cid p ck eot) ->
  let m := ext_frame k sa ma cid p ck eot in
  run clk mkdate render s m = frame_result clk mkdate render s m (length m - 1).
Proof. exact run_ext_frame. Qed.
Print Assumptions C18_frame_delivery_ext.

(* ---- addressing ---- *)
(* a request to an existing, non-broadcast address: executed by that board only, answered by exactly
   one frame carrying that address (or the exception of that board's handler escapes) *)
Theorem C18_unicast_once : forall clk mkdate render sl t m sa q b,
  decode m = Some (sa, q) -> is_broadcast sa = false -> aget Z.eqb sl sa = Some b ->
  let r := exec_req clk mkdate render q (keys_of sl) b t in
  handle clk mkdate render sl t m = (sl_after sl sa r, r_tick r, one_outcome q sa r).
Proof. exact unicast_once. Qed.
Print Assumptions C18_unicast_once.

Theorem C18_unicast_other_boards_untouched : forall sl a r a',
  a' <> a -> (forall x, r_moved r = Some (Some x) -> a' <> x) ->
  aget Z.eqb (sl_after sl a r) a' = aget Z.eqb sl a'.
Proof. exact sl_after_other. Qed.
Print Assumptions C18_unicast_other_boards_untouched.

(* a request to an absent address is not answered and changes nothing *)
Theorem C18_absent_silent_unchanged : forall clk mkdate render sl t m sa q,
  decode m = Some (sa, q) -> is_broadcast sa = false -> aget Z.eqb sl sa = None ->
  handle clk mkdate render sl t m = (sl, t, OTrue).
Proof. exact absent_silent_unchanged. Qed.
Print Assumptions C18_absent_silent_unchanged.

(* broadcast with answer: the reply is the concatenation of one answer frame per board, in the order
   of the address map *)
Theorem C18_broadcast_all : forall clk mkdate render sl t m q sl' t' o,
  decode m = Some (SLAVE_ADDR_BROADCAST_WITH_ANSWER, q) -> NoDup (keys_of sl) -> sl <> [] ->
  handle clk mkdate render sl t m = (sl', t', o) -> o <> OExc ->
  exists frames, o = OReply (concat frames) /\ Forall2 (answer_frame_of q) (keys_of sl) frames.
Proof. exact broadcast_all. Qed.
Print Assumptions C18_broadcast_all.

(* broadcast without answer: same effect as the broadcast with answer, no reply *)
Theorem C18_broadcast_silent_same_effect : forall clk mkdate render sl t m0 m1 q,
  decode m0 = Some (SLAVE_ADDR_BROADCAST_NO_ANSWER, q) ->
  decode m1 = Some (SLAVE_ADDR_BROADCAST_WITH_ANSWER, q) ->
  let '(sl0, t0, o0) := handle clk mkdate render sl t m0 in
  let '(sl1, t1, o1) := handle clk mkdate render sl t m1 in
  sl0 = sl1 /\ t0 = t1 /\ o0 = silence o1 /\ (o0 = OTrue \/ o0 = OExc).
Proof. exact broadcast_silent_same_effect. Qed.
Print Assumptions C18_broadcast_silent_same_effect.

(* ---- abbreviated and extended form of the same command ---- *)
(* on any board of any type in any state: same answer code and data (r_tail), same clock use, same
   re-keying decision, same registers except the command code kept in the inquiry record.
   params_agree: the same parameter string, or -- for a command that takes parameters -- no parameter
   in the extended form against the two filler bytes the abbreviated form then delivers *)
Theorem C18_forms_agree_board : forall clk mkdate render ma cid k pa pe keys b t,
  params_agree k pa pe ->
  let ra := exec_req clk mkdate render (mkReq ma (abbr_code k) cid false false pa) keys b t in
  let re := exec_req clk mkdate render (mkReq ma (ext_code k) cid true false pe) keys b t in
  r_tail ra = r_tail re /\ r_tick ra = r_tick re /\ r_moved ra = r_moved re /\
  regs_eq (r_board ra) (r_board re) /\ r_trailer ra = false /\ r_trailer re = true.
Proof. exact exec_req_forms. Qed.
Print Assumptions C18_forms_agree_board.

Theorem C18_forms_agree : forall clk mkdate render sl t ma_ mb_ sa ma cid k pa pe b,
  decode ma_ = Some (sa, mkReq ma (abbr_code k) cid false false pa) ->
  decode mb_ = Some (sa, mkReq ma (ext_code k) cid true false pe) ->
  params_agree k pa pe -> is_broadcast sa = false -> aget Z.eqb sl sa = Some b ->
  let '(sla, ta, oa) := handle clk mkdate render sl t ma_ in
  let '(sle, te, oe) := handle clk mkdate render sl t mb_ in
  ta = te /\ sl_rel sla sle /\
  ((oa = OExc /\ oe = OExc) \/
   exists tail, oa = OReply (frame (mkReq ma (abbr_code k) cid false false pa) sa tail false) /\
                oe = OReply (frame (mkReq ma (ext_code k) cid true false pe) sa tail true)).
Proof. exact forms_agree_unicast. Qed.
Print Assumptions C18_forms_agree.

(* ---- wrong checksum ---- *)
Theorem C18_bad_checksum : forall clk mkdate render sl t k sa ma cid p ck eot,
  ck <> xor_sum (ext_body k sa ma cid p) ->
  let q := mkReq ma (ext_code k) cid true true (if has_params k then p else []) in
  handle clk mkdate render sl t (ext_frame k sa ma cid p ck eot) =
  (sl, t, reply_of (send_answer sa)
            (flat_map (fun a => frame q a [CMD_ERR_CHKS] true) (present sl (targets_of sa sl)))).
Proof. exact bad_checksum_frame. Qed.
Print Assumptions C18_bad_checksum.

(* the same for any message _parse flags with a checksum error *)
Theorem C18_bad_checksum_any_message : forall clk mkdate render sl t m sa q,
  decode m = Some (sa, q) -> q_chk q = true ->
  handle clk mkdate render sl t m =
  (sl, t, reply_of (send_answer sa)
            (flat_map (fun a => frame q a [CMD_ERR_CHKS] (q_ext q)) (present sl (targets_of sa sl)))).
Proof. exact bad_checksum. Qed.
Print Assumptions C18_bad_checksum_any_message.

(* unknown command codes: every addressed board answers 'unknown command' (short frame), no effect *)
Theorem C18_unknown_command : forall clk mkdate render sl t m sa q,
  decode m = Some (sa, q) -> mem (q_cmd q) ACCEPTED_COMMANDS = false ->
  handle clk mkdate render sl t m =
  (sl, t, reply_of (send_answer sa)
            (flat_map (fun a => frame q a [CMD_ERR_CMD] false) (present sl (targets_of sa sl)))).
Proof. exact unknown_command. Qed.
Print Assumptions C18_unknown_command.

(* ---- re-addressing ---- *)
(* the invariant of every reachable state: addresses are distinct and each board knows its own *)
Theorem C18_invariant_reachable : forall clk mkdate render tag feeds addrs bs s os,
  NoDup addrs -> run clk mkdate render (init_sys tag feeds addrs) bs = (s, os) -> sys_inv (s_slaves s).
Proof.
  exact (fun clk mkdate render tag feeds addrs bs s os Hnd Hr =>
           run_inv clk mkdate render bs _ s os (init_inv tag feeds addrs Hnd) Hr).
Qed.
Print Assumptions C18_invariant_reachable.

(* accepted: acknowledged once under the old address; afterwards the board is found under the new
   address only (so, by C18_absent_silent_unchanged and C18_unicast_once, the old address is silent
   and the new one is answered by this board) *)
Theorem C18_readdress_accepted : forall clk mkdate render sl t m sa q b a',
  sys_inv sl -> decode m = Some (sa, q) -> is_broadcast sa = false -> aget Z.eqb sl sa = Some b ->
  mem (q_cmd q) ACCEPTED_COMMANDS = true -> q_chk q = false -> classify (q_cmd q) = Some KSetAddr ->
  q_params q = [a'] -> mem a' SLAVE_ADDR_ACCEPTED = true -> ~ In a' (keys_of sl) ->
  let b' := mkBoard (set_last (set_addr (b_com b) a') (code_of KSetAddr (q_ext q)) (q_cid q) CMD_ACK (clk t))
                    (b_kind b) in
  let sl' := aset Z.eqb (adel Z.eqb sl sa) a' b' in
  handle clk mkdate render sl t m = (sl', S t, OReply (frame q sa [CMD_ACK] (q_ext q))) /\
  keys_of sl' = remove Z.eq_dec sa (keys_of sl) ++ [a'] /\
  aget Z.eqb sl' sa = None /\ aget Z.eqb sl' a' = Some b' /\ addr_of b' = a' /\ is_broadcast a' = false.
Proof. exact readdress_accepted. Qed.
Print Assumptions C18_readdress_accepted.

(* refused (not one byte / outside 0x01..0x7E / occupied): error code, address map unchanged *)
Theorem C18_readdress_refused : forall clk mkdate render sl t m sa q b,
  decode m = Some (sa, q) -> is_broadcast sa = false -> aget Z.eqb sl sa = Some b ->
  mem (q_cmd q) ACCEPTED_COMMANDS = true -> q_chk q = false -> classify (q_cmd q) = Some KSetAddr ->
  (length (q_params q) <> 1%nat \/
   exists a', q_params q = [a'] /\ (mem a' SLAVE_ADDR_ACCEPTED = false \/ In a' (keys_of sl))) ->
  exists code, (code = CMD_ERR_FORM \/ code = CMD_ERR_DATA) /\
    let b' := mkBoard (set_last (b_com b) (code_of KSetAddr (q_ext q)) (q_cid q) code (clk t)) (b_kind b) in
    handle clk mkdate render sl t m = (aset Z.eqb sl sa b', S t, OReply (frame q sa [code] (q_ext q))) /\
    keys_of (aset Z.eqb sl sa b') = keys_of sl /\ addr_of b' = addr_of b.
Proof. exact readdress_refused. Qed.
Print Assumptions C18_readdress_refused.

Theorem C18_accepted_addresses : forall a, mem a SLAVE_ADDR_ACCEPTED = (1 <=? a) && (a <=? 126).
Proof. exact addr_accepted_spec. Qed.
Print Assumptions C18_accepted_addresses.

(* get_address reports the address the board is filed under *)
Theorem C18_get_address_reports : forall clk mkdate render keys b t ext cid p,
  e_ans (exec clk mkdate render keys b t KGetAddr ext cid p) = Some (CMD_ACK, [1; addr_of b]).
Proof. exact exec_getaddr. Qed.
Print Assumptions C18_get_address_reports.

(* ---- the tables the model is written against are the ones of DEFINITIONS.py / slaves.py ---- *)
Theorem C18_tables_kinds : forall k,
  classify (ext_code k) = Some k /\ classify (abbr_code k) = Some k /\
  mem (ext_code k) CMD_EXT = true /\ mem (abbr_code k) CMD_EXT = false /\
  mem (ext_code k) ACCEPTED_COMMANDS = true /\ mem (abbr_code k) ACCEPTED_COMMANDS = true /\
  with_params (ext_code k) = has_params k /\ with_params (abbr_code k) = has_params k.
Proof. exact kinds_ok. Qed.
Print Assumptions C18_tables_kinds.

Theorem C18_tables_golden :
  CMD_SOH = 1 /\ CMD_STX = 2 /\ CMD_ETX = 3 /\ CMD_EOT = 4 /\
  CMD_EXT_NO_PARAMS = [65; 66; 67; 68; 69; 70; 72; 74] /\ CMD_EXT_WITH_PARAMS = [71; 73; 75; 76; 77; 78; 79] /\
  CMD_ABBR_NO_PARAMS = [97; 98; 99; 100; 101; 102; 104; 106] /\
  CMD_ABBR_WITH_PARAMS = [103; 105; 107; 108; 109; 110; 111] /\
  CMD_EXT = CMD_EXT_NO_PARAMS ++ CMD_EXT_WITH_PARAMS /\
  ACCEPTED_COMMANDS = CMD_EXT_NO_PARAMS ++ CMD_EXT_WITH_PARAMS ++ CMD_ABBR_NO_PARAMS ++ CMD_ABBR_WITH_PARAMS /\
  SLAVE_ADDR_ACCEPTED = map Z.of_nat (seq 1 126) /\ FRAME_SIZE_ACCEPTED = map Z.of_nat (seq 1 126) /\
  DATA_TYPES = map Z.of_nat (seq 0 27) ++ map Z.of_nat (seq 32 26) ++ [64] /\
  PORT_TYPES = map Z.of_nat (seq 0 9) ++ [64; 122; 123; 124; 125; 126; 127] /\
  PORT_NUMBERS = map Z.of_nat (seq 0 118) /\
  VERSION = [0; 0; 0; 0; 0; 0; 0; 0] /\
  DATA_TYPE_B01 = 3 /\ DATA_TYPE_U08 = 8 /\ DATA_TYPE_F32 = 24 /\ PORT_TYPE_DIO = 4 /\ PORT_TYPE_AD24 = 8 /\
  PORT_NUMBER_00_07 = 96.
Proof. exact golden_tables. Qed.
Print Assumptions C18_tables_golden.

Theorem C18_tables_dio_chains :
  DEWAR_get_data_ports = [PORT_NUMBER_00; PORT_NUMBER_04; PORT_NUMBER_05; PORT_NUMBER_06; PORT_NUMBER_07;
    PORT_NUMBER_08; PORT_NUMBER_11; PORT_NUMBER_12; PORT_NUMBER_13; PORT_NUMBER_14; PORT_NUMBER_16;
    PORT_NUMBER_17; PORT_NUMBER_18; PORT_NUMBER_24; PORT_NUMBER_26; PORT_NUMBER_29; PORT_NUMBER_30] /\
  DEWAR_set_data_ports = [PORT_NUMBER_00; PORT_NUMBER_04; PORT_NUMBER_05; PORT_NUMBER_07; PORT_NUMBER_08;
    PORT_NUMBER_11; PORT_NUMBER_12; PORT_NUMBER_13; PORT_NUMBER_14] /\
  SWITCH_get_data_ports = [PORT_NUMBER_00; PORT_NUMBER_01; PORT_NUMBER_02; PORT_NUMBER_04; PORT_NUMBER_05;
    PORT_NUMBER_06; PORT_NUMBER_07; PORT_NUMBER_08; PORT_NUMBER_11; PORT_NUMBER_12; PORT_NUMBER_13;
    PORT_NUMBER_14; PORT_NUMBER_16; PORT_NUMBER_17; PORT_NUMBER_18; PORT_NUMBER_19; PORT_NUMBER_24;
    PORT_NUMBER_26; PORT_NUMBER_29; PORT_NUMBER_30] /\
  SWITCH_set_data_ports = [PORT_NUMBER_00; PORT_NUMBER_01; PORT_NUMBER_02; PORT_NUMBER_04; PORT_NUMBER_05;
    PORT_NUMBER_07; PORT_NUMBER_08; PORT_NUMBER_11; PORT_NUMBER_12; PORT_NUMBER_13; PORT_NUMBER_14].
Proof. exact dio_chains_ok. Qed.
Print Assumptions C18_tables_dio_chains.

(* ---- broadcast, refined ---- *)
(* each frame of a broadcast answer is the answer of that very board computed on the state it had before
   the broadcast (own_frame): the boards answer in turn and do not affect each other except through the
   occupancy of addresses *)
Theorem C18_broadcast_all_own : forall clk mkdate render sl t m q sl' t' o,
  decode m = Some (SLAVE_ADDR_BROADCAST_WITH_ANSWER, q) -> NoDup (keys_of sl) -> sl <> [] ->
  handle clk mkdate render sl t m = (sl', t', o) -> o <> OExc ->
  exists frames, o = OReply (concat frames) /\
                 Forall2 (own_frame clk mkdate render q sl) (keys_of sl) frames.
Proof. exact broadcast_all_own. Qed.
Print Assumptions C18_broadcast_all_own.

(* both forms of a broadcast request (0x00 or 0x7F): same clock use, maps equal up to the recorded command
   code, and board by board (l lists address and answer tail in map order) the same answer code and data *)
Theorem C18_forms_agree_broadcast : forall clk mkdate render sl t ma_ mb_ sa ma cid k pa pe,
  decode ma_ = Some (sa, mkReq ma (abbr_code k) cid false false pa) ->
  decode mb_ = Some (sa, mkReq ma (ext_code k) cid true false pe) ->
  params_agree k pa pe -> is_broadcast sa = true -> NoDup (keys_of sl) ->
  exists l : list (Z * list Z),
    let '(sla, ta, oa) := handle clk mkdate render sl t ma_ in
    let '(sle, te, oe) := handle clk mkdate render sl t mb_ in
    ta = te /\ sl_rel sla sle /\
    ((oa = OExc /\ oe = OExc) \/
     (map fst l = keys_of sl /\
      oa = reply_of (send_answer sa) (frames_of (mkReq ma (abbr_code k) cid false false pa) false l) /\
      oe = reply_of (send_answer sa) (frames_of (mkReq ma (ext_code k) cid true false pe) true l))).
Proof. exact forms_agree_broadcast. Qed.
Print Assumptions C18_forms_agree_broadcast.
