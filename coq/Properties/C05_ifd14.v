(* C05, IFD_14_channels part.  The protocol has no acknowledgement on the wire: a set request is
   accepted when parse returns '' and refused when it raises ValueError.  Registers: attenuation
   multiplier of channel ch (set `#ATT ch v`, get `#ATT ch?` -> '#' + str(v * 0.25) + '\n'), switch
   (set `#SWT ch v`, get `#SWT ch'?` -> '#0\n' / '#1\n'); the RST command resets both. *)
From DS Require Import Base.Prelude Model.SmaCommon Model.SmaIfd14 Proofs.SmaFramer.
From DS Require Import Proofs.SmaIfd14Proofs.

Theorem C05_ifd14_att_readback : forall (s : i14_state) (ch v : Z),
  i14_reachable s -> i14_idle s = true -> 0 <= ch < 96 -> 0 <= v < 127 ->
  let s1 := fst (i14_run s (i14_line_set tok_ATT ch v ++ [10])) in
  snd (i14_run s (i14_line_set tok_ATT ch v ++ [10])) =
    repeat OTrue (length (i14_line_set tok_ATT ch v)) ++ [OEmpty] /\
  forall h, i14_quiet tok_ATT s1 h -> i14_idle (fst (i14_run s1 h)) = true ->
    snd (i14_run (fst (i14_run s1 h)) (i14_line_get tok_ATT ch ++ [10])) =
    repeat OTrue (length (i14_line_get tok_ATT ch)) ++ [OReply (i14_att_reply v)].
Proof. exact i14_att_readback. Qed.
Print Assumptions C05_ifd14_att_readback.

Theorem C05_ifd14_swt_readback : forall (s : i14_state) (ch v ch' : Z),
  i14_reachable s -> i14_idle s = true -> 0 <= ch < 96 -> 0 <= v < 2 -> 0 <= ch' < 96 ->
  let s1 := fst (i14_run s (i14_line_set tok_SWT ch v ++ [10])) in
  snd (i14_run s (i14_line_set tok_SWT ch v ++ [10])) =
    repeat OTrue (length (i14_line_set tok_SWT ch v)) ++ [OEmpty] /\
  forall h, i14_quiet tok_SWT s1 h -> i14_idle (fst (i14_run s1 h)) = true ->
    snd (i14_run (fst (i14_run s1 h)) (i14_line_get tok_SWT ch' ++ [10])) =
    repeat OTrue (length (i14_line_get tok_SWT ch')) ++ [OReply (i14_swt_reply (v =? 1))].
Proof. exact i14_swt_readback. Qed.
Print Assumptions C05_ifd14_swt_readback.

(* any step whose outcome is neither '' nor None (reset) leaves all registers unchanged *)
Theorem C05_ifd14_refused_unchanged : forall (s : i14_state) (b : Z),
  i14_reachable s -> snd (i14_step s b) <> OEmpty -> snd (i14_step s b) <> ONone ->
  dev (fst (i14_step s b)) = dev s.
Proof. exact i14_refused_unchanged. Qed.
Print Assumptions C05_ifd14_refused_unchanged.
