(* C02, weather station part — PARTIAL: `_read` is total (it answers the sensor row or the error
   string, never raises) — proved; that the framed query `r <id>` LF reaches `_read` from every
   idle thread is covered by the correspondence (all 21 sensors after random histories) and the
   implementation-level oracle only.  Statements only. *)
From DS Require Import Base.Prelude Model.SmbCommon Model.SmbWeather Proofs.SmbCommon Proofs.SmbWeather.

Theorem C02_weather_read_total_partial : forall l id,
  (sen_find id l = None /\ ws_read l id = WS_ERR) \/
  (exists s, sen_find id l = Some s /\
     ws_read l id = WS_OPEN ++ id ++ WS_VAL ++ sval s ++ WS_DATE ++ sdate s ++ WS_INFO ++ sinfo s ++ WS_CLOSE).
Proof. exact ws_read_cases. Qed.
Print Assumptions C02_weather_read_total_partial.

Example C02_weather_ex :
  let cfg := [mkSen [116; 104] [49] [35] [105]] in
  snd (ws_run (fun _ => None) (ws_init cfg) (on_thread 7 (ws_query [116; 104]))) =
  repeat OTrue 4 ++ [OReply (ws_read cfg [116; 104])].
Proof. reflexivity. Qed.
