(* C02, weather station part — the query `r <id>` LF is answered with exactly one reply from every
   idle thread, whatever the other threads hold and whatever the sensors contain; for every
   non-empty id without whitespace (the 21 catalogue ids and any other).  Statements only. *)
From DS Require Import Base.Prelude Model.SmbCommon Model.SmbWeather Proofs.SmbCommon Proofs.SmbWeather
  Proofs.SmbWeatherInv.

Theorem C02_weather_answered : forall fmt d t id, ws_idle d t = true -> ws_token id ->
  exists d', ws_run fmt d (on_thread t (ws_query id)) =
               (d', repeat OTrue (2 + length id) ++ [OReply (ws_read (sensors d) id)]) /\
             (buf_get t (bufs d') = None /\ sensors d' = sensors d /\
              forall t', t' <> t -> buf_get t' (bufs d') = buf_get t' (bufs d)).
Proof. exact ws_query_answered. Qed.
Print Assumptions C02_weather_answered.

(* the answer is the sensor row, or the protocol's error string for an unknown sensor *)
Theorem C02_weather_answer : forall l id,
  (sen_find id l = None /\ ws_read l id = WS_ERR) \/
  (exists s, sen_find id l = Some s /\
     ws_read l id = WS_OPEN ++ id ++ WS_VAL ++ sval s ++ WS_DATE ++ sdate s ++ WS_INFO ++ sinfo s ++ WS_CLOSE).
Proof. exact ws_read_cases. Qed.
Print Assumptions C02_weather_answer.

(* idle is what C03 guarantees: after ANY history, the terminator on thread t, then the query *)
Theorem C02_weather_after_any_history : forall fmt cfg ops t id, (forall x, fmt x <> None) -> ws_token id ->
  let d := fst (ws_step fmt (fst (ws_run fmt (ws_init cfg) ops)) t LF) in
  exists d', ws_run fmt d (on_thread t (ws_query id)) =
               (d', repeat OTrue (2 + length id) ++ [OReply (ws_read (sensors d) id)]) /\
             (buf_get t (bufs d') = None /\ sensors d' = sensors d /\
              forall t', t' <> t -> buf_get t' (bufs d') = buf_get t' (bufs d)).
Proof.
  exact (fun fmt cfg ops t id Hf Hid =>
           ws_query_answered fmt _ t id (ws_resync_reachable fmt cfg ops t Hf) Hid).
Qed.
Print Assumptions C02_weather_after_any_history.

Example C02_weather_ex_token : ws_token [116; 104; 48; 49].
Proof. split; [discriminate|]. intros x [<-|[<-|[<-|[<-|[]]]]]; reflexivity. Qed.
Example C02_weather_ex :
  let cfg := [mkSen [116; 104] [49] [35] [105]] in
  snd (ws_run (fun _ => None) (ws_init cfg) (on_thread 7 (ws_query [116; 104]))) =
  repeat OTrue 4 ++ [OReply (ws_read cfg [116; 104])].
Proof. reflexivity. Qed.
