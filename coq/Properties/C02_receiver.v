(* C02, receiver part -- well-formed queries are answered in every reachable state.
   Statements only; proofs in Proofs/RcvQueries.v.

   Query catalogue (is_query): inquiry, version, get address, get time, get frame size, get port, get
   data -- in the abbreviated and in the extended form (right checksum), with every in-domain argument
   (query_params_ok: for get port / get data a data type, port type and port number of the tables).
   "Every reachable state": the theorems hold for EVERY idle state s (s_msg s = []) -- any address map,
   any board types, any register contents -- which includes every state reachable by any byte history
   followed by the resynchronisation of C03.  The documented silent mode is the broadcast address 0x00
   (C18_broadcast_silent_same_effect); the theorems below are for non-broadcast addresses of existing
   boards.
   Hypothesis on the time oracle: render is defined (Slave._datetime_to_time returns) on the instants it
   is asked for.  On the pinned tree it raised for years below 100 (fixes/25b-receiver-time-year-rendering);
   after the fix the only undefined instants are beyond year 9999 (datetime overflow). *)
From DS Require Import Base.Prelude Gen.RcvTables Model.RcvModel Proofs.RcvAssoc Proofs.RcvProofs Proofs.RcvBoards Proofs.RcvFraming Proofs.RcvDecode Proofs.RcvQueries.

Theorem C02_receiver_query_abbr : forall clk mkdate render, (forall z, render z <> None) ->
  forall s k sa ma cid p b,
  s_msg s = [] -> is_query k = true -> query_params_ok k p -> bytes (abbr_frame k sa ma cid p [0; 0]) ->
  is_broadcast sa = false -> aget Z.eqb (s_slaves s) sa = Some b ->
  exists d s',
    run clk mkdate render s (abbr_frame k sa ma cid p [0; 0]) =
    (s', repeat OTrue (length (abbr_frame k sa ma cid p [0; 0]) - 1) ++
         [OReply (frame (mkReq ma (abbr_code k) cid false false p) sa (CMD_ACK :: with_data d) false)]) /\
    s_msg s' = [] /\ keys_of (s_slaves s') = keys_of (s_slaves s).
Proof. exact query_abbr. Qed.
Print Assumptions C02_receiver_query_abbr.

Theorem C02_receiver_query_ext : forall clk mkdate render, (forall z, render z <> None) ->
  forall s k sa ma cid p eot b,
  s_msg s = [] -> is_query k = true -> query_params_ok k p ->
  let ck := xor_sum (ext_body k sa ma cid p) in
  bytes (ext_frame k sa ma cid p ck eot) ->
  is_broadcast sa = false -> aget Z.eqb (s_slaves s) sa = Some b ->
  exists d s',
    run clk mkdate render s (ext_frame k sa ma cid p ck eot) =
    (s', repeat OTrue (length (ext_frame k sa ma cid p ck eot) - 1) ++
         [OReply (frame (mkReq ma (ext_code k) cid true false p) sa (CMD_ACK :: with_data d) true)]) /\
    s_msg s' = [] /\ keys_of (s_slaves s') = keys_of (s_slaves s).
Proof. exact query_ext. Qed.
Print Assumptions C02_receiver_query_ext.

(* the same on a complete message, any state of the address map (no framing involved) *)
Theorem C02_receiver_query_answered_once : forall clk mkdate render, (forall z, render z <> None) ->
  forall sl t m sa ma cid k ext p b,
  decode m = Some (sa, mkReq ma (code_of k ext) cid ext false p) ->
  is_broadcast sa = false -> aget Z.eqb sl sa = Some b -> is_query k = true -> query_params_ok k p ->
  exists d sl' t',
    handle clk mkdate render sl t m =
    (sl', t', OReply (frame (mkReq ma (code_of k ext) cid ext false p) sa (CMD_ACK :: with_data d) ext)) /\
    keys_of sl' = keys_of sl.
Proof. exact query_answered_once. Qed.
Print Assumptions C02_receiver_query_answered_once.
