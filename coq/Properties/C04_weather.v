(* C04, weather station part — PARTIAL: the decoder [ws_reply_wfb] (error string, or the five tags
   in order) is applied to every reply of the implementation in the correspondence suite
   (Corr/SmbWeatherCorr.ws_ok_wf) and by the oracle (which also checks that <Id> echoes the sensor
   named by the request); the reply of `_read` has the tagged form with the requested id (proved,
   C02_weather_read_total_partial); the universal decoder theorem is not proved.  Statements only. *)
From DS Require Import Base.Prelude Model.SmbCommon Model.SmbWeather Proofs.SmbCommon Proofs.SmbWeather.

Theorem C04_weather_reply_echoes_id_partial : forall l id s, sen_find id l = Some s ->
  ws_read l id = WS_OPEN ++ id ++ WS_VAL ++ sval s ++ WS_DATE ++ sdate s ++ WS_INFO ++ sinfo s ++ WS_CLOSE.
Proof. exact ws_read_found. Qed.
Print Assumptions C04_weather_reply_echoes_id_partial.

Example C04_weather_ex : ws_reply_wfb WS_ERR = true /\
  ws_reply_wfb (WS_OPEN ++ [116] ++ WS_VAL ++ [49] ++ WS_DATE ++ [35] ++ WS_INFO ++ [105] ++ WS_CLOSE) = true /\
  ws_reply_wfb (WS_OPEN ++ [116] ++ WS_VAL ++ [49] ++ WS_CLOSE) = false.
Proof. repeat split; reflexivity. Qed.
