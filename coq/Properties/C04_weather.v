(* C04, weather station part — every reply, in every state, is emitted on the terminator only, is
   the error string or the five tags in order around four fields, names (echoes) the sensor token
   of the command line it answers, and is single-byte text.  Statements only. *)
From DS Require Import Base.Prelude Model.SmbCommon Model.SmbWeather Proofs.SmbCommon Proofs.SmbWeather
  Proofs.SmbWeatherInv.

Theorem C04_weather_reply_wf : forall fmt d t b d' r, ws_step fmt d t b = (d', OReply r) ->
  b = LF /\ ws_reply_wf r.
Proof. exact ws_step_reply_wf. Qed.
Print Assumptions C04_weather_reply_wf.

(* echo: the <Id> field is the second token of the completed command line *)
Theorem C04_weather_reply_echo : forall fmt d t b d' r, ws_step fmt d t b = (d', OReply r) ->
  b = LF /\
  exists a0 id more,
    split_ws (strip ((match buf_get t (bufs d) with Some v => v | None => [] end) ++ [LF])) = a0 :: id :: more /\
    r = ws_read (sensors d') id.
Proof. exact ws_step_reply. Qed.
Print Assumptions C04_weather_reply_echo.

(* the boolean decoder applied to the implementation's replies in the correspondence suite accepts
   exactly this shape *)
Theorem C04_weather_decoder_complete : forall r, ws_reply_wf r -> ws_reply_wfb r = true.
Proof. exact ws_reply_wfb_complete. Qed.
Print Assumptions C04_weather_decoder_complete.

(* single-byte text: for byte inputs, a byte-valued initial table and a rendering oracle that
   yields bytes, every reply of every history consists of code points < 256 *)
Theorem C04_weather_charset : forall fmt, (forall tok v, fmt tok = Some v -> bytes v) ->
  forall cfg ops, Forall sen_bytes cfg -> Forall (fun p => byte (snd p)) ops ->
  forall r, In (OReply r) (snd (ws_run fmt (ws_init cfg) ops)) -> bytes r.
Proof.
  exact (fun fmt Hf cfg ops Hc Ho =>
           proj2 (ws_run_binv fmt Hf ops (ws_init cfg) (conj (fun t m (H : None = Some m) => match H with end) Hc) Ho)).
Qed.
Print Assumptions C04_weather_charset.

Example C04_weather_ex : ws_reply_wfb WS_ERR = true /\
  ws_reply_wfb (WS_OPEN ++ [116] ++ WS_VAL ++ [49] ++ WS_DATE ++ [35] ++ WS_INFO ++ [105] ++ WS_CLOSE) = true /\
  ws_reply_wfb (WS_OPEN ++ [116] ++ WS_VAL ++ [49] ++ WS_CLOSE) = false.
Proof. repeat split; reflexivity. Qed.
