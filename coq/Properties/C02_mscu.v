(* C02, mscu part.  Statements only; proofs in Proofs/SmcMscuProofs.v. *)
From DS Require Import Base.Prelude Model.SmcBase Model.SmcMscu Proofs.SmcMscuProofs.

(* getspar (and getappstatus) are answered by every servo in every state *)
Theorem C02_mscu_getspar : forall fx e d a s num ps,
  exists r, exec_servo fx e d a s $"getspar" num ps = (d, OReply r).
Proof. exact ms_getspar_answered. Qed.
Print Assumptions C02_mscu_getspar.

Theorem C02_mscu_getappstatus : forall fx e d a s num,
  exec_servo fx e d a s $"getappstatus" num [] =
  (d, OReply (head_line 63 $"getappstatus" num a ++ $"> 0000030D" ++ crlf)).
Proof. exact ms_getappstatus_reply. Qed.
Print Assumptions C02_mscu_getappstatus.

(* getpos is answered whenever History.get succeeds; it succeeds with the newest entry, unchanged,
   whenever that entry is not dated later than now *)
Theorem C02_mscu_getpos : forall fx e d a s num vs t,
  positions (hist s) (now d) = Some vs -> render_list e vs = Some t ->
  exec_servo fx e d a s $"getpos" num [] =
  (d, OReply (head_line 63 $"getpos" num a ++ $"> " ++ zstr (now d) ++ t ++ crlf)).
Proof. exact ms_getpos_answered. Qed.
Print Assumptions C02_mscu_getpos.

Theorem C02_mscu_positions_newest : forall h x t, fst x <= t -> positions (h ++ [x]) t = Some (snd x).
Proof. exact ms_positions_newest. Qed.
Print Assumptions C02_mscu_positions_newest.

(* F22: original code - clean, clean, getpos -> IndexError, no reply; with fixes/22 it is answered *)
Theorem C02_mscu_clean_clean_getpos_refuted :
  last (snd (run (step false e_std) (init 1000) f22_events)) OFalse = OException.
Proof. exact ms_f22_refuted. Qed.
Print Assumptions C02_mscu_clean_clean_getpos_refuted.

Theorem C02_mscu_clean_clean_getpos_fixed :
  last (snd (run (step true e_std) (init 1000) f22_events)) OFalse
  = OReply ($"?getpos:0=1> 1000,-125,-125,-125,0,0,0" ++ crlf).
Proof. exact ms_f22_fixed. Qed.
Print Assumptions C02_mscu_clean_clean_getpos_fixed.
(* PARTIAL: no invariant "every reachable history is non-empty and interpolates without overflow"
   is proved; History.get can still fail on a history emptied by clean when every entry is dated in
   the future (needs 2^15 future-dated setpos first) and on operands beyond the float range. *)
