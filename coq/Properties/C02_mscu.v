(* C02, mscu part.  Statements only; proofs in Proofs/SmcMscuProofs.v. *)
From DS Require Import Base.Prelude Model.SmcBase Model.SmcMscu Proofs.SmcMscuProofs Proofs.SmcMscuInv.

(* getspar (and getappstatus) are answered by every servo in every state *)
Theorem C02_mscu_getspar : forall fx e d a s num ps,
  exists r, exec_servo fx e d a s $"getspar" num ps = (d, OReply r).
Proof. exact ms_getspar_answered. Qed.
Print Assumptions C02_mscu_getspar.

Theorem C02_mscu_getappstatus : forall fx e d a s num,
  exec_servo fx e d a s $"getappstatus" num [] =
  (d, OReply (head_line 63 $"getappstatus" num a ++ $"> 0000030D" ++ crlf)).
Proof. exact ms_getappstatus_reply. Qed.
Print Assumptions C02_mscu_getappstatus.

(* getpos is answered whenever History.get succeeds; it succeeds with the newest entry, unchanged,
   whenever that entry is not dated later than now *)
Theorem C02_mscu_getpos : forall fx e d a s num vs t,
  positions (hist s) (now d) = Some vs -> render_list e vs = Some t ->
  exec_servo fx e d a s $"getpos" num [] =
  (d, OReply (head_line 63 $"getpos" num a ++ $"> " ++ zstr (now d) ++ t ++ crlf)).
Proof. exact ms_getpos_answered. Qed.
Print Assumptions C02_mscu_getpos.

Theorem C02_mscu_positions_newest : forall h x t, fst x <= t -> positions (h ++ [x]) t = Some (snd x).
Proof. exact ms_positions_newest. Qed.
Print Assumptions C02_mscu_positions_newest.

(* F22: original code - clean, clean, getpos -> IndexError, no reply; with fixes/22 it is answered *)
Theorem C02_mscu_clean_clean_getpos_refuted :
  last (snd (run (step false e_std) (init 1000) f22_events)) OFalse = OException.
Proof. exact ms_f22_refuted. Qed.
Print Assumptions C02_mscu_clean_clean_getpos_refuted.

Theorem C02_mscu_clean_clean_getpos_fixed :
  last (snd (run (step true e_std) (init 1000) f22_events)) OFalse
  = OReply ($"?getpos:0=1> 1000,-125,-125,-125,0,0,0" ++ crlf).
Proof. exact ms_f22_fixed. Qed.
Print Assumptions C02_mscu_clean_clean_getpos_fixed.
(* Reachable-state invariant (code with fixes/22): in every state reached from construction by fewer
   than 2^15 - 2 events (bytes, clock changes, NAK switches) under a clock that never runs backwards,
   every servo history holds an entry that is not dated later than now (so it is non-empty and
   History.clean cannot empty it) and all its entries have the servo's number of axes. *)
Theorem C02_mscu_reachable_invariant : forall e t0 evs,
  mono t0 evs -> Z.of_nat (length evs) + 2 <= hist_cap ->
  dinv (dv (fst (run (step true e) (init t0) evs))).
Proof. exact ms_reachable_inv. Qed.
Print Assumptions C02_mscu_reachable_invariant.

(* Under the invariant getpos and getstatus are answered by every servo - or History.get raises
   OverflowError, the recorded known class mscu_query_OverflowError; IndexError is impossible.
   (py_repr total = the harness table covers every float that is rendered.) *)
Theorem C02_mscu_getpos_unconditional : forall fx e d a s num,
  dinv d -> nth_opt a (servos d) = Some s -> (forall b, py_repr e b <> None) ->
  (exists r, exec_servo fx e d a s $"getpos" num [] = (d, OReply r)) \/
  (positions_r (hist s) (now d) = POverflow /\ exec_servo fx e d a s $"getpos" num [] = (d, OException)).
Proof. exact ms_getpos_unconditional. Qed.
Print Assumptions C02_mscu_getpos_unconditional.

Theorem C02_mscu_getstatus_unconditional : forall fx e d a s num,
  dinv d -> nth_opt a (servos d) = Some s -> (forall b, py_repr e b <> None) ->
  (exists r, exec_servo fx e d a s $"getstatus" num [] = (d, OReply r)) \/
  (positions_r (hist s) (now d) = POverflow /\ exec_servo fx e d a s $"getstatus" num [] = (d, OException)).
Proof. exact ms_getstatus_unconditional. Qed.
Print Assumptions C02_mscu_getstatus_unconditional.

(* The bound on the number of events is necessary: after 2^15 future-dated setpos the two initial
   entries have been pushed out of the 2^15-entry window, clean removes everything and getpos dies
   with IndexError (reproduced on the real class, known finding
   mscu_history_emptied_after_2pow15_future_setpos). *)
