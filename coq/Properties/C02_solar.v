(* C02, solar attenuator part — the query catalogue (`get W_mode`, with or without CR) is answered
   with exactly one reply in every idle state.  Statements only. *)
From DS Require Import Base.Prelude Model.SmbCommon Model.SmbSolar Proofs.SmbCommon Proofs.SmbSolar.

(* from EVERY idle state (reachable or not): all bytes but the last are answered `True`, the
   terminator is answered with one reply, and the parser state is unchanged *)
Theorem C02_solar_answered : forall s q, solar_idle s = true -> In q solar_queries ->
  solar_run s (q ++ [LF]) = (s, line_outs q (OReply (mode (ldev s) ++ CRLF))).
Proof. exact solar_answered. Qed.
Print Assumptions C02_solar_answered.

(* in every state reachable by any byte history that reply is well-formed (C04 decoder) *)
Theorem C02_solar_answer_wf : forall s q, lreach solar_exec solar_start s -> In q solar_queries ->
  solar_reply_wfb (mode (ldev s) ++ CRLF) = true.
Proof. exact solar_answered_wf. Qed.
Print Assumptions C02_solar_answer_wf.

(* idle is what C03 guarantees after the terminator *)
Theorem C02_solar_after_any_history : forall bs q, In q solar_queries ->
  let s := fst (solar_run solar_start (bs ++ [LF])) in
  snd (solar_run s (q ++ [LF])) = line_outs q (OReply (mode (ldev s) ++ CRLF)).
Proof. exact solar_answered_after_history. Qed.
Print Assumptions C02_solar_after_any_history.

Example C02_solar_ex : In (GET_MODE ++ [CR]) solar_queries /\ solar_idle solar_start = true.
Proof. split; [left; reflexivity | reflexivity]. Qed.
