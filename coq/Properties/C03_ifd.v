(* C03, IFD part — the command framer of simulators/if_distributor/IFD.py returns to idle after any
   input and never waits for ever.  Statements only; proofs in Proofs/SmaFramer.v, Proofs/SmaIfdProofs.v.
   ifd_step e / ifd_run e: Model/SmaIfd.v (System.parse, one byte per step; e = the float() oracle table
   of the run, arbitrary). *)
From DS Require Import Base.Prelude Model.SmaCommon Model.SmaIfd Proofs.SmaFramer.
From DS Require Import Proofs.SmaIfdProofs.

Theorem C03_ifd_resync_on_terminator : forall e (s : ifd_state) (bs : list Z) (t : Z),
  ifd_is_tail t = true -> ifd_idle (fst (ifd_run e s (bs ++ [t]))) = true.
Proof. exact (fun e => resync_on_terminator ifd_fcfg ifd_fcfg_max ifd_tail_not_hdr (ifd_exec e)). Qed.
Print Assumptions C03_ifd_resync_on_terminator.

(* bounded length: from every reachable state any 15 bytes (max_msg_length) contain a non-empty
   prefix after which the framer is idle *)
Theorem C03_ifd_resync_within_maxlen : forall e (s : ifd_state) (bs : list Z),
  ifd_reachable e s -> 15 <= Z.of_nat (length bs) ->
  exists p q, bs = p ++ q /\ p <> [] /\ ifd_idle (fst (ifd_run e s p)) = true.
Proof.
  exact (fun e s bs Hr => resync_within_maxlen ifd_fcfg ifd_fcfg_max ifd_tail_not_hdr (ifd_exec e) s bs
                            (proj1 (ifd_reachable_sinv e s Hr))).
Qed.
Print Assumptions C03_ifd_resync_within_maxlen.

Theorem C03_ifd_overflow_resets : forall e (s : ifd_state) (b : Z),
  Z.of_nat (length (buf s)) = 14 -> ifd_is_tail b = false ->
  ifd_step e s b = (Build_sstate [] (dev s), OValueError).
Proof. exact (fun e => overflow_resets ifd_fcfg ifd_fcfg_max ifd_tail_not_hdr (ifd_exec e)). Qed.
Print Assumptions C03_ifd_overflow_resets.

Theorem C03_ifd_idle_discards : forall e (s : ifd_state) (b : Z),
  ifd_idle s = true -> ifd_is_hdr b = false -> ifd_step e s b = (s, OFalse).
Proof. exact (fun e => idle_discards ifd_fcfg ifd_fcfg_max ifd_tail_not_hdr (ifd_exec e)). Qed.
Print Assumptions C03_ifd_idle_discards.

Theorem C03_ifd_fresh_after_idle : forall (s : ifd_state) (bs : list Z),
  ifd_idle s = true -> ftrace ifd_fcfg s bs = ftrace ifd_fcfg ifd_init bs.
Proof.
  exact (fun s bs H => fresh_after_idle ifd_fcfg ifd_fcfg_max ifd_tail_not_hdr (ifd_exec []) s ifd_init bs H
                         eq_refl).
Qed.
Print Assumptions C03_ifd_fresh_after_idle.

Theorem C03_ifd_idle_is_initial_framing : forall (s : ifd_state),
  ifd_idle s = true -> s = Build_sstate [] (dev s).
Proof. exact (idle_state_is_fresh ifd_fcfg ifd_fcfg_max ifd_tail_not_hdr (ifd_exec [])). Qed.
Print Assumptions C03_ifd_idle_is_initial_framing.
