(* C05, solar attenuator part — register catalogue: `mode`, written by the value-less commands
   `set W_solar_attn` / `set W_cal` / `set W_passthrough` (acknowledged with ACK CR LF), read back by
   `get W_mode`.  (`home` has no read-back path.)  Statements only. *)
From DS Require Import Base.Prelude Model.SmbCommon Model.SmbSolar Proofs.SmbCommon Proofs.SmbSolar.

(* each write is acknowledged and stores its value *)
Theorem C05_solar_write_ack : forall d w m, In (w, m) solar_mode_writes ->
  solar_exec d (w ++ [CR]) = (mkS m (home d), OReply (ACK ++ CRLF)).
Proof. exact solar_write. Qed.
Print Assumptions C05_solar_write_ack.

(* acknowledged write, then ANY history of lines in which no command writes the mode (other sets,
   gets, refused commands, garbage), then the read-back: the written value in the protocol's
   encoding — device level *)
Theorem C05_solar_readback : forall d w m ls, In (w, m) solar_mode_writes ->
  Forall (fun l => solar_line_writes_mode l = false) ls ->
  let d2 := fst (exec_lines solar_exec (fst (solar_exec d (w ++ [CR]))) ls) in
  solar_exec d2 (GET_MODE ++ [CR]) = (d2, OReply (m ++ CRLF)).
Proof. exact solar_readback. Qed.
Print Assumptions C05_solar_readback.

(* the same on the byte stream, from any idle parser state: the write is acknowledged (the outcome
   at the position of its terminator is ACK) and the final read-back returns the value *)
Theorem C05_solar_readback_bytes : forall s w m ls, solar_idle s = true -> In (w, m) solar_mode_writes ->
  Forall no_lf ls -> Forall (fun l => solar_line_writes_mode l = false) ls ->
  exists s' pre,
    solar_run s (lines_bytes ((w ++ [CR]) :: ls) ++ (GET_MODE ++ [CR]) ++ [LF]) =
      (s', pre ++ line_outs (GET_MODE ++ [CR]) (OReply (m ++ CRLF)))
    /\ nth 0 (skipn (length w + 1) pre) OFalse = OReply (ACK ++ CRLF).
Proof. exact solar_readback_bytes. Qed.
Print Assumptions C05_solar_readback_bytes.

(* refused: a line that is answered `True` (nothing recognised) leaves the device unchanged ... *)
Theorem C05_solar_silent_unchanged : forall d l d', solar_exec d l = (d', OTrue) -> d' = d.
Proof. exact solar_silent_unchanged. Qed.
Print Assumptions C05_solar_silent_unchanged.

(* ... and so does a single-command line that gets no reply (unknown command: TypeError) *)
Theorem C05_solar_refused_unchanged_except : forall d c d' o, ~ In SEMI c ->
  solar_exec d c = (d', o) -> is_reply o = false -> d' = d.
Proof. exact solar_single_refused. Qed.
Print Assumptions C05_solar_refused_unchanged_except.

(* Full statement (any line without a reply leaves the device unchanged) is FALSE for
   multi-command lines: the commands before an unknown one are executed, then TypeError is raised
   and their acknowledgements are lost.  Known finding solar_partial_line_exception. *)
Theorem C05_solar_refused_unchanged_refuted : exists d l d',
  solar_exec d l = (d', OException TypeError) /\ mode d' <> mode d.
Proof. exact solar_partial_line_refuted. Qed.
Print Assumptions C05_solar_refused_unchanged_refuted.

Example C05_solar_ex :
  snd (solar_run solar_start (lines_bytes [SET_CAL ++ [CR]; SET_HOME ++ [CR]; [120; 32; 121]; GET_MODE ++ [CR]])) =
  line_outs (SET_CAL ++ [CR]) (OReply (ACK ++ CRLF)) ++ line_outs (SET_HOME ++ [CR]) (OReply (ACK ++ CRLF))
  ++ line_outs [120; 32; 121] (OException TypeError) ++ line_outs (GET_MODE ++ [CR]) (OReply (CALIBRATOR ++ CRLF)).
Proof. reflexivity. Qed.
