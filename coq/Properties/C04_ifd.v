(* C04, IFD part — every reply produced in any reachable state is `ack\n`, `nak\n` or a status line
   `ack\n` + twelve ', '-separated entries + `\n` whose first two entries are the decimal address of
   the board that was asked for (the invariant ties entry 0/1 of board i to i). *)
From DS Require Import Base.Prelude Model.SmaCommon Model.SmaIfd Proofs.SmaFramer.
From DS Require Import Proofs.SmaIfdProofs.

Theorem C04_ifd_replies_wf : forall e (s : ifd_state) (b : Z) (r : list Z),
  ifd_reachable e s -> snd (ifd_step e s b) = OReply r -> ifd_wf_reply r.
Proof. exact ifd_replies_wf. Qed.
Print Assumptions C04_ifd_replies_wf.

Theorem C04_ifd_status_reply_shape : forall i brd, board_ok i brd ->
  exists fields, ifd_status_reply brd = ifd_ack ++ join comma_sp fields ++ [10] /\
                 length fields = 12%nat /\
                 nth_error fields 0 = Some (render_int i) /\ nth_error fields 1 = Some (render_int i).
Proof. exact ifd_status_reply_shape. Qed.
Print Assumptions C04_ifd_status_reply_shape.
