(* C04, IFD_14_channels part — every reply is '#<int>.<0|25|5|75>\n' (an attenuation in quarter dB,
   multiplier 0..127), '#0\n', '#1\n', '#COMMAND UNKNOWN\n', or the bare identification string
   (no header/terminator: the simulator's own convention, recorded as such). *)
From DS Require Import Base.Prelude Model.SmaCommon Model.SmaIfd14 Proofs.SmaFramer.
From DS Require Import Proofs.SmaIfd14Proofs.

Theorem C04_ifd14_replies_wf : forall (s : i14_state) (b : Z) (r : list Z),
  i14_reachable s -> snd (i14_step s b) = OReply r -> i14_wf_reply r.
Proof. exact i14_replies_wf. Qed.
Print Assumptions C04_ifd14_replies_wf.

Theorem C04_ifd14_reply_shape : forall r, i14_wf_reply r -> i14_shape_okb r = true.
Proof. exact i14_wf_reply_shape. Qed.
Print Assumptions C04_ifd14_reply_shape.
