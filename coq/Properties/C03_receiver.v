(* C03, receiver part -- the framer of simulators/receiver System.parse returns to idle and never
   waits for ever.  Statements only; proofs in Proofs/RcvFraming.v.

   The framing state is the buffer `s_msg` (idle = empty).  It evolves independently of the boards:
   s_msg after a byte is `next (s_msg s) b` whatever _parse does (including raising). *)
From DS Require Import Base.Prelude Gen.RcvTables Model.RcvModel Proofs.RcvAssoc Proofs.RcvProofs Proofs.RcvBoards Proofs.RcvFraming Proofs.RcvDecode Proofs.RcvBytes Proofs.RcvBytes2 Proofs.RcvTotal.

(* the buffer after any byte sequence is a function of the buffer before and of the bytes only *)
Theorem C03_receiver_framing_independent : forall clk mkdate render bs s,
  s_msg (fst (run clk mkdate render s bs)) = ffeed (s_msg s) bs.
Proof. exact run_msg. Qed.
Print Assumptions C03_receiver_framing_independent.

(* every buffer reachable from idle by bytes satisfies buf_inv: at most 262 bytes are ever buffered *)
Theorem C03_receiver_reachable_inv : forall bs msg, buf_inv msg -> bytes bs -> buf_inv (ffeed msg bs).
Proof. exact ffeed_inv. Qed.
Print Assumptions C03_receiver_reachable_inv.

Theorem C03_receiver_buffer_bounded : forall msg, buf_inv msg -> zlen msg <= 262.
Proof. exact buf_inv_short. Qed.
Print Assumptions C03_receiver_buffer_bounded.

(* resynchronisation: from any reachable buffer, once 263 = 8 + 255 bytes (one maximum-length frame,
   counting what is already buffered) that are not the header SOH have been received, the parser is
   idle *)
Theorem C03_receiver_resync : forall bs msg, buf_inv msg -> bytes bs ->
  Forall (fun b => b <> CMD_SOH) bs -> 263 <= zlen msg + zlen bs -> ffeed msg bs = [].
Proof. exact resync. Qed.
Print Assumptions C03_receiver_resync.

(* an idle parser discards a byte that cannot start a command, without any effect *)
Theorem C03_receiver_idle_discards : forall clk mkdate render s b,
  s_msg s = [] -> b <> CMD_SOH -> parse clk mkdate render s b = (s, OFalse).
Proof. exact idle_discards. Qed.
Print Assumptions C03_receiver_idle_discards.

(* the completion length is a function of msg[3] (command) and msg[5] (parameter length) only, and is
   between 5 and 263 *)
Theorem C03_receiver_flen_bound : forall c l, byte l -> 5 <= flen c l <= 263.
Proof. exact flen_bound. Qed.
Print Assumptions C03_receiver_flen_bound.

(* the next well-formed command is framed as on a fresh parser: from ANY idle state a message of length
   flen(msg[3], msg[5]) starting with SOH is buffered byte by byte (True) and delivered to _parse
   exactly on its last byte *)
Theorem C03_receiver_frame_delivery : forall clk mkdate render s sa ma c cid rest,
  s_msg s = [] -> bytes rest -> zlen rest + 5 = flen c (hd 0 rest) ->
  let m := CMD_SOH :: sa :: ma :: c :: cid :: rest in
  run clk mkdate render s m = frame_result clk mkdate render s m (length m - 1).
Proof. exact run_frame. Qed.
Print Assumptions C03_receiver_frame_delivery.

(* every request form of the protocol has that length *)
Theorem C03_receiver_abbr_len : forall k sa ma cid p fill rest,
  abbr_frame k sa ma cid p fill = CMD_SOH :: sa :: ma :: abbr_code k :: cid :: rest ->
  zlen p <= 255 -> length fill = 2%nat -> zlen rest + 5 = flen (abbr_code k) (hd 0 rest).
Proof. exact abbr_frame_len. Qed.
Print Assumptions C03_receiver_abbr_len.

Theorem C03_receiver_ext_len : forall k sa ma cid p ck eot rest,
  ext_frame k sa ma cid p ck eot = CMD_SOH :: sa :: ma :: ext_code k :: cid :: rest ->
  zlen rest + 5 = flen (ext_code k) (hd 0 rest).
Proof. exact ext_frame_len. Qed.
Print Assumptions C03_receiver_ext_len.

(* ---- which frames can make _parse raise (tree with fixes 25 and 25b) ---- *)
(* System._parse raises only while executing one of the two time queries (inquiry, get_time) and only when
   the rendering oracle is undefined on the instant asked for (last_cmd_date - time_offset beyond year 9999:
   OverflowError).  No other command, parameter string, board type or state raises.  Whatever happens the
   buffer is idle afterwards (C03_receiver_framing_independent: the buffer was reset before _parse). *)
Theorem C03_receiver_parse_exception_class : forall clk mkdate render sl t m sl' t',
  (5 <= length m)%nat -> handle clk mkdate render sl t m = (sl', t', OExc) ->
  exists sa q k, decode m = Some (sa, q) /\ classify (q_cmd q) = Some k /\ time_query k /\
                 exists z, render z = None.
Proof. exact handle_exc_class. Qed.
Print Assumptions C03_receiver_parse_exception_class.

(* with a rendering that is defined everywhere, parse never raises: any state, any byte *)
Theorem C03_receiver_parse_never_raises : forall clk mkdate render, (forall z, render z <> None) ->
  forall s b, snd (parse clk mkdate render s b) <> OExc.
Proof. exact parse_never_raises. Qed.
Print Assumptions C03_receiver_parse_never_raises.

(* a frame that completes in the last branch of System.parse (len(msg) == 8 + msg[5], i.e. at 8 bytes or
   more) never raises, whatever the oracles: the time queries complete at 5 or 7 bytes.  buf_inv3 holds of
   every reachable buffer (C03_receiver_reachable_inv3).  Hence moving the buffer reset after _parse in that
   branch only (seeded mutant C18/m2) does not change the behaviour of the fixed tree. *)
Theorem C03_receiver_last_branch_never_raises : forall clk mkdate render s b m,
  buf_inv3 (s_msg s) -> frame_step (s_msg s) b = FDone m -> 8 <= zlen m ->
  snd (parse clk mkdate render s b) <> OExc.
Proof. exact last_branch_never_raises. Qed.
Print Assumptions C03_receiver_last_branch_never_raises.

Theorem C03_receiver_reachable_inv3 : forall clk mkdate render bs s,
  buf_inv3 (s_msg s) -> buf_inv3 (s_msg (fst (run clk mkdate render s bs))).
Proof. exact run_inv3. Qed.
Print Assumptions C03_receiver_reachable_inv3.

(* the exception is reachable (rendering undefined) and the parser is idle and answering afterwards *)
Theorem C03_receiver_raising_reachable_and_idle :
  let r := run (fun n => Z.of_nat n) (fun _ => Some 0) (fun _ => None) (init_sys 0 1 [1])
               ([1; 1; 1; 99; 0] ++ [1; 1; 1; 97; 1] ++ [1; 1; 1; 106; 2]) in
  snd r = repeat OTrue 4 ++ [OReply [2; 1; 1; 99; 0; 0; 8; 0; 0; 0; 0; 0; 0; 0; 0]] ++
          repeat OTrue 4 ++ [OExc] ++ repeat OTrue 4 ++ [OReply [2; 1; 1; 106; 2; 0; 1; 126]] /\
  s_msg (fst r) = [].
Proof. exact raising_reachable_and_idle. Qed.
Print Assumptions C03_receiver_raising_reachable_and_idle.
