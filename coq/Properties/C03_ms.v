(* C03 (minor servos) — the CR LF framer of simulators/minor_servos returns to idle after any input.
   Statements only.  Generic in the number type, hence valid for the binary64 model. *)
From DS Require Import Base.Prelude Model.MsvTypes Model.MsvModel Model.MsvFloat Gen.MsvTables.
From DS Require Import Proofs.MsvProofs Proofs.MsvParts Proofs.MsvGen.

(* After ANY history of bytes, clock steps and refreshes, the terminator CR LF leaves the parser idle
   (empty buffer): resynchronisation condition of the text protocol. *)
Theorem C03_ms_resync : forall T (ops : numops T) orc cf w evs,
  s_msg (snd (fst (run ops orc cf w (evs ++ [EvByte 13; EvByte 10])))) = [].
Proof. exact @resync. Qed.
Print Assumptions C03_ms_resync.

(* Which bytes complete a command, and the buffer contents, depend on the buffer only: an idle
   parser frames any further input exactly as a fresh one, whatever happened before. *)
Theorem C03_ms_fresh_after_idle : forall T (ops : numops T) orc cf evs w1 w2,
  s_msg (snd w1) = s_msg (snd w2) ->
  map completes (snd (run ops orc cf w1 evs)) = map completes (snd (run ops orc cf w2 evs)) /\
  s_msg (snd (fst (run ops orc cf w1 evs))) = s_msg (snd (fst (run ops orc cf w2 evs))).
Proof. exact @framing_depends_on_buffer. Qed.
Print Assumptions C03_ms_fresh_after_idle.

(* A byte that does not complete CR LF is answered True and only buffered: no device effect. *)
Theorem C03_ms_buffered : forall T (ops : numops T) orc cf s e b, ends_crlf (s_msg s ++ [b]) = false ->
  parse ops orc cf s e b = (set_msg s (s_msg s ++ [b]), OTrue).
Proof. exact @parse_buffers. Qed.
Print Assumptions C03_ms_buffered.

(* On an idle parser a line without embedded CR LF followed by CR LF: True for every byte but the
   last, and on the last byte exactly the outcome of executing that line — the next well-formed
   command is framed and answered as on a fresh parser.  A completed line is never answered True. *)
Theorem C03_ms_line_framed : forall T (ops : numops T) orc cf s e line,
  s_msg s = [] -> has_crlf (line ++ [13]) = false ->
  feed ops orc cf s e (line ++ [13; 10]) =
  (fst (execute ops orc cf s e (line ++ [13; 10])),
   repeat OTrue (length line + 1) ++ [snd (execute ops orc cf s e (line ++ [13; 10]))]).
Proof. exact @feed_line. Qed.
Print Assumptions C03_ms_line_framed.

Theorem C03_ms_completed_line_answered : forall T (ops : numops T) orc cf s e m,
  snd (execute ops orc cf s e m) <> OTrue.
Proof. exact @execute_not_true. Qed.
Print Assumptions C03_ms_completed_line_answered.

(* tie: the terminator of the shipped simulator is CR LF *)
Theorem C03_ms_tail_shipped : g_tail = [13; 10].
Proof. exact gen_tail. Qed.
Print Assumptions C03_ms_tail_shipped.

Example C03_ms_ex : has_crlf ([83; 84; 65; 84; 85; 83] ++ [13]) = false /\ has_crlf [13; 10; 65] = true.
Proof. split; reflexivity. Qed.
