(* C02, IFD_14_channels part — `#ATT ch?`, `#SWT ch?` (0 <= ch < 96) and the identification query from
   any reachable idle state: exactly one reply, registers unchanged, framer idle. *)
From DS Require Import Base.Prelude Model.SmaCommon Model.SmaIfd14 Proofs.SmaFramer.
From DS Require Import Proofs.SmaIfd14Proofs.

Theorem C02_ifd14_queries_answered : forall (s : i14_state) (q : list Z),
  i14_reachable s -> i14_idle s = true -> i14_query q ->
  exists r, snd (i14_run s (q ++ [10])) = repeat OTrue (length q) ++ [OReply r] /\ i14_wf_reply r /\
            dev (fst (i14_run s (q ++ [10]))) = dev s /\ i14_idle (fst (i14_run s (q ++ [10]))) = true.
Proof. exact i14_queries_answered. Qed.
Print Assumptions C02_ifd14_queries_answered.

Example C02_ifd14_reachable_nontrivial :
  let s := fst (i14_run i14_init ([35; 65; 84; 84; 32; 53; 32; 51; 10; 35; 83; 87; 84; 32; 48; 32; 49; 10])) in
  i14_reachable s /\ i14_idle s = true /\ nth_error (chans (dev s)) 5 = Some 3 /\ switched (dev s) = true.
Proof. exact i14_reachable_example. Qed.
