(* C03, totalpower part - the line framer of simulators/totalpower returns to idle.
   Statements only; proofs in Proofs/SmcTotalpowerProofs.v.  Every theorem holds from EVERY state
   (hence after any byte history), for every oracle [e]. *)
From DS Require Import Base.Prelude Model.SmcBase Model.SmcTotalpower Proofs.SmcTotalpowerProofs.

(* after any byte history, a terminator (\n or \r) leaves the framer idle *)
Theorem C03_totalpower_resync : forall e s bs t,
  is_tail t = true -> idle (fst (run (step e) s (bs ++ [t]))) = true.
Proof. exact tp_resync. Qed.
Print Assumptions C03_totalpower_resync.

(* idle: the only bytes that cannot start a command are the terminators; they are discarded
   (parse returns False) without any effect *)
Theorem C03_totalpower_idle_discards : forall e s t,
  idle s = true -> is_tail t = true -> step e s t = (s, OFalse).
Proof. exact tp_idle_tail. Qed.
Print Assumptions C03_totalpower_idle_discards.

(* idle is the initial framing state: nothing of the history is left in the framer *)
Theorem C03_totalpower_fresh : forall s, idle s = true -> s = {| msg := msg (init 0); dv := dv s |}.
Proof. exact tp_fresh. Qed.
Print Assumptions C03_totalpower_fresh.

(* bytes of a line never touch the device; the next complete line from idle runs exactly the handler
   of that line, as on a fresh parser *)
Theorem C03_totalpower_next_line : forall e s line t,
  idle s = true -> Forall (fun b => is_tail b = false) line -> is_tail t = true ->
  run (step e) s (line ++ [t]) =
  ({| msg := []; dv := fst (exec e (dv s) (decode e line)) |},
   repeat OTrue (length line) ++ [snd (exec e (dv s) (decode e line))]).
Proof. exact tp_run_line. Qed.
Print Assumptions C03_totalpower_next_line.

Example C03_totalpower_nontrivial :
  let e := {| py_int := fun _ => CvErr; tm := fun _ => (1, 2, 3); rnd := fun _ => 0 |} in
  idle (fst (run (step e) (init 4) ($"A 1 B" ++ [13]))) = true /\
  idle (fst (run (step e) (init 4) $"A 1 B")) = false.
Proof. vm_compute. split; reflexivity. Qed.
