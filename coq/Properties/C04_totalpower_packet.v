(* C04, totalpower data socket: every data packet streamed by System._send_packet decodes, under the
   independent reader Spec/SmcTpPacketSpec.v, into int(1000/sample_period) fixed-size records
   (epoch seconds, 16-bit sample counter, status word, one sample per channel) with consecutive
   counters, the calibration mark where calOnPeriod puts it, an alternating toggle bit, and samples
   equal to draw * sample_period.  Statements only; proofs in Proofs/SmcTpPacketProofs.v.

   Inputs the code refuses (an exception leaves the timer thread, nothing is sent, the stream ends):
   sample_period = 0 (ZeroDivisionError); int(timestamp) outside 0..2^32-1 (ValueError of
   uint_to_bytes: clock before 1970 or from 2106-02-07); a sample draw*sample_period outside
   0..2^32-1 (ValueError; impossible for the code's own randint(200, 2000) when records exist);
   sample_counter outside 0..65535 (ValueError; unreachable, see the counter invariant). *)
From DS Require Import Base.Prelude Base.Bits Model.Utils Model.SmcFloat Model.SmcTpPacket
  Spec.SmcTpPacketSpec Proofs.SmcTpPacketProofs.

(* one packet: for EVERY state with 0/1 status attributes and a counter in range, every sample period
   1..1000 ms, every clock reading whose record time stamps fall in the 4-byte epoch field, every list
   of draws whose products fit 4 bytes: a packet is built, it has exactly int(1000/sp) records of
   8 + 4*channels bytes, the reader decodes it to the expected records, the toggle is flipped and the
   counter advanced modulo 65536 *)
Theorem C04_totalpower_packet_decodes st clock draws es :
  guard st -> 1 <= ps_sp st <= 1000 ->
  packet_epochs (ps_sp st) clock (Z.to_nat (1000 / ps_sp st)) = map Some es -> Forall epoch_ok es ->
  (Z.to_nat (1000 / ps_sp st) * ps_channels st <= length draws)%nat -> Forall (draw_ok (ps_sp st)) draws ->
  exists pk st', build_packet st clock draws = POk pk st'
    /\ length pk = (Z.to_nat (1000 / ps_sp st) * rec_size (ps_channels st))%nat
    /\ decode_packet (ps_channels st) (Z.to_nat (1000 / ps_sp st)) pk = Some (spec_of st es draws)
    /\ guard st' /\ ps_toggle st' = flip (ps_toggle st)
    /\ ps_counter st' = (ps_counter st + 1000 / ps_sp st) mod 65536
    /\ ps_sp st' = ps_sp st /\ ps_calper st' = ps_calper st /\ ps_zero st' = ps_zero st
    /\ ps_channels st' = ps_channels st.
Proof. exact (packet_decodes st clock draws es). Qed.
Print Assumptions C04_totalpower_packet_decodes.

(* int(1000 / sample_period) through the float quotient is the integer quotient (sweep of 1..1000) *)
Theorem C04_totalpower_packet_record_count sp : 1 <= sp <= 1000 -> n_records sp = Some (Z.to_nat (1000 / sp)).
Proof. exact (n_records_val sp). Qed.
Print Assumptions C04_totalpower_packet_record_count.

(* the draws the code itself makes are never refused when the packet has records *)
Theorem C04_totalpower_packet_own_draws_fit sp d : 1 <= sp <= 1000 -> 200 <= d <= 2000 -> draw_ok sp d.
Proof. exact (own_draws_fit sp d). Qed.
Print Assumptions C04_totalpower_packet_own_draws_fit.

(* record i of the expected records: counter (c + i) mod 65536, always in 0..65535 *)
Theorem C04_totalpower_packet_counters sp per z t ch es c k con draws i r : 0 <= c < 65536 ->
  nth_error (spec_recs sp per z t ch c k con es draws) i = Some r ->
  r_counter r = (c + Z.of_nat i) mod 65536 /\ 0 <= r_counter r < 65536.
Proof. exact (spec_nth_counter sp per z t ch es c k con draws i r). Qed.
Print Assumptions C04_totalpower_packet_counters.

(* record i: the samples are the i-th block of `channels` draws times sample_period; epoch = the i-th time stamp *)
Theorem C04_totalpower_packet_samples sp per z t ch es c k con draws i r :
  nth_error (spec_recs sp per z t ch c k con es draws) i = Some r ->
  r_samples r = map (fun d => d * sp) (firstn ch (skipn (i * ch) draws)) /\ r_epoch r = nth i es 0.
Proof. exact (spec_nth_samples sp per z t ch es c k con draws i r). Qed.
Print Assumptions C04_totalpower_packet_samples.

(* record i: the status word is well formed and carries the toggle and zero bits of the state *)
Theorem C04_totalpower_packet_status sp per z t ch es c k con draws i r : bitz z -> bitz t -> bitz con ->
  nth_error (spec_recs sp per z t ch c k con es draws) i = Some r ->
  sw_wellformed (r_status r) = true /\ sw_toggle (r_status r) = (t =? 1) /\ sw_zero (r_status r) = (z =? 1).
Proof. exact (spec_nth_status sp per z t ch es c k con draws i r). Qed.
Print Assumptions C04_totalpower_packet_status.

(* calibration mark, calOnPeriod = per > 0, k samples since the last mark: exactly every (per+1)-th record;
   a calOn left pending by the `N 1` command additionally marks record 0 of the next packet *)
Theorem C04_totalpower_packet_cal_mark sp per z t ch es c k con draws i r : bitz z -> bitz t -> bitz con ->
  0 < per -> 0 <= k <= per ->
  nth_error (spec_recs sp per z t ch c k con es draws) i = Some r ->
  sw_cal (r_status r) = ((k + Z.of_nat i) mod (per + 1) =? per) || ((Z.of_nat i =? 0) && (con =? 1)).
Proof. exact (spec_nth_cal_pos sp per z t ch es c k con draws i r). Qed.
Print Assumptions C04_totalpower_packet_cal_mark.

(* calOnPeriod <= 0: never a mark *)
Theorem C04_totalpower_packet_cal_never sp per z t ch es c k con draws i r : bitz z -> bitz t -> bitz con ->
  per <= 0 -> 0 <= k ->
  nth_error (spec_recs sp per z t ch c k con es draws) i = Some r ->
  sw_cal (r_status r) = (Z.of_nat i =? 0) && (con =? 1).
Proof. exact (spec_nth_cal_off sp per z t ch es c k con draws i r). Qed.
Print Assumptions C04_totalpower_packet_cal_never.

(* over ANY history of invocations (any clocks, draws, outcomes, including refused ones): the counter
   never leaves 0..65535 *)
Theorem C04_totalpower_packet_counter_invariant ins st : cnt_ok st ->
  Forall (fun r => cnt_ok (res_state r)) (fst (run_packets st ins)) /\ cnt_ok (snd (run_packets st ins)).
Proof. exact (run_packets_counter ins st). Qed.
Print Assumptions C04_totalpower_packet_counter_invariant.

(* the toggle alternates from packet to packet; a refused invocation leaves it alone *)
Theorem C04_totalpower_packet_toggle_alternates ins st : cnt_ok st ->
  toggles_alternate (ps_toggle st) (fst (run_packets st ins)).
Proof. exact (run_packets_toggle ins st). Qed.
Print Assumptions C04_totalpower_packet_toggle_alternates.

(* the refused inputs, branch by branch *)
Theorem C04_totalpower_packet_refuses_zero_period st clock draws :
  ps_sp st = 0 -> build_packet st clock draws = PErr EZeroDivision st.
Proof. exact (refuses_zero_period st clock draws). Qed.
Print Assumptions C04_totalpower_packet_refuses_zero_period.

Theorem C04_totalpower_packet_refuses_epoch st e es draws : e < 0 \/ 4294967296 <= e ->
  packet_core st (Some e :: es) draws = PErr EValueError st.
Proof. exact (refuses_epoch st e es draws). Qed.
Print Assumptions C04_totalpower_packet_refuses_epoch.

Theorem C04_totalpower_packet_refuses_counter st e es draws : epoch_ok e ->
  ps_counter st < 0 \/ 65536 <= ps_counter st -> packet_core st (Some e :: es) draws = PErr EValueError st.
Proof. exact (refuses_counter st e es draws). Qed.
Print Assumptions C04_totalpower_packet_refuses_counter.

Theorem C04_totalpower_packet_refuses_sample st e es d draws : guard st -> epoch_ok e ->
  (0 < ps_channels st)%nat -> d * ps_sp st < 0 \/ 4294967296 <= d * ps_sp st ->
  exists st', packet_core st (Some e :: es) (d :: draws) = PErr EValueError st'
              /\ ps_counter st' = ps_counter st /\ ps_toggle st' = ps_toggle st /\ ps_calon st' = 0.
Proof. exact (refuses_sample st e es d draws). Qed.
Print Assumptions C04_totalpower_packet_refuses_sample.

(* ---------- non-vacuity ---------- *)
Definition ex_st : pstate :=
  {| ps_sp := 250; ps_counter := 65534; ps_calper := 2; ps_caloff := 1; ps_calon := 0; ps_toggle := 1;
     ps_zero := 0; ps_channels := 2 |}.
Definition ex_clock : Z := 4744917124795858944.      (* 1700000000.5 *)
Definition ex_draws : list Z := [200; 2000; 201; 1999; 1000; 1001; 555; 777].
Definition ex_es : list Z := [1699999999; 1700000000; 1700000000; 1700000000].
Definition pk_of (r : presult) : list Z := match r with POk pk _ => pk | PErr _ _ => [] end.

Example C04_totalpower_packet_hyps_satisfiable :
  guard ex_st /\ 1 <= ps_sp ex_st <= 1000
  /\ packet_epochs (ps_sp ex_st) ex_clock (Z.to_nat (1000 / ps_sp ex_st)) = map Some ex_es
  /\ Forall epoch_ok ex_es /\ (Z.to_nat (1000 / ps_sp ex_st) * ps_channels ex_st <= length ex_draws)%nat
  /\ Forall (draw_ok (ps_sp ex_st)) ex_draws.
Proof.
  split; [constructor; cbn; unfold bitz; lia|]. split; [cbn; lia|]. split; [vm_compute; reflexivity|].
  split; [repeat constructor; unfold epoch_ok; lia|]. split; [vm_compute; lia|].
  repeat constructor; unfold draw_ok; cbn; lia.
Qed.

Example C04_totalpower_packet_example_counters :
  option_map (map r_counter) (decode_packet 2 4 (pk_of (build_packet ex_st ex_clock ex_draws)))
  = Some [65534; 65535; 0; 1].
Proof. vm_compute. reflexivity. Qed.

Example C04_totalpower_packet_example_marks :
  option_map (map (fun r => (sw_cal (r_status r), sw_toggle (r_status r), r_samples r)))
             (decode_packet 2 4 (pk_of (build_packet ex_st ex_clock ex_draws)))
  = Some [(false, true, [50000; 500000]); (true, true, [50250; 499750]);
          (false, true, [250000; 250250]); (false, true, [138750; 194250])].
Proof. vm_compute. reflexivity. Qed.

(* the refusal branches are reachable: 2^32 seconds (2106-02-07), and sample_period 0 *)
Example C04_totalpower_packet_example_refused_2106 :
  match build_packet ex_st 4751297606875873280 ex_draws with PErr EValueError _ => True | _ => False end.
Proof. vm_compute. exact I. Qed.
