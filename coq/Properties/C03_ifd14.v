(* C03, IFD_14_channels part — framer ('#' header, '\n' terminator, 12 characters at most) returns to
   idle after any input and never waits for ever.  Statements only. *)
From DS Require Import Base.Prelude Model.SmaCommon Model.SmaIfd14 Proofs.SmaFramer.
From DS Require Import Proofs.SmaIfd14Proofs.

Theorem C03_ifd14_resync_on_terminator : forall (s : i14_state) (bs : list Z) (t : Z),
  i14_is_tail t = true -> i14_idle (fst (i14_run s (bs ++ [t]))) = true.
Proof. exact (resync_on_terminator i14_fcfg i14_fcfg_max i14_tail_not_hdr i14_exec). Qed.
Print Assumptions C03_ifd14_resync_on_terminator.

Theorem C03_ifd14_resync_within_maxlen : forall (s : i14_state) (bs : list Z),
  i14_reachable s -> 12 <= Z.of_nat (length bs) ->
  exists p q, bs = p ++ q /\ p <> [] /\ i14_idle (fst (i14_run s p)) = true.
Proof.
  exact (fun s bs Hr => resync_within_maxlen i14_fcfg i14_fcfg_max i14_tail_not_hdr i14_exec s bs
                          (proj1 (i14_reachable_sinv s Hr))).
Qed.
Print Assumptions C03_ifd14_resync_within_maxlen.

Theorem C03_ifd14_overflow_resets : forall (s : i14_state) (b : Z),
  Z.of_nat (length (buf s)) = 11 -> i14_is_tail b = false ->
  i14_step s b = (Build_sstate [] (dev s), OValueError).
Proof. exact (overflow_resets i14_fcfg i14_fcfg_max i14_tail_not_hdr i14_exec). Qed.
Print Assumptions C03_ifd14_overflow_resets.

Theorem C03_ifd14_idle_discards : forall (s : i14_state) (b : Z),
  i14_idle s = true -> i14_is_hdr b = false -> i14_step s b = (s, OFalse).
Proof. exact (idle_discards i14_fcfg i14_fcfg_max i14_tail_not_hdr i14_exec). Qed.
Print Assumptions C03_ifd14_idle_discards.

Theorem C03_ifd14_fresh_after_idle : forall (s : i14_state) (bs : list Z),
  i14_idle s = true -> ftrace i14_fcfg s bs = ftrace i14_fcfg i14_init bs.
Proof.
  exact (fun s bs H => fresh_after_idle i14_fcfg i14_fcfg_max i14_tail_not_hdr i14_exec s i14_init bs H
                         eq_refl).
Qed.
Print Assumptions C03_ifd14_fresh_after_idle.

Theorem C03_ifd14_idle_is_initial_framing : forall (s : i14_state),
  i14_idle s = true -> s = Build_sstate [] (dev s).
Proof. exact (idle_state_is_fresh i14_fcfg i14_fcfg_max i14_tail_not_hdr i14_exec). Qed.
Print Assumptions C03_ifd14_idle_is_initial_framing.
