(* C04, solar attenuator part — every reply decodes under the independent decoder
   [solar_reply_wfb]: ';'-separated items, each ACK or a mode name followed by CR LF.  The protocol
   carries no request identity, so there is nothing to echo.  Statements only. *)
From DS Require Import Base.Prelude Model.SmbCommon Model.SmbSolar Proofs.SmbCommon Proofs.SmbSolar.

(* every reply emitted in any state reachable by any byte history, to any byte *)
Theorem C04_solar_reply_wf : forall s b s' r, lreach solar_exec solar_start s ->
  solar_step s b = (s', OReply r) -> solar_reply_wfb r = true /\ b = LF.
Proof. exact solar_step_reply_wf. Qed.
Print Assumptions C04_solar_reply_wf.

(* what decoding guarantees: single-byte code points and the CR LF terminator *)
Theorem C04_solar_wf_shape : forall r, solar_reply_wfb r = true ->
  bytes r /\ exists body, r = body ++ CRLF.
Proof. exact solar_reply_wf_shape. Qed.
Print Assumptions C04_solar_wf_shape.

Example C04_solar_ex : solar_reply_wfb (ACK ++ CRLF ++ [SEMI] ++ CALIBRATOR ++ CRLF) = true
  /\ solar_reply_wfb (ACK ++ [LF]) = false.
Proof. split; reflexivity. Qed.
