(* C04, dbesm part.  Statements only. *)
From DS Require Import Base.Prelude Model.SmcBase Model.SmcDbesm Proofs.SmcDbesmProofs.

(* every reply of every handler - ACK, NAK, ERR, multi-line answers - in every device state, for
   every oracle, with or without fixes/24, ends with \r\n *)
Theorem C04_dbesm_terminator : forall fx e d c d' r,
  exec fx e d c = (d', OReply r) -> ends_with crlf r = true.
Proof. exact db_reply_crlf. Qed.
Print Assumptions C04_dbesm_terminator.
(* PARTIAL: the charset statement (all code points < 256: replies embed request tokens, which are
   bytes, and renderings of stored values) is checked by the oracle on the implementation only. *)
