(* C04, dbesm part.  Statements only. *)
From DS Require Import Base.Prelude Model.SmcBase Model.SmcDbesm Proofs.SmcDbesmProofs Proofs.SmcDbesmBytes.

(* every reply of every handler - ACK, NAK, ERR, multi-line answers - in every device state, for
   every oracle, with or without fixes/24, ends with \r\n *)
Theorem C04_dbesm_terminator : forall fx e d c d' r,
  exec fx e d c = (d', OReply r) -> ends_with crlf r = true.
Proof. exact db_reply_crlf. Qed.
Print Assumptions C04_dbesm_terminator.
(* charset + terminator for every reachable state: starting from boards whose constant strings are
   bytes, after ANY history of bytes, every reply to every further byte is a string of code points
   0..255 (transmittable as single bytes) ending with \r\n.  Replies embed request tokens and stored
   tokens (SETAMP / MODE ...), hence the invariant on the device state. *)
Theorem C04_dbesm_charset : forall fx e bs0 modes s b r,
  Forall board_bytes bs0 -> reachable_b fx e bs0 modes s -> byte b ->
  snd (step fx e s b) = OReply r -> bs r /\ ends_with crlf r = true.
Proof. exact db_reply_charset. Qed.
Print Assumptions C04_dbesm_charset.
