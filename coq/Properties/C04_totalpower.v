(* C04, totalpower part - shape of every reply.  Statements only. *)
From DS Require Import Base.Prelude Model.SmcBase Model.SmcTotalpower Proofs.SmcTotalpowerProofs.

(* Every reply emitted from a reachable state - to accepted, refused and malformed requests alike,
   for every oracle (time, random data, int()) - is pure ASCII (so transmittable as single bytes)
   and ends with the line terminator; the one exception is the reply to V, which is the bare
   firmware string (the simulator's convention for this command, tested as such by the repo). *)
Theorem C04_totalpower_reply : forall e ch s b r,
  reachable e ch s -> snd (step e s b) = OReply r ->
  Forall ascii r /\ (r = firmware \/ ends_with [LF] r = true).
Proof. exact tp_reply_wellformed. Qed.
Print Assumptions C04_totalpower_reply.

(* what the protocol echoes: T and E replies begin with their two arguments; a refused A names the
   board it refused *)
Theorem C04_totalpower_T_echo : forall e d p0 p1, 0 <= p1 ->
  exists rest, snd (exec e d (KT [p0; p1])) = OReply (zstr p0 ++ $", " ++ zstr p1 ++ $", " ++ rest).
Proof. exact tp_T_echo. Qed.
Print Assumptions C04_totalpower_T_echo.

Theorem C04_totalpower_E_echo : forall e d p0 p1,
  exists rest, snd (exec e d (KE [p0; p1])) = OReply (zstr p0 ++ $", " ++ zstr p1 ++ $", " ++ rest).
Proof. exact tp_E_echo. Qed.
Print Assumptions C04_totalpower_E_echo.

Theorem C04_totalpower_A_echo : forall e d b s a f r,
  snd (exec e d (KA b s a f)) = OReply r -> r = ack \/ r = $"nak " ++ zstr b ++ [LF].
Proof. exact tp_A_refusal_echo. Qed.
Print Assumptions C04_totalpower_A_echo.
