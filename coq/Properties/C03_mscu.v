(* C03, mscu part - the header / closer-pair framer of simulators/mscu returns to idle.
   Statements only; proofs in Proofs/SmcMscuProofs.v.  From EVERY state, for every oracle, with or
   without fixes/22 ([fx]); histories are bytes interleaved with clock changes and setpos_NAK
   switches. *)
From DS Require Import Base.Prelude Model.SmcBase Model.SmcMscu Proofs.SmcMscuProofs.

(* after any history, once a closer pair (\r\n or \n\r) has arrived the framer is idle *)
Theorem C03_mscu_resync : forall fx e s evs a b,
  (a = CR /\ b = LF) \/ (a = LF /\ b = CR) ->
  idle (fst (run (step fx e) s (evs ++ [EByte a; EByte b]))) = true.
Proof. exact ms_resync. Qed.
Print Assumptions C03_mscu_resync.

(* idle discards every byte that is not one of the headers # ! ? @ : parse returns False and
   nothing changes *)
Theorem C03_mscu_idle_discards : forall fx e s b,
  idle s = true -> is_header b = false -> step_byte fx e s b = (s, OFalse).
Proof. exact ms_idle_discards. Qed.
Print Assumptions C03_mscu_idle_discards.

(* a header always starts a new frame: a truncated frame never swallows the next command *)
Theorem C03_mscu_header_restarts : forall fx e s b,
  is_header b = true -> step_byte fx e s b = ({| msg := [b]; dv := dv s |}, OTrue).
Proof. exact ms_header_restarts. Qed.
Print Assumptions C03_mscu_header_restarts.

Theorem C03_mscu_fresh : forall s, idle s = true -> s = {| msg := msg (init 0); dv := dv s |}.
Proof. exact ms_fresh. Qed.
Print Assumptions C03_mscu_fresh.

Example C03_mscu_nontrivial :
  let e := {| py_int := fun _ => CvErr; py_int16 := fun _ => CvErr; py_float := fun _ => CvErr;
              py_repr := fun _ => None |} in
  idle (fst (run (step true e) (init 5) (map EByte $"#getpos:0"))) = false /\
  idle (fst (run (step true e) (init 5) (map EByte ($"#getpos:0" ++ [LF; CR])))) = true.
Proof. vm_compute. split; reflexivity. Qed.
