(* C04, gaia part — every reply produced in any reachable state is  '#' body ' ' id '\n'  where id is
   the id token of the CURRENT request (the last token of the line) whenever the command word is
   recognised — for accepted requests and for every refusal 1002..1015 alike.  Only when nothing is
   recognisable (no token: 1000, unknown command: 1001) the simulator echoes the id of the previous
   request (its own convention, kept by the model). *)
From DS Require Import Base.Prelude Model.SmaCommon Model.SmaGaia Proofs.SmaFramer.
From DS Require Import Proofs.SmaGaiaProofs.

Theorem C04_gaia_replies_framed : forall temp (s : gaia_state) (b : Z) (r : list Z),
  gaia_reachable temp s -> snd (gaia_step temp s b) = OReply r ->
  exists m body, gaia_executed s b = Some m /\
    r = gaia_frame body (cmd_id (dev (fst (gaia_step temp s b)))) /\
    match gaia_decode (gaia_tokens m) with
    | DEmpty | DUnknown => cmd_id (dev (fst (gaia_step temp s b))) = cmd_id (dev s)
    | DErr _ _ | DOk _ _ _ => cmd_id (dev (fst (gaia_step temp s b))) = last (gaia_tokens m) []
    end.
Proof. exact gaia_replies_framed. Qed.
Print Assumptions C04_gaia_replies_framed.

(* the tokens of a request line built from tokens are those tokens: the echoed id is literally the
   last token the client sent *)
Theorem C04_gaia_tokens_of_request : forall t0 rest,
  Forall tok_ok (t0 :: rest) -> hd 0 t0 <> 35 -> gaia_tokens (gline (t0 :: rest)) = t0 :: rest.
Proof. exact gaia_tokens_gline. Qed.
Print Assumptions C04_gaia_tokens_of_request.
