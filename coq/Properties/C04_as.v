(* C04, part active surface — every reply of the line decodes under the independent USD reply
   decoder (Spec/AslReplySpec.v) and names the request it answers.  Statements only (proofs:
   Proofs/AslReplyProofs.v).  Model: Model/AslLine.v.

   The USD objects are opaque; what the line needs from them is stated as hypotheses on the
   semantics [sem] relative to an invariant [Inv] of the units (to be discharged by C12/C13):
     usd_ok sem Inv   := in every state satisfying Inv the getters return values that fit their
                         reply field ([ret_ok]: version sum + 15 a byte, position a signed
                         32-bit value, status three bytes, driver type a signed byte)
     inv_kept sem Inv := every method call preserves Inv
     good_reply s i r := exists d, usd_decode r = Some d /\ echoes s i d /\ bytes r
     line_ok Inv l    := framing state reachable-shaped, buffered bytes are bytes, units in Inv *)
From DS Require Import Base.Prelude Base.Bits Model.Utils Model.AslLine Spec.AslReplySpec.
From DS Require Import Proofs.AslFrameProofs Proofs.AslLineProofs Proofs.AslReplyProofs.

(* message level: a reply is only ever caused by a unicast request; it decodes, all its elements
   are bytes, it carries the request's start byte and, for 0xFC requests, the request's address *)
Theorem C04_as : forall U (sem : U -> ucall -> U * uret) (delay : U -> Z) (Inv : U -> Prop)
    min drv q drv' r,
  usd_ok sem Inv -> Forall Inv drv -> hdr_ok q ->
  exec sem delay true true min drv q = (drv', OReply r) ->
  match q with
  | QBcast _ _ _ => False
  | QUni start idx _ _ => good_reply start idx r
  end.
Proof. exact @exec_reply_good. Qed.
Print Assumptions C04_as.

(* byte level: the reply returned by parse for the last byte of a frame echoes the first byte
   of that frame and the address in its second byte *)
Theorem C04_as_step : forall U (sem : U -> ucall -> U * uret) (delay : U -> Z) (Inv : U -> Prop)
    l b l' r,
  usd_ok sem Inv -> line_ok Inv l -> byte b -> lstep sem delay l b = (l', OReply r) ->
  exists start h t, f_msg (l_f l) ++ [b] = start :: h :: t /\ good_reply start (h mod 32) r.
Proof. exact @lstep_reply_good. Qed.
Print Assumptions C04_as_step.

(* any byte history from any good line state: every reply ever emitted decodes and is
   transmittable as single bytes *)
Theorem C04_as_history : forall U (sem : U -> ucall -> U * uret) (delay : U -> Z) (Inv : U -> Prop)
    bs l,
  usd_ok sem Inv -> inv_kept sem Inv -> line_ok Inv l -> Forall byte bs ->
  Forall decodes (snd (lrun sem delay l bs)).
Proof. exact @lrun_replies_good. Qed.
Print Assumptions C04_as_history.

Theorem C04_as_init : forall U (Inv : U -> Prop) min drv,
  Forall Inv drv -> line_ok Inv (mkL min drv finit).
Proof. exact @line_ok_init. Qed.
Print Assumptions C04_as_init.

(* the data replies, spelled out: what the decoder returns for a reply assembled by a handler *)
Theorem C04_as_data : forall start idx k payload,
  is_header start = true -> 0 <= idx <= 31 -> In k [1; 3; 4] -> bytes payload ->
  Z.of_nat (length payload) = k ->
  usd_decode (close (reply_head start idx k ++ payload)) = Some (data_of start idx payload).
Proof. exact decode_data. Qed.
Print Assumptions C04_as_data.

(* non-vacuity: the replies of the repository's tests decode; a corrupted one does not *)
Example C04_as_ex1 : usd_decode [6; 252; 128; 0; 0; 0; 0; 125] = Some (DData 252 (Some 0) [0; 0; 0; 0]).
Proof. vm_compute. reflexivity. Qed.
Example C04_as_ex2 : usd_decode [6; 250; 0; 24; 24; 207] = Some (DData 250 None [0; 24; 24]).
Proof. vm_compute. reflexivity. Qed.
Example C04_as_ex3 : usd_decode [6; 252; 96; 0; 0; 0; 0; 157] = None.   (* nibble 3, 4 bytes *)
Proof. vm_compute. reflexivity. Qed.
(* the hypotheses on the units are satisfiable (a constant toy USD whose position stays in the
   actuator range), so the theorems above are not vacuous *)
Example C04_as_ex_hypotheses : usd_ok toy_sem toy_inv /\ inv_kept toy_sem toy_inv /\
  getters_pure toy_sem [0; 5; -7].
Proof. exact toy_usd_ok. Qed.
