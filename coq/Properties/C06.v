(* C06 — simulator instances share no device state.
   Statements only; the proofs are in Proofs/ShrHeapProofs.v (generic, by induction over event
   sequences for any number of instances) and Proofs/ShrTable.v (the decidable side condition on
   the table generated from the current source tree, by vm_compute).

   Reading guide.  [checked_table] is the sharing table of every class under simulators/ except
   the classes of the known findings.  [reachable T h0 h]: h is obtained from an import-time heap
   h0 by any sequence of events the table permits (constructions in any region, operations of
   any method through any live instance).  [all_ok T rB h evs]: every event of evs is permitted and
   none of them runs in region rB (the device of the observer B).  [view T h B a]: what B sees when
   it reads attribute a (instance store, else class namespace; deep content of the object found).

   Full statement, for the whole generated table (holds once the classes in [known_exceptions]
   are repaired; until then it is refuted for them, see C06_F20_shape_refuted):
     forall h0 h rB evs B kB, wf0 h0 -> reachable ShrSharing.gen_table h0 h -> imeta h B = Some (kB, rB) ->
       all_ok ShrSharing.gen_table rB h evs -> (forall a, view _ (run _ h evs) B a = view _ h B a) /\ ... *)
From DS Require Import Base.Prelude Model.ShrHeap Proofs.ShrHeapProofs Proofs.ShrTable.
From Coq Require Import String.

(* No history of events on other devices changes anything an instance can observe (its own
   attributes, with fallback to the class; deep contents), nor any shared object or name. *)
Theorem C06_noninterference_except :
  forall h0 h rB evs B kB,
  wf0 h0 -> reachable checked_table h0 h -> imeta h B = Some (kB, rB) -> all_ok checked_table rB h evs ->
  (forall a, view checked_table (run checked_table h evs) B a = view checked_table h B a) /\
  (forall key, sview (run checked_table h evs) key = sview h key) /\
  (forall key, sstore (run checked_table h evs) key = sstore h key) /\
  imeta (run checked_table h evs) B = Some (kB, rB).
Proof. exact (noninterference_ok checked_table table_ok). Qed.
Print Assumptions C06_noninterference_except.

(* Stronger, and the form that covers interleavings: events of other devices leave the *whole*
   portion of the heap of region rB untouched (its objects, its allocation counter, its set of
   instances and their stores) and the whole shared portion (record [same_on]); so the instances of
   rB continue on exactly the data they would have had without the others. *)
Theorem C06_foreign_events_frame_except :
  forall h0 h rB evs, wf0 h0 -> reachable checked_table h0 h -> all_ok checked_table rB h evs ->
  same_on rB h (run checked_table h evs).
Proof. exact (foreign_frame_ok checked_table table_ok). Qed.
Print Assumptions C06_foreign_events_frame_except.

(* The shared store (class attributes, module-level names, default arguments) is never changed by
   any activity of any number of instances. *)
Theorem C06_shared_store_frozen_except :
  forall h0 h, wf0 h0 -> reachable checked_table h0 h ->
  (forall key, sstore h key = sstore h0 key) /\ (forall key, sview h key = sview h0 key).
Proof. exact (shared_store_frozen_ok checked_table table_ok). Qed.
Print Assumptions C06_shared_store_frozen_except.

(* An instance constructed after arbitrary activity of other devices starts exactly like the very
   first instance constructed from the import-time heap (same success/failure of __init__, same
   view on every attribute). *)
Theorem C06_fresh_equals_first_except :
  forall h0 r evs k script,
  wf0 h0 -> fresh_region h0 r -> all_ok checked_table r h0 evs ->
  allowedb checked_table (run checked_table h0 evs) (ENew k r script) = true ->
  let h := run checked_table h0 evs in
  let late := step checked_table h (ENew k r script) in
  let first := step checked_table h0 (ENew k r script) in
  (imeta late (icount h) = Some (k, r) <-> imeta first (icount h0) = Some (k, r)) /\
  (forall a, view checked_table late (icount h) a = view checked_table first (icount h0) a).
Proof. exact (fresh_equals_first_ok checked_table table_ok). Qed.
Print Assumptions C06_fresh_equals_first_except.

(* the hypotheses are satisfiable: the import-time heap built from the table *)
Theorem C06_boot_wf : wf0 (boot checked_table).
Proof. exact (boot_wf0 checked_table). Qed.
Print Assumptions C06_boot_wf.

Theorem C06_boot_regions_fresh : forall r, r <> 0%nat -> fresh_region (boot checked_table) r.
Proof. exact (boot_fresh checked_table). Qed.
Print Assumptions C06_boot_regions_fresh.

(* every scanned class is covered by the theorems above or is a listed exception *)
Theorem C06_table_complete :
  forallb (fun ci => mem (c_name ci) known_exceptions || mem (c_name ci) (map c_name checked_table))
          Gen.ShrSharing.gen_table = true.
Proof. exact table_complete. Qed.
Print Assumptions C06_table_complete.

(* the side condition is not vacuous: the shapes of the two findings of the pinned tree violate
   it, and in the model they do interfere (witnesses by computation) *)
Theorem C06_F21_shape_refuted :
  exists evsA : list event,
    let h := run ex_f21 (boot ex_f21) [ENew "dbesm.System" 1%nat ex_f21_init; ENew "dbesm.System" 2%nat ex_f21_init] in
    all_allowedb ex_f21 (boot ex_f21)
      ([ENew "dbesm.System" 1%nat ex_f21_init; ENew "dbesm.System" 2%nat ex_f21_init] ++ evsA) = true /\
    Forall (fun e => ev_region h e = Some 1%nat) evsA /\
    view ex_f21 (run ex_f21 h evsA) 1%nat "obs_mode" <> view ex_f21 h 1%nat "obs_mode" /\
    view ex_f21 (step ex_f21 (run ex_f21 h evsA) (ENew "dbesm.System" 3%nat ex_f21_init)) 2%nat "obs_mode"
      <> view ex_f21 (step ex_f21 (boot ex_f21) (ENew "dbesm.System" 3%nat ex_f21_init)) 0%nat "obs_mode".
Proof. exact f21_refuted. Qed.
Print Assumptions C06_F21_shape_refuted.

Theorem C06_F20_shape_refuted :
  let boot2 := run ex_f20 (boot ex_f20)
                 [ENew "minor_servos.System" 1%nat ex_f20_init; ENew "minor_servos.System" 2%nat ex_f20_init] in
  let evsA := [EOp 0%nat (OMutate "configurations" 50)] in
  all_allowedb ex_f20 (boot ex_f20)
    ([ENew "minor_servos.System" 1%nat ex_f20_init; ENew "minor_servos.System" 2%nat ex_f20_init] ++ evsA) = true /\
  view ex_f20 (run ex_f20 boot2 evsA) 1%nat "configurations" <> view ex_f20 boot2 1%nat "configurations" /\
  view ex_f20 (step ex_f20 (run ex_f20 boot2 evsA) (ENew "minor_servos.System" 3%nat ex_f20_init)) 0%nat "configurations"
    <> view ex_f20 (run ex_f20 boot2 evsA) 0%nat "configurations".
Proof. exact f20_refuted. Qed.
Print Assumptions C06_F20_shape_refuted.
