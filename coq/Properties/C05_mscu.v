(* C05, mscu part (positions: setpos / getpos).  Statements only. *)
From DS Require Import Base.Prelude Model.SmcBase Model.SmcMscu Proofs.SmcMscuProofs Proofs.SmcMscuInv.

(* a refused setpos (NAK switch, wrong parameter count) stores nothing, in every state *)
Theorem C05_mscu_refused : forall fx e d a s num ps,
  nak d = true \/ length ps <> (axes_of a + 3)%nat ->
  fst (exec_servo fx e d a s $"setpos" num ps) = d /\
  exists r, snd (exec_servo fx e d a s $"setpos" num ps) = OReply r /\ starts_with ([33] ++ $"NAK_setpos:") r = true.
Proof. exact ms_setpos_refused. Qed.
Print Assumptions C05_mscu_refused.

Theorem C05_mscu_malformed : forall fx e d, exec fx e d KBad = (d, OValueError).
Proof. exact ms_bad_unchanged. Qed.

(* the newest entry not dated later than now is read back exactly as written (ints stay ints) *)
Theorem C05_mscu_newest_readback : forall h x t, fst x <= t -> positions (h ++ [x]) t = Some (snd x).
Proof. exact ms_positions_newest. Qed.
Print Assumptions C05_mscu_newest_readback.

Theorem C05_mscu_readback_example :
  last (snd (run (step true e_rb) (init 1000)
        (map EByte ($"#setpos:0=2,0,0,0,1.5" ++ [CR; LF]) ++ [ETick 2000] ++
         map EByte ($"#getstatus:17=2" ++ [CR; LF] ++ $"#getpos:0=2" ++ [CR; LF])))) OFalse
  = OReply ($"?getpos:0=2> 2000,1.5" ++ crlf).
Proof. exact ms_setpos_readback_example. Qed.
(* History.insert with the stamp "now" on a history without later entries (below the 2^15 window):
   the new entry is the newest one and History.get returns it unchanged at any later time *)
Theorem C05_mscu_insert_now_readback : forall h nw pos t,
  Z.of_nat (length h) < hist_cap -> Forall (fun y => fst y <= nw) h -> nw <= t ->
  positions (h_insert h nw pos) t = Some pos.
Proof. exact ms_insert_now_readback. Qed.
Print Assumptions C05_mscu_insert_now_readback.

(* frame: a command addressed to another servo, or one that is not setpos / stow / clean, leaves the
   history of servo a untouched, whatever its outcome *)
Theorem C05_mscu_hist_frame : forall fx e d a c,
  touches a c = false -> hist_of a (fst (exec fx e d c)) = hist_of a d.
Proof. exact ms_hist_frame. Qed.
Print Assumptions C05_mscu_hist_frame.

(* ... until the next write: setpos stamped now, then ANY commands that are not setpos/stow/clean of
   that servo (queries, other servos, setup, disable, refused and malformed requests), clock at any
   t >= now: getpos reads exactly the written values *)
Theorem C05_mscu_setpos_now_until : forall fx e d a s pos cs t,
  nth_opt a (servos d) = Some s -> Z.of_nat (length (hist s)) < hist_cap ->
  Forall (fun y => fst y <= now d) (hist s) -> now d <= t ->
  Forall (fun c => touches a c = false) cs ->
  let d1 := upd_servo a (set_hist (h_insert (hist s) (now d) pos)) d in
  exists h, hist_of a (exec_all fx e d1 cs) = Some h /\ positions h t = Some pos.
Proof. exact ms_setpos_now_until. Qed.
Print Assumptions C05_mscu_setpos_now_until.
(* With entries dated in the future the read-back is the interpolation towards them, by design. *)
