(* C05, mscu part (positions: setpos / getpos).  Statements only. *)
From DS Require Import Base.Prelude Model.SmcBase Model.SmcMscu Proofs.SmcMscuProofs.

(* a refused setpos (NAK switch, wrong parameter count) stores nothing, in every state *)
Theorem C05_mscu_refused : forall fx e d a s num ps,
  nak d = true \/ length ps <> (axes_of a + 3)%nat ->
  fst (exec_servo fx e d a s $"setpos" num ps) = d /\
  exists r, snd (exec_servo fx e d a s $"setpos" num ps) = OReply r /\ starts_with ([33] ++ $"NAK_setpos:") r = true.
Proof. exact ms_setpos_refused. Qed.
Print Assumptions C05_mscu_refused.

Theorem C05_mscu_malformed : forall fx e d, exec fx e d KBad = (d, OValueError).
Proof. exact ms_bad_unchanged. Qed.

(* the newest entry not dated later than now is read back exactly as written (ints stay ints) *)
Theorem C05_mscu_newest_readback : forall h x t, fst x <= t -> positions (h ++ [x]) t = Some (snd x).
Proof. exact ms_positions_newest. Qed.
Print Assumptions C05_mscu_newest_readback.

Theorem C05_mscu_readback_example :
  last (snd (run (step true e_rb) (init 1000)
        (map EByte ($"#setpos:0=2,0,0,0,1.5" ++ [CR; LF]) ++ [ETick 2000] ++
         map EByte ($"#getstatus:17=2" ++ [CR; LF] ++ $"#getpos:0=2" ++ [CR; LF])))) OFalse
  = OReply ($"?getpos:0=2> 2000,1.5" ++ crlf).
Proof. exact ms_setpos_readback_example. Qed.
(* PARTIAL: that h_insert puts an entry stamped now at the end of a history without later entries
   (sortedness argument) is validated by correspondence, not proved. *)
