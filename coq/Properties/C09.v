(* C09 — Byte/bit/number codecs in utils are exact inverses and never wrap silently.
   Statements only; every proof is `exact` of a lemma in Proofs/UtilsProofs.v. *)
From DS Require Import Base.Prelude Base.Bits Model.Utils Model.UtilsFloat Proofs.UtilsProofs.
From Flocq Require Import IEEE754.Binary IEEE754.Bits.

(* The checksum of a message is the one's complement of its byte sum modulo 256 — for every
   message (every length, every code point >= 0). *)
Theorem C09_checksum : forall msg, Forall (fun b => 0 <= b) msg ->
  checksum msg = 255 - (zsum msg) mod 256.
Proof. exact checksum_spec. Qed.
Print Assumptions C09_checksum.

Theorem C09_checksum_is_byte : forall msg, Forall (fun b => 0 <= b) msg -> byte (checksum msg).
Proof. exact checksum_byte. Qed.
Print Assumptions C09_checksum_is_byte.

(* signed integers, every width n >= 1, both endiannesses *)
Theorem C09_int_decode_encode : forall v n le l, (0 < n)%nat ->
  int_to_bytes v n le = Some l -> bytes_to_int l le = v /\ length l = n /\ bytes l.
Proof. exact int_bytes_roundtrip. Qed.
Print Assumptions C09_int_decode_encode.

Theorem C09_int_encode_decode : forall l le, bytes l -> l <> [] ->
  int_to_bytes (bytes_to_int l le) (length l) le = Some l.
Proof. exact bytes_int_roundtrip. Qed.
Print Assumptions C09_int_encode_decode.

Theorem C09_int_out_of_range_refused : forall v n le, (0 < n)%nat ->
  (v < - 2 ^ (8 * Z.of_nat n - 1) \/ 2 ^ (8 * Z.of_nat n - 1) <= v) -> int_to_bytes v n le = None.
Proof. exact int_out_of_range_refused. Qed.
Print Assumptions C09_int_out_of_range_refused.

(* unsigned integers *)
Theorem C09_uint_decode_encode : forall v n le l, (0 < n)%nat ->
  uint_to_bytes v n le = Some l -> bytes_to_uint l le = Some v /\ length l = n /\ bytes l.
Proof. exact uint_bytes_roundtrip. Qed.
Print Assumptions C09_uint_decode_encode.

Theorem C09_uint_out_of_range_refused : forall v n le,
  (v < 0 \/ 2 ^ Z.of_nat (8 * n) <= v) -> uint_to_bytes v n le = None.
Proof. exact uint_out_of_range_refused. Qed.
Print Assumptions C09_uint_out_of_range_refused.

(* bit strings <-> bytes *)
Theorem C09_bytes_binary : forall l le, bytes l -> binary_to_bytes (bytes_to_binary l le) le = l.
Proof. exact bytes_binary_roundtrip. Qed.
Print Assumptions C09_bytes_binary.

Theorem C09_binary_bytes : forall s le k, length s = (8 * k)%nat ->
  bytes_to_binary (binary_to_bytes s le) le = s.
Proof. exact binary_bytes_roundtrip. Qed.
Print Assumptions C09_binary_bytes.

(* two's complement strings, every width 8n, n >= 1 *)
Theorem C09_twos_decode_encode : forall v n s, (0 < n)%nat ->
  int_to_twos v n = Some s -> twos_to_int s = Some v /\ length s = (8 * n)%nat.
Proof. exact twos_roundtrip. Qed.
Print Assumptions C09_twos_decode_encode.

Theorem C09_twos_encode_decode : forall s n, (0 < n)%nat -> length s = (8 * n)%nat ->
  exists v, twos_to_int s = Some v /\ int_to_twos v n = Some s.
Proof. exact twos_roundtrip'. Qed.
Print Assumptions C09_twos_encode_decode.

Theorem C09_twos_out_of_range_refused : forall v n,
  (v < - 2 ^ (Z.of_nat (8 * n) - 1) \/ 2 ^ (Z.of_nat (8 * n) - 1) <= v) -> int_to_twos v n = None.
Proof. exact twos_out_of_range_refused. Qed.
Print Assumptions C09_twos_out_of_range_refused.

(* IEEE-754 doubles: every binary64 including NaN payloads and infinities; every 8-byte string *)
Theorem C09_real64_decode_encode : forall (x : binary64) le,
  bytes_to_real64 (real_to_bytes64 x le) le = Some x.
Proof. exact real64_roundtrip. Qed.
Print Assumptions C09_real64_decode_encode.

Theorem C09_real64_encode_decode : forall l le x, bytes l ->
  bytes_to_real64 l le = Some x -> real_to_bytes64 x le = l.
Proof. exact real64_bytes_roundtrip. Qed.
Print Assumptions C09_real64_encode_decode.

(* non-vacuity: concrete values meeting the hypotheses *)
Example C09_ex_int : int_to_bytes (-2) 2 true = Some [254; 255] /\ bytes_to_int [254; 255] true = -2.
Proof. split; reflexivity. Qed.
Example C09_ex_uint : uint_to_bytes 657 4 false = Some [0; 0; 2; 145].
Proof. reflexivity. Qed.
Example C09_ex_twos : int_to_twos (-1625) 2 = Some (zfill 16 (bin 63911)) /\ twos_to_int (zfill 16 (bin 63911)) = Some (-1625).
Proof. split; reflexivity. Qed.
Example C09_ex_checksum : checksum [102; 111; 111; 111] = 76.
Proof. reflexivity. Qed.

(* IEEE-754 singles (struct's C casts, modelled on bit patterns): every 32-bit pattern that is not a
   signalling NaN survives decode-then-encode; signalling NaNs do not (recorded finding
   real32_snan_quieted); finite doubles at or above 2^128 are refused. *)
From DS Require Import Model.UtilsF32 Proofs.UtilsF32Proofs.

Theorem C09_real32_encode_decode_except_snan : forall p, 0 <= p < 2 ^ 32 -> is_snan32 p = false ->
  narrow64 (widen32 p) = Some p.
Proof. exact real32_roundtrip. Qed.
Print Assumptions C09_real32_encode_decode_except_snan.

Theorem C09_real32_bytes_except_snan : forall l le x, bytes l ->
  bytes_to_real32 l le = Some x ->
  is_snan32 (be_dec (if le then rev l else l)) = false ->
  real_to_bytes32 x le = Some l.
Proof. exact real32_bytes_roundtrip. Qed.
Print Assumptions C09_real32_bytes_except_snan.

Theorem C09_real32_snan_refuted : exists p, 0 <= p < 2 ^ 32 /\ narrow64 (widen32 p) <> Some p.
Proof. exact real32_snan_refuted. Qed.
Print Assumptions C09_real32_snan_refuted.

Theorem C09_real32_overflow_refused : forall s e m, 0 <= s <= 1 -> 1151 <= e < 2047 -> 0 <= m < 2 ^ 52 ->
  narrow64 (s * 2 ^ 63 + e * 2 ^ 52 + m) = None.
Proof. exact real32_overflow_refused. Qed.
Print Assumptions C09_real32_overflow_refused.

(* Modified Julian Date, calendar part: every day of 1900-01-01 .. 2199-12-31 round-trips exactly
   (at midnight) through mjd() and mjd_to_date(), computed with the kernel's primitive binary64
   arithmetic.  The sub-day (microsecond) part is covered by the implementation-level oracle only. *)
From Coq Require Import PrimFloat.
From DS Require Import Model.UtilsMjd Proofs.UtilsMjdProofs.

Theorem C09_mjd_day_roundtrip_partial : forall y m d, 1900 <= y < 2200 -> valid_date (y, m, d) = true ->
  civil_of (mjd_day y m d) 0%float = (y, m, d, 0, 0, 0, 0).
Proof. exact mjd_day_roundtrip. Qed.
Print Assumptions C09_mjd_day_roundtrip_partial.

(* Sub-day part over the reals, under the four named facts about binary64 rounding and repr/float
   (premises, not axioms): the recovered microsecond count is within 1 of the original. *)
From Coq Require Import Reals.
From DS Require Import Proofs.UtilsMjdReal.

Theorem C09_mjd_microsecond_bound_partial :
  forall (D us micro : Z) (mjdv S x : R),
  Rabs (mjdv - (IZR D + IZR us / day_us)) <= half_ulp + / 2 ^ 50 ->
  Rabs (S - mjdv) <= half_ulp ->
  Rabs (x - (S - IZR D) * day_us) <= / 1000 ->
  Rabs (IZR micro - x) <= / 2 ->
  (Z.abs (micro - us) <= 1)%Z.
Proof. exact mjd_us_within_one. Qed.
Print Assumptions C09_mjd_microsecond_bound_partial.

(* ------------------------------------------------------------------------------------------
   Second batch: the str-based variants, the unsigned inverse, and the agreement between the
   signed / unsigned / two's-complement / bit-string readings of the same bytes. *)
From DS Require Import Model.UtilsStr Proofs.UtilsStrProofs.
Open Scope Z_scope.

(* the str-based decoders agree with the bytes-based ones on every latin-1 string (any length) *)
Theorem C09_str_variants_agree : forall s le, bytes s ->
  string_to_int s le = Some (bytes_to_int s le) /\
  string_to_uint s le = bytes_to_uint s le /\
  string_to_binary s le = Some (bytes_to_binary s le).
Proof. exact str_variants_agree. Qed.
Print Assumptions C09_str_variants_agree.

(* ... and a string with a code point outside 0..255 is refused, never truncated *)
Theorem C09_str_variants_refuse_wide : forall s le, ~ bytes s ->
  string_to_int s le = None /\ string_to_uint s le = None /\ string_to_binary s le = None.
Proof. exact str_variants_refuse_wide. Qed.
Print Assumptions C09_str_variants_refuse_wide.

(* the str-based encoders return the bytes-based result, byte for byte (refusals included) *)
Theorem C09_to_string_variants_agree : forall v n le s,
  int_to_string v n le = int_to_bytes v n le /\
  uint_to_string v n le = uint_to_bytes v n le /\
  binary_to_string s le = binary_to_bytes s le.
Proof. exact to_string_variants_agree. Qed.
Print Assumptions C09_to_string_variants_agree.

Theorem C09_int_string_roundtrip : forall v n le s, (0 < n)%nat ->
  int_to_string v n le = Some s -> string_to_int s le = Some v.
Proof. exact int_string_roundtrip. Qed.
Print Assumptions C09_int_string_roundtrip.

Theorem C09_uint_string_roundtrip : forall v n le s, (0 < n)%nat ->
  uint_to_string v n le = Some s -> string_to_uint s le = Some v.
Proof. exact uint_string_roundtrip. Qed.
Print Assumptions C09_uint_string_roundtrip.

(* unsigned integers: encode(decode(b)) = b, every width, both endiannesses *)
Theorem C09_uint_encode_decode : forall l le v, bytes l -> l <> [] ->
  bytes_to_uint l le = Some v -> uint_to_bytes v (length l) le = Some l.
Proof. exact bytes_uint_roundtrip. Qed.
Print Assumptions C09_uint_encode_decode.

(* the bit string of a byte string denotes its base-256 value; bytes_to_uint is the unsigned
   reading and bytes_to_int its two's-complement reinterpretation on 8*len bits *)
Theorem C09_binary_value : forall l le, bytes l ->
  int2 (bytes_to_binary l le) = if le then Base.Bits.le_dec l else Base.Bits.be_dec l.
Proof. exact int2_bytes_to_binary. Qed.
Print Assumptions C09_binary_value.

Theorem C09_int_uint_agree : forall l le u, bytes l -> l <> [] -> bytes_to_uint l le = Some u ->
  bytes_to_int l le = to_signed (8 * Z.of_nat (length l)) u /\ 0 <= u < 2 ^ (8 * Z.of_nat (length l)).
Proof. exact int_uint_agree. Qed.
Print Assumptions C09_int_uint_agree.

(* the two's complement string of v cut into bytes is exactly int_to_bytes v *)
Theorem C09_twos_bytes_agree : forall v n le s, (0 < n)%nat ->
  int_to_twos v n = Some s -> int_to_bytes v n le = Some (binary_to_bytes s le).
Proof. exact twos_bytes_agree. Qed.
Print Assumptions C09_twos_bytes_agree.

(* time of day: the microsecond count is in range and determines the four fields; the
   millisecond count is the nearest integer to us/1000 and CAN reach 86400000 (23:59:59.9995) *)
Theorem C09_day_microseconds_range : forall h mi s us, time_ok h mi s us ->
  0 <= day_microseconds h mi s us < 86400000000.
Proof. exact day_microseconds_range. Qed.
Print Assumptions C09_day_microseconds_range.

Theorem C09_day_microseconds_injective : forall h mi s us h' mi' s' us',
  time_ok h mi s us -> time_ok h' mi' s' us' ->
  day_microseconds h mi s us = day_microseconds h' mi' s' us' ->
  h = h' /\ mi = mi' /\ s = s' /\ us = us'.
Proof. exact day_microseconds_inj. Qed.
Print Assumptions C09_day_microseconds_injective.

Theorem C09_day_milliseconds_nearest : forall h mi s us, time_ok h mi s us ->
  let m := day_milliseconds h mi s us in
  Z.abs (1000 * m - day_microseconds h mi s us) <= 500 /\ 0 <= m <= 86400000.
Proof. exact day_milliseconds_nearest. Qed.
Print Assumptions C09_day_milliseconds_nearest.

(* binary_complement: the default mask inverts every bit; applying it twice is the identity; the length
   is kept for every mask; the value is the one's complement on len(s) bits *)
Theorem C09_binary_complement_default : forall s, binary_complement s [] = map negb s.
Proof. exact binary_complement_default. Qed.
Print Assumptions C09_binary_complement_default.

Theorem C09_binary_complement_involutive : forall s, binary_complement (binary_complement s []) [] = s.
Proof. exact binary_complement_involutive. Qed.
Print Assumptions C09_binary_complement_involutive.

Theorem C09_binary_complement_length : forall s mask, length (binary_complement s mask) = length s.
Proof. exact binary_complement_length. Qed.
Print Assumptions C09_binary_complement_length.

Theorem C09_binary_complement_value : forall s,
  int2 (binary_complement s []) = 2 ^ Z.of_nat (length s) - 1 - int2 s.
Proof. exact binary_complement_value. Qed.
Print Assumptions C09_binary_complement_value.

Example C09_ex_str : string_to_int [254; 255] true = Some (-2) /\ string_to_int [254; 256] true = None
  /\ uint_to_string 657 4 false = Some [0; 0; 2; 145] /\ time_ok 23 59 59 999500.
Proof. repeat split; unfold time_ok; lia. Qed.
