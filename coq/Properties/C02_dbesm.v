(* C02, dbesm part.  Statements only; proofs in Proofs/SmcDbesmProofs.v.
   Query catalogue proved here: GETSTATUS / GETCOMP / GETFIRM / ReadDIAG BOARD n (n = 1..4), GETCFG,
   ReadALLDIAG, GETDBEATT / GETDBEAMP / GETDBEEQ / GETDBEBPF <any output name>. *)
From DS Require Import Base.Prelude Model.SmcBase Model.SmcDbesm Proofs.SmcDbesmProofs Proofs.SmcDbesmMore.

(* from every idle state a complete line is answered by exactly the handler's outcome (C03 part);
   so the statements below are about the handlers, for EVERY device state with four boards - any
   status, any registers - and every oracle in which the board token reads as n in 1..4 *)
Theorem C02_dbesm_line : forall fx e s line,
  idle s = true -> Forall (fun b => b <> LF) line ->
  snd (run (step fx e) s (line ++ [LF])) =
  repeat OTrue (length line) ++ [snd (exec fx e (dv s) (decode (drop_last line)))].
Proof. intros. rewrite db_run_line by assumption. reflexivity. Qed.
Print Assumptions C02_dbesm_line.

Theorem C02_dbesm_getstatus : forall e d tok n,
  length (boards d) = 4%nat -> py_int e tok = CvOk n -> 1 <= n <= 4 ->
  exists r, h_get_status e d [$"BOARD"; tok] = (d, OReply r).
Proof. exact db_getstatus_answered. Qed.
Print Assumptions C02_dbesm_getstatus.

Theorem C02_dbesm_getcomp : forall e d tok n,
  length (boards d) = 4%nat -> py_int e tok = CvOk n -> 1 <= n <= 4 ->
  exists r, h_get_comp e d [$"BOARD"; tok] = (d, OReply r).
Proof. exact db_getcomp_answered. Qed.
Print Assumptions C02_dbesm_getcomp.

Theorem C02_dbesm_getfirm : forall e d tok n,
  length (boards d) = 4%nat -> py_int e tok = CvOk n -> 1 <= n <= 4 ->
  exists r, h_get_firm e d [$"BOARD"; tok] = (d, OReply r).
Proof. exact db_getfirm_answered. Qed.
Print Assumptions C02_dbesm_getfirm.

(* with fixes/24: ReadDIAG is answered for every board status, negative ones included *)
Theorem C02_dbesm_readdiag : forall e d tok n,
  length (boards d) = 4%nat -> py_int e tok = CvOk n -> 1 <= n <= 4 ->
  exists r, h_diag true e d [$"BOARD"; tok] = (d, OReply r).
Proof. exact db_diag_answered. Qed.
Print Assumptions C02_dbesm_readdiag.

(* F24 on the original code: SETSTATUS BOARD 1 VALUE -1, ReadDIAG BOARD 1 -> exception, no reply *)
Theorem C02_dbesm_readdiag_refuted :
  last (snd (run (step false e_std) (init (repeat (b0 0) 4) obs_mode0) f24_bytes)) OFalse = OException.
Proof. exact db_f24_refuted. Qed.
Print Assumptions C02_dbesm_readdiag_refuted.

Theorem C02_dbesm_getcfg : forall d, exists r, h_get_cfg d [] = (d, OReply r).
Proof. exact db_getcfg_answered. Qed.
Theorem C02_dbesm_readalldiag : forall fx d, exists r, h_all_diag fx d [] = (d, OReply r).
Proof. exact db_alldiag_answered. Qed.

Example C02_dbesm_catalogue_decodes :
  decode (drop_last ($"DBE GETSTATUS BOARD 3" ++ [CR])) = KGetStatus [$"BOARD"; $"3"] /\
  decode (drop_last ($"DBE ReadDIAG BOARD 1" ++ [CR])) = KDiag [$"BOARD"; $"1"] /\
  decode (drop_last ($"DBE GETCFG" ++ [CR])) = KGetCfg [].
Proof. vm_compute. repeat split. Qed.

(* the four GETDBE* queries, for EVERY output name (the six existing ones and unknown ones), every
   device state satisfying the invariant (four boards, register lengths), any board status *)
Theorem C02_dbesm_getdbe : forall d r name, Inv d -> exists s, h_get_dbe d r [name] = (d, OReply s).
Proof. exact db_getdbe_answered. Qed.
Print Assumptions C02_dbesm_getdbe.
