(* C14 — the ACU executes exactly the well-formed, permitted, in-range commands (agent Acmd).
   Statements only; proofs are `exact` of lemmas in Proofs/AcmdFrameProofs.v, Proofs/AcmdAxisProofs.v.
   Models: Model/AcmdFrame.v (System.parse, _parse_commands), Model/AcmdAxis.v (_mode_command,
   _validate_mode_command, handlers up to their first sleep, _parameter_command), with the repairs
   fixes/03, 09, 10, 11, 12, 41 applied; constants from Gen/AcmdTables.v. *)
From DS Require Import Base.Prelude Base.Bits Gen.AcmdTables Model.AcmdFrame.
From DS Require Import Model.AcmdAxis Proofs.AcmdFrameProofs Proofs.AcmdAxisProofs.
From DS Require Import Model.AcmdReset Proofs.AcmdResetProofs.
From DS Require Import Model.AcmdStatus Proofs.AcmdStatusProofs.
From Coq Require Import Reals.
From Flocq Require Import Core IEEE754.BinarySingleNaN.

(* ---- a message is executed iff it is well-formed; anything else is dropped whole ---- *)

(* [wf_msg prev m cmds] (Proofs/AcmdFrameProofs.v) is the conjunction of: start flag, declared
   length = actual length (>= 20), end flag, command count matching, known command ids with the
   lengths they prescribe and an existing handler on the addressed subsystem, at most one command
   per subsystem, counter different from the previous message's ([prev]). *)

(* If: a well-formed message arriving at an idle parser (whatever happened before) answers True
   to every byte, starts nothing before its last byte, starts exactly its commands, in order, at
   the last byte, and leaves the parser idle remembering its counter. *)
Theorem C14_wf_is_executed : forall st m cmds ds,
  fidle st -> wf_msg (f_cnt st) m cmds -> resolve cmds = Some ds ->
  frun st m = (mkF [] 0 (Some (mcnt m)) 0,
               repeat (OTrue, None) (length m - 1) ++ [(OTrue, Some ds)]).
Proof. exact wf_executed. Qed.
Print Assumptions C14_wf_is_executed.

(* Only if: for every byte history, whenever a byte makes the parser start commands, the bytes
   buffered since the parser was last idle are a well-formed message w.r.t. the counter it
   remembered at that time, and the commands started are that message's. *)
Theorem C14_executed_only_if_wf : forall bs b ds,
  nnl bs -> 0 <= b ->
  let prev := fst (grun None f_init bs) in
  let st := fstate_of f_init bs in
  snd (parse st b) = Some ds ->
  exists cmds, wf_msg prev (f_msg st ++ [b]) cmds /\ resolve cmds = Some ds.
Proof. exact executed_wf. Qed.
Print Assumptions C14_executed_only_if_wf.

(* what [grun] computes: the buffer is the input since the last idle point and [prev] is the
   counter remembered there *)
Theorem C14_previous_counter_meaning : forall bs, exists pre,
  bs = pre ++ f_msg (fstate_of f_init bs) /\ fidle (fstate_of f_init pre) /\
  fst (grun None f_init bs) = f_cnt (fstate_of f_init pre).
Proof. exact grun_meaning. Qed.
Print Assumptions C14_previous_counter_meaning.

(* Dropped whole: a byte that does not complete an accepted message changes no subsystem and
   starts no thread (in particular when System.parse raises ValueError). *)
Theorem C14_dropped_whole : forall s b, snd (parse (s_fr s) b) = None ->
  let r := sys_step s b in
  let s' := fst (fst (fst r)) in
  s_az s' = s_az s /\ s_el s' = s_el s /\ s_ps s' = s_ps s /\ snd r = [] /\ snd (fst r) = None.
Proof. exact sys_step_dropped. Qed.
Print Assumptions C14_dropped_whole.

Theorem C14_executed_in_order : forall s b ds, snd (parse (s_fr s) b) = Some ds ->
  let r := sys_step s b in
  fst (fst (fst r)) = fst (apply_all (with_fr s (fst (fst (parse (s_fr s) b)))) ds) /\
  snd r = snd (apply_all (with_fr s (fst (fst (parse (s_fr s) b)))) ds).
Proof. exact sys_step_executed. Qed.
Print Assumptions C14_executed_in_order.

(* ---- the answer to a mode command ---- *)

(* For every axis configuration with exactly representable bounds (both shipped ones, below),
   every axis state and every 26-byte mode command with a known mode: the answer is 9 exactly
   when the axis state permits the mode and the parameters are finite and within the limits
   (real-number comparison of the doubles), 5 exactly when the parameters are not, else 4. *)
Theorem C14_answer : forall cfg ax cmd h,
  cfg_wf cfg -> length cmd = 26%nat ->
  zlookup (mc_mode cmd) mode_commands = Some h -> h <> H_ignore ->
  let a := rx_answer (fst (mode_command cfg ax cmd)) in
  let ok := in_limits cfg (mo ax) (mc_mode cmd) (mc_p1 cmd) (mc_p2 cmd) in
  let perm := permitted (mo ax) (mc_mode cmd) in
  (a = 9 <-> perm /\ ok) /\ (a = 5 <-> ~ ok) /\ (a = 4 <-> ok /\ ~ perm).
Proof. exact answer_spec. Qed.
Print Assumptions C14_answer.

Theorem C14_shipped_configurations : cfg_wf cfg_AZ /\ cfg_wf cfg_EL.
Proof. exact (conj cfg_AZ_wf cfg_EL_wf). Qed.
Print Assumptions C14_shipped_configurations.

(* the boolean checks of the model mean what the property says, over the reals *)
Theorem C14_limits_meaning : forall cfg m mode p1 p2, cfg_wf cfg ->
  (params_ok cfg m mode p1 p2 = true <-> in_limits cfg m mode p1 p2).
Proof. exact params_ok_iff. Qed.
Print Assumptions C14_limits_meaning.

Theorem C14_permission_matrix : forall m mode, state_permits m mode = true <-> permitted m mode.
Proof. exact state_permits_iff. Qed.
Print Assumptions C14_permission_matrix.

(* ---- unknown mode: recorded as "no command", nothing else changes ---- *)
Theorem C14_unknown_mode_is_no_command : forall cfg ax cmd, length cmd = 26%nat ->
  (zlookup (mc_mode cmd) mode_commands = None \/ zlookup (mc_mode cmd) mode_commands = Some H_ignore) ->
  mode_command cfg ax cmd = (set_rx ax (mc_counter cmd) 0 0, TDone).
Proof. exact mode_command_unknown. Qed.
Print Assumptions C14_unknown_mode_is_no_command.

(* ---- only accepted commands alter motion, brakes, stow pins, offsets; counters echo ---- *)
Theorem C14_known_mode_effects : forall cfg ax cmd h, length cmd = 26%nat ->
  zlookup (mc_mode cmd) mode_commands = Some h -> h <> H_ignore ->
  let r := mode_command cfg ax cmd in
  let ax' := fst r in
  let a := validate cfg (mo ax) (mc_mode cmd) (mc_p1 cmd) (mc_p2 cmd) in
  rx_counter ax' = mc_counter cmd /\ rx_mode ax' = mc_mode cmd /\ rx_answer ax' = a /\
  par_kept ax ax' /\
  (a = 9 -> ex_counter ax' = mc_counter cmd /\ ex_mode ax' = mc_mode cmd /\
            (ex_answer ax' = 1 \/ ex_answer ax' = 2)) /\
  (a <> 9 -> mo ax' = mo ax /\ ex_kept ax ax' /\ snd r = TDone).
Proof. exact mode_command_known. Qed.
Print Assumptions C14_known_mode_effects.

(* parameter commands: the counter is echoed; only the offset can change, and only when the
   command was executed (answer 1) on an active axis with parameter id 11 or 12 *)
Theorem C14_parameter_command : forall ax cmd, length cmd = 26%nat ->
  let r := parameter_command ax cmd in
  let ax' := fst r in
  par_counter ax' = mc_counter cmd /\ rx_kept ax ax' /\ ex_kept ax ax' /\
  set_offset (mo ax') 0 = set_offset (mo ax) 0 /\
  (mo ax' <> mo ax ->
     snd r = TDone /\ par_answer ax' = 1 /\ axis_state (mo ax) = 3 /\ (pc_id cmd = 11 \/ pc_id cmd = 12)).
Proof. exact parameter_command_spec. Qed.
Print Assumptions C14_parameter_command.

(* ---- non-vacuity ---- *)

(* [AZ activate, EL activate] with message counter 5 (72 bytes) is well-formed and executed *)
Definition ex_frame : list Z :=
  [26; 207; 252; 29; 72; 0; 0; 0; 5; 0; 0; 0; 2; 0; 0; 0;
   1; 0; 1; 0; 6; 0; 0; 0; 2; 0; 0; 0; 0; 0; 0; 0; 0; 0; 0; 0; 0; 0; 0; 0; 0; 0;
   1; 0; 2; 0; 7; 0; 0; 0; 2; 0; 0; 0; 0; 0; 0; 0; 0; 0; 0; 0; 0; 0; 0; 0; 0; 0;
   209; 207; 252; 161].

Example C14_ex_executed :
  snd (frun f_init ex_frame) =
  repeat (OTrue, None) 71 ++
  [(OTrue, Some [(1, 1, slice 16 42 ex_frame); (2, 1, slice 42 68 ex_frame)])].
Proof. vm_compute. reflexivity. Qed.

(* preset absolute 179.25 deg at 0.5 deg/s on the activated azimuth: answered 9; the same with
   a NaN position: answered 5, motion untouched (the F09 input) *)
Definition ex_active_az : axis := fst (mode_command cfg_AZ (axis_init cfg_AZ) (slice 16 42 ex_frame)).
Definition ex_preset (p1bits : Z) : list Z :=
  [1; 0; 1; 0; 9; 0; 0; 0; 3; 0] ++ le_enc 8 p1bits ++ le_enc 8 4602678819172646912.

Example C14_ex_answers :
  rx_answer (fst (mode_command cfg_AZ ex_active_az (ex_preset 4640406516143521792))) = 9 /\
  rx_answer (fst (mode_command cfg_AZ ex_active_az (ex_preset 9221120237041090560))) = 5 /\
  mo (fst (mode_command cfg_AZ ex_active_az (ex_preset 9221120237041090560))) = mo ex_active_az /\
  rx_answer (fst (mode_command cfg_AZ (axis_init cfg_AZ) (ex_preset 4640406516143521792))) = 4.
Proof. vm_compute. repeat split; reflexivity. Qed.

(* Known finding F13 (known/C14.txt, class drive_to_stow_without_stow_positions_unvalidated):
   for an axis without stow positions [in_limits] is vacuous for mode 52 (the code validates
   nothing), so drive_to_stow(7, 99) on the active azimuth is answered 9.  The property asks for
   a valid stow index; the witness: *)
Example C14_drive_to_stow_without_stow_positions_refuted :
  rx_answer (fst (mode_command cfg_AZ ex_active_az
     ([1; 0; 1; 0; 9; 0; 0; 0; 52; 0] ++ le_enc 8 4619567317775286272 ++ le_enc 8 4636666922610458624))) = 9.
Proof. vm_compute. reflexivity. Qed.

(* ---- mode command 15, `_reset`: the status flags (Model/AcmdReset.v) ---- *)

(* An accepted reset (mode 15 on an axis that is inactive or deactivating) clears exactly the
   bits of the error word listed in [reset_clears] (generated from the source of `_reset` and of
   the flag setters) -- which are all the named error flags -- and changes nothing else of the
   modelled state: the general status flags, the warning word, the other bits of the error
   word, the auxiliary fields, motion / brakes / stow pins / offset and the parameter-command
   fields are as before; the received fields echo (counter, 15, 9), the executed fields become
   (counter, 15, 1), the thread ends normally. *)
Theorem C14_reset_effect : forall cfg x cmd,
  length cmd = 26%nat -> mc_mode cmd = reset_mode ->
  zmem (axis_state (mo (xa_ax x))) [0; 1] = true ->
  let r := xmode_command cfg x cmd in
  let x' := fst r in
  (forall k, 0 <= k ->
     Z.testbit (xa_err x') k = Z.testbit (xa_err x) k && negb (zmem k reset_clears)) /\
  (forall k, zmem k error_flags = true -> 0 <= k -> Z.testbit (xa_err x') k = false) /\
  xa_gen x' = xa_gen x /\ xa_warn x' = xa_warn x /\ xa_aux x' = xa_aux x /\
  mo (xa_ax x') = mo (xa_ax x) /\ par_kept (xa_ax x) (xa_ax x') /\
  rx_counter (xa_ax x') = mc_counter cmd /\ rx_mode (xa_ax x') = reset_mode /\
  rx_answer (xa_ax x') = 9 /\
  ex_counter (xa_ax x') = mc_counter cmd /\ ex_mode (xa_ax x') = reset_mode /\
  ex_answer (xa_ax x') = reset_answer /\ snd r = TDone.
Proof. exact reset_effect. Qed.
Print Assumptions C14_reset_effect.

(* the list `_reset` clears is the set of named flags of the error word, no more, no less *)
Theorem C14_reset_clears_the_error_flags : forall k,
  zmem k reset_clears = true <-> zmem k error_flags = true.
Proof. exact (fun k => conj (reset_clears_only_named k) (reset_clears_all_named k)). Qed.
Print Assumptions C14_reset_clears_the_error_flags.

(* A reset that is not permitted (axis state other than 0 / 1; mode 15 has no parameter check,
   so "refused" is answer 4) changes none of the flags, nor motion, nor the executed / parameter
   fields: only the received fields record (counter, 15, 4). *)
Theorem C14_reset_refused_unchanged : forall cfg x cmd,
  length cmd = 26%nat -> mc_mode cmd = reset_mode ->
  zmem (axis_state (mo (xa_ax x))) [0; 1] = false ->
  let r := xmode_command cfg x cmd in
  let x' := fst r in
  flags_kept x x' /\ mo (xa_ax x') = mo (xa_ax x) /\
  ex_kept (xa_ax x) (xa_ax x') /\ par_kept (xa_ax x) (xa_ax x') /\
  rx_counter (xa_ax x') = mc_counter cmd /\ rx_mode (xa_ax x') = reset_mode /\
  rx_answer (xa_ax x') = 4 /\ snd r = TDone.
Proof. exact reset_refused_unchanged. Qed.
Print Assumptions C14_reset_refused_unchanged.

(* `_reset` runs exactly for mode 15 on an axis in state 0 / 1, and no command that does not run
   it (any bytes, any mode, any state; every parameter command) touches the status flags *)
Theorem C14_reset_runs_iff : forall cfg ax cmd, length cmd = 26%nat ->
  (reset_runs cfg ax cmd = true <->
   mc_mode cmd = reset_mode /\ zmem (axis_state (mo ax)) [0; 1] = true).
Proof. exact reset_runs_iff. Qed.
Print Assumptions C14_reset_runs_iff.

Theorem C14_flags_only_by_reset : forall cfg x cmd,
  (reset_runs cfg (xa_ax x) cmd = false -> flags_kept x (fst (xmode_command cfg x cmd))) /\
  flags_kept x (fst (xparameter_command x cmd)).
Proof. exact (fun cfg x cmd => conj (flags_only_by_reset cfg x cmd) (parameter_command_keeps_flags x cmd)). Qed.
Print Assumptions C14_flags_only_by_reset.

(* the extended step restricted to the fields of Model/AcmdAxis.v is that file's step *)
Theorem C14_reset_model_conservative : forall cfg x cmd,
  xa_ax (fst (xmode_command cfg x cmd)) = fst (mode_command cfg (xa_ax x) cmd) /\
  snd (xmode_command cfg x cmd) = snd (mode_command cfg (xa_ax x) cmd).
Proof. exact xmode_command_axis. Qed.
Print Assumptions C14_reset_model_conservative.

(* non-vacuity: the fresh azimuth (state 0) with every bit of the error word, the warning word
   and the general flags set; reset with counter 9 clears the 27 named bits and leaves the five
   unused ones (5, 10, 20, 21, 28 = 0x10300420); on the activated azimuth it is refused *)
Definition ex_reset_cmd : list Z := [1; 0; 1; 0; 9; 0; 0; 0; 15; 0] ++ le_enc 8 0 ++ le_enc 8 0.
Definition ex_flagged (ax : axis) : xaxis := mkXa ax 63 4294967295 4294967295 [1; 2; 3].

Example C14_ex_reset :
  let x' := fst (xmode_command cfg_AZ (ex_flagged (axis_init cfg_AZ)) ex_reset_cmd) in
  xa_err x' = 271582240 /\ xa_warn x' = 4294967295 /\ xa_gen x' = 63 /\
  ex_counter (xa_ax x') = 9 /\ ex_mode (xa_ax x') = 15 /\ ex_answer (xa_ax x') = 1 /\
  reset_runs cfg_AZ (axis_init cfg_AZ) ex_reset_cmd = true /\
  zmem (axis_state (mo (axis_init cfg_AZ))) [0; 1] = true.
Proof. vm_compute. repeat split; reflexivity. Qed.

Example C14_ex_reset_refused :
  let x' := fst (xmode_command cfg_AZ (ex_flagged ex_active_az) ex_reset_cmd) in
  xa_err x' = 4294967295 /\ rx_answer (xa_ax x') = 4 /\ ex_mode (xa_ax x') = 2 /\
  zmem (axis_state (mo ex_active_az)) [0; 1] = false.
Proof. vm_compute. repeat split; reflexivity. Qed.

(* ---- update_status: the limit / rate warning bits (Model/AcmdStatus.v) ---- *)

(* After update_status the five warning bits say where p_Ist is w.r.t. the operating range
   (pre-limit: at or beyond the bound; final limit: beyond it) and whether |v_Ist| exceeds the
   maximum rate; every other warning bit, the error word, the general flags and the auxiliary
   fields are kept, and the [axis] part is AcmdAxis.tick (only stowPosOk can change). *)
Theorem C14_update_status : forall cfg x x', xtick cfg x = Some x' ->
  exists vmax, rate_limit_udeg cfg = Some vmax /\
  let p := p_Ist (mo (xa_ax x)) in
  let v := v_Ist (mo (xa_ax x)) in
  Z.testbit (xa_warn x') bit_Pre_Limit_Dn = (p <=? lo_udeg cfg) /\
  Z.testbit (xa_warn x') bit_Fin_Limit_Dn = (p <? lo_udeg cfg) /\
  Z.testbit (xa_warn x') bit_Pre_Limit_Up = (hi_udeg cfg <=? p) /\
  Z.testbit (xa_warn x') bit_Fin_Limit_Up = (hi_udeg cfg <? p) /\
  Z.testbit (xa_warn x') bit_Rate_Limit = (vmax <? Z.abs v) /\
  (forall k, 0 <= k -> ~ In k update_bits -> Z.testbit (xa_warn x') k = Z.testbit (xa_warn x) k) /\
  xa_err x' = xa_err x /\ xa_gen x' = xa_gen x /\ xa_aux x' = xa_aux x /\
  xa_ax x' = tick cfg (xa_ax x).
Proof. exact update_status_spec. Qed.
Print Assumptions C14_update_status.

(* the hypothesis is satisfiable for both shipped axes (finite maximum rate) *)
Theorem C14_update_status_defined : rate_limit_udeg cfg_AZ <> None /\ rate_limit_udeg cfg_EL <> None.
Proof. exact shipped_rate_limits. Qed.
Print Assumptions C14_update_status_defined.

(* ---- the slave axis (cable wrap) ---- *)

(* no subsystem id of a command addresses anything but AZ, EL, PS, so no command is dispatched
   to the cable wrap (a command naming any other subsystem is not well-formed, C14_wf_is_executed /
   C14_executed_only_if_wf); its brakes are open exactly when its master (AZ) is active *)
Theorem C14_slave_axis : forall sub k st,
  (zlookup sub subsystems = Some k -> k = 0 \/ k = 1 \/ k = 2) /\
  (st = CW_master_active -> cw_brakes st = mask CW_n_motors) /\
  (st <> CW_master_active -> cw_brakes st = 0) /\ mask CW_n_motors <> 0.
Proof. exact (fun sub k st => conj (slave_not_addressable sub k) (cw_brakes_spec st)). Qed.
Print Assumptions C14_slave_axis.

(* non-vacuity: the elevation at its upper bound + 1 microdegree moving at 0.5 deg/s + 1 *)
Example C14_ex_update_status :
  let m := mo (axis_init cfg_EL) in
  let ax := with_mo (axis_init cfg_EL) (set_vel (set_pos m (p_Soll m) (hi_udeg cfg_EL + 1)) 0 500001) in
  option_map xa_warn (xtick cfg_EL (mkXa ax 14 0 0 [])) = Some (2 ^ 19 + 2 ^ 21 + 2 ^ 23) /\
  option_map xa_warn (xtick cfg_EL (mkXa (axis_init cfg_EL) 14 (2 ^ 32 - 1) 0 []))
    = Some (2 ^ 32 - 1 - 2 ^ 20 - 2 ^ 21 - 2 ^ 22 - 2 ^ 23).
Proof. vm_compute. split; reflexivity. Qed.
