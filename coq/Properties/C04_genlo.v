(* C04, generic LO part — every reply decodes under [g_reply_wfb]: ';'-separated integer literals
   or the status string, then LF; single-byte text.  No request identity in this protocol.
   Statements only. *)
From DS Require Import Base.Prelude Model.SmbCommon Model.SmbGenLO Proofs.SmbCommon Proofs.SmbGenLO.

(* any state, any oracle, any byte *)
Theorem C04_genlo_reply_wf : forall fl s b s' r,
  g_step fl s b = (s', OReply r) -> g_reply_wfb r = true /\ b = LF.
Proof. exact g_step_reply_wf. Qed.
Print Assumptions C04_genlo_reply_wf.

Theorem C04_genlo_wf_shape : forall r, g_reply_wfb r = true -> bytes r /\ exists body, r = body ++ [LF].
Proof. exact (g_reply_wf_shape (fun _ => FErr)). Qed.
Print Assumptions C04_genlo_wf_shape.

Example C04_genlo_ex : g_reply_wfb ([45; 55; 59] ++ G_STATUS ++ [LF]) = true /\ g_reply_wfb [49; 46; 53; 10] = false.
Proof. split; reflexivity. Qed.
