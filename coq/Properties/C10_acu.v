(* C10, part acu — the shipped ACU command encoders and the simulator's decoder agree (agent Acmd).
   Statements only.  Models: Model/AcmdEncoder.v (acu_utils.ModeCommand, ParameterCommand,
   ProgramTrackCommand, Command.get), Model/AcmdFrame.v (System.parse, _parse_commands). *)
From DS Require Import Base.Prelude Base.Bits Gen.AcmdTables Model.AcmdFrame.
From DS Require Import Model.AcmdEncoder Model.AcmdTrackWire Proofs.AcmdFrameProofs.
From DS Require Import Proofs.AcmdEncoderProofs.

(* Every frame the shipped encoders build from in-domain arguments ([in_domain]: ModeCommand to
   AZ/EL, ParameterCommand to AZ/EL/PS, ProgramTrackCommand to PS with 1..50 points and INT32
   relative times; any 16-bit mode / parameter / interpolation / tracking / load ids, any doubles
   given by their bit patterns), distinct subsystems, message counter > 0 with counter + number
   of commands < 2^32 and different from the previous message's: the encoder produces a frame; an
   idle parser answers True to every byte, starts nothing before the last byte and then exactly
   one command per encoder object, in order, on the addressed subsystem and handler; the command
   string handed to the handler decodes ([decodes]: for mode / parameter commands the six fields
   [dec26]; for a program-track command the slices PointingStatus takes, [dec_track]: counter,
   parameter id, interpolation, tracking and load modes, number of points, start time and the two
   rates, and every (relative time, azimuth, elevation) point) to the encoder's arguments with
   counter + 1 + i, the doubles bit for bit up to ModeCommand's replacement of a falsy parameter
   by 0.0 ([norm_param]); the parser is idle afterwards and remembers the counter. *)
Theorem C10_acu_encoded_frames_are_consumed : forall st counter cmds,
  Forall in_domain cmds -> NoDup (map esub cmds) ->
  0 < counter -> counter + Z.of_nat (length cmds) < 2 ^ 32 ->
  fidle st -> Some counter <> f_cnt st ->
  exists m bodies,
    enc_frame counter cmds = Some m /\ length bodies = length cmds /\
    frun st m = (mkF [] 0 (Some counter) 0,
                 repeat (OTrue, None) (length m - 1) ++
                 [(OTrue, Some (map (fun p : ecmd * list Z => (esub (fst p), ecid (fst p), snd p))
                                    (combine cmds bodies)))]) /\
    Forall2 (fun c b => exists i, decodes (counter + 1 + Z.of_nat i) c b /\ (i < length cmds)%nat)
            cmds bodies.
Proof. exact encoded_frame_consumed_all. Qed.
Print Assumptions C10_acu_encoded_frames_are_consumed.
(* Scope of the decoder side: [dec_track] (Model/AcmdTrackWire.v) is the field slicing of
   PointingStatus._program_track_parameter_command; whether the decoded command is then *accepted*
   (answer 1) and stored is C17's model (Model/AtrkModel.v [load]) and is tied to the real
   PointingStatus by the correspondence suite c10_acu_track and by the oracle (table, start time
   and rates compared bit for bit with the encoder arguments) on every run. *)

(* one program-track command: 42 + 20n bytes, a well-formed command for subsystem 5 / handler 4,
   every slice gives back its argument *)
Theorem C10_acu_track_command_decodes : forall next pid interp track load t0 raz rel entries,
  in_domain (ETrack 5 pid interp track load t0 raz rel entries) -> 0 <= next < 2 ^ 32 ->
  exists b, enc_cmd next (ETrack 5 pid interp track load t0 raz rel entries) = Some b /\
    length b = (42 + 20 * length entries)%nat /\
    dec_track b = mkTF next pid interp track load (Z.of_nat (length entries)) t0 raz rel entries /\
    wf_cmd b /\ csub b = 5 /\ get_method b = Some (5, 4, b).
Proof. exact enc_track_decodes. Qed.
Print Assumptions C10_acu_track_command_decodes.

(* Command.get: whatever well-formed command strings it is given (including program-track
   commands), the frame it builds is a well-formed message carrying exactly those commands *)
Theorem C10_acu_frame_is_wellformed : forall prev counter bodies,
  Forall wf_cmd bodies -> fresh_subs [] bodies -> resolve bodies <> None ->
  0 <= counter < 2 ^ 32 -> Some counter <> prev -> Z.of_nat (length bodies) < 2 ^ 31 ->
  20 + Z.of_nat (length (concat bodies)) < 2 ^ 32 ->
  let m := frame_of counter (Z.of_nat (length bodies)) bodies in
  wf_msg prev m bodies /\ mcnt m = counter.
Proof. exact frame_wf. Qed.
Print Assumptions C10_acu_frame_is_wellformed.

Theorem C10_acu_track_points_length : forall es seq,
  enc_entries es = Some seq -> length seq = (20 * length es)%nat.
Proof. exact enc_entries_length. Qed.
Print Assumptions C10_acu_track_points_length.

(* non-vacuity: Command(ModeCommand(1, 3, 179.25, 0.5), ParameterCommand(5, 60, 1.5)) with
   counter 1000 is in the domain; a 50-point program track frame is encoded and consumed *)
Example C10_acu_ex_domain :
  Forall in_domain [EMode 1 3 4640406516143521792 4602678819172646912; EParam 5 60 4609434218613702656 0] /\
  NoDup (map esub [EMode 1 3 4640406516143521792 4602678819172646912; EParam 5 60 4609434218613702656 0]).
Proof.
  split.
  - constructor; [|constructor; [|constructor]]; cbn [in_domain];
      unfold u16, bits64; repeat split; lia.
  - cbn. constructor; [cbn; intuition lia|]. constructor; [cbn; intuition|constructor].
Qed.

Definition ex_track : ecmd :=
  ETrack 5 61 4 1 1 4675021544929943552 4602678819172646912 4598175219545276416
         (map (fun i => (Z.of_nat i * 100, 4640406516143521792 + Z.of_nat i, 4631530004285489152)) (seq 0 50)).

Example C10_acu_ex_track :
  match enc_frame 77 [ex_track] with
  | Some m => length m = 1062%nat /\
              (let '(st, r) := frun f_init m in
               fidleb st = true /\ f_cnt st = Some 77 /\
               forallb (fun x : outcome * option (list dispatch) =>
                          match fst x with OTrue => true | _ => false end) r = true /\
               match last r (OFalse, None) with
               | (OTrue, Some [(5, 4, c)]) => Z.of_nat (length c) =? 42 + 20 * 50
               | _ => false
               end = true)
  | None => False
  end.
Proof. vm_compute. repeat split; reflexivity. Qed.
