(* C07 (backend part) — after system_stop, from any reachable state, no timer of the generic backend,
   sardara or mistral remains pending (every threading.Timer is a non-daemon thread), and the acknowledgement
   is returned.  Statements only; proofs in Proofs/BckProofs.v.  The ledger `timers s` holds the started, not
   yet fired, not cancelled timers; the model is the code as fixed by fixes/17.
   Partial: that Timer.join() returns after cancel() and that the process exits is runtime behaviour. *)
From DS Require Import Base.Prelude Model.BckModel Spec.BckGrammarSpec Proofs.BckGrammar Proofs.BckProofs.
From Coq Require Import String.

Theorem C07_backend_clean : forall o v t0 s,
  oracle_clean o -> reachable o v t0 s -> timers (fst (system_stop v s)) = [].
Proof. exact (fun o v t0 s Ho Hr => system_stop_clean v s (proj2 (reachable_inv o v t0 s Ho Hr))). Qed.
Print Assumptions C07_backend_clean.

Theorem C07_backend_ack : forall v s, snd (system_stop v s) = OAck (zs "$server_shutdown%%%%%").
Proof. exact system_stop_ack. Qed.
Print Assumptions C07_backend_ack.

(* the bookkeeping behind it: in every reachable state each pending timer is the one referenced by the
   attribute of its kind (_startID, _stopID, _setupID, _target_sweepID, _vna_sweepID), ids are unique, and a
   generic backend / sardara only ever has start and stop timers *)
Theorem C07_backend_ledger : forall o v t0 s,
  oracle_clean o -> reachable o v t0 s -> LInv v s.
Proof. exact (fun o v t0 s Ho Hr => proj2 (reachable_inv o v t0 s Ho Hr)). Qed.
Print Assumptions C07_backend_ledger.

(* stopping is idempotent and the stopped system stays clean until a new command creates a timer *)
Theorem C07_backend_stop_twice : forall o v t0 s,
  oracle_clean o -> reachable o v t0 s ->
  timers (fst (system_stop v (fst (system_stop v s)))) = [].
Proof.
  exact (fun o v t0 s Ho Hr =>
           system_stop_clean v _ (proj2 (reachable_inv o v t0 _ Ho (reach_step o v t0 s ESysStop Hr)))).
Qed.
Print Assumptions C07_backend_stop_twice.

(* MISTRAL reset (fixes/17) leaves no timer behind either *)
Theorem C07_backend_reset_clean : forall o t0 s,
  oracle_clean o -> reachable o VMistral t0 s -> timers (do_reset s) = [].
Proof.
  exact (fun o t0 s Ho Hr =>
           eq_trans (do_reset_timers s) (cancel_all_empty VMistral s (proj2 (reachable_inv o VMistral t0 s Ho Hr)))).
Qed.
Print Assumptions C07_backend_reset_clean.
