(* C04 (minor servos) — every reply line is well formed.  Statements only. *)
From DS Require Import Base.Prelude Model.MsvTypes Model.MsvModel Model.MsvFloat Gen.MsvTables.
From DS Require Import Proofs.MsvProofs Proofs.MsvParts Proofs.MsvGen.

(* Every reply to an accepted, refused or unknown command is either the BAD line or the GOOD
   prefix followed by the PLC time of the command and the answer fields, and ends with CR LF.
   (The protocol carries no request identity to echo.) *)
Theorem C04_ms_reply_shape : forall T (ops : numops T) orc cf s e b s' r,
  parse ops orc cf s e b = (s', OReply r) ->
  r = c_bad cf ++ crlf \/ exists body, r = c_good_prefix cf ++ fmt6 orc (e_now e) ++ body ++ crlf.
Proof. exact @reply_shape. Qed.
Print Assumptions C04_ms_reply_shape.

Theorem C04_ms_reply_terminated : forall T (ops : numops T) orc cf s e b s' r,
  parse ops orc cf s e b = (s', OReply r) -> ends_crlf r = true.
Proof. exact @reply_terminated. Qed.
Print Assumptions C04_ms_reply_terminated.

(* the two kinds cannot be confused on the shipped strings 'OUTPUT:BAD' / 'OUTPUT:GOOD,' *)
Theorem C04_ms_kinds_distinct : forall T (f : Z -> T) tk, replies_distinct (gen_cfg f tk) = true.
Proof. exact gen_replies_distinct. Qed.
Print Assumptions C04_ms_kinds_distinct.
