(* C03, generic LO part — the '\n' framer of lo/generic_LO.System returns to idle.  [fl] is the
   per-case oracle for float(token) (DESIGN.md section 3); every statement holds for every oracle.
   Statements only. *)
From DS Require Import Base.Prelude Model.SmbCommon Model.SmbGenLO Proofs.SmbCommon Proofs.SmbGenLO.

Theorem C03_genlo_resync : forall fl s bs, g_idle (fst (g_run fl s (bs ++ [LF]))) = true.
Proof. exact (fun fl => lresync (g_exec fl)). Qed.
Print Assumptions C03_genlo_resync.

Theorem C03_genlo_buffering : forall fl s b, b <> LF ->
  g_step fl s b = (mkL (lmsg s ++ [b]) (ldev s), OTrue).
Proof. exact (fun fl => lstep_buffer (g_exec fl)). Qed.
Print Assumptions C03_genlo_buffering.

(* a line none of whose ';'-pieces starts with a command name is dropped without any effect *)
Theorem C03_genlo_noise_discarded : forall fl s l, g_idle s = true -> no_lf l ->
  Forall (fun c => match split_ws c with [] => True | a0 :: _ => g_lookup a0 = None end) (split_on SEMI l) ->
  g_run fl s (l ++ [LF]) = (s, line_outs l OTrue).
Proof. exact g_noise_discarded. Qed.
Print Assumptions C03_genlo_noise_discarded.

Theorem C03_genlo_fresh_after_resync : forall fl s0 h l, no_lf l ->
  let s := fst (g_run fl s0 (h ++ [LF])) in
  g_run fl s (l ++ [LF]) =
    (mkL [] (fst (g_exec fl (ldev s) l)), line_outs l (snd (g_exec fl (ldev s) l))).
Proof. exact (fun fl => lfresh (g_exec fl)). Qed.
Print Assumptions C03_genlo_fresh_after_resync.

Theorem C03_genlo_history : forall fl bs d, exists ls rest,
  bs = lines_bytes ls ++ rest /\ Forall no_lf ls /\ no_lf rest /\
  g_run fl (mkL [] d) bs =
    (mkL rest (fst (exec_lines (g_exec fl) d ls)),
     lines_outs ls (snd (exec_lines (g_exec fl) d ls)) ++ repeat OTrue (length rest)).
Proof. exact (fun fl => lrun_history (g_exec fl)). Qed.
Print Assumptions C03_genlo_history.

Example C03_genlo_ex :
  snd (g_run (fun _ => FErr) g_start ([80; 79; 87; 10] ++ G_POWERQ ++ [10])) =
  repeat OTrue 3 ++ [OTrue] ++ repeat OTrue 6 ++ [OReply [48; 10]].
Proof. reflexivity. Qed.
