(* C05 (backend part) — configuration name, file name and integration time: an acknowledged write reads
   back exactly until the next write of that register or a MISTRAL reset; a refused write changes nothing.
   Statements only; proofs in Proofs/BckProofs.v.  Histories are at line granularity (`op`): complete
   lines, clock advances (with timers firing), system_stop, failure flag.  set-section and set-enable store
   values that no command reads back; they are outside this statement (and outside the model). *)
From DS Require Import Base.Prelude Model.BckModel Spec.BckGrammarSpec Proofs.BckGrammar Proofs.BckProofs.
From Coq Require Import String.

Theorem C05_backend_configuration : forall o v s a tok more,
  arg_text a -> split_comma a = tok :: more ->
  let s1 := fst (parse_line o v s (req1 "set-configuration" a)) in
  (valid_conf v tok = true ->
     snd (parse_line o v s (req1 "set-configuration" a))
       = OReply (reply_str (zs "set-configuration") (if failure s then c_fail else c_ok) []) /\
     forall h, Forall (fun x => ~ writes "set-configuration" v x) h ->
       let s2 := orun o v s1 h in
       parse_line o v s2 (req0 "get-configuration") =
       (s2, OReply (reply_str (zs "get-configuration") (if failure s2 then c_fail else c_ok) [tok]))) /\
  (valid_conf v tok = false ->
     parse_line o v s (req1 "set-configuration" a) =
     (s, OReply (reply_str (zs "set-configuration") c_fail [zs "invalid configuration"]))).
Proof. exact readback_configuration. Qed.
Print Assumptions C05_backend_configuration.

Theorem C05_backend_filename : forall o v s a tok more,
  arg_text a -> split_comma a = tok :: more ->
  let s1 := fst (parse_line o v s (req1 "set-filename" a)) in
  snd (parse_line o v s (req1 "set-filename" a))
    = OReply (reply_str (zs "set-filename") (if failure s then c_fail else c_ok) []) /\
  forall h, Forall (fun x => ~ writes "set-filename" v x) h ->
    let s2 := orun o v s1 h in
    parse_line o v s2 (req0 "get-filename") =
    (s2, OReply (reply_str (zs "get-filename") (if failure s2 then c_fail else c_ok) [tok])).
Proof. exact readback_filename. Qed.
Print Assumptions C05_backend_filename.

Theorem C05_backend_integration : forall o v s a tok more,
  arg_text a -> split_comma a = tok :: more ->
  let s1 := fst (parse_line o v s (req1 "set-integration" a)) in
  (forall z, o_int o tok = Some z -> 0 <= z ->
     snd (parse_line o v s (req1 "set-integration" a))
       = OReply (reply_str (zs "set-integration") (if failure s then c_fail else c_ok) []) /\
     forall h, Forall (fun x => ~ writes "set-integration" v x) h ->
       let s2 := orun o v s1 h in
       parse_line o v s2 (req0 "get-integration") =
       (s2, OReply (reply_str (zs "get-integration") (if failure s2 then c_fail else c_ok) [dec z]))) /\
  ((o_int o tok = None \/ exists z, o_int o tok = Some z /\ z < 0) ->
     parse_line o v s (req1 "set-integration" a) =
     (s, OReply (reply_str (zs "set-integration") c_fail [zs "integration time must be an integer number"]))).
Proof. exact readback_integration. Qed.
Print Assumptions C05_backend_integration.

(* every refused request - BackendError, unknown command, syntax error - leaves the whole state unchanged *)
Theorem C05_backend_refused_changes_nothing : forall o v s line,
  match parse_message line with
  | PMReq name args =>
      match dispatch v name with
      | Some c => forall m, handler o v c s args = HFail m ->
                            parse_line o v s line = (s, OReply (reply_str name c_fail [m]))
      | None => fst (parse_line o v s line) = s
      end
  | _ => fst (parse_line o v s line) = s
  end.
Proof. exact refused_changes_nothing. Qed.
Print Assumptions C05_backend_refused_changes_nothing.

(* frame: a line that is not a write of a register (nor a reset) leaves that register alone *)
Theorem C05_backend_frame : forall o v s line,
  (conf (fst (parse_line o v s line)) = conf s \/ writes "set-configuration" v (OpLine line)) /\
  (fname (fst (parse_line o v s line)) = fname s \/ writes "set-filename" v (OpLine line)) /\
  (integ (fst (parse_line o v s line)) = integ s \/ writes "set-integration" v (OpLine line)).
Proof. exact parse_line_regs. Qed.
Print Assumptions C05_backend_frame.
