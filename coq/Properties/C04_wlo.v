(* C04, W-band LO part — PARTIAL: the decoder [w_reply_wfb] (';'-separated items each ending with
   CR LF, single-byte text) is applied to every reply the implementation produces in the
   correspondence suite (Corr/SmbWLOCorr.w_ok_wf) and by the implementation-level oracle; the
   universal theorem is not proved.  It is FALSE as stated for the Ref getters: capitalize() maps
   'ÿ' to U+0178, which is not a single byte (known finding wlo_ref_capitalize_non_latin1); the
   witness below is proved.  Statements only. *)
From DS Require Import Base.Prelude Model.SmbCommon Model.SmbWLO Proofs.SmbCommon Proofs.SmbWLO.

Theorem C04_wlo_charset_refuted : exists fl cap bs r,
  In (OReply r) (snd (w_run fl cap w_start bs)) /\ bytesb r = false.
Proof.
  exists (fun _ => WNotFloat), (fun s => if zlist_eqb s [255] then Some [376] else Some s),
         (lines_bytes [w_write RRH [255; 13]; w_read RRH]), [376; 46; 13; 10].
  split; [vm_compute; tauto | reflexivity].
Qed.
Print Assumptions C04_wlo_charset_refuted.

Example C04_wlo_ex : w_reply_wfb (ACK ++ CRLF ++ [SEMI] ++ W_STATUS ++ CRLF) = true /\ w_reply_wfb (ACK ++ [LF]) = false.
Proof. split; reflexivity. Qed.
