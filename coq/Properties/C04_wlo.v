(* C04, W-band LO part (code with fixes/26 applied) — every reply of every byte history decodes
   under [w_reply_wfb] (';'-separated items, each ending with CR LF and holding no other LF;
   single-byte text), PROVIDED the two builtins behave: repr(float) and str.capitalize() return
   single-byte text without LF and ';'.  For capitalize() this is false on 'ÿ', 'µ' (known finding
   wlo_ref_capitalize_non_latin1): the refutation witness is proved below.  No request identity in
   this protocol.  Statements only. *)
From DS Require Import Base.Prelude Model.SmbCommon Model.SmbWLO Proofs.SmbCommon Proofs.SmbWLO
  Proofs.SmbWLOHist.

Theorem C04_wlo_reply_wf_except : forall fl cap,
  (forall tok rp, fl tok = WFloat rp -> text_ok rp) ->
  (forall s c, cap s = Some c -> text_ok s -> text_ok c) ->
  forall bs r, bytes bs -> In (OReply r) (snd (w_run fl cap w_start bs)) -> w_reply_wfb r = true.
Proof. exact w_replies_wf. Qed.
Print Assumptions C04_wlo_reply_wf_except.

Theorem C04_wlo_wf_bytes : forall r, w_reply_wfb r = true -> bytes r.
Proof. exact w_reply_wf_shape. Qed.
Print Assumptions C04_wlo_wf_bytes.

(* without the hypothesis on capitalize() the statement is false *)
Theorem C04_wlo_charset_refuted : exists fl cap bs r,
  bytes bs /\ In (OReply r) (snd (w_run fl cap w_start bs)) /\ bytesb r = false.
Proof.
  exists (fun _ => WNotFloat), (fun s => if zlist_eqb s [255] then Some [376] else Some s),
         (lines_bytes [w_write RRH [255; 13]; w_read RRH]), [376; 46; 13; 10].
  split; [apply bytesb_spec; reflexivity | split; [vm_compute; tauto | reflexivity]].
Qed.
Print Assumptions C04_wlo_charset_refuted.

Example C04_wlo_ex : w_reply_wfb (ACK ++ CRLF ++ [SEMI] ++ W_STATUS ++ CRLF) = true /\ w_reply_wfb (ACK ++ [LF]) = false
  /\ text_ok W_ZERO.
Proof. split; [reflexivity | split; [reflexivity | apply text_ok_lit; reflexivity]]. Qed.
