(* C02, active-surface part — the four read-only queries of the USD line protocol (get_version
   0x10, get_position 0x12, get_status 0x13, get_driver_type 0x14) are answered, in every reachable
   state, by exactly one well-formed reply.  Statements only; proofs in Proofs/UsdCatalogue.v.
   Model: Model/UsdModel.v (lstep/lrun: a line of units behind System._parse; unicast, broadcast,
   time steps); the byte-wise framing of System.parse is the C03/C11 part (tag Asl). *)
From DS Require Import Base.Prelude Base.Bits Model.Utils Model.UsdModel Spec.UsdSpec.
From DS Require Import Proofs.UsdMotion Proofs.UsdInv Proofs.UsdRefine Proofs.UsdHistory Proofs.UsdCatalogue.

(* For every line (any unit indexes 0..31), every history of unicast and broadcast commands (any
   code, any parameter bytes) and time steps, every unit j of the line, each of the four queries and
   both start bytes: the query leaves the line unchanged and produces exactly one outcome, which is
   - nothing, when the unit is in the documented silent mode (response-delay multiplier 255);
   - otherwise ONE reply: ACK, the request's start byte, the [payload length | unit address] byte
     iff the request started with 0xFC (the address being the one the unit was built with), the
     payload, the checksum, every element a byte. *)
Theorem C02_as_queries_answered : forall idxs clk h, Forall (fun i => 0 <= i < 32) idxs ->
  Forall wf_levent h ->
  let s := fst (lrun (map usd_init idxs, clk) h) in
  forall j u code b, nth_error (fst s) j = Some u -> In code [16; 18; 19; 20] -> In b [250; 252] ->
  nth_error idxs j = Some (usd_index u) /\
  exists o, lstep s (LUni j code b []) = (s, Some o) /\
    (if delay_multiplier u =? 255 then o = OSilent
     else exists r, o = OReply r /\ answer_frame b (usd_index u) (payload_of code u) r).
Proof. exact queries_answered_always. Qed.
Print Assumptions C02_as_queries_answered.

(* the same for any line whose units satisfy the invariant *)
Theorem C02_as_query_answered : forall us now j u code b, Forall Inv us -> nth_error us j = Some u ->
  In code [16; 18; 19; 20] -> In b [250; 252] ->
  exists o, lstep (us, now) (LUni j code b []) = ((us, now), Some o) /\
    (if delay_multiplier u =? 255 then o = OSilent
     else exists r, o = OReply r /\ answer_frame b (usd_index u) (payload_of code u) r).
Proof. exact query_answered. Qed.
Print Assumptions C02_as_query_answered.

(* payload sizes (the length nibble of the reply): 1, 4, 3, 1 bytes *)
Theorem C02_as_payload : forall code u, Inv u -> In code [16; 18; 19; 20] ->
  bytes (payload_of code u) /\
  length (payload_of code u) = (if code =? 18 then 4%nat else if code =? 19 then 3%nat else 1%nat).
Proof. exact payload_ok. Qed.
Print Assumptions C02_as_payload.

(* the position payload is the position in 4-byte big-endian two's complement wherever the
   actuator is - below zero and at the range limits included *)
Theorem C02_as_position_readable : forall u, Inv u ->
  match payload_of 18 u with [a; b; c; d] => s32 a b c d = current_position u | _ => False end.
Proof. exact position_readable. Qed.
Print Assumptions C02_as_position_readable.

(* non-vacuity: a unit driven to the lower limit answers 0x12 with ff d6 fc 00 *)
Example C02_as_ex :
  let h := [LUni 1 53 252 [254; 121; 96]; LTick 65535; LTick 1; LBcast 40 250 [9]] in
  let s := fst (lrun (map usd_init [4; 5], 1024) h) in
  Forall wf_levent h /\ map current_position (fst s) = [0; -2688000] /\
  snd (lstep s (LUni 1 18 252 [])) = Some (OReply [6; 252; 133; 255; 214; 252; 0; 167]).
Proof.
  cbv zeta. split; [repeat constructor; cbn; unfold byte; lia|]. vm_compute. auto.
Qed.
