(* C05, part acu — acknowledged ACU parameter writes are read back exactly, refused writes change
   nothing (agent Acmd).  Statements only.
   Quantities: axis position offset (parameter ids 11 / 12 -> p_Offset), program-track time
   correction (id 60 -> actPtTimeOffset), time source (id 50 -> timeSource), time offset
   (id 51 -> actTimeOffset).  "Acknowledged" = the handler returned and the parameter-command
   answer is 1.  Models: Model/AcmdAxis.v [parameter_command], Model/AcmdParam.v. *)
From DS Require Import Base.Prelude Base.Bits Gen.AcmdTables Model.AcmdFrame.
From DS Require Import Model.AcmdAxis Model.AcmdParam Proofs.AcmdAxisProofs Proofs.AcmdParamProofs.
From Coq Require Import Reals.
From Flocq Require Import Core IEEE754.BinarySingleNaN.

(* Python's int(round(x)) / int(x) on a binary64, as used by the handlers: the integer nearest
   to the double with ties to even / truncation toward zero; an error exactly for NaN, +-inf *)
Theorem C05_acu_int_round : forall x : f64,
  py_round_int x = if is_finite x then Some (ZnearestE (B2R x)) else None.
Proof. exact py_round_int_spec. Qed.
Print Assumptions C05_acu_int_round.

Theorem C05_acu_int_trunc : forall x : f64,
  py_int x = if is_finite x then Some (Ztrunc (B2R x)) else None.
Proof. exact py_int_spec. Qed.
Print Assumptions C05_acu_int_trunc.

(* ---- axis position offset: p_Offset [microdegrees] ---- *)

(* acknowledged absolute offset v: the field holds [udeg v] = round-half-even of the double
   v * 10^6; acknowledged relative offset: the previous value plus that *)
Theorem C05_acu_axis_offset_readback : forall ax cmd, length cmd = 26%nat ->
  let r := parameter_command ax cmd in
  snd r = TDone -> par_answer (fst r) = 1 ->
  (pc_id cmd = 11 /\ p_Offset (mo (fst r)) = udeg (mc_p1 cmd)) \/
  (pc_id cmd = 12 /\ p_Offset (mo (fst r)) = p_Offset (mo ax) + udeg (mc_p1 cmd)).
Proof. exact axis_offset_readback. Qed.
Print Assumptions C05_acu_axis_offset_readback.

(* a parameter command changes the motion record (hence the offset) only when it is an
   acknowledged id 11 / 12 on an active axis; otherwise nothing but the answer fields changes *)
Theorem C05_acu_axis_refused_unchanged : forall ax cmd, length cmd = 26%nat ->
  let r := parameter_command ax cmd in
  let ax' := fst r in
  par_counter ax' = mc_counter cmd /\ rx_kept ax ax' /\ ex_kept ax ax' /\
  set_offset (mo ax') 0 = set_offset (mo ax) 0 /\
  (mo ax' <> mo ax ->
     snd r = TDone /\ par_answer ax' = 1 /\ axis_state (mo ax) = 3 /\ (pc_id cmd = 11 \/ pc_id cmd = 12)).
Proof. exact parameter_command_spec. Qed.
Print Assumptions C05_acu_axis_refused_unchanged.

(* ... until the next acknowledged write: mode commands (whatever their answer and handler) and
   status refreshes leave the offset alone *)
Theorem C05_acu_offset_kept_by_mode_commands : forall cfg ax cmd,
  p_Offset (mo (fst (mode_command cfg ax cmd))) = p_Offset (mo ax).
Proof. exact mode_command_keeps_offset. Qed.
Print Assumptions C05_acu_offset_kept_by_mode_commands.

Theorem C05_acu_offset_kept_by_refresh : forall cfg ax, p_Offset (mo (tick cfg ax)) = p_Offset (mo ax).
Proof. exact tick_keeps_offset. Qed.
Print Assumptions C05_acu_offset_kept_by_refresh.

(* ---- pointing subsystem: actPtTimeOffset, timeSource, actTimeOffset ---- *)

(* a write that is not acknowledged leaves all three read-back fields unchanged *)
Theorem C05_acu_pointing_refused_unchanged : forall ok now p cmd, length cmd = 26%nat ->
  let r := p5_parameter_command ok now p cmd in
  snd r <> TDone \/ q_answer (fst r) <> 1 -> q_fields (fst r) = q_fields p.
Proof. exact p5_refused_unchanged. Qed.
Print Assumptions C05_acu_pointing_refused_unchanged.

(* each field is written by its own parameter id only: it holds until the next acknowledged
   write of that quantity *)
Theorem C05_acu_pointing_ownership : forall ok now p cmd, length cmd = 26%nat ->
  let p' := fst (p5_parameter_command ok now p cmd) in
  (q_pt_offset p' <> q_pt_offset p -> pc_id cmd = 60) /\
  (q_time_source p' <> q_time_source p -> pc_id cmd = 50) /\
  (q_time_off p' <> q_time_off p -> pc_id cmd = 51).
Proof. exact p5_ownership. Qed.
Print Assumptions C05_acu_pointing_ownership.

Theorem C05_acu_pointing_counter_echo : forall ok now p cmd, length cmd = 26%nat ->
  let r := p5_parameter_command ok now p cmd in
  q_counter (fst r) = mc_counter cmd /\ q_id (fst r) = pc_id cmd.
Proof. exact p5_counter_echo. Qed.
Print Assumptions C05_acu_pointing_counter_echo.

(* acknowledged program-track time correction of v seconds: actPtTimeOffset = [msec v] =
   round-half-even of the double v * 1000, in milliseconds *)
Theorem C05_acu_track_time_correction_readback : forall ok now p cmd,
  length cmd = 26%nat -> pc_id cmd = 60 ->
  let r := p5_parameter_command ok now p cmd in
  snd r = TDone -> q_answer (fst r) = 1 -> q_pt_offset (fst r) = msec (mc_p1 cmd).
Proof. exact p5_track_correction_readback. Qed.
Print Assumptions C05_acu_track_time_correction_readback.

(* acknowledged time source: timeSource = the integer part of the parameter, one of 1, 2, 3 *)
Theorem C05_acu_time_source_readback : forall ok now p cmd, length cmd = 26%nat -> pc_id cmd = 50 ->
  let r := p5_parameter_command ok now p cmd in
  snd r = TDone -> q_answer (fst r) = 1 ->
  q_time_source (fst r) = Ztrunc (B2R (mc_p1 cmd)) /\ 1 <= q_time_source (fst r) <= 3.
Proof. exact p5_time_source_readback. Qed.
Print Assumptions C05_acu_time_source_readback.

(* acknowledged time offset, mode k = integer part of parameter 1: actTimeOffset is the previous
   fraction +- one second's day fraction (modes 1, 2), or the day fraction [dp now us] of the
   offset rounded to us microseconds as timedelta(seconds=..) rounds it (mode 3), or the previous
   value plus that (mode 4).  [dp now 0] is the fraction of the *current* day (known finding
   acu_time_offset_zero_reads_clock); for us <> 0 it is [day_fraction us]. *)
Theorem C05_acu_time_offset_readback : forall ok now p cmd, length cmd = 26%nat -> pc_id cmd = 51 ->
  let r := p5_parameter_command ok now p cmd in
  snd r = TDone -> q_answer (fst r) = 1 ->
  time_off_spec now (q_time_off p) (Ztrunc (B2R (mc_p1 cmd))) (mc_p2 cmd) (q_time_off (fst r)).
Proof. exact p5_time_offset_readback. Qed.
Print Assumptions C05_acu_time_offset_readback.

(* ---- non-vacuity and the values of the demo ---- *)

Definition ex_cmd (sub pid p1bits : Z) : list Z :=
  [2; 0] ++ le_enc 2 sub ++ [9; 0; 0; 0] ++ le_enc 2 pid ++ le_enc 8 p1bits ++ le_enc 8 0.

(* 1.001 s -> 1001 ms, 1.005 s -> 1005 ms, -0.029 s -> -29 ms, 0.0005 s -> 0 ms (tie to even),
   0.0015 s -> 2 ms; 86400000.5 s refused (answer 5), field unchanged *)
Example C05_acu_ex_track_correction :
  map (fun b => let r := p5_parameter_command true (f_of_Z 0) p5_init (ex_cmd 5 60 b) in
                (q_answer (fst r), q_pt_offset (fst r)))
      [4607186922399644778; 4607204936798154260; 13807387939171599385; 4557750909289998844;
       4564560351926583034; 4725570615367434240]
  = [(1, 1001); (1, 1005); (1, -29); (1, 0); (1, 2); (5, 0)].
Proof. vm_compute. reflexivity. Qed.

(* known finding: a stored value that cannot be represented kills the handler after the counter
   was written; the answer of the previous command stays (here 1) *)
Example C05_acu_stale_answer_refuted :
  let p1 := fst (p5_parameter_command true (f_of_Z 0) p5_init (ex_cmd 5 60 4607186922399644778)) in
  let r := p5_parameter_command true (f_of_Z 0) p1 (ex_cmd 5 60 4703696862291427328) in   (* 3000000.0 s *)
  snd r = TDied /\ q_answer (fst r) = 1 /\ q_pt_offset (fst r) = 1001.
Proof. vm_compute. repeat split; reflexivity. Qed.
