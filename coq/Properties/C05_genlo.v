(* C05, generic LO part (code with fixes/27 applied) — register catalogue:
     power      write `POWER <tok> dBm`   read `POWER?`   encoding str(int(tok))
     frequency  write `FREQ <tok> MHZ`    read `FREQ?`    encoding str(int(round(float(tok)*1e6)))  (Hz)
   The protocol never acknowledges a write on the wire (the setters return booleans, parse returns
   True): "acknowledged" is "accepted", i.e. int(tok) / float(tok) is defined and in range.
   [fl] is the oracle for float(tok): FErr (ValueError), FNonFinite (value in Hz not finite),
   FFin hz repr.  Statements only. *)
From DS Require Import Base.Prelude Model.SmbCommon Model.SmbGenLO Proofs.SmbCommon Proofs.SmbGenLO.

(* for EVERY clean token the line is setPower([tok, 'dBm']) *)
Theorem C05_genlo_power_write : forall fl d tok, clean_token tok ->
  g_exec fl d (g_write_power tok) = (g_set_power d [tok; G_DBM], OTrue).
Proof. exact g_write_power_exec. Qed.
Print Assumptions C05_genlo_power_write.

(* accepted write, ANY history of lines without a POWER command, read-back = str(int(tok)) *)
Theorem C05_genlo_power_readback : forall fl d tok v ls, clean_token tok -> py_int tok = Some v ->
  Forall (fun l => g_line_mentions G_POWER l = false) ls ->
  let d2 := fst (exec_lines (g_exec fl) (fst (g_exec fl d (g_write_power tok))) ls) in
  g_exec fl d2 G_POWERQ = (d2, OReply (dec v ++ [LF])).
Proof. exact g_power_readback. Qed.
Print Assumptions C05_genlo_power_readback.

(* refused write (not an integer literal): the whole device state is unchanged *)
Theorem C05_genlo_power_refused : forall fl d tok, clean_token tok -> py_int tok = None ->
  g_exec fl d (g_write_power tok) = (d, OTrue).
Proof. exact g_write_power_refused. Qed.
Print Assumptions C05_genlo_power_refused.

Theorem C05_genlo_freq_readback : forall fl d tok hz rp ls, clean_token tok -> fl tok = FFin hz rp ->
  Forall (fun l => g_line_mentions G_FREQ l = false) ls ->
  let d2 := fst (exec_lines (g_exec fl) (fst (g_exec fl d (g_write_freq tok))) ls) in
  g_exec fl d2 G_FREQQ = (d2, OReply (dec hz ++ [LF])).
Proof. exact g_freq_readback. Qed.
Print Assumptions C05_genlo_freq_readback.

(* refused write (not a number, or NaN / infinite / overflowing in Hz): device unchanged *)
Theorem C05_genlo_freq_refused : forall fl d tok, clean_token tok ->
  (fl tok = FErr \/ fl tok = FNonFinite) -> g_exec fl d (g_write_freq tok) = (d, OTrue).
Proof. exact g_write_freq_refused. Qed.
Print Assumptions C05_genlo_freq_refused.

Example C05_genlo_ex_token : clean_token [49; 46; 53] /\ py_int [45; 55] = Some (-7) /\ py_int [49; 46; 53] = None.
Proof.
  split; [|split; reflexivity]. split; [discriminate|].
  intros x [<-|[<-|[<-|[]]]]; split; (reflexivity || discriminate).
Qed.
Example C05_genlo_ex :
  let fl := fl_of_table [([49; 46; 53], FFin 1500000 [49; 46; 53])] in
  snd (g_run fl g_start (lines_bytes [g_write_freq [49; 46; 53]; g_write_power [45; 55]; G_FREQQ ++ [SEMI] ++ G_POWERQ])) =
  repeat OTrue 13 ++ repeat OTrue 13 ++ repeat OTrue 12 ++ [OReply [49; 53; 48; 48; 48; 48; 48; 59; 45; 55; 10]].
Proof. reflexivity. Qed.
