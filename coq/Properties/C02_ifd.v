(* C02, IFD part — from every reachable idle state the status query `? i` of each of the 21 boards
   yields exactly one reply (True for every byte but the last), which is the status line of board i;
   registers unchanged, framer idle afterwards. *)
From DS Require Import Base.Prelude Model.SmaCommon Model.SmaIfd Proofs.SmaFramer.
From DS Require Import Proofs.SmaIfdProofs.

Theorem C02_ifd_queries_answered : forall e (s : ifd_state) (i t : Z),
  ifd_reachable e s -> ifd_idle s = true -> 0 <= i < 21 -> ifd_is_tail t = true ->
  exists r, snd (ifd_run e s (ifd_line_status i ++ [t])) =
              repeat OTrue (length (ifd_line_status i)) ++ [OReply r] /\
            ifd_wf_reply r /\
            (exists brd, board_ok i brd /\ r = ifd_status_reply brd) /\
            dev (fst (ifd_run e s (ifd_line_status i ++ [t]))) = dev s /\
            ifd_idle (fst (ifd_run e s (ifd_line_status i ++ [t]))) = true.
Proof. exact ifd_queries_answered. Qed.
Print Assumptions C02_ifd_queries_answered.

Example C02_ifd_reachable_nontrivial :
  let s := fst (ifd_run env_w ifd_init ([65; 32; 55; 32; 49; 32; 51; 10] ++ line_A503)) in
  ifd_reachable env_w s /\ ifd_idle s = true /\
  option_map b_att (get_board (dev s) 7) = Some [63; 6; 63; 63].
Proof. exact ifd_reachable_example. Qed.
