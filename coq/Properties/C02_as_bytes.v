(* C02, active-surface part, byte level — states driven into by ANY sequence of bytes.  Statement
   only; proof in Proofs/UsdBytes.v.  The byte-wise framer (System.parse), the checksum / address /
   dispatch of System._parse and the handlers are the line model of C03/C11 (Model/AslLine.v, tag Asl:
   [alrun] = AslLine.lrun), instantiated with the USD model (Model/UsdModel.v) through [usd_sem]
   (Proofs/UsdLineLink.v); the resynchronisation condition is Asl's C03_as_resync (10 bytes that
   cannot start a command). *)
From DS Require Import Base.Prelude Base.Bits Model.Utils Model.UsdModel Spec.UsdSpec.
From DS Require Import Proofs.UsdMotion Proofs.UsdInv Proofs.UsdRefine Proofs.UsdHistory Proofs.UsdCatalogue.
From DS Require Import Model.AslLine Proofs.AslFrameProofs Proofs.AslLineProofs Proofs.AslReplyProofs.
From DS Require Import Proofs.UsdLineLink Proofs.UsdBytes.

(* For every line of units satisfying the invariant (in particular freshly built ones), every byte
   history [hist] (any bytes: commands accepted or refused, broadcasts, garbage, truncated frames,
   frames rejected at byte 2 or 3, bad checksums, unknown codes, ...), every resynchronisation
   sequence [resync] of at least 10 non-header bytes, each of the four queries, both start bytes and
   every address [idx] of the line: the four bytes of the query produce True, True, True and then
   exactly one outcome [o] - nothing in the documented silent mode (delay multiplier 255), else ONE
   reply that is a well-formed answer frame carrying the value held by the addressed unit - and the
   parser is idle again with the units unchanged. *)
Theorem C02_as_bytes_then_query : forall min drv hist resync start idx code,
  Forall Inv drv -> bytes hist -> bytes resync -> Forall non_header resync ->
  (10 <= length resync)%nat -> is_header start = true -> In code [16; 18; 19; 20] ->
  0 <= idx <= 31 -> 0 <= idx - min < Z.of_nat (length drv) ->
  exists drv1 os u o,
    alrun (mkL min drv finit) (hist ++ resync) = (mkL min drv1 finit, os) /\
    nth_error drv1 (Z.to_nat (idx - min)) = Some u /\ Inv u /\
    alrun (mkL min drv finit) ((hist ++ resync) ++ frame_of (QUni start idx code [])) =
      (mkL min drv1 finit, os ++ [OTrue; OTrue; OTrue; o]) /\
    (if delay_multiplier u =? 255 then o = OTrue
     else exists r, o = OReply r /\ answer_frame start idx (payload_of code u) r).
Proof. exact bytes_then_query. Qed.
Print Assumptions C02_as_bytes_then_query.

(* non-vacuity: a frame rejected at its second byte (FA 01: length bits 000, address 1), ten
   non-header bytes, then get_position to unit 2 of a line 1..3 *)
Example C02_as_bytes_ex :
  snd (alrun (mkL 1 (map usd_init [1; 2; 3]) finit)
         ([250; 1] ++ repeat 0 10 ++ frame_of (QUni 252 2 18 [])))
  = [OTrue; OValueError] ++ repeat OFalse 10 ++ [OTrue; OTrue; OTrue;
     OReply [6; 252; 130; 0; 0; 0; 0; 123]].
Proof. vm_compute. reflexivity. Qed.
