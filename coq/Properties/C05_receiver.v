(* C05, receiver part -- acknowledged writes read back exactly; refused writes change nothing.
   Statements only; proofs in Proofs/RcvRegisters.v.

   The theorems are about one board and the commands it executes (exec): by C18_unicast_once and the
   broadcast loop a board's state changes in the System only through such steps.  A history is a list of
   board commands `BC keys kind extended? id params` (any kinds, any parameters, either form, refused or
   accepted); `quiet W bt h` says that no step of the history is an ACKNOWLEDGED write selected by W --
   refused writes of the same quantity, resets and anything else may occur.
   Registers covered: frame size, address, the port/data map through set_port/get_port (every board
   type) and set_data/get_data (generic board), the writable DIO bits of the Dewar board.
   Not theorems (the code violates them; witnesses below, known findings of class receiver_...): Dewar/Switch
   set_data acknowledges and ignores writes to keys that are not writable DIO bits; DIO ports 11 and 12
   alias one register; the amplifier writes are write-only.  (The Switch board's DIO bits also have the
   write/other-bit lemmas below, next to their history theorem C05_receiver_switch_bit_readback.) *)
From DS Require Import Base.Prelude Gen.RcvTables Model.RcvModel Proofs.RcvAssoc Proofs.RcvProofs Proofs.RcvBoards Proofs.RcvFraming Proofs.RcvRegisters.

(* refused write (any board, any write command, any parameters): nothing but the inquiry record changes *)
Theorem C05_receiver_refused_write_unchanged : forall clk mkdate render keys b t k ext cid p code ex,
  is_write k = true -> e_ans (exec clk mkdate render keys b t k ext cid p) = Some (code, ex) ->
  code <> CMD_ACK ->
  mask_last (e_board (exec clk mkdate render keys b t k ext cid p)) = mask_last b.
Proof. exact refused_write_unchanged. Qed.
Print Assumptions C05_receiver_refused_write_unchanged.

(* queries change nothing but the inquiry record either *)
Theorem C05_receiver_read_unchanged : forall clk mkdate render keys b t k ext cid p,
  is_write k = false -> k <> KReset ->
  mask_last (e_board (exec clk mkdate render keys b t k ext cid p)) = mask_last b.
Proof. exact read_unchanged. Qed.
Print Assumptions C05_receiver_read_unchanged.

Theorem C05_receiver_frame_readback : forall clk mkdate render keys b t ext cid f ex h keys' ext' cid' p',
  e_ans (exec clk mkdate render keys b t KSetFrame ext cid [f]) = Some (CMD_ACK, ex) ->
  let bt1 := (e_board (exec clk mkdate render keys b t KSetFrame ext cid [f]),
              e_tick (exec clk mkdate render keys b t KSetFrame ext cid [f])) in
  quiet clk mkdate render (fun c => kind_of c = KSetFrame) bt1 h ->
  e_ans (bexec clk mkdate render (bsteps clk mkdate render bt1 h) (BC keys' KGetFrame ext' cid' p')) =
  Some (CMD_ACK, [1; f]).
Proof. exact frame_readback. Qed.
Print Assumptions C05_receiver_frame_readback.

Theorem C05_receiver_addr_readback : forall clk mkdate render keys b t ext cid a ex h keys' ext' cid' p',
  e_ans (exec clk mkdate render keys b t KSetAddr ext cid [a]) = Some (CMD_ACK, ex) ->
  let bt1 := (e_board (exec clk mkdate render keys b t KSetAddr ext cid [a]),
              e_tick (exec clk mkdate render keys b t KSetAddr ext cid [a])) in
  quiet clk mkdate render (fun c => kind_of c = KSetAddr) bt1 h ->
  e_ans (bexec clk mkdate render (bsteps clk mkdate render bt1 h) (BC keys' KGetAddr ext' cid' p')) =
  Some (CMD_ACK, [1; a]).
Proof. exact addr_readback. Qed.
Print Assumptions C05_receiver_addr_readback.

Theorem C05_receiver_port_readback : forall clk mkdate render keys b t ext cid dt pt pn v ex h keys' ext' cid',
  e_ans (exec clk mkdate render keys b t KSetPort ext cid [dt; pt; pn; v]) = Some (CMD_ACK, ex) ->
  let r := exec clk mkdate render keys b t KSetPort ext cid [dt; pt; pn; v] in
  quiet clk mkdate render (writes_key (dt, pt, pn)) (e_board r, e_tick r) h ->
  e_ans (bexec clk mkdate render (bsteps clk mkdate render (e_board r, e_tick r) h)
               (BC keys' KGetPort ext' cid' [dt; pt; pn])) =
  Some (CMD_ACK, with_data [dt; pt; pn; v]).
Proof. exact port_readback. Qed.
Print Assumptions C05_receiver_port_readback.

(* the data map of the generic board: write, read, and (ports_keep) invariance under everything that is
   not an acknowledged write of the same key *)
Theorem C05_receiver_data_write_slave : forall clk mkdate render keys c t ext cid dt pt pn v ex,
  v <> [] ->
  e_ans (exec clk mkdate render keys (mkBoard c KSlave) t KSetData ext cid (dt :: pt :: pn :: v)) = Some (CMD_ACK, ex) ->
  port_reg (e_board (exec clk mkdate render keys (mkBoard c KSlave) t KSetData ext cid (dt :: pt :: pn :: v)))
           (dt, pt, pn) = Some v.
Proof. exact set_data_write_slave. Qed.
Print Assumptions C05_receiver_data_write_slave.

Theorem C05_receiver_data_read_slave : forall clk mkdate render keys c t ext cid dt pt pn,
  check_key dt pt pn = None ->
  e_ans (exec clk mkdate render keys (mkBoard c KSlave) t KGetData ext cid [dt; pt; pn]) =
  Some (CMD_ACK, with_data ([dt; pt; pn] ++ match port_reg (mkBoard c KSlave) (dt, pt, pn) with
                                             | Some v => v | None => [0] end)).
Proof. exact get_data_read_slave. Qed.
Print Assumptions C05_receiver_data_read_slave.

Theorem C05_receiver_ports_keep : forall clk mkdate render keys b t k ext cid p ky,
  ~ ((k = KSetPort \/ k = KSetData) /\ key_of_params p = Some ky /\
     acked (exec clk mkdate render keys b t k ext cid p)) ->
  port_reg (e_board (exec clk mkdate render keys b t k ext cid p)) ky = port_reg b ky.
Proof. exact ports_keep. Qed.
Print Assumptions C05_receiver_ports_keep.

(* writable DIO bits of the Dewar board (ports 0,4,5,7,8,11,12,13,14 -- the chain read from slaves.py) *)
Theorem C05_receiver_dewar_bit_readback : forall clk mkdate render keys c d t ext cid pn x ex h keys' ext' cid',
  In pn DEWAR_set_data_ports ->
  e_ans (exec clk mkdate render keys (mkBoard c (KDewar d)) t KSetData ext cid (dio_params pn x)) = Some (CMD_ACK, ex) ->
  let r := exec clk mkdate render keys (mkBoard c (KDewar d)) t KSetData ext cid (dio_params pn x) in
  quiet clk mkdate render (writes_bit pn) (e_board r, e_tick r) h ->
  e_ans (bexec clk mkdate render (bsteps clk mkdate render (e_board r, e_tick r) h)
               (BC keys' KGetData ext' cid' [DATA_TYPE_B01; PORT_TYPE_DIO; pn])) =
  Some (CMD_ACK, with_data [DATA_TYPE_B01; PORT_TYPE_DIO; pn; x]).
Proof. exact dewar_bit_readback. Qed.
Print Assumptions C05_receiver_dewar_bit_readback.

Theorem C05_receiver_switch_bit_write : forall d w pn x d' w', In pn SWITCH_set_data_ports ->
  switch_set d w pn x = (d', w') -> switch_get d' w' pn = x.
Proof. exact switch_set_get_same. Qed.
Print Assumptions C05_receiver_switch_bit_write.

Theorem C05_receiver_switch_bit_other : forall d w pn pn' x d' w', In pn SWITCH_set_data_ports ->
  pn' <> pn -> ~ alias pn pn' -> switch_set d w pn' x = (d', w') -> switch_get d' w' pn = switch_get d w pn.
Proof. exact switch_set_get_other. Qed.
Print Assumptions C05_receiver_switch_bit_other.

(* writable DIO bits of the Switch board (ports 0,1,2,4,5,7,8,11,12,13,14) *)
Theorem C05_receiver_switch_bit_readback : forall clk mkdate render keys c d w t ext cid pn x ex h keys' ext' cid',
  In pn SWITCH_set_data_ports ->
  e_ans (exec clk mkdate render keys (mkBoard c (KSwitch d w)) t KSetData ext cid (dio_params pn x)) = Some (CMD_ACK, ex) ->
  let r := exec clk mkdate render keys (mkBoard c (KSwitch d w)) t KSetData ext cid (dio_params pn x) in
  quiet clk mkdate render (writes_bit pn) (e_board r, e_tick r) h ->
  e_ans (bexec clk mkdate render (bsteps clk mkdate render (e_board r, e_tick r) h)
               (BC keys' KGetData ext' cid' [DATA_TYPE_B01; PORT_TYPE_DIO; pn])) =
  Some (CMD_ACK, with_data [DATA_TYPE_B01; PORT_TYPE_DIO; pn; x]).
Proof. exact switch_bit_readback. Qed.
Print Assumptions C05_receiver_switch_bit_readback.

(* witnesses of what the code violates (known findings) *)
Theorem C05_receiver_dewar_data_ack_ignored_refuted :
  let b := init_board 1 1 5 in
  let key := [DATA_TYPE_U08; PORT_TYPE_AD; PORT_NUMBER_00] in
  let w := rexec [5] b 0%nat KSetData false 0 (key ++ [7]) in
  e_ans w = Some (CMD_ACK, []) /\
  e_ans (rexec [5] (e_board w) (e_tick w) KGetData false 1 key) = Some (CMD_ACK, with_data (key ++ [0])).
Proof. exact dewar_data_ack_ignored_refuted. Qed.
Print Assumptions C05_receiver_dewar_data_ack_ignored_refuted.

Theorem C05_receiver_dewar_alias_refuted :
  let b := init_board 1 1 5 in
  let w1 := rexec [5] b 0%nat KSetData false 0 (dio_params PORT_NUMBER_11 1) in
  let w2 := rexec [5] (e_board w1) (e_tick w1) KSetData false 1 (dio_params PORT_NUMBER_12 0) in
  e_ans w1 = Some (CMD_ACK, []) /\ e_ans w2 = Some (CMD_ACK, []) /\
  e_ans (rexec [5] (e_board w2) (e_tick w2) KGetData false 2 [DATA_TYPE_B01; PORT_TYPE_DIO; PORT_NUMBER_11]) =
  Some (CMD_ACK, with_data [DATA_TYPE_B01; PORT_TYPE_DIO; PORT_NUMBER_11; 0]).
Proof. exact dewar_alias_refuted. Qed.
Print Assumptions C05_receiver_dewar_alias_refuted.

Theorem C05_receiver_lna_write_only_refuted :
  let b := init_board 3 2 5 in
  let key := [DATA_TYPE_B01; PORT_TYPE_DIO; PORT_NUMBER_08] in
  let w := rexec [5] b 0%nat KSetData false 0 (key ++ [1]) in
  e_ans w = Some (CMD_ACK, []) /\
  e_ans (rexec [5] (e_board w) (e_tick w) KGetData false 1 key) = Some (CMD_ACK, with_data (key ++ [0])).
Proof. exact lna_write_only_refuted. Qed.
Print Assumptions C05_receiver_lna_write_only_refuted.
