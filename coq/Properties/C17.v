(* C17 — Program-track loads are validated atomically and the trajectory honours them.
   Statements only; every proof is `exact` of a lemma in Proofs/Atrk*.v.
   Model: Model/AtrkModel.v = PointingStatus._program_track_parameter_command and the tracking
   part of update_status of simulators/acu/pointing_status.py as repaired by
   fixes/14-acu-track-atomic-validation.diff.

   The statement, at full strength:
     (a) load accepted  <->  acceptable                         [for every header, 0.. points, any times]
     (b) refused load (answer 5): table, tracking state, trajectory untouched
     (c) after an accepted load the trajectory passes through every loaded point inside the
         operating range at its time, within 1 microdegree
     (d) tracking state: off, enabled, running at the start time, completed after the last
         point, ending on the last loaded coordinates.
   (b) and (d) are proved as stated, for all histories.  (a) is proved in the form
   accepted <-> acceptable /\ feasible; [feasible] excludes exactly the three input classes of
   known/C17.txt (start time that is not a date or track ending after the last representable date,
   coordinate that is not an INT32 in microdegrees, append leaving fewer than 4 points), in which the rule of the statement cannot be honoured;
   C17_accept_iff_refuted_* are the witnesses.  (c) is proved under the hypothesis [interpolates]
   on the spline (scipy is not modelled): partial, the hypothesis is checked on the real scipy
   by the oracle of props/c17.py. *)
From DS Require Import Base.Prelude Model.AtrkModel Proofs.AtrkSpec Proofs.AtrkLoad Proofs.AtrkAdvance.
From DS Require Import Proofs.AtrkTrack Proofs.AtrkExamples.
From Coq Require Import QArith_base.
#[local] Close Scope Q_scope.
#[local] Open Scope Z_scope.

(* ---- (a) acceptance ---- *)

(* Full statement (refuted on the three known classes):
     forall st h es, inv st -> (ans (load st h es) = 1 <-> h_param h = 61 /\ acceptable st h es). *)
Theorem C17_accept_iff_except : forall st h es, inv st ->
  (ans (load st h es) = 1 <-> h_param h = 61 /\ acceptable st h es /\ feasible st h es).
Proof. exact accept_iff. Qed.
Print Assumptions C17_accept_iff_except.

Theorem C17_accept_iff_refuted : exists st h es,
  inv st /\ h_param h = 61 /\ acceptable st h es /\ ans (load st h es) = 5.
Proof. exact accept_iff_refuted. Qed.
Print Assumptions C17_accept_iff_refuted.

Theorem C17_accept_iff_refuted_start_time :
  inv st0 /\ acceptable st0 (hdr 7 1 None) five /\ ans (load st0 (hdr 7 1 None) five) = 5.
Proof. exact refuted_start. Qed.
Print Assumptions C17_accept_iff_refuted_start_time.

Theorem C17_accept_iff_refuted_end_time :
  inv st0 /\ acceptable st0 hdr_late five /\ ans (load st0 hdr_late five) = 5.
Proof. exact refuted_end. Qed.
Print Assumptions C17_accept_iff_refuted_end_time.

Theorem C17_accept_iff_refuted_coordinate :
  inv st0 /\ acceptable st0 (hdr 7 1 (Some 100)) five_nan /\
  ans (load st0 (hdr 7 1 (Some 100)) five_nan) = 5.
Proof. exact refuted_coord. Qed.
Print Assumptions C17_accept_iff_refuted_coordinate.

Theorem C17_accept_iff_refuted_short_append :
  inv st_last /\ acceptable st_last (hdr 8 2 (Some 100)) [ent 5000 183500000 75000000] /\
  ans (load st_last (hdr 8 2 (Some 100)) [ent 5000 183500000 75000000]) = 5.
Proof. exact refuted_short. Qed.
Print Assumptions C17_accept_iff_refuted_short_append.

(* the answer is 0 (not a table load), 1 (accepted) or 5 (refused) *)
Theorem C17_answer_domain : forall st h es,
  (ans (load st h es) = 0 \/ ans (load st h es) = 1 \/ ans (load st h es) = 5) /\
  (ans (load st h es) = 0 <-> h_param h <> 61).
Proof. exact answer_domain. Qed.
Print Assumptions C17_answer_domain.

(* ---- (b) a refused load is atomic: in every state (reachable or not) ---- *)
Theorem C17_refused_atomic : forall st h es, ans (load st h es) <> 1 ->
  same_track (load st h es) st /\ cnt (load st h es) = h_cnt h /\ cmd (load st h es) = h_param h /\
  (ans (load st h es) = 0 \/ ans (load st h es) = 5).
Proof. exact refused_atomic. Qed.
Print Assumptions C17_refused_atomic.

(* what an accepted load stores: the old table (none for a new table) followed by the received
   points, the spline of exactly that table, its length, its last coordinates, the start time *)
Theorem C17_accepted_effect : forall st h es, ans (load st h es) = 1 ->
  exists s new,
    h_start h = Some s /\
    Forall2 (fun e p => mk_point e = Some p) es new /\
    tbl (load st h es) = base st h ++ new /\
    tck (load st h es) = Some (tbl (load st h es)) /\
    start (load st h es) = Some s /\
    pt_len (load st h es) = Z.of_nat (length (tbl (load st h es))) /\
    lastc (load st h es) = option_map (fun lp => (p_az lp, p_el lp)) (last_opt (tbl (load st h es))) /\
    pt_state (load st h es) = (if h_mode h =? 1 then 2 else if pt_state st =? 3 then 3 else 2) /\
    az_bahn (load st h es) = az_bahn st /\ el_bahn (load st h es) = el_bahn st.
Proof. exact accepted_effect. Qed.
Print Assumptions C17_accepted_effect.

(* ---- histories: every state reached from the initial one by any sequence of loads and
   refreshes (with any spline values) satisfies the invariant ---- *)
Theorem C17_reachable_inv : forall lim az0 el0 evs st,
  run lim (init az0 el0) evs = Some st -> inv st.
Proof. exact reachable_inv. Qed.
Print Assumptions C17_reachable_inv.

(* a refresh can only raise through the unclamped v_Bahn / a_Bahn fields (known class
   trajectory_rate_overflows_int32) *)
Theorem C17_refresh_total : forall lim sv0 sve st x, inv st -> s_fits sve = true ->
  exists st', advance lim sv0 sve st x = Some st'.
Proof. exact advance_total. Qed.
Print Assumptions C17_refresh_total.

(* a refresh never touches the splines, the start time, the last coordinates or the answer *)
Theorem C17_refresh_keeps : forall lim sv0 sve st x st', advance lim sv0 sve st x = Some st' ->
  tck st' = tck st /\ start st' = start st /\ lastc st' = lastc st /\
  cnt st' = cnt st /\ cmd st' = cmd st /\ ans st' = ans st /\ pt_id st' = pt_id st /\
  interp st' = interp st.
Proof. exact advance_keeps. Qed.
Print Assumptions C17_refresh_keeps.

(* ---- (d) the tracking state machine ---- *)
Theorem C17_first_load_enables : forall st h es, inv st -> pt_state st = 0 ->
  ans (load st h es) = 1 -> pt_state (load st h es) = 2 /\ h_mode h = 1.
Proof. exact first_load_enables. Qed.
Print Assumptions C17_first_load_enables.

(* one refresh at elapsed time x (exact rational value of the double the code computes):
   off and completed stay; an enabled track waits while x < 0; otherwise it is running while
   x is not after the last point (the table keeps exactly the points at or after x, the
   trajectory is the spline at x, clamped to the operating range) and completed once x is after
   the last point (table emptied, trajectory on the last loaded coordinates) *)
Theorem C17_refresh_states : forall lim sv0 sve st x st',
  inv st -> advance lim sv0 sve st x = Some st' ->
  (pt_state st = 0 -> st' = st) /\
  (pt_state st = 4 -> pt_state st' = 4 /\ tbl st' = [] /\
                      az_bahn st' = az_bahn st /\ el_bahn st' = el_bahn st) /\
  (live st -> forall lp, last_opt (tbl st) = Some lp ->
     (waits st x ->
        pt_state st' = 2 /\ tbl st' = tbl st /\
        (az_bahn st', el_bahn st') = bahn_of lim (s_az sv0) (s_el sv0)) /\
     (~ waits st x -> zltq (p_t lp) x = true ->
        pt_state st' = 4 /\ tbl st' = [] /\ pt_len st' = 0 /\
        (az_bahn st', el_bahn st') = bahn_of lim (p_az lp) (p_el lp)) /\
     (~ waits st x -> zltq (p_t lp) x = false ->
        pt_state st' = 3 /\
        tbl st' = filter (fun p => negb (before x p)) (tbl st) /\
        pt_len st' = Z.of_nat (length (tbl st')) /\
        (az_bahn st', el_bahn st') = bahn_of lim (s_az sve) (s_el sve) /\
        az_next st' = option_map p_az (hd_error (tbl st')) /\
        el_next st' = option_map p_el (hd_error (tbl st')))).
Proof. exact refresh_states. Qed.
Print Assumptions C17_refresh_states.

(* over a whole history the state only moves along off -> enabled -> running -> completed
   (a new table re-enables) *)
Theorem C17_state_edges : forall lim st ev st', inv st -> step lim st ev = Some st' ->
  edge (pt_state st) (pt_state st').
Proof. exact step_edge. Qed.
Print Assumptions C17_state_edges.

(* ---- (c) and the end of (d), for any spline function that interpolates ---- *)
Theorem C17_through_points_partial : forall spl lim st tb p,
  interpolates spl -> inv st -> live st -> tck st = Some tb -> In p tb -> in_range lim p ->
  s_fits (spl tb (zq (p_t p))) = true ->
  exists st', refresh spl lim st (zq (p_t p)) = Some st' /\ pt_state st' = 3 /\
    Z.abs (az_bahn st' - p_az p) <= 1 /\ Z.abs (el_bahn st' - p_el p) <= 1.
Proof. exact through_points. Qed.
Print Assumptions C17_through_points_partial.

Theorem C17_completes_on_last : forall spl lim st lp x,
  inv st -> live st -> last_opt (tbl st) = Some lp -> ~ waits st x -> zltq (p_t lp) x = true ->
  exists st', refresh spl lim st x = Some st' /\ pt_state st' = 4 /\ tbl st' = [] /\
    (az_bahn st', el_bahn st') = bahn_of lim (p_az lp) (p_el lp) /\
    (in_range lim lp -> az_bahn st' = p_az lp /\ el_bahn st' = p_el lp).
Proof. exact completes_on_last. Qed.
Print Assumptions C17_completes_on_last.

(* ---- non-vacuity ---- *)
Example C17_ex_accept : ans (load st0 (hdr 7 1 (Some 100)) five) = 1 /\
  acceptable st0 (hdr 7 1 (Some 100)) five /\ feasible st0 (hdr 7 1 (Some 100)) five.
Proof. exact (conj accept_five acceptable_five). Qed.

Example C17_ex_live_state : inv st_last /\ pt_state st_last = 3 /\ times (tbl st_last) = [4000].
Proof. exact (conj st_last_inv (conj (proj1 st_last_shape) (proj1 (proj2 st_last_shape)))). Qed.

Example C17_ex_track :
  pt_state tr1 = 2 /\
  option_map pt_state tr2 = Some 2 /\
  option_map pt_state tr3 = Some 3 /\
  option_map (fun s => times (tbl s)) tr3 = Some [2000; 3000; 4000] /\
  option_map az_bahn tr3 = Some 182000000 /\
  option_map pt_state tr4 = Some 4 /\
  option_map tbl tr4 = Some [] /\
  option_map (fun s => (az_bahn s, el_bahn s)) tr4 = Some (183000000, 76000000).
Proof. exact whole_track. Qed.

Example C17_ex_interpolates : interpolates spl_lookup.
Proof. exact interpolates_satisfiable. Qed.
