(* C16 — statements only. *)
From Coq Require Import String.
From DS Require Import Base.Prelude Model.AlayModel Model.AlayGolden Gen.AlayLayout Proofs.AlayProofs.

Theorem C16_gen_is_golden_gs : AlayLayout.gs_table = AlayGolden.gs_table /\ AlayLayout.gs_size = AlayGolden.gs_size.
Proof. exact gen_is_golden_gs. Qed.
Print Assumptions C16_gen_is_golden_gs.
