(* C16 — Every ACU status frame is complete, correctly laid out, mirrors the subsystems.
   Statements only; every proof is `exact` of a lemma in Proofs/Alay*.v.

   Vocabulary (Model/AlayModel.v, Model/AlayWf.v): a status block is a list of bytes; a layout
   table lists one [field] per property of a status class; [get f b] / [set e f v b] model the
   property getter / setter ([None] = the setter raised); [layout_ok size t] is the decidable
   well-formedness of a table (fields inside the block, bit fields in bit order, pairwise disjoint
   byte ranges or distinct bits of one word, unique names); [accepts e f v] is the documented
   domain of a field; [stored e f v] is the value an accepted assignment stores.
   The tables AlayLayout.* are generated from the current source on every run. *)
From Coq Require Import String.
From DS Require Import Base.Prelude Base.Bits Model.Utils Model.UtilsF32.
From DS Require Import Model.AlayModel Model.AlayWf Model.AlayPs Model.AlayGolden Gen.AlayLayout.
From DS Require Import Proofs.AlayLists Proofs.AlayProofs Proofs.AlayFrame Proofs.AlayInst Proofs.AlayLimits.
From DS Require Import Proofs.AlayReal32 Proofs.AlayPsProofs.

(* ---------- the tie: generated layout = committed Golden layout ---------- *)
Theorem C16_gen_is_golden_gs : AlayLayout.gs_table = AlayGolden.gs_table /\ AlayLayout.gs_size = AlayGolden.gs_size.
Proof. exact gen_golden_gs. Qed.
Print Assumptions C16_gen_is_golden_gs.
Theorem C16_gen_is_golden_axis : AlayLayout.axis_table = AlayGolden.axis_table /\ AlayLayout.axis_size = AlayGolden.axis_size.
Proof. exact gen_golden_axis. Qed.
Print Assumptions C16_gen_is_golden_axis.
Theorem C16_gen_is_golden_motor : AlayLayout.motor_table = AlayGolden.motor_table /\ AlayLayout.motor_size = AlayGolden.motor_size.
Proof. exact gen_golden_motor. Qed.
Print Assumptions C16_gen_is_golden_motor.
Theorem C16_gen_is_golden_ps : AlayLayout.ps_table = AlayGolden.ps_table /\ AlayLayout.ps_size = AlayGolden.ps_size.
Proof. exact gen_golden_ps. Qed.
Print Assumptions C16_gen_is_golden_ps.
Theorem C16_gen_is_golden_fs : AlayLayout.fs_table = AlayGolden.fs_table /\ AlayLayout.fs_size = AlayGolden.fs_size.
Proof. exact gen_golden_fs. Qed.
Print Assumptions C16_gen_is_golden_fs.
Theorem C16_gen_is_golden_frame :
  AlayLayout.frame_size = AlayGolden.frame_size /\ AlayLayout.start_flag = AlayGolden.start_flag /\
  AlayLayout.end_flag = AlayGolden.end_flag /\ AlayLayout.length_field = AlayGolden.length_field /\
  AlayLayout.block_order = AlayGolden.block_order /\ AlayLayout.clock_read = AlayGolden.clock_read /\
  AlayLayout.mode_codes = AlayGolden.mode_codes.
Proof. exact gen_golden_frame. Qed.
Print Assumptions C16_gen_is_golden_frame.
Theorem C16_gen_is_golden_env :
  AlayLayout.env_AZ = AlayGolden.env_AZ /\ AlayLayout.env_EL = AlayGolden.env_EL /\
  AlayLayout.env_CW = AlayGolden.env_CW /\ AlayLayout.env_default = AlayGolden.env_default.
Proof. exact gen_golden_env. Qed.
Print Assumptions C16_gen_is_golden_env.

(* ---------- the generated tables are well formed and leave no hole in any block ---------- *)
Theorem C16_layout_ok :
  layout_ok AlayLayout.gs_size AlayLayout.gs_table = true /\
  layout_ok AlayLayout.axis_size AlayLayout.axis_table = true /\
  layout_ok AlayLayout.motor_size AlayLayout.motor_table = true /\
  layout_ok AlayLayout.ps_size AlayLayout.ps_table = true /\
  layout_ok AlayLayout.fs_size AlayLayout.fs_table = true.
Proof. exact (conj gs_ok (conj axis_ok (conj motor_ok (conj ps_ok fs_ok)))). Qed.
Print Assumptions C16_layout_ok.

Theorem C16_no_gaps :
  tiles AlayLayout.gs_size AlayLayout.gs_table && tiles AlayLayout.axis_size AlayLayout.axis_table &&
  tiles AlayLayout.motor_size AlayLayout.motor_table && tiles AlayLayout.ps_size AlayLayout.ps_table &&
  tiles AlayLayout.fs_size AlayLayout.fs_table = true.
Proof. exact all_tile. Qed.
Print Assumptions C16_no_gaps.

(* ---------- accessors, for every table, field, block, value ---------- *)
(* a setter never changes the size of the block *)
Theorem C16_set_preserves_length : forall e f v b b', set e f v b = Some b' -> length b' = length b.
Proof. exact set_preserves_length. Qed.
Print Assumptions C16_set_preserves_length.

Theorem C16_set_preserves_bytes : forall size f, field_ok size f = true -> forall e b, length b = size -> bytes b ->
  forall v b', set e f v b = Some b' -> bytes b'.
Proof. exact set_preserves_bytes. Qed.
Print Assumptions C16_set_preserves_bytes.

(* after an accepted assignment the getter of that field returns the stored value *)
Theorem C16_get_set_same : forall size f, field_ok size f = true -> forall e b, length b = size -> bytes b ->
  forall v b', set e f v b = Some b' -> exists w, stored e f v = Some w /\ get f b' = Some w.
Proof. exact get_set_same. Qed.
Print Assumptions C16_get_set_same.

(* ... which is the assigned value itself for every canonical value: booleans, unsigned and signed
   integers (inside the axis limits +-1 for the clamped positions), doubles (bit patterns), full
   bit lists, non-negative version pairs *)
Theorem C16_numeric_field_decodes_to_value_assigned : forall size f e b v b',
  field_ok size f = true -> length b = size -> bytes b ->
  canonical e f v -> set e f v b = Some b' -> get f b' = Some v.
Proof. exact canonical_read_back. Qed.
Print Assumptions C16_numeric_field_decodes_to_value_assigned.

(* ---------- real32 fields: every representable single is read back exactly ----------
   [widen32 p] (Model/UtilsF32.v, C09) is the double struct.unpack('!f') yields for the 32-bit pattern
   p.  For every well-formed real32 field of any table, every block, every p that is not a signalling
   NaN (infinities, quiet NaNs, subnormals, signed zeros included): the assignment of that double is
   accepted and the getter returns exactly that double, i.e. narrow (widen p) = p through set / get.
   (A signalling NaN is quieted by the C cast: C09's recorded finding real32_snan_refuted.) *)
Theorem C16_real32_field_roundtrip : forall size f, field_ok size f = true -> fkind f = KReal32 ->
  forall e b p, length b = size -> bytes b -> 0 <= p < 2 ^ 32 -> is_snan32 p = false ->
  exists b', set e f (VReal (widen32 p)) b = Some b' /\ get f b' = Some (VReal (widen32 p)).
Proof. exact real32_field_roundtrip. Qed.
Print Assumptions C16_real32_field_roundtrip.

(* assigning one field changes the value of no other (settable) field of the table *)
Theorem C16_get_set_other : forall size f g, field_ok size f = true -> field_ok size g = true ->
  compat f g = true -> is_view g = false ->
  forall e b, length b = size -> bytes b -> forall v b', set e f v b = Some b' -> get g b' = get g b.
Proof. exact get_set_other. Qed.
Print Assumptions C16_get_set_other.

Theorem C16_table_fields_compatible : forall size t, layout_ok size t = true ->
  forall f g, In f t -> In g t -> fname f <> fname g ->
  field_ok size f = true /\ field_ok size g = true /\ compat f g = true.
Proof.
  exact (fun size t H f g Hf Hg Hn =>
           conj (table_field_ok size t H f Hf) (conj (table_field_ok size t H g Hg) (table_compat size t H f g Hf Hg Hn))).
Qed.
Print Assumptions C16_table_fields_compatible.

(* a value outside the documented domain (wrong type, code not listed, out of range) is refused *)
Theorem C16_set_refuses_out_of_domain : forall size f, field_ok size f = true -> forall e b v,
  ~ accepts e f v -> set e f v b = None.
Proof. exact set_refuses_out_of_domain. Qed.
Print Assumptions C16_set_refuses_out_of_domain.

(* ---------- every reachable block of a System: size, bytes, documented codes ---------- *)
Theorem C16_enum_invariant_step : forall size t, layout_ok size t = true -> forall e f v b b',
  In f t -> length b = size -> bytes b -> enum_ok t b = true -> set e f v b = Some b' -> enum_ok t b' = true.
Proof. exact enum_ok_preserved. Qed.
Print Assumptions C16_enum_invariant_step.

Theorem C16_system_blocks_good : forall k d b0 ops,
  nth_error sys_desc k = Some d -> nth_error AlayLayout.init_blocks k = Some b0 ->
  good (d_size d) (d_table d) (run_sets (d_table d) (d_env d) ops b0).
Proof. exact system_blocks_good. Qed.
Print Assumptions C16_system_blocks_good.

(* ---------- the frame ---------- *)
Theorem C16_frame_constants :
  AlayLayout.frame_size = 813%nat /\ AlayLayout.length_field = 813 /\
  offsets 12 block_sizes = [12; 37; 129; 221; 313; 340; 367; 394; 421; 448; 475; 502; 529; 556; 583; 610; 637;
                            664; 793]%nat /\
  (12 + fold_right Nat.add 0 block_sizes + 4 = 813)%nat /\ length sys_desc = 19%nat.
Proof. exact frame_constants. Qed.
Print Assumptions C16_frame_constants.

Theorem C16_frame_published : forall f0 ms blocks, frame0 = Some f0 -> 0 <= ms < 2 ^ 32 ->
  map (@length Z) blocks = block_sizes ->
  exists fr, frame_update f0 ms blocks = Some fr /\
    length fr = 813%nat /\
    slice 0 4 fr = AlayLayout.start_flag /\
    bytes_to_uint (slice 4 4 fr) true = Some 813 /\
    bytes_to_uint (slice 8 4 fr) true = Some ms /\
    slice 809 4 fr = AlayLayout.end_flag /\
    (forall k o blk, nth_error (offsets 12 block_sizes) k = Some o -> nth_error blocks k = Some blk ->
       slice o (length blk) fr = blk).
Proof. exact frame_published. Qed.
Print Assumptions C16_frame_published.

Theorem C16_clock_read_is_actTime :
  match find_field AlayLayout.ps_table "actTime"%string with
  | Some f => AlayLayout.clock_read = (664 + foff f, 664 + foff f + flen f)%nat /\ fkind f = KReal64
  | None => False
  end.
Proof. exact clock_read_is_actTime. Qed.
Print Assumptions C16_clock_read_is_actTime.

(* ---------- limit and rate warning bits agree with position and velocity ---------- *)
Theorem C16_limit_bits_agree : forall e b b', length b = AlayLayout.axis_size -> bytes b ->
  update_status_master AlayLayout.axis_table e b = Some b' ->
  exists p v,
    get_int AlayLayout.axis_table "p_Ist" b' = Some p /\ get_int AlayLayout.axis_table "v_Ist" b' = Some v /\
    get_int AlayLayout.axis_table "p_Ist" b = Some p /\ get_int AlayLayout.axis_table "v_Ist" b = Some v /\
    getn AlayLayout.axis_table "Pre_Limit_Dn" b' = Some (VBool (p <=? pos_lo e)) /\
    getn AlayLayout.axis_table "Fin_Limit_Dn" b' = Some (VBool (p <? pos_lo e)) /\
    getn AlayLayout.axis_table "Pre_Limit_Up" b' = Some (VBool (pos_hi e <=? p)) /\
    getn AlayLayout.axis_table "Fin_Limit_Up" b' = Some (VBool (pos_hi e <? p)) /\
    getn AlayLayout.axis_table "Rate_Limit" b' = Some (VBool (v_max e <? Z.abs v)).
Proof. exact limit_bits_agree. Qed.
Print Assumptions C16_limit_bits_agree.

(* ---------- PointingStatus.update_status (Model/AlayPs.v) ----------
   For every pointing block and every input (clock value, axis encoders, start test, table lookup):
   a completed update_status keeps the size of the block, changes no settable field other than the
   fifteen it lists (ps_written_names), and leaves every slice of the block that does not meet the
   bytes of those fifteen fields exactly as it was ([untouched]: decidable disjointness from their
   extents in the generated table; the rewritable bytes are the 47 of C16_ps_update_written_bytes). *)
Theorem C16_ps_update_changes_only_listed_fields : forall i b b',
  length b = AlayLayout.ps_size -> bytes b ->
  ps_update AlayLayout.ps_table AlayLayout.env_default i b = Some b' ->
  (length b' = AlayLayout.ps_size /\ bytes b') /\
  (forall m g, find_field AlayLayout.ps_table m = Some g -> is_view g = false -> ~ In m ps_written_names ->
     getn AlayLayout.ps_table m b' = getn AlayLayout.ps_table m b) /\
  (forall o n, untouched AlayLayout.ps_table ps_written_names o n = true -> slice o n b' = slice o n b).
Proof. exact ps_update_frame. Qed.
Print Assumptions C16_ps_update_changes_only_listed_fields.

Theorem C16_ps_update_written_bytes :
  filter (fun k => negb (untouched AlayLayout.ps_table ps_written_names k 1)) (seq 0 AlayLayout.ps_size)
  = (seq 9 8 ++ seq 28 8 ++ seq 57 8 ++ seq 75 12 ++ seq 95 2 ++ seq 109 12)%list.
Proof. exact ps_written_bytes. Qed.
Print Assumptions C16_ps_update_written_bytes.

(* ... and the published encoder positions, pointing offsets and calendar fields are then the values
   read from the azimuth / elevation status objects and from the ACU clock (mirror the subsystems) *)
Theorem C16_ps_update_mirrors_axes_and_clock : forall i b b',
  length b = AlayLayout.ps_size -> bytes b ->
  ps_update AlayLayout.ps_table AlayLayout.env_default i b = Some b' ->
  getn AlayLayout.ps_table "posEncAz" b' = Some (VInt (pi_az_p i)) /\
  getn AlayLayout.ps_table "pointOffsetAz" b' = Some (VInt (pi_az_off i)) /\
  getn AlayLayout.ps_table "posEncEl" b' = Some (VInt (pi_el_p i)) /\
  getn AlayLayout.ps_table "pointOffsetEl" b' = Some (VInt (pi_el_off i)) /\
  getn AlayLayout.ps_table "year" b' = Some (VInt (pi_year i)) /\
  getn AlayLayout.ps_table "month" b' = Some (VInt (pi_month i)) /\
  getn AlayLayout.ps_table "day" b' = Some (VInt (pi_day i)) /\
  getn AlayLayout.ps_table "hour" b' = Some (VInt (pi_hour i)) /\
  getn AlayLayout.ps_table "minute" b' = Some (VInt (pi_minute i)) /\
  getn AlayLayout.ps_table "second" b' = Some (VInt (pi_second i)).
Proof. exact ps_update_mirrors. Qed.
Print Assumptions C16_ps_update_mirrors_axes_and_clock.

Theorem C16_ps_update_mirrors_time : forall i b b',
  length b = AlayLayout.ps_size -> bytes b -> 0 <= pi_mjd i < 2 ^ 64 ->
  ps_update AlayLayout.ps_table AlayLayout.env_default i b = Some b' ->
  getn AlayLayout.ps_table "actTime" b' = Some (VReal (pi_mjd i)).
Proof. exact ps_update_mirrors_time. Qed.
Print Assumptions C16_ps_update_mirrors_time.

(* the table bookkeeping published after update_status, by the tracking state [st] the block held
   before the call: states other than 2 / 3, and state 2 before the start time, keep the four fields;
   a running track (state 3, or state 2 whose start time has come) publishes state 3, the lookup
   index, the remaining length and the last index; an exhausted table publishes state 4 and zeros *)
Theorem C16_ps_update_tracking_fields : forall i b b' st,
  length b = AlayLayout.ps_size -> bytes b ->
  ps_update AlayLayout.ps_table AlayLayout.env_default i b = Some b' ->
  get_int AlayLayout.ps_table "ptState" b = Some st ->
  let T := AlayLayout.ps_table in
  (st <> 2 -> st <> 3 ->
     getn T "ptState" b' = getn T "ptState" b /\ getn T "ptActTableIndex" b' = getn T "ptActTableIndex" b /\
     getn T "ptTableLength" b' = getn T "ptTableLength" b /\ getn T "ptEndTableIndex" b' = getn T "ptEndTableIndex" b) /\
  (st = 2 -> pi_before_start i = true ->
     getn T "ptState" b' = getn T "ptState" b /\ getn T "ptActTableIndex" b' = getn T "ptActTableIndex" b /\
     getn T "ptTableLength" b' = getn T "ptTableLength" b /\ getn T "ptEndTableIndex" b' = getn T "ptEndTableIndex" b) /\
  (st = 3 \/ (st = 2 /\ pi_before_start i = false) -> pi_index i <> pi_ntimes i ->
     getn T "ptState" b' = Some (VInt 3) /\
     getn T "ptActTableIndex" b' = Some (VInt (pi_index i)) /\
     getn T "ptTableLength" b' = Some (VInt (pi_ntimes i - pi_index i)) /\
     getn T "ptEndTableIndex" b' = Some (VInt (Z.max (pi_ntimes i - pi_index i - 1) 0))) /\
  (st = 3 \/ (st = 2 /\ pi_before_start i = false) -> pi_index i = pi_ntimes i ->
     getn T "ptState" b' = Some (VInt 4) /\ getn T "ptActTableIndex" b' = Some (VInt 0) /\
     getn T "ptTableLength" b' = Some (VInt 0) /\ getn T "ptEndTableIndex" b' = Some (VInt 0)).
Proof. exact ps_update_tracking. Qed.
Print Assumptions C16_ps_update_tracking_fields.

(* ---------- command histories: the recorded mode command is a documented code; subsystems do not
   share status ---------- *)
Theorem C16_received_mode_documented : forall m,
  In (received_mode AlayLayout.mode_codes m) AlayLayout.mode_codes.
Proof. exact received_mode_documented. Qed.
Print Assumptions C16_received_mode_documented.

Theorem C16_received_mode_known : forall m, In m AlayLayout.mode_codes ->
  received_mode AlayLayout.mode_codes m = m.
Proof. exact received_mode_known. Qed.
Print Assumptions C16_received_mode_known.

Theorem C16_assignment_touches_one_block : forall descs ops st j,
  (forall o, In o ops -> fst o <> j) -> nth_error (sys_run descs ops st) j = nth_error st j.
Proof. exact sys_run_untouched. Qed.
Print Assumptions C16_assignment_touches_one_block.

(* ---------- known finding: the full read-back statement fails for negative version components ----------
   Full statement (refuted): forall f v, accepts e f v -> set e f v b = Some b' -> get f b' = Some v
   (up to the documented normalisations).  C16_numeric_field_decodes_to_value_assigned is the
   statement outside the finding's class ([canonical] requires non-negative version components). *)
Theorem C16_version_negative_refuted : exists f b b',
  find_field AlayLayout.gs_table "version"%string = Some f /\
  length b = AlayLayout.gs_size /\ bytes b /\
  set AlayLayout.env_default f (VPair 1 (-1)) b = Some b' /\
  get f b' = Some (VPair 1 255).
Proof. exact version_negative_refuted. Qed.
Print Assumptions C16_version_negative_refuted.

(* ---------- the pinned tree (before fixes/16a-gs-interlock-bit-order.diff) ----------
   The 41 interlock bits of the general status used a most-significant-bit-first view with a
   bit-order write-back; the translator then emits MsbPerByte, [layout_ok] fails, and the model
   (which follows that code bug for bug) shows why: *)
Theorem C16_pinned_interlock_refuted :
  field_ok 25 pinned_EStop = false /\
  exists b1 b2,
    set AlayLayout.env_default pinned_EStop (VBool true) (repeat 0 25) = Some b1 /\
    get pinned_EStop b1 = Some (VBool false) /\
    set AlayLayout.env_default pinned_ES_SP (VBool true) b1 = Some b2 /\
    get pinned_EStop b2 = Some (VBool true) /\ get pinned_ES_SP b2 = Some (VBool false).
Proof. exact pinned_interlock_refuted. Qed.
Print Assumptions C16_pinned_interlock_refuted.

(* ---------- non-vacuity ---------- *)
Example C16_ex_set_get :
  let b0 := repeat 0 92 in
  match setn AlayLayout.axis_table AlayLayout.env_AZ "p_Ist" (VInt 180000000) b0 with
  | Some b1 => getn AlayLayout.axis_table "p_Ist" b1 = Some (VInt 180000000) /\
               slice 26 4 b1 = [0; 149; 186; 10] /\
               setn AlayLayout.axis_table AlayLayout.env_AZ "axis_state" (VInt 9) b1 = None
  | None => False
  end.
Proof. vm_compute. repeat split; reflexivity. Qed.

Example C16_ex_frame : exists f0 fr, frame0 = Some f0 /\
  frame_update f0 12345 AlayLayout.init_blocks = Some fr /\ length fr = 813%nat /\
  map (@length Z) AlayLayout.init_blocks = block_sizes.
Proof. eexists. eexists. repeat split; vm_compute; reflexivity. Qed.

(* the real32 theorem is about existing fields: the four real32 motor fields are well formed, and
   1.5f (0x3FC00000) goes through actual_position unchanged *)
Example C16_ex_real32 :
  map fname (filter (fun f => match fkind f with KReal32 => true | _ => false end) AlayLayout.motor_table)
    = ["actual_position"; "actual_velocity"; "actual_torque"; "rate_of_utilization"]%string /\
  forallb (fun f => match fkind f with KReal32 => field_ok AlayLayout.motor_size f | _ => true end)
          AlayLayout.motor_table = true /\
  match setn AlayLayout.motor_table AlayLayout.env_default "actual_position" (VReal (widen32 1069547520))
             (repeat 0 AlayLayout.motor_size) with
  | Some b1 => getn AlayLayout.motor_table "actual_position" b1 = Some (VReal 4609434218613702656) /\
               slice 0 4 b1 = [0; 0; 192; 63]
  | None => False
  end.
Proof. vm_compute. repeat split; reflexivity. Qed.

(* update_status is defined on the initial pointing block of a System: tracking state 3, table of 8
   with the lookup at 3 -> index 3, length 5, end index 4; the clock fields are written *)
Example C16_ex_ps_update :
  let i := {| pi_year := 2026; pi_month := 3; pi_day := 14; pi_hour := 15; pi_minute := 9; pi_second := 26;
              pi_mjd := 4678479150791524352; pi_az_p := 180000000; pi_az_off := -5; pi_el_p := 45000000;
              pi_el_off := 7; pi_before_start := false; pi_index := 3; pi_ntimes := 8 |} in
  match nth_error AlayLayout.init_blocks 17 with
  | Some b0 =>
      match setn AlayLayout.ps_table AlayLayout.env_default "ptState" (VInt 3) b0 with
      | Some b1 =>
          match ps_update AlayLayout.ps_table AlayLayout.env_default i b1 with
          | Some b2 => length b1 = AlayLayout.ps_size /\
                       getn AlayLayout.ps_table "ptActTableIndex" b2 = Some (VInt 3) /\
                       getn AlayLayout.ps_table "ptTableLength" b2 = Some (VInt 5) /\
                       getn AlayLayout.ps_table "ptEndTableIndex" b2 = Some (VInt 4) /\
                       getn AlayLayout.ps_table "pointOffsetAz" b2 = Some (VInt (-5)) /\
                       getn AlayLayout.ps_table "ptState" b2 = Some (VInt 3)
          | None => False
          end
      | None => False
      end
  | None => False
  end.
Proof. vm_compute. repeat split; reflexivity. Qed.
