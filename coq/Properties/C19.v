(* C19 — Backends answer every line once, per grammar; acquisition state stays coherent.
   Statements only; every proof is `exact` of a lemma in Proofs/BckProofs.v, Proofs/BckGrammar.v or
   Proofs/BckTablesPinned.v.  The model (Model/BckModel.v) is the code as fixed by fixes/16, 17, 33.

   Reading guide.  `feed o v s b` is System.parse(byte); `parse_line o v s l` is System._parse(l);
   `advance s t` moves the virtual clock to t and fires the due timers; `reachable o v t0 s`: s is reached
   from a fresh instance by any sequence of bytes, clock advances, system_stop calls and changes of the
   failure flag.  `o` holds the Python builtins used on tokens (int, float, float/1e7), the rendering of
   the clock and of the masked random numbers; `oracle_clean o` only says that renderings contain no
   CR / LF.  `reply_line r name code args` is the declarative reply grammar of Spec/BckGrammarSpec.v. *)
From DS Require Import Base.Prelude Model.BckModel Spec.BckGrammarSpec Proofs.BckGrammar Proofs.BckProofs.
From DS Require Import Proofs.BckTablesPinned.
From Coq Require Import String.

(* --- the source still is what the model and the grammar were written for --------------------------- *)
Theorem C19_tables_pinned :
  BckTables.request_re = BckGolden.request_re /\ BckTables.reply_re = BckGolden.reply_re /\
  BckTables.commands_generic = BckGolden.commands_generic /\
  BckTables.commands_mistral = BckGolden.commands_mistral /\
  BckTables.timer_creation_sites = BckGolden.timer_creation_sites /\
  BckTables.timer_cancel_sites = BckGolden.timer_cancel_sites.
Proof.
  exact (let P := tables_pinned in
         conj (proj1 (proj2 (proj2 (proj2 (proj2 (proj2 P))))))
              (conj (proj1 (proj2 (proj2 (proj2 (proj2 (proj2 (proj2 P)))))))
                    golden_selected)).
Qed.
Print Assumptions C19_tables_pinned.

Theorem C19_model_tables :
  named BckModel.commands_generic = BckTables.commands_generic /\
  named BckModel.commands_generic = BckTables.commands_sardara /\
  named BckModel.commands_mistral = BckTables.commands_mistral /\
  BckModel.protocol_version = BckTables.protocol_version /\
  BckModel.setup_time_s = BckTables.setup_time /\ BckModel.sweep_time_s = BckTables.sweep_time /\
  BckModel.max_sections = BckTables.max_sections_generic /\
  BckModel.max_bandwidth = BckTables.max_bandwidth_generic /\
  BckModel.unconfigured = BckTables.initial_configuration_generic /\
  [33] = BckTables.k_REPLY /\ [63] = BckTables.k_REQUEST /\ [13; 10] = BckTables.k_TAIL /\
  [44] = BckTables.k_SEPARATOR /\
  c_ok = BckTables.k_OK /\ c_fail = BckTables.k_FAIL /\ c_invalid = BckTables.k_INVALID /\
  codes = [BckTables.k_OK; BckTables.k_FAIL; BckTables.k_INVALID].
Proof. exact model_tables. Qed.
Print Assumptions C19_model_tables.

(* --- one reply per line, per grammar, echoing the name ---------------------------------------------- *)

(* Every byte, in every reachable state (any buffer content): parse answers True or exactly one reply, and
   that reply is a line of the reply grammar with code ok / fail / invalid.  A byte that does not complete a
   CR LF is answered True and only extends the buffer. *)
Theorem C19_every_byte : forall o v t0 s b s' x,
  oracle_clean o -> reachable o v t0 s -> feed o v s b = (s', x) ->
  (x = OTrue \/ exists r n c oa, x = OReply r /\ reply_line r n c oa /\ code_of c) /\
  (ends_crlf b (rbuf s) = false -> x = OTrue /\ s' = set_rbuf s (b :: rbuf s)).
Proof. exact (fun o v t0 s b s' x Ho Hr => feed_obs o v s b s' x Ho (reachable_inv o v t0 s Ho Hr)). Qed.
Print Assumptions C19_every_byte.

(* What _parse answers to one (stripped) line, in every reachable state: a well-formed reply is ignored
   (True, state unchanged); a well-formed request gets exactly one reply line naming the request with code ok
   or fail; anything else gets exactly one reply line named 'undefined' with code invalid and changes
   nothing. *)
Theorem C19_reply_parses : forall o v t0 s line s' x,
  oracle_clean o -> reachable o v t0 s -> head_ok line -> parse_line o v s line = (s', x) ->
  match parse_message line with
  | PMRep _ _ _ => x = OTrue /\ s' = s
  | PMReq name _ =>
      exists r code oa, x = OReply r /\ reply_line r name code oa /\ (code = code_ok \/ code = code_fail)
  | _ => exists r oa, x = OReply r /\ reply_line r undefined_name code_invalid oa /\ s' = s
  end.
Proof.
  exact (fun o v t0 s line s' x Ho Hr Hh H =>
           proj2 (parse_line_reply o v s line s' x Ho (proj1 (reachable_inv o v t0 s Ho Hr)) Hh H)).
Qed.
Print Assumptions C19_reply_parses.

(* the line handed to _parse is always stripped: its first character is neither CR nor LF *)
Theorem C19_stripped_head : forall l, head_ok (strip_crlf l).
Proof. exact strip_head_ok. Qed.
Print Assumptions C19_stripped_head.

(* A line without CR / LF inside, sent to an idle parser and terminated by CR LF: True for every byte but
   the last, then the single answer of _parse. *)
Theorem C19_one_reply_per_line : forall o v s l,
  rbuf s = [] -> clean l ->
  run o v s (map EByte (l ++ [13; 10])) =
  (fst (parse_line o v s l), repeat OTrue (List.length l + 1) ++ [snd (parse_line o v s l)]).
Proof. exact line_one_reply. Qed.
Print Assumptions C19_one_reply_per_line.

(* the recogniser that is compared with Python's `re` on every run accepts exactly the declarative grammar's
   reply lines / request texts, with the same name, code and arguments *)
Theorem C19_recogniser_accepts_reply : forall r n c oa,
  reply_line r n c oa -> parse_message r = PMRep n c (args_of oa).
Proof. exact recogniser_accepts_reply. Qed.
Print Assumptions C19_recogniser_accepts_reply.

Theorem C19_recogniser_accepts_request : forall l n oa,
  request_text l n oa -> parse_message l = PMReq n (args_of oa).
Proof. exact recogniser_accepts_request. Qed.
Print Assumptions C19_recogniser_accepts_request.

Theorem C19_recognised_request_wf : forall l n args,
  parse_message l = PMReq n args -> name_wf n /\ Forall clean args.
Proof. exact parse_message_request_wf. Qed.
Print Assumptions C19_recognised_request_wf.

Theorem C19_recognised_reply_wf : forall l n c args,
  parse_message l = PMRep n c args -> name_wf n /\ code_wf c.
Proof. exact parse_message_reply_wf. Qed.
Print Assumptions C19_recognised_reply_wf.

(* well-formed reply lines from the client are ignored, in any state *)
Theorem C19_replies_ignored : forall o v s r n c oa,
  reply_line r n c oa -> parse_line o v s r = (s, OTrue).
Proof. exact replies_ignored. Qed.
Print Assumptions C19_replies_ignored.

(* --- acquisition state machine ---------------------------------------------------------------------- *)

Theorem C19_start_fails_while_acquiring : forall o v s,
  acq s = true ->
  exists m, parse_line o v s (req0 "start") = (s, OReply (reply_str (zs "start") c_fail [m])).
Proof. exact start_fails_while_acquiring. Qed.
Print Assumptions C19_start_fails_while_acquiring.

Theorem C19_stop_fails_while_idle : forall o v s,
  acq s = false ->
  parse_line o v s (req0 "stop") = (s, OReply (reply_str (zs "stop") c_fail [zs "not acquiring"])).
Proof. exact stop_fails_while_idle. Qed.
Print Assumptions C19_stop_fails_while_idle.

(* past timestamps are refused and change nothing (guard_open: on MISTRAL the task guard does not already
   refuse the start for another reason) *)
Theorem C19_past_start_refused : forall o v s a tok more t,
  arg_text a -> split_comma a = tok :: more -> o_ts o tok = TsFin t -> t < now s -> guard_open v s ->
  parse_line o v s (req1 "start" a) =
  (s, OReply (reply_str (zs "start") c_fail [zs "starting time already elapsed"])).
Proof. exact past_start_refused. Qed.
Print Assumptions C19_past_start_refused.

Theorem C19_past_stop_refused : forall o v s a tok more t,
  arg_text a -> split_comma a = tok :: more -> o_ts o tok = TsFin t -> t < now s ->
  parse_line o v s (req1 "stop" a) =
  (s, OReply (reply_str (zs "stop") c_fail [zs "stop time already elapsed"])).
Proof. exact past_stop_refused. Qed.
Print Assumptions C19_past_stop_refused.

(* timestamps float() rejects, NaN and infinities are refused (fixes/33) *)
Theorem C19_bad_timestamp_refused : forall o v s a tok more,
  arg_text a -> split_comma a = tok :: more -> not_finite (o_ts o tok) -> guard_open v s ->
  parse_line o v s (req1 "start" a) =
    (s, OReply (reply_str (zs "start") c_fail [quote (zs "wrong timestamp ") tok])) /\
  parse_line o v s (req1 "stop" a) =
    (s, OReply (reply_str (zs "stop") c_fail [quote (zs "wrong timestamp ") tok])).
Proof. exact bad_timestamp_refused. Qed.
Print Assumptions C19_bad_timestamp_refused.

(* a present or future timestamp is accepted and scheduled *)
Theorem C19_start_scheduled : forall o v s a tok more t,
  arg_text a -> split_comma a = tok :: more -> o_ts o tok = TsFin t -> now s <= t -> guard_open v s ->
  parse_line o v s (req1 "start" a) =
  (sched_start s t, OReply (reply_str (zs "start") (if failure s then c_fail else c_ok) [])).
Proof. exact start_scheduled. Qed.
Print Assumptions C19_start_scheduled.

Theorem C19_stop_scheduled : forall o v s a tok more t,
  arg_text a -> split_comma a = tok :: more -> o_ts o tok = TsFin t -> now s <= t ->
  parse_line o v s (req1 "stop" a) =
  (sched_stop s t, OReply (reply_str (zs "stop") (if failure s then c_fail else c_ok) [])).
Proof. exact stop_scheduled. Qed.
Print Assumptions C19_stop_scheduled.

(* a re-schedule replaces the earlier one: in every reachable state, after an accepted scheduled start
   exactly one start timer is pending - the new one - and the only timer that disappeared is the one
   _startID referred to (same for stop) *)
Theorem C19_reschedule_replaces_start : forall o v t0 s t,
  oracle_clean o -> reachable o v t0 s ->
  filter (fun tm => tkind_eqb (t_kind tm) KStart) (timers (sched_start s t)) = [mkTimer KStart t (next_id s)] /\
  (forall tm, In tm (timers (sched_start s t)) <->
              (In tm (timers s) /\ startID s <> Some (t_id tm)) \/ tm = mkTimer KStart t (next_id s)).
Proof.
  exact (fun o v t0 s t Ho Hr => reschedule_replaces_start v s t (proj2 (reachable_inv o v t0 s Ho Hr))).
Qed.
Print Assumptions C19_reschedule_replaces_start.

Theorem C19_reschedule_replaces_stop : forall o v t0 s t,
  oracle_clean o -> reachable o v t0 s ->
  filter (fun tm => tkind_eqb (t_kind tm) KStop) (timers (sched_stop s t)) = [mkTimer KStop t (next_id s)] /\
  (forall tm, In tm (timers (sched_stop s t)) <->
              (In tm (timers s) /\ stopID s <> Some (t_id tm)) \/ tm = mkTimer KStop t (next_id s)).
Proof.
  exact (fun o v t0 s t Ho Hr => reschedule_replaces_stop v s t (proj2 (reachable_inv o v t0 s Ho Hr))).
Qed.
Print Assumptions C19_reschedule_replaces_stop.

Theorem C19_one_timer_per_kind : forall o v t0 s tm1 tm2,
  oracle_clean o -> reachable o v t0 s ->
  In tm1 (timers s) -> In tm2 (timers s) -> t_kind tm1 = t_kind tm2 -> t_id tm1 = t_id tm2.
Proof.
  exact (fun o v t0 s tm1 tm2 Ho Hr => one_timer_per_kind v s tm1 tm2 (proj2 (reachable_inv o v t0 s Ho Hr))).
Qed.
Print Assumptions C19_one_timer_per_kind.

(* a scheduled timer fires exactly when the clock reaches its time: an advance to an instant at or after its
   due time removes it from the ledger and reports its kind as fired; an advance that stops before its due
   time leaves it pending, and if its kind is nevertheless reported then another timer of that kind was due *)
Theorem C19_scheduled_fires_at_time : forall o v t0 s t tm,
  oracle_clean o -> reachable o v t0 s -> In tm (timers s) ->
  (t_due tm <= Z.max t (now s) ->
     ~ In tm (timers (fst (advance s t))) /\ In (t_kind tm) (map fst (fired_of (snd (advance s t))))) /\
  (Z.max t (now s) < t_due tm ->
     In tm (timers (fst (advance s t))) /\
     forall b, ~ In (t_kind tm, b) (fired_of (snd (advance s t))) \/
               exists tm', In tm' (timers s) /\ t_kind tm' = t_kind tm /\ t_due tm' <= Z.max t (now s)).
Proof.
  exact (fun o v t0 s t tm Ho Hr => scheduled_fires_at_time v s t tm (proj2 (reachable_inv o v t0 s Ho Hr))).
Qed.
Print Assumptions C19_scheduled_fires_at_time.

(* effect of a firing start / stop timer *)
Theorem C19_fire_start_idle : forall s tm,
  t_kind tm = KStart -> acq s = false -> acq (fst (fire s tm)) = true /\ snd (fire s tm) = true.
Proof. exact fire_start_idle. Qed.
Print Assumptions C19_fire_start_idle.

Theorem C19_fire_stop_acquiring : forall s tm,
  t_kind tm = KStop -> acq s = true -> acq (fst (fire s tm)) = false /\ snd (fire s tm) = true.
Proof. exact fire_stop_acquiring. Qed.
Print Assumptions C19_fire_stop_acquiring.

(* a timer firing in the "wrong" state only leaves the ledger (its callback raises in the timer thread) *)
Theorem C19_fire_start_busy : forall s tm,
  t_kind tm = KStart -> acq s = true -> fire s tm = (cancel_id s (Some (t_id tm)), false).
Proof. exact fire_start_busy. Qed.
Print Assumptions C19_fire_start_busy.

Theorem C19_fire_stop_idle : forall s tm,
  t_kind tm = KStop -> acq s = false -> fire s tm = (cancel_id s (Some (t_id tm)), false).
Proof. exact fire_stop_idle. Qed.
Print Assumptions C19_fire_stop_idle.

Theorem C19_scheduled_start_scenario : forall s t tm,
  timers s = [tm] -> t_kind tm = KStart -> acq s = false ->
  (t_due tm <= Z.max t (now s) ->
     acq (fst (advance s t)) = true /\ timers (fst (advance s t)) = [] /\
     snd (advance s t) = OFired [(KStart, true)]) /\
  (Z.max t (now s) < t_due tm ->
     acq (fst (advance s t)) = false /\ timers (fst (advance s t)) = [tm] /\ snd (advance s t) = OFired []).
Proof. exact scheduled_start_scenario. Qed.
Print Assumptions C19_scheduled_start_scenario.

(* --- MISTRAL ---------------------------------------------------------------------------------------- *)

(* start, setup, target-sweep, vna-sweep are refused - nothing changes - while a task (acquisition, setup, a
   sweep) is in progress, on failure, and (all but setup) before setup has completed *)
Theorem C19_mistral_task_guard : forall o s c args,
  task_cmd c ->
  busy s = true \/ failure s = true \/ (ready s = false /\ c <> CSetup) ->
  merror s <> ENone /\ handler o VMistral c s args = HFail (merr_msg (merror s)).
Proof. exact mistral_task_guard. Qed.
Print Assumptions C19_mistral_task_guard.

Theorem C19_mistral_task_guard_line : forall o s name c,
  name_wf (zs name) -> dispatch VMistral (zs name) = Some c -> task_cmd c ->
  busy s = true \/ failure s = true \/ (ready s = false /\ c <> CSetup) ->
  parse_line o VMistral s (req0 name) =
  (s, OReply (reply_str (zs name) c_fail [merr_msg (merror s)])).
Proof. exact mistral_task_guard_line. Qed.
Print Assumptions C19_mistral_task_guard_line.

Theorem C19_mistral_task_accepted : forall o s args,
  merror s = ENone ->
  handler o VMistral CSetup s args
    = HOk (create (set_rsetup s true) KSetup (now s + setup_time_s * units_per_s)) [] /\
  handler o VMistral CTargetSweep s args
    = HOk (create (set_rtarget s true) KTarget (now s + sweep_time_s * units_per_s)) [] /\
  handler o VMistral CVnaSweep s args
    = HOk (create (set_rvna s true) KVna (now s + sweep_time_s * units_per_s)) [].
Proof. exact mistral_task_accepted. Qed.
Print Assumptions C19_mistral_task_accepted.

Theorem C19_mistral_setup_first : forall o s args,
  merror s = ESetup ->
  handler o VMistral CSetup s args
    = HOk (create (set_rsetup s true) KSetup (now s + setup_time_s * units_per_s)) [].
Proof. exact mistral_setup_first. Qed.
Print Assumptions C19_mistral_setup_first.

Theorem C19_mistral_setup_completes : forall s tm,
  t_kind tm = KSetup -> ready (fst (fire s tm)) = true /\ rsetup (fst (fire s tm)) = false.
Proof. exact mistral_setup_completes. Qed.
Print Assumptions C19_mistral_setup_completes.

(* --- the hypotheses are satisfiable ----------------------------------------------------------------- *)
Theorem C19_example_reachable :
  oracle_clean ex_oracle /\
  reachable ex_oracle VGeneric 2048000 (fst (run ex_oracle VGeneric (init 2048000) ex_events)) /\
  (let s := fst (run ex_oracle VGeneric (init 2048000) ex_events) in
   List.length (timers s) = 2%nat /\ rbuf s <> [] /\ wstart s = true).
Proof. exact (conj ex_oracle_clean (conj ex_reachable ex_state_nontrivial)). Qed.
Print Assumptions C19_example_reachable.
