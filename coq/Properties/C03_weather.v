(* C03, weather station part — per-thread framer (buffer map keyed by the handler thread id).
   [fmt] is the per-case oracle for f'{float(tok):0.6f}'; "fmt total" = the builtin returns.
   Statements only. *)
From DS Require Import Base.Prelude Model.SmbCommon Model.SmbWeather Proofs.SmbCommon Proofs.SmbWeather
  Proofs.SmbWeatherInv.

(* In every state reachable by ANY interleaving of bytes of ANY threads, every pending buffer is a
   command letter, or a command letter, a space and further bytes. *)
Theorem C03_weather_invariant : forall fmt cfg ops t m,
  buf_get t (bufs (fst (ws_run fmt (ws_init cfg) ops))) = Some m ->
  exists c, (c = R_CHAR \/ c = W_CHAR) /\ (m = [c] \/ exists rest, m = c :: SP :: rest).
Proof. exact (fun fmt cfg ops => ws_run_inv fmt ops (ws_init cfg) (ws_init_inv cfg)). Qed.
Print Assumptions C03_weather_invariant.

(* Hence, after any such history, the terminator on thread t leaves thread t idle. *)
Theorem C03_weather_resync : forall fmt cfg ops t, (forall x, fmt x <> None) ->
  ws_idle (fst (ws_step fmt (fst (ws_run fmt (ws_init cfg) ops)) t LF)) t = true.
Proof. exact ws_resync_reachable. Qed.
Print Assumptions C03_weather_resync.

(* ... and no step in a reachable state raises (the getattr(self, None) TypeError of the code is
   unreachable). *)
Theorem C03_weather_no_exception : forall fmt cfg ops t b e,
  snd (ws_step fmt (fst (ws_run fmt (ws_init cfg) ops)) t b) <> OException e.
Proof.
  exact (fun fmt cfg ops t b e =>
           ws_step_no_exception fmt _ t b e (ws_run_inv fmt ops (ws_init cfg) (ws_init_inv cfg))).
Qed.
Print Assumptions C03_weather_no_exception.

(* the version for ANY state, with the model's two error outcomes as disjuncts *)
Theorem C03_weather_resync_any_state : forall fmt d t,
  ws_idle (fst (ws_step fmt d t LF)) t = true \/
  snd (ws_step fmt d t LF) = OException TypeError \/ snd (ws_step fmt d t LF) = ONoOracle.
Proof. exact ws_resync. Qed.
Print Assumptions C03_weather_resync_any_state.

(* an idle thread discards every byte that is not 'r' or 'w': False, its buffer stays absent, the
   sensors are untouched *)
Theorem C03_weather_idle_discards : forall fmt d t b, ws_idle d t = true -> b <> R_CHAR -> b <> W_CHAR ->
  ws_step fmt d t b = (mkWs (buf_del t (bufs d)) (sensors d), OFalse).
Proof. exact ws_idle_discards. Qed.
Print Assumptions C03_weather_idle_discards.

(* an idle thread frames a command letter exactly as a fresh parser does: a one-byte buffer *)
Theorem C03_weather_idle_accepts : forall fmt d t b, ws_idle d t = true -> (b = R_CHAR \/ b = W_CHAR) ->
  ws_step fmt d t b = (mkWs (buf_set t [b] (bufs d)) (sensors d), OTrue).
Proof. exact ws_idle_accepts. Qed.
Print Assumptions C03_weather_idle_accepts.

(* no residue across threads: a byte of thread t never changes the buffer of another thread *)
Theorem C03_weather_threads_independent : forall fmt d t t' b, t <> t' ->
  buf_get t' (bufs (fst (ws_step fmt d t b))) = buf_get t' (bufs d).
Proof. exact ws_step_other. Qed.
Print Assumptions C03_weather_threads_independent.

Example C03_weather_ex :
  let cfg := [mkSen [116; 104] [49] [35] [105]] in
  snd (ws_run (fun _ => None) (ws_init cfg)
         ([(1, 114); (2, 120); (1, 32); (2, 114); (1, 116); (2, 10); (1, 104); (1, 10)])) =
  [OTrue; OFalse; OTrue; OTrue; OTrue; OFalse; OTrue;
   OReply (WS_OPEN ++ [116; 104] ++ WS_VAL ++ [49] ++ WS_DATE ++ [35] ++ WS_INFO ++ [105] ++ WS_CLOSE)].
Proof. reflexivity. Qed.
