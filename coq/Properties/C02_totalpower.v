(* C02, totalpower part - every query line is answered with exactly one reply from every idle state.
   Statements only; proofs in Proofs/SmcTotalpowerProofs.v. *)
From DS Require Import Base.Prelude Model.SmcBase Model.SmcTotalpower Proofs.SmcTotalpowerProofs.

(* Query catalogue: '?' (status), 'V' (firmware), 'R' (raw data), 'E a b' (time).  For every oracle,
   every state s (so after any history of accepted, refused and garbage input) that is idle, every
   line that decodes to a query: all bytes of the line return True, the terminator returns one
   reply, the registers are untouched and the parser is idle again. *)
Theorem C02_totalpower_answered : forall e s line t c,
  idle s = true -> Forall (fun b => is_tail b = false) line -> is_tail t = true ->
  decode e line = c -> is_query c ->
  exists r, snd (run (step e) s (line ++ [t])) = repeat OTrue (length line) ++ [OReply r]
            /\ same_registers (dv s) (dv (fst (run (step e) s (line ++ [t]))))
            /\ idle (fst (run (step e) s (line ++ [t]))) = true.
Proof. exact tp_query_answered. Qed.
Print Assumptions C02_totalpower_answered.

(* the catalogue lines decode to queries whatever the oracle is *)
Theorem C02_totalpower_catalogue : forall e,
  decode e $"?" = KStatus /\ decode e $"V" = KV /\ decode e $"R" = KR.
Proof. intros e. repeat split. Qed.
Print Assumptions C02_totalpower_catalogue.

Example C02_totalpower_E_line :
  let e := {| py_int := fun t => if zlist_eqb t $"12" then CvOk 12 else if zlist_eqb t $"5" then CvOk 5 else CvErr;
              tm := fun _ => (1, 2, 3); rnd := fun _ => 0 |} in
  decode e $"E 12 5" = KE [12; 5] /\
  snd (run (step e) (init 4) ($"E 12 5" ++ [10])) = repeat OTrue 6 ++ [OReply ($"12, 5, 1, 2, 3" ++ [13; 10])].
Proof. vm_compute. split; reflexivity. Qed.
