(* C04 (part acu) — the reply of the ACU to a mode / parameter command is the axis block of the
   status frame: received_mode_command_(counter, command, answer), executed_mode_command_(counter,
   command, answer), parameter_command_(counter, command, answer).  These triples name the request
   they answer.  Statements only; proofs in Proofs/AaxReplyProofs.v over the thread-ledger model
   Model/AaxModel.v + Model/AaxReply.v (one loop iteration / handler prelude atomic; see
   notes/C15.md).  Encoding of the triples into the 813-byte frame is C16. *)
From DS Require Import Base.Prelude Model.AaxModel Model.AaxReply.
From DS Require Import Proofs.AaxArith Proofs.AaxStep Proofs.AaxProofs Proofs.AaxReplyProofs.

(* (i) after any history the received triple is that of the LAST mode command the axis received:
   (its counter, its mode id or 0 when the id is unknown / 'ignore', the validation answer) *)
Theorem C04_acu_received_names_last : forall c es r,
  recv (rrun c r es) = last_mode (recv r) es.
Proof. exact received_names_last. Qed.
Print Assumptions C04_acu_received_names_last.

Theorem C04_acu_received_echo : forall c r cnt mid vd,
  let r' := rstep c r (RMode cnt mid vd) in
  rcnt r' = cnt /\
  match vd with
  | VUnknown => rcmd r' = 0 /\ rans r' = 0
  | VRefused a => rcmd r' = mid /\ rans r' = a
  | VAccepted cm => rcmd r' = mode_id cm /\ rans r' = 9 /\
                    ecnt (axs (base r')) = cnt /\ ecmd (axs (base r')) = mode_id cm
  end.
Proof. exact received_echo. Qed.
Print Assumptions C04_acu_received_echo.

Theorem C04_acu_refused_leaves_executed : forall c r cnt mid vd,
  (match vd with VAccepted _ => False | _ => True end) -> base (rstep c r (RMode cnt mid vd)) = base r.
Proof. exact refused_leaves_executed. Qed.
Print Assumptions C04_acu_refused_leaves_executed.

(* (ii) whenever the executed triple changes, it is written by the command being received (which it
   names, answer 2 or 1) or, on arrival, by the positioning thread of the command that is the current
   one (which it names, answer 1) — for every state and event *)
Theorem C04_acu_executed_written_by_named_thread : forall c st e,
  let st' := step c st e in
  exec_of st' = exec_of st \/
  (exists cnt cm, e = ECmd cnt cm /\ ecnt (axs st') = cnt /\ ecmd (axs st') = mode_id cm /\
                  (eans (axs st') = 1 \/ eans (axs st') = 2)) \/
  (exists id k cnt kd tgt rate, e = ETick id k /\ In (MMove id cnt kd tgt rate) (movers st) /\
                  cur (axs st) = Some cnt /\ exec_of st' = (cnt, kind_code kd, 1)).
Proof. exact executed_written_by_named_thread. Qed.
Print Assumptions C04_acu_executed_written_by_named_thread.

(* a superseded thread (its counter is not curr_mode_counter when it wakes) never writes it; the
   tracking thread never writes it *)
Theorem C04_acu_superseded_thread_never_writes : forall c p0, wf_cfg c -> in_range c p0 ->
  forall st id cnt kd tgt rate k, reach c p0 st ->
  In (MMove id cnt kd tgt rate) (movers st) -> cur (axs st) <> Some cnt ->
  exec_of (step c st (ETick id k)) = exec_of st.
Proof. exact superseded_thread_never_writes_reach. Qed.
Print Assumptions C04_acu_superseded_thread_never_writes.

Theorem C04_acu_tracking_thread_never_writes : forall c p0, wf_cfg c -> in_range c p0 ->
  forall st id cnt rate fin k, reach c p0 st ->
  In (MTrack id cnt rate fin) (movers st) -> exec_of (step c st (ETick id k)) = exec_of st.
Proof. exact tracking_thread_never_writes_reach. Qed.
Print Assumptions C04_acu_tracking_thread_never_writes.

(* after a superseding command (stop, preset, relative preset, slew, program track; stow / unstow /
   drive to stow on an axis with stow positions) with a counter no live positioning thread carries,
   the executed triple names that command — whatever threads wake up, updates and feeds happen,
   refused / unknown commands and parameter commands arrive — until a newer command is accepted.
   (With a counter that a live thread carries this fails: C15 known finding same_counter.) *)
Theorem C04_acu_executed_names_command_until_newer : forall c es r cnt mid cm,
  supersedes c cm = true -> fresh (base r) cnt -> Forall not_accepted es ->
  let r' := rrun c (rstep c r (RMode cnt mid (VAccepted cm))) es in
  ecnt (axs (base r')) = cnt /\ ecmd (axs (base r')) = mode_id cm /\
  (eans (axs (base r')) = 1 \/ eans (axs (base r')) = 2).
Proof. exact reply_names_executed_command_until_newer. Qed.
Print Assumptions C04_acu_executed_names_command_until_newer.

Theorem C04_acu_stop_stays_executed : forall c es st cnt, fresh st cnt -> Forall not_cmd es ->
  exec_of (run c (step c st (ECmd cnt CStop)) es) = (cnt, 7, 1).
Proof. exact stop_stays_executed. Qed.
Print Assumptions C04_acu_stop_stays_executed.

(* (iii) the parameter triple names the last parameter command; its answer is 4 (axis not active),
   1 (offsets) or 5 (unknown id), except when an offset does not fit INT32 (known finding
   acu_param_offset_overflow: the handler raises, the previous answer stays) *)
Theorem C04_acu_parameter_names_last : forall c es r,
  (pcnt (rrun c r es), pcmd (rrun c r es)) = last_param (pcnt r, pcmd r) es.
Proof. exact parameter_names_last. Qed.
Print Assumptions C04_acu_parameter_names_last.

Theorem C04_acu_parameter_answer_except_overflow : forall c r cnt pid z a,
  param_answer (axs (base r)) pid z = Some a -> pans (rstep c r (RParam cnt pid z)) = a.
Proof. exact parameter_answer_except_overflow. Qed.
Print Assumptions C04_acu_parameter_answer_except_overflow.

Theorem C04_acu_parameter_answer_overflow_refuted :
  exists c r cnt z, ast (axs (base r)) = 3 /\ pans r = 1 /\
    pans (rstep c r (RParam cnt 11 z)) = 1 /\ poff (axs (base (rstep c r (RParam cnt 11 z)))) = poff (axs (base r)).
Proof. exact parameter_answer_overflow_refuted. Qed.
Print Assumptions C04_acu_parameter_answer_overflow_refuted.

(* non-vacuity: the seeded situation (slew interrupted by a stop; the slew thread then wakes) *)
Example C04_acu_ex_interrupted_slew :
  let r := rrun az_cfg (rinit az_cfg 180000000)
             [RMode 101 2 (VAccepted CActive); RTick 0 0; RMode 201 5 (VAccepted (CSlew 400000)); RTick 1 0;
              RTick 1 1024; RMode 301 7 (VAccepted CStop); RTick 2 0; RTick 1 1024] in
  recv r = (301, 7, 9) /\ exec_of (base r) = (301, 7, 1) /\ movers (base r) = [].
Proof. exact ex_interrupted_slew. Qed.
