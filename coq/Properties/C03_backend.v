(* C03 (backend part) — the CR LF line assembly of the backends returns to idle after any input.
   Statements only; proofs in Proofs/BckProofs.v.  Model: Model/BckModel.v (feed = System.parse). *)
From DS Require Import Base.Prelude Model.BckModel Spec.BckGrammarSpec Proofs.BckGrammar Proofs.BckProofs.

(* from ANY state (any device state, any buffer content - no reachability needed) and after ANY bytes, the
   terminator CR LF leaves the receive buffer empty, i.e. in the state of a fresh parser *)
Theorem C03_backend_crlf_returns_to_idle : forall o v s bs,
  rbuf (fst (run o v s (map EByte (bs ++ [13; 10])))) = [] /\ rbuf (init 0) = [].
Proof. exact (fun o v s bs => conj (crlf_returns_to_idle o v s bs) eq_refl). Qed.
Print Assumptions C03_backend_crlf_returns_to_idle.

(* a byte that does not complete a CR LF is only buffered (answer True), whatever the state *)
Theorem C03_backend_buffering : forall o v t0 s b s' x,
  oracle_clean o -> reachable o v t0 s -> feed o v s b = (s', x) ->
  ends_crlf b (rbuf s) = false -> x = OTrue /\ s' = set_rbuf s (b :: rbuf s).
Proof.
  exact (fun o v t0 s b s' x Ho Hr H =>
           proj2 (feed_obs o v s b s' x Ho (reachable_inv o v t0 s Ho Hr) H)).
Qed.
Print Assumptions C03_backend_buffering.

(* a line outside the grammar is discarded: one 'undefined'/invalid reply, the device state is unchanged *)
Theorem C03_backend_garbage_discarded : forall o v t0 s line,
  oracle_clean o -> reachable o v t0 s -> head_ok line ->
  (forall n a, parse_message line <> PMReq n a) -> (forall n c a, parse_message line <> PMRep n c a) ->
  exists r oa, parse_line o v s line = (s, OReply r) /\ reply_line r undefined_name code_invalid oa.
Proof.
  exact (fun o v t0 s line Ho Hr => garbage_discarded o v s line Ho (proj1 (reachable_inv o v t0 s Ho Hr))).
Qed.
Print Assumptions C03_backend_garbage_discarded.

(* the next well-formed line is framed and answered as on a fresh parser: with an empty buffer the outcome of
   a whole line is a function of the device state and the line only *)
Theorem C03_backend_next_line : forall o v s l,
  rbuf s = [] -> clean l ->
  run o v s (map EByte (l ++ [13; 10])) =
  (fst (parse_line o v s l), repeat OTrue (List.length l + 1) ++ [snd (parse_line o v s l)]).
Proof. exact line_one_reply. Qed.
Print Assumptions C03_backend_next_line.
