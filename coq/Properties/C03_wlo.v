(* C03, W-band LO part — the '\n' framer of lo/w_LO.System returns to idle.  [fl], [cap] are the
   per-case oracles for float(token) and str.capitalize(); every statement holds for every oracle.
   Statements only. *)
From DS Require Import Base.Prelude Model.SmbCommon Model.SmbWLO Proofs.SmbCommon Proofs.SmbWLO.

Theorem C03_wlo_resync : forall fl cap s bs, w_idle (fst (w_run fl cap s (bs ++ [LF]))) = true.
Proof. exact (fun fl cap => lresync (w_exec fl cap)). Qed.
Print Assumptions C03_wlo_resync.

Theorem C03_wlo_buffering : forall fl cap s b, b <> LF ->
  w_step fl cap s b = (mkL (lmsg s ++ [b]) (ldev s), OTrue).
Proof. exact (fun fl cap => lstep_buffer (w_exec fl cap)). Qed.
Print Assumptions C03_wlo_buffering.

Theorem C03_wlo_fresh_after_resync : forall fl cap s0 h l, no_lf l ->
  let s := fst (w_run fl cap s0 (h ++ [LF])) in
  w_run fl cap s (l ++ [LF]) =
    (mkL [] (fst (w_exec fl cap (ldev s) l)), line_outs l (snd (w_exec fl cap (ldev s) l))).
Proof. exact (fun fl cap => lfresh (w_exec fl cap)). Qed.
Print Assumptions C03_wlo_fresh_after_resync.

Theorem C03_wlo_history : forall fl cap bs d, exists ls rest,
  bs = lines_bytes ls ++ rest /\ Forall no_lf ls /\ no_lf rest /\
  w_run fl cap (mkL [] d) bs =
    (mkL rest (fst (exec_lines (w_exec fl cap) d ls)),
     lines_outs ls (snd (exec_lines (w_exec fl cap) d ls)) ++ repeat OTrue (length rest)).
Proof. exact (fun fl cap => lrun_history (w_exec fl cap)). Qed.
Print Assumptions C03_wlo_history.

(* with fixes/26 an empty line or an unknown name is discarded (before the fix: TypeError) *)
Example C03_wlo_ex_noise :
  w_run (fun _ => WNotFloat) (fun _ => None) w_start [13; 10; 120; 13; 10] = (w_start, repeat OTrue 5).
Proof. reflexivity. Qed.
