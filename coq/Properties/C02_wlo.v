(* C02, W-band LO part (code with fixes/26 applied) — each of the eleven `get ...` CR queries is
   answered with exactly one reply in EVERY idle state, provided str.capitalize() returns (the
   oracle [cap] is total).  Statements only. *)
From DS Require Import Base.Prelude Model.SmbCommon Model.SmbWLO Proofs.SmbCommon Proofs.SmbWLO.

Theorem C02_wlo_answered : forall fl cap s q, (forall x, cap x <> None) -> w_idle s = true ->
  In q w_queries -> exists ans, w_run fl cap s (q ++ [LF]) = (s, line_outs q (OReply ans)).
Proof. exact w_answered. Qed.
Print Assumptions C02_wlo_answered.

(* the reply is the getter's text and the device state is untouched *)
Theorem C02_wlo_answer : forall fl cap d q, (forall s, cap s <> None) -> In q w_queries ->
  exists k ans, w_query_cmd q = Some k /\ w_call0 cap d k = Some (d, ans) /\
                w_exec fl cap d q = (d, OReply ans).
Proof. exact w_query. Qed.
Print Assumptions C02_wlo_answer.

Example C02_wlo_ex : In (W_GET_RH ++ [CR]) w_queries /\
  snd (w_exec (fun _ => WNotFloat) (fun s => Some s) (wset w_init RRH (WF [53; 46; 48])) (W_GET_RH ++ [CR]))
  = OReply [53; 46; 48; 46; 13; 10].
Proof. split; [cbn; tauto | reflexivity]. Qed.
