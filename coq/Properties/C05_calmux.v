(* C05, calmux part — acknowledged writes read back exactly; refused writes change nothing.
   Register catalogue: input selection (set `I ch p`, get `?` -> "ch p k") and calibration mark of
   the slow channel 16 (set `C v`, get `?` while channel 16 is selected -> "16 p v"). *)
From DS Require Import Base.Prelude Model.SmaCommon Model.SmaCalmux Proofs.SmaFramer.
From DS Require Import Proofs.SmaCalmuxProofs.

Theorem C05_calmux_input_readback : forall (s : cm_state) (ch p t : Z),
  cm_reachable s -> cm_idle s = true -> 0 <= ch < 17 -> 0 <= p < 2 -> cm_is_tail t = true ->
  let s1 := fst (cm_run s (cm_line_input ch p ++ [t])) in
  snd (cm_run s (cm_line_input ch p ++ [t])) =
    repeat OTrue (length (cm_line_input ch p)) ++ [OReply cm_ack] /\
  forall h t', cm_quiet CmI s1 h -> cm_idle (fst (cm_run s1 h)) = true -> cm_is_tail t' = true ->
    exists k, snd (cm_run (fst (cm_run s1 h)) (cm_line_status ++ [t'])) =
              [OTrue; OReply (cm_status_reply ch p k)].
Proof. exact cm_input_readback. Qed.
Print Assumptions C05_calmux_input_readback.

Theorem C05_calmux_cal_readback : forall (s : cm_state) (v t : Z),
  cm_reachable s -> cm_idle s = true -> 0 <= v < 2 -> cm_is_tail t = true ->
  let s1 := fst (cm_run s (cm_line_cal v ++ [t])) in
  snd (cm_run s (cm_line_cal v ++ [t])) = repeat OTrue (length (cm_line_cal v)) ++ [OReply cm_ack] /\
  forall h t', cm_quiet CmC s1 h -> cm_idle (fst (cm_run s1 h)) = true -> cm_is_tail t' = true ->
    cur (dev (fst (cm_run s1 h))) = 16 ->
    exists p, snd (cm_run (fst (cm_run s1 h)) (cm_line_status ++ [t'])) =
              [OTrue; OReply (cm_status_reply 16 p v)].
Proof. exact cm_cal_readback. Qed.
Print Assumptions C05_calmux_cal_readback.

(* any parse step (any byte, any reachable state, complete line or not, well-formed or not) whose
   outcome is not the `ack` reply leaves every register unchanged — hence every read-back *)
Theorem C05_calmux_refused_unchanged : forall (s : cm_state) (b : Z) (s' : cm_state) (o : outcome),
  cm_reachable s -> cm_step s b = (s', o) -> o <> OReply cm_ack -> dev s' = dev s.
Proof. exact cm_refused_unchanged. Qed.
Print Assumptions C05_calmux_refused_unchanged.
