(* C04, mscu part.  Statements only. *)
From DS Require Import Base.Prelude Model.SmcBase Model.SmcMscu Proofs.SmcMscuProofs.

(* every reply of every command, in every state, for every oracle, ends with \r\n *)
Theorem C04_mscu_terminator : forall fx e d c d' r,
  exec fx e d c = (d', OReply r) -> ends_with crlf r = true.
Proof. exact ms_reply_crlf. Qed.
Print Assumptions C04_mscu_terminator.

(* identity echo: answers begin with ?name:number=address (shown for getappstatus / getpos in
   C02_mscu_*; a refused setpos begins with !NAK_setpos:) *)
Theorem C04_mscu_nak_echo : forall fx e d a s num ps,
  nak d = true \/ length ps <> (axes_of a + 3)%nat ->
  fst (exec_servo fx e d a s $"setpos" num ps) = d /\
  exists r, snd (exec_servo fx e d a s $"setpos" num ps) = OReply r /\ starts_with ([33] ++ $"NAK_setpos:") r = true.
Proof. exact ms_setpos_refused. Qed.
Print Assumptions C04_mscu_nak_echo.
