(* C05, dbesm part.  Statements only; proofs in Proofs/SmcDbesmProofs.v. *)
From DS Require Import Base.Prelude Model.SmcBase Model.SmcDbesm Proofs.SmcDbesmProofs.

(* single-register writes SETATT SETAMP SETEQ SETBPF SETSTATUS MODE STOREALLMODE DELETEFILE (and
   unknown commands): any answer other than 'ACK\r\n' - NAK, any ERR, an exception - leaves the whole
   device state, hence every read-back, unchanged.  Every state, every oracle. *)
Theorem C05_dbesm_refused : forall fx e d c,
  single_write c = true -> acked (snd (exec fx e d c)) = false -> fst (exec fx e d c) = d.
Proof. exact db_refused_unchanged. Qed.
Print Assumptions C05_dbesm_refused.

(* SETATT c BOARD n VALUE v acknowledged: v is on the 0.5 dB grid, board n is reachable, and
   attenuator c of board n now holds exactly v (GETSTATUS prints str(v)) *)
Theorem C05_dbesm_setatt : forall fx e d ctok btok vtok,
  Inv d ->
  acked (snd (exec fx e d (KSetReg RAtt [ctok; $"BOARD"; btok; $"VALUE"; vtok]))) = true ->
  exists n c h b b',
    py_int e btok = CvOk n /\ py_int e ctok = CvOk c /\ py_float e vtok = CvOk (FHalf h) /\
    1 <= n <= 4 /\ 0 <= c <= 16 /\ on_att_grid (FHalf h) = true /\
    nth_opt (Z.to_nat (n - 1)) (boards d) = Some b /\ b_status b <> 1 /\
    nth_opt (Z.to_nat (n - 1)) (boards (fst (exec fx e d (KSetReg RAtt [ctok; $"BOARD"; btok; $"VALUE"; vtok])))) = Some b' /\
    nth_opt (Z.to_nat c) (b_att b') = Some h.
Proof. exact db_setatt_readback. Qed.
Print Assumptions C05_dbesm_setatt.

(* known finding: the amplifier register has two encodings.  The same value 1 written through
   SETAMP reads back '1', written through SETDBEAMP reads back '1.0'. *)
Theorem C05_dbesm_amp_encoding_refuted :
  last (snd (run (step true e_std) (init (repeat (b0 0) 4) obs_mode0) amp_bytes_a)) OFalse
    = OReply ($"ACK 1_DBBC2 BOARD 1 AMP 3 VALUE 1" ++ crlf) /\
  last (snd (run (step true e_std) (init (repeat (b0 0) 4) obs_mode0) amp_bytes_b)) OFalse
    = OReply ($"ACK 1_DBBC2 BOARD 1 AMP 3 VALUE 1.0" ++ crlf).
Proof. exact db_amp_encoding_refuted. Qed.
Print Assumptions C05_dbesm_amp_encoding_refuted.
(* PARTIAL: "until the next acknowledged write" (frame lemmas over arbitrary interleavings) is not
   proved for dbesm; the correspondence and the oracle exercise interleavings. *)
