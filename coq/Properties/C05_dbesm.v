(* C05, dbesm part.  Statements only; proofs in Proofs/SmcDbesmProofs.v. *)
From DS Require Import Base.Prelude Model.SmcBase Model.SmcDbesm Proofs.SmcDbesmProofs Proofs.SmcDbesmMore.

(* single-register writes SETATT SETAMP SETEQ SETBPF SETSTATUS MODE STOREALLMODE DELETEFILE (and
   unknown commands): any answer other than 'ACK\r\n' - NAK, any ERR, an exception - leaves the whole
   device state, hence every read-back, unchanged.  Every state, every oracle. *)
Theorem C05_dbesm_refused : forall fx e d c,
  single_write c = true -> acked (snd (exec fx e d c)) = false -> fst (exec fx e d c) = d.
Proof. exact db_refused_unchanged. Qed.
Print Assumptions C05_dbesm_refused.

(* SETATT c BOARD n VALUE v acknowledged: v is on the 0.5 dB grid, board n is reachable, and
   attenuator c of board n now holds exactly v (GETSTATUS prints str(v)) *)
Theorem C05_dbesm_setatt : forall fx e d ctok btok vtok,
  Inv d ->
  acked (snd (exec fx e d (KSetReg RAtt [ctok; $"BOARD"; btok; $"VALUE"; vtok]))) = true ->
  exists n c h b b',
    py_int e btok = CvOk n /\ py_int e ctok = CvOk c /\ py_float e vtok = CvOk (FHalf h) /\
    1 <= n <= 4 /\ 0 <= c <= 16 /\ on_att_grid (FHalf h) = true /\
    nth_opt (Z.to_nat (n - 1)) (boards d) = Some b /\ b_status b <> 1 /\
    nth_opt (Z.to_nat (n - 1)) (boards (fst (exec fx e d (KSetReg RAtt [ctok; $"BOARD"; btok; $"VALUE"; vtok])))) = Some b' /\
    nth_opt (Z.to_nat c) (b_att b') = Some h.
Proof. exact db_setatt_readback. Qed.
Print Assumptions C05_dbesm_setatt.

(* known finding: the amplifier register has two encodings.  The same value 1 written through
   SETAMP reads back '1', written through SETDBEAMP reads back '1.0'. *)
Theorem C05_dbesm_amp_encoding_refuted :
  last (snd (run (step true e_std) (init (repeat (b0 0) 4) obs_mode0) amp_bytes_a)) OFalse
    = OReply ($"ACK 1_DBBC2 BOARD 1 AMP 3 VALUE 1" ++ crlf) /\
  last (snd (run (step true e_std) (init (repeat (b0 0) 4) obs_mode0) amp_bytes_b)) OFalse
    = OReply ($"ACK 1_DBBC2 BOARD 1 AMP 3 VALUE 1.0" ++ crlf).
Proof. exact db_amp_encoding_refuted. Qed.
Print Assumptions C05_dbesm_amp_encoding_refuted.
(* frame lemma: a command that is not a write of register family r (r = ATT, AMP, EQ, BPF; the
   writes are SETr and SETDBEr) leaves every register of that family on every board unchanged,
   whatever its outcome *)
Theorem C05_dbesm_frame : forall fx e d r c,
  writes_reg r c = false -> view r (fst (exec fx e d c)) = view r d.
Proof. exact db_frame. Qed.
Print Assumptions C05_dbesm_frame.

Theorem C05_dbesm_view_stable : forall fx e r cs d,
  Forall (fun c => writes_reg r c = false) cs -> view r (exec_all fx e d cs) = view r d.
Proof. exact db_view_stable. Qed.
Print Assumptions C05_dbesm_view_stable.

(* SETATT acknowledged, then ANY commands that are not attenuator writes: the cell still holds the
   written value; and GETDBEATT / GETSTATUS render exactly that cell *)
Theorem C05_dbesm_setatt_until : forall fx e d ctok btok vtok cs,
  Inv d ->
  acked (snd (exec fx e d (KSetReg RAtt [ctok; $"BOARD"; btok; $"VALUE"; vtok]))) = true ->
  Forall (fun c => writes_reg RAtt c = false) cs ->
  exists n c h, py_int e btok = CvOk n /\ py_int e ctok = CvOk c /\ py_float e vtok = CvOk (FHalf h) /\
    cell RAtt (Z.to_nat (n - 1)) (Z.to_nat c)
         (exec_all fx e (fst (exec fx e d (KSetReg RAtt [ctok; $"BOARD"; btok; $"VALUE"; vtok]))) cs) = Some (CFlt h).
Proof. exact db_setatt_until. Qed.
Print Assumptions C05_dbesm_setatt_until.

Theorem C05_dbesm_getdbe_prints_cell : forall r name d i a,
  get_dbe_line r name d (i, a) =
  match nth_opt i (boards d) with
  | None => None
  | Some b => if b_status b =? 1 then Some (dbe_err name i $"unreachable")
              else match cell r i (Z.to_nat a) d with
                   | None => None
                   | Some v => Some ($"ACK " ++ name ++ $" BOARD " ++ bnum i ++ [SP] ++ reg_name r ++ [SP] ++ zstr a
                                     ++ $" VALUE " ++ cstr v ++ [LF])
                   end
  end.
Proof. exact get_dbe_line_cell. Qed.
Print Assumptions C05_dbesm_getdbe_prints_cell.
