(* C10, part active surface — the shipped encoders (command_library.py) and the simulator's
   decoder (System.parse / _parse / handlers) agree on every message.  Statements only
   (proofs: Proofs/AslEncoderProofs.v).  Models: Model/AslEncoder.v, Model/AslLine.v.

     enc e idx aor       := the bytes returned by encoder e(args, usd_index=idx,
                            address_on_response=aor); None when it raises
     expected e          := the USD method call (code, decoded arguments) the command means,
                            written in terms of the encoder's ARGUMENTS (Model/AslEncoder.v)
     target_req aor idx  := broadcast when idx = None, unit idx otherwise; start byte FC / FA
     chr_ok e            := one-character str arguments are latin-1 characters              *)
From DS Require Import Base.Prelude Base.Bits Model.Utils Model.AslLine Model.AslEncoder.
From DS Require Import Proofs.AslFrameProofs Proofs.AslLineProofs Proofs.AslEncoderProofs.
From DS Require Import Gen.AslTables Proofs.AslTablesTie.

(* Every message an encoder returns, run through framing + dispatch from the idle state of any
   line: True for every byte but the last; the last byte is exactly one dispatch of the request
   (intended target, command code, parameter bytes ps); the handler decodes ps to the encoder's
   arguments; the parser is idle afterwards.  All 24 encoders, all argument values they accept,
   all 32 indexes and broadcast, both start bytes, every line configuration. *)
Theorem C10_as : forall U (sem : U -> ucall -> U * uret) (delay : U -> Z) e idx aor bs min drv,
  chr_ok e -> enc e idx aor = Some bs ->
  exists ps, let q := target_req aor idx (code_of e) ps in
    lrun sem delay (mkL min drv finit) bs =
      (mkL min (fst (exec sem delay true true min drv q)) finit,
       repeat OTrue (length bs - 1) ++ [snd (exec sem delay true true min drv q)]) /\
    decode (code_of e) ps = expected e /\ known (code_of e) = true.
Proof. exact @enc_through. Qed.
Print Assumptions C10_as.

(* the message itself: frame of the intended request, well-formed, all bytes *)
Theorem C10_as_frame : forall e idx aor bs, chr_ok e -> enc e idx aor = Some bs ->
  exists ps, let q := target_req aor idx (code_of e) ps in
    bs = frame_of q /\ wf_req q /\ bytes_req q /\ decode (code_of e) ps = expected e.
Proof. exact enc_spec. Qed.
Print Assumptions C10_as_frame.

(* addressed to a unit on the line: exactly that unit receives exactly the expected call *)
Theorem C10_as_unicast : forall U (sem : U -> ucall -> U * uret) (delay : U -> Z)
    e i aor bs min drv c k,
  chr_ok e -> enc e (Some i) aor = Some bs -> expected e = DCall c k -> on_line min drv i ->
  exists u os, nth_error drv (Z.to_nat (i - min)) = Some u /\
    lrun sem delay (mkL min drv finit) bs =
      (mkL min (upd drv (Z.to_nat (i - min)) (fst (sem u c))) finit, os).
Proof. exact @enc_unicast_call. Qed.
Print Assumptions C10_as_unicast.

(* broadcast of a command that is not a getter: every unit receives the expected call once,
   every byte is answered True (never a reply) *)
Theorem C10_as_broadcast : forall U (sem : U -> ucall -> U * uret) (delay : U -> Z)
    e aor bs min drv c k,
  chr_ok e -> enc e None aor = Some bs -> expected e = DCall c k -> is_getter k = false ->
  lrun sem delay (mkL min drv finit) bs =
    (mkL min (map (fun u => fst (sem u c)) drv) finit, repeat OTrue (length bs)).
Proof. exact @enc_broadcast_call. Qed.
Print Assumptions C10_as_broadcast.

(* in-domain arguments are encoded (the hypotheses above are satisfiable for every encoder) *)
Theorem C10_as_total : forall e idx aor, in_domain e -> chr_ok e ->
  match idx with None => True | Some i => 0 <= i <= 31 end ->
  exists bs, enc e idx aor = Some bs.
Proof. exact enc_total. Qed.
Print Assumptions C10_as_total.

(* Tie to the source (AST of command_library.py, regenerated on every run): the public encoders,
   in source order, and the command byte each passes to _compose. *)
Theorem C10_as_encoders_tie : gen_encoders = golden_encoders.
Proof. exact encoders_tie. Qed.
Print Assumptions C10_as_encoders_tie.

(* non-vacuity: the doctest values of command_library.py *)
Example C10_as_ex1 : enc (ESetVelocity 1) (Some 1) true = Some [252; 129; 53; 0; 0; 1; 76].
Proof. vm_compute. reflexivity. Qed.
Example C10_as_ex2 : enc (ESetReferencePosition 1) None false = Some [250; 0; 5; 35; 0; 0; 0; 1; 220].
Proof. vm_compute. reflexivity. Qed.
Example C10_as_ex3 : enc (ESetWorkingMode (BInt 0)) (Some 1) true = Some [252; 97; 45; 0; 0; 117].
Proof. vm_compute. reflexivity. Qed.
Example C10_as_ex4 : expected (ESetVelocity (-100000)) = DCall (mkcall 53 [AInt (-100000)]) KBool
  /\ expected (ERotate (-5)) = DCall (mkcall 50 [AInt (-1)]) KBool.
Proof. split; reflexivity. Qed.
