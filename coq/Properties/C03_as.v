(* C03, part active surface — the framing automaton of System.parse returns to idle after any
   input and never waits for ever.  Statements only (proofs: Proofs/AslFrameProofs.v,
   Proofs/AslLineProofs.v).  Model: Model/AslLine.v (fstep = parse up to the call of _parse).

     freach f     := f = the framing state after some byte history from the fresh parser
                     (ANY integers as bytes: the theorems do not need 0 <= b < 256)
     fidle f      := msg = ''
     non_header b := b is neither 0xFA nor 0xFC
     togo f       := 0 when idle; 10 after the header; 9 after FA/FC 00;
                     expected_bytes + 1 afterwards                     (bytes before idle)   *)
From DS Require Import Base.Prelude Base.Bits Model.Utils Model.AslLine Proofs.AslFrameProofs.
From DS Require Import Proofs.AslLineProofs.

(* Resynchronisation condition of this protocol: after any history, any 10 bytes that cannot
   start a command (a fortiori any 11 = one maximum-length broadcast frame) leave the parser
   idle. *)
Theorem C03_as_resync : forall f bs,
  freach f -> Forall non_header bs -> (10 <= length bs)%nat -> fidle (fst (frun f bs)).
Proof. exact resync_nonheader_10. Qed.
Print Assumptions C03_as_resync.

(* With arbitrary bytes (headers included) the parser is idle at some point within 10 bytes: it
   never waits for ever, whatever was declared. *)
Theorem C03_as_resync_any : forall f bs,
  freach f -> (10 <= length bs)%nat ->
  exists k, (k <= 10)%nat /\ fidle (fst (frun f (firstn k bs))).
Proof. exact resync_any_10. Qed.
Print Assumptions C03_as_resync_any.

(* the measure argument *)
Theorem C03_as_expected_bounded : forall f, freach f -> 0 <= f_exp f <= 7.
Proof. exact expected_bounded. Qed.
Print Assumptions C03_as_expected_bounded.

Theorem C03_as_buffer_bounded : forall f, freach f -> (length (f_msg f) <= 10)%nat.
Proof. exact buffer_bounded. Qed.
Print Assumptions C03_as_buffer_bounded.

Theorem C03_as_expected_decreases : forall f b, freach f -> (3 <= length (f_msg f))%nat ->
  (f_exp f = 0 /\ fstep f b = (finit, FFrame (f_msg f ++ [b]))) \/
  (0 < f_exp f /\ snd (fstep f b) = FTrue /\ f_exp (fst (fstep f b)) = f_exp f - 1 /\
   f_msg (fst (fstep f b)) = f_msg f ++ [b]).
Proof. exact expected_decreases. Qed.
Print Assumptions C03_as_expected_decreases.

Theorem C03_as_measure_decreases : forall f b, freach f -> ~ fidle f ->
  fidle (fst (fstep f b)) \/ togo (fst (fstep f b)) < togo f.
Proof. exact measure_decreases. Qed.
Print Assumptions C03_as_measure_decreases.

Theorem C03_as_measure_bounded : forall f, freach f -> 0 <= togo f <= 10.
Proof. exact measure_bounded. Qed.
Print Assumptions C03_as_measure_bounded.

(* A header that declares a length no valid frame can have is rejected at once (ValueError) and
   the parser is idle: second byte 0x01..0x1F (length nibble 0), broadcast length outside 1..7. *)
Theorem C03_as_zero_nibble_rejected : forall f b, length (f_msg f) = 1%nat -> 1 <= b <= 31 ->
  fstep f b = (finit, FBadLength 0).
Proof. exact zero_nibble_rejected. Qed.
Print Assumptions C03_as_zero_nibble_rejected.

Theorem C03_as_bad_broadcast_length_rejected : forall f b,
  length (f_msg f) = 2%nat -> f_all f = true -> (b < 1 \/ 7 < b) ->
  fstep f b = (finit, FBadLength b).
Proof. exact bad_bcast_length_rejected. Qed.
Print Assumptions C03_as_bad_broadcast_length_rejected.

Theorem C03_as_rejected_outcome : forall U (sem : U -> ucall -> U * uret) (delay : U -> Z) l b,
  length (f_msg (l_f l)) = 1%nat -> 1 <= b <= 31 ->
  lstep sem delay l b = (mkL (l_min l) (l_drv l) finit, OValueError).
Proof. exact @zero_nibble_outcome. Qed.
Print Assumptions C03_as_rejected_outcome.

Theorem C03_as_rejected_outcome_broadcast : forall U (sem : U -> ucall -> U * uret) (delay : U -> Z) l b,
  length (f_msg (l_f l)) = 2%nat -> f_all (l_f l) = true -> (b < 1 \/ 7 < b) ->
  lstep sem delay l b = (mkL (l_min l) (l_drv l) finit, OValueError).
Proof. exact @bad_bcast_length_outcome. Qed.
Print Assumptions C03_as_rejected_outcome_broadcast.

(* Idle discards bytes that cannot start a command, without effect (outcome False, whole line
   state unchanged). *)
Theorem C03_as_idle_discards : forall f b, freach f -> fidle f -> non_header b ->
  fstep f b = (f, FFalse).
Proof. exact idle_discards_reach. Qed.
Print Assumptions C03_as_idle_discards.

Theorem C03_as_idle_discards_line : forall U (sem : U -> ucall -> U * uret) (delay : U -> Z) l b,
  freach (l_f l) -> fidle (l_f l) -> non_header b -> lstep sem delay l b = (l, OFalse).
Proof. exact @discarded_outcome. Qed.
Print Assumptions C03_as_idle_discards_line.

(* After idle the parser is the fresh parser ... *)
Theorem C03_as_fresh_after_idle : forall f, freach f -> fidle f -> f = finit.
Proof. exact fresh_after_idle. Qed.
Print Assumptions C03_as_fresh_after_idle.

(* ... so after any history and the resynchronisation sequence, the next well-formed command is
   framed (True for each byte but the last) and executed/answered exactly as [exec] says, and
   the parser is idle again. *)
Theorem C03_as_resync_then_command : forall U (sem : U -> ucall -> U * uret) (delay : U -> Z) l bs q,
  freach (l_f l) -> Forall non_header bs -> (10 <= length bs)%nat -> wf_req q -> bytes_req q ->
  exists drv1 os,
    lrun sem delay l bs = (mkL (l_min l) drv1 finit, os) /\
    lrun sem delay l (bs ++ frame_of q) =
      (mkL (l_min l) (fst (exec sem delay true true (l_min l) drv1 q)) finit,
       os ++ repeat OTrue (length (frame_of q) - 1) ++
       [snd (exec sem delay true true (l_min l) drv1 q)]).
Proof. exact @resync_then_command. Qed.
Print Assumptions C03_as_resync_then_command.

(* every frame handed to _parse has 4..11 bytes and starts with a header *)
Theorem C03_as_frame_shape : forall f b f' m, freach f -> fstep f b = (f', FFrame m) ->
  f' = finit /\ m = f_msg f ++ [b] /\ (4 <= length m <= 11)%nat /\
  exists h t, m = h :: t /\ is_header h = true.
Proof. exact frame_shape_reach. Qed.
Print Assumptions C03_as_frame_shape.

(* non-vacuity *)
Example C03_as_ex_reach : freach (mkF [252; 0; 7; 48; 1] true 5) /\ freach (mkF [250; 225] false 7).
Proof. split; [exact freach_ex1|exact freach_ex2]. Qed.
Example C03_as_ex_resync :
  frun (mkF [252; 0; 7; 48; 1] true 5) [1; 2; 3; 4; 5; 6; 7; 8; 9; 10] =
  (finit, [FTrue; FTrue; FTrue; FTrue; FTrue; FFrame [252; 0; 7; 48; 1; 1; 2; 3; 4; 5; 6];
           FFalse; FFalse; FFalse; FFalse]).
Proof. vm_compute. reflexivity. Qed.
